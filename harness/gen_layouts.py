"""C13 -- generated source layouts for the suite loader.

An ABSTRACT SOURCE TREE (plain JSON-able dicts) describes directories, modules (optional SUITE dict, module-level
test functions and suite classes in source order) and nested classes:

    dir  = {"name": str, "mods": [mod...], "dirs": [dir...]}                       (the root dir's name is ignored)
    mod  = {"file": str, "suite": None | {"name","desc","rank","cond","tags","props","links"}, "items": [item...]}
    item = {"k": "test",  "attr","name","desc","cond","disabled","tags","props","links",
            "params": None | {"values","naming","csv"}}
         | {"k": "class", "attr","name","desc","rank","cond","disabled","tags","props","links","body": [item...]}
    item "props": [[key, value]...]  = its @lcc.prop(key, value) decorators, top to bottom as written in the source
    item "links": [[url, name|None]...] = its @lcc.link(url[, name]) decorators, top to bottom
    SUITE "props": [[key, value]...] = the entries of the "properties": {...} literal in the order written (keys may repeat)
    SUITE "links": ["url" | [url, name|None] ...] = the entries of the "links": [...] list (bare string or tuple)
    ("props"/"links" may be absent in old replay files: absent = none)

Public functions:
    gen_tree(rng, tier) -> tree                 seeded generator (rng only)
    tree_size(tree) -> int                      dirs below the root + modules + items
    features(tree) -> set(str)                  coverage counters
    write_tree(tree, root_dir) -> [file paths]  writes the real source files
    load_real(tree, rank0) -> observation       runs the real load_suites_from_directory on the written files
    expected(tree) -> [record]                  independent enumeration of the declared visible tests
    declared_duplicates(tree) -> [(k, where, value)]
    oracle(tree, obs) -> [(signature, text)]
    shrink(tree, pred, max_calls=150) -> tree

`expected`/`oracle` are written from the meaning of the abstract tree (a denotation into "declared suites"), not
from the loader: they never sort by rank, never look at `dir()` order, have no notion of a `suites` dict keyed by
file name, and know nothing of when the loader filters what.
"""
import copy
import keyword
import json
import os
import shutil
import sys
import tempfile

RESERVED = {"lcc", "SUITE", "i", "self", "setup_test", "teardown_test", "setup_suite", "teardown_suite"}
ERR_PREFIXES = ["A test with description", "A test with name", "A sub test suite with description",
                "A sub test suite with name"]
ERR_TEXT = ["test description", "test name", "sub-suite description", "sub-suite name"]

_LET = "abcdefghijklmnopqrstuvwxyz"
_TAIL = _LET + "0123456789_"


# ============================================================================================ identifiers / strings
def _ok_ident(s):
    return bool(s) and s.isidentifier() and s not in RESERVED and not keyword.iskeyword(s) \
        and not keyword.issoftkeyword(s) and not s.startswith("_") and s.isascii()


def _low(rng, lo, hi):
    return "".join(rng.choice(_LET) for _ in range(rng.randint(lo, hi)))


def _ident(rng):
    while True:
        r = rng.random()
        if r < 0.30:        # families sharing prefixes: a, a_b, ab, a1, a_1 ... (sort order of dir()/listdir is exercised)
            b = rng.choice("abcfst")
            c = rng.choice("ab")
            s = rng.choice([b, b + "_" + c, b + c, b + "1", b + "_1", b + c + "_" + c, b + b, b + "_", b + "0", b + "2",
                            b + c + "1", b + "_" + c + "1"])
        elif r < 0.42:      # mixed case
            s = _low(rng, 1, 3) + rng.choice(_LET).upper() + _low(rng, 1, 2)
        else:
            n = rng.choice([1, 2, 2, 3, 3, 3, 4, 4, 5, 6])
            s = rng.choice(_LET) + "".join(rng.choice(_TAIL) for _ in range(n - 1))
        if _ok_ident(s):
            return s


def _fresh(rng, used):
    """an identifier whose lower-case form is not in `used` (so that neither the name nor the derived description
    collides by accident); registers it"""
    while True:
        s = _ident(rng)
        if s.lower() not in used:
            used.add(s.lower())
            return s


_WORDS = ["check", "Test", "foo", "bar", "a", "b", "x1", "login", "no_op", "A", "of", "case", "Z9", "t"]


def _desc(rng):
    n = rng.choice([1, 1, 2, 2, 3])
    ws = [rng.choice(_WORDS) for _ in range(n)]
    r = rng.random()
    if r < 0.55:
        ws.append(str(rng.randint(0, 999)))
    elif r < 0.75:
        ws.append("#%d" % rng.randint(1, 99))
    elif r < 0.85:
        ws.append("_" + _low(rng, 1, 3))
    else:
        ws.append(_low(rng, 2, 5))
    return " ".join(ws)


def _tags(rng):
    r = rng.random()
    if r < 0.72:
        return []
    return [rng.choice(["slow", "fast", "t1", "x", "smoke", "a_b"]) for _ in range(1 if r < 0.9 else 2)]


_PKEYS = ["k", "prio", "a_b", "k", "Owner", "x"]
_PVALS = ["1", "2", "high", "", "v w", "low"]
_URLS = ["http://t/1", "http://t/2", "https://bugs.example.org/42", "u"]
_LNAMES = [None, None, "bug", "doc", "n 1"]


def _props(rng):
    r = rng.random()
    if r < 0.70:
        return []
    return [[rng.choice(_PKEYS), rng.choice(_PVALS)] for _ in range(1 if r < 0.82 else (2 if r < 0.93 else 3))]


def _links(rng):
    r = rng.random()
    if r < 0.72:
        return []
    return [[rng.choice(_URLS), rng.choice(_LNAMES)] for _ in range(1 if r < 0.86 else (2 if r < 0.95 else 3))]


def _slinks(rng):
    """entries of SUITE["links"]: a link without name is written as a bare string half of the time"""
    return [l[0] if l[1] is None and rng.random() < 0.6 else l for l in _links(rng)]


def props_of(x):
    return [list(p) for p in (x.get("props") or [])]


def links_of(x):
    return [l if isinstance(l, str) else list(l) for l in (x.get("links") or [])]


def _cond(rng, p_false=0.15, p_true=0.10):
    r = rng.random()
    return False if r < p_false else (True if r < p_false + p_true else None)


# ============================================================================================ generator
class _Gen:
    def __init__(self, rng, tier):
        self.rng = rng
        self.max_dir_depth = 4 if tier == "thorough" else 3
        self.budget = rng.choice([4, 6, 8, 10, 12, 14, 16, 18, 20, 22])
        self.deep = rng.random() < 0.22           # this tree favours directory nesting
        # explicit ranks: 0..12, half of the trees draw them from 2-3 values only (collisions between siblings)
        self.ranks = list(range(13)) if rng.random() < 0.5 else [rng.randint(0, 12) for _ in range(rng.randint(2, 3))]
        self.p_false = 0.12

    # ---------------------------------------------------------------- items
    def test(self, used):
        rng = self.rng
        self.budget -= 1
        it = {"k": "test", "attr": _fresh(rng, used), "name": None, "desc": None, "cond": _cond(rng, self.p_false),
              "disabled": rng.random() < 0.15, "tags": _tags(rng), "props": _props(rng), "links": _links(rng),
              "params": None}
        if rng.random() < 0.2:
            it["name"] = _fresh(rng, used)
        if rng.random() < 0.35:
            it["desc"] = _desc(rng)
        if rng.random() < 0.30:
            n = rng.choice([0, 1, 1, 2, 2, 2, 3, 3])
            p = {"values": [rng.randint(0, 9) for _ in range(n)], "naming": None, "csv": rng.random() < 0.35}
            if rng.random() < 0.42:
                p["naming"] = [[_fresh(rng, used), _desc(rng)] for _ in range(n)]
            it["params"] = p
        return it

    def klass(self, used, cdepth):
        rng = self.rng
        self.budget -= 1
        it = {"k": "class", "attr": _fresh(rng, used), "name": None, "desc": None, "rank": None,
              "cond": _cond(rng, self.p_false), "disabled": rng.random() < 0.10, "tags": _tags(rng), "props": _props(rng),
              "links": _links(rng), "body": []}
        if rng.random() < 0.2:
            it["name"] = _fresh(rng, used)
        if rng.random() < 0.3:
            it["desc"] = _desc(rng)
        if rng.random() < 0.4:
            it["rank"] = rng.choice(self.ranks)
        if rng.random() >= 0.12:                                   # 12%: empty class
            it["body"] = self.items(cdepth, rng.choice([1, 1, 2, 2, 3, 4]))
        return it

    def items(self, cdepth, n, used=None):
        """items of one scope; cdepth = class nesting depth of the scope (0 = module level)"""
        rng = self.rng
        used = set() if used is None else used
        out = []
        for _ in range(n):
            if self.budget <= 0 and out:
                break
            if cdepth < 3 and rng.random() < (0.33 if cdepth == 0 else 0.28):
                out.append(self.klass(used, cdepth + 1))
            else:
                out.append(self.test(used))
        if len(out) >= 2 and rng.random() < 0.05:                   # same attr twice in the scope: the later one wins
            a, b = sorted(rng.sample(range(len(out)), 2))
            out[b]["attr"] = out[a]["attr"]
        return out

    # ---------------------------------------------------------------- modules
    def suite_dict(self, p_hidden):
        rng = self.rng
        s = {"name": None, "desc": None, "rank": None, "cond": _cond(rng, p_hidden, 0.15), "tags": _tags(rng),
             "props": _props(rng), "links": _slinks(rng)}
        if rng.random() < 0.3:
            s["name"] = _ident(rng)
        if rng.random() < 0.3:
            s["desc"] = _desc(rng)
        if rng.random() < 0.45:
            s["rank"] = rng.choice(self.ranks)
        return s

    def module(self, file, has_companion):
        rng = self.rng
        self.budget -= 1
        p_suite = 0.55
        p_hidden = 0.14
        force_hidden = has_companion and rng.random() < 0.13
        mod = {"file": file, "suite": None, "items": []}
        r = rng.random()
        if r < 0.06:                                                # empty module
            if rng.random() < 0.5:
                mod["suite"] = self.suite_dict(p_hidden)
        elif r < 0.36:                                              # the single-class collapse and its neighbours
            used = {file.lower()}
            c = self.klass(used, 1)
            c["attr"], c["cond"] = file, (True if rng.random() < 0.1 else None)
            c["name"] = None
            items = [c]
            v = rng.random()
            if v < 0.36:
                pass                                                # exact collapse
            elif v < 0.46:                                          # collapse, name given through name=
                c["attr"], c["name"] = _fresh(rng, used), file
            elif v < 0.55:                                          # extra visible test function
                items.insert(rng.randint(0, 1), self.test(used))
                items[1 - items.index(c)]["cond"] = None
            elif v < 0.60:                                          # extra test function that is hidden: still collapses
                t = self.test(used)
                t["cond"] = False
                items.insert(rng.randint(0, 1), t)
            elif v < 0.65:                                          # extra parametrized test function with no value
                t = self.test(used)
                t["cond"], t["params"] = None, {"values": [], "naming": None, "csv": rng.random() < 0.5}
                items.insert(rng.randint(0, 1), t)
            elif v < 0.74:                                          # second class
                items.insert(rng.randint(0, 1), self.klass(used, 1))
            elif v < 0.79:                                          # second class that is hidden: still collapses
                k = self.klass(used, 1)
                k["cond"] = False
                items.insert(rng.randint(0, 1), k)
            elif v < 0.88:                                          # class name differs (slightly)
                c["attr"] = rng.choice([file[0].upper() + file[1:], file + "_", file + "1", file[:-1] or "q"])
                if not _ok_ident(c["attr"]) or c["attr"] == file:
                    c["attr"] = file + "x"
            elif v < 0.95:                                          # the class is hidden
                c["cond"] = False
            else:                                                   # module has a SUITE dict
                mod["suite"] = self.suite_dict(0.1)
            mod["items"] = items
        else:
            if rng.random() < p_suite:
                mod["suite"] = self.suite_dict(p_hidden)
            mod["items"] = self.items(0, rng.choice([1, 1, 2, 2, 3, 3, 4, 5]))
        if force_hidden:
            if mod["suite"] is None:
                mod["suite"] = self.suite_dict(0)
            mod["suite"]["cond"] = False
        return mod

    # ---------------------------------------------------------------- directories
    def dir(self, name, depth):
        rng = self.rng
        d = {"name": name, "mods": [], "dirs": []}
        n = rng.choice([1, 1, 2, 2, 3, 4]) if depth == 0 else rng.choice([0, 1, 1, 1, 1, 2, 2, 2, 3])
        used = set()
        p_dir = 0.62 if self.deep else 0.42
        for _ in range(n):
            if self.budget <= 0 and (d["mods"] or d["dirs"] or depth == 0):
                break
            can_dir = depth < self.max_dir_depth
            r = rng.random()
            if not can_dir or r >= p_dir:
                d["mods"].append(self.module(_fresh(rng, used), False))
            elif r < p_dir * 0.55:                                  # module + companion directory
                f = _fresh(rng, used)
                d["mods"].append(self.module(f, True))
                self.budget -= 1
                d["dirs"].append(self.dir(f, depth + 1))
            elif r < p_dir * 0.93 or "__pycache__" in used:         # directory without module
                self.budget -= 1
                d["dirs"].append(self.dir(_fresh(rng, used), depth + 1))
            else:                                                   # an empty cache-like directory
                used.add("__pycache__")
                d["dirs"].append({"name": "__pycache__", "mods": [], "dirs": []})
        rng.shuffle(d["mods"])
        rng.shuffle(d["dirs"])
        return d


def _scopes(tree):
    """every item list of the tree (module level and class bodies), with the module it belongs to"""
    out = []

    def items(lst, mod):
        out.append((lst, mod))
        for it in lst:
            if it["k"] == "class":
                items(it["body"], mod)

    for d in _all_dirs(tree):
        for m in d["mods"]:
            items(m["items"], m)
    return out


def _all_dirs(tree):
    out = [tree]
    for d in tree["dirs"]:
        out.extend(_all_dirs(d))
    return out


def _inject_duplicate(rng, tree):
    """make one suite of the tree declare a duplicate (test name/description, sub-suite name/description)"""
    scopes = _scopes(tree)
    dirs = _all_dirs(tree)
    inner_dirs = dirs[1:] if len(dirs) > 1 and rng.random() < 0.85 else dirs      # root level: rarely
    kinds = ["test-desc", "test-name", "test-case", "class-name", "class-desc", "table", "default-naming",
             "class-vs-companion", "mods-same-name", "mod-vs-dir", "test-desc", "test-name", "class-vs-companion"]
    rng.shuffle(kinds)
    if rng.random() < 0.4:          # sub-suite duplicates first
        kinds.sort(key=lambda x: x.startswith("test") or x in ("table", "default-naming"))

    def tests_of(lst):
        seen, res = set(), []
        for it in reversed(lst):
            if it["attr"] not in seen and it["k"] == "test":
                res.append(it)
            seen.add(it["attr"])
        return res

    def classes_of(lst):
        seen, res = set(), []
        for it in reversed(lst):
            if it["attr"] not in seen and it["k"] == "class":
                res.append(it)
            seen.add(it["attr"])
        return res

    def ensure_suite(m):
        if m["suite"] is None:
            m["suite"] = {"name": None, "desc": None, "rank": None, "cond": None, "tags": [], "props": [], "links": []}
        return m["suite"]

    for kind in kinds:
        if kind in ("test-desc", "test-name", "test-case", "default-naming"):
            cands = [lst for lst, _ in scopes if len(tests_of(lst)) >= 2]
            if not cands:
                continue
            a, b = rng.sample(tests_of(rng.choice(cands)), 2)
            if kind == "test-desc":
                b["desc"] = a["desc"] = a["desc"] or _desc(rng)
            elif kind == "test-name":
                b["name"] = a["name"] or a["attr"]
            elif kind == "test-case":                                # different names, same derived description
                n = a["name"] or a["attr"]
                v = n[0].upper() + n[1:] if n[0].islower() else n[0].lower() + n[1:]
                if v == n or not _ok_ident(v):
                    continue
                b["name"], b["desc"], a["desc"] = v, None, None
            else:
                if a["params"] is None or a["params"]["naming"] is not None or not a["params"]["values"]:
                    a["params"] = {"values": [rng.randint(0, 9) for _ in range(rng.randint(1, 3))], "naming": None,
                                   "csv": rng.random() < 0.3}
                b["name"] = "%s_%d" % (a["name"] or a["attr"], rng.randint(1, len(a["params"]["values"])))
                b["params"] = None
            return kind
        if kind == "table":
            cands = [t for lst, _ in scopes for t in tests_of(lst)]
            if not cands:
                continue
            t = rng.choice(cands)
            p = t["params"]
            if p is None or len(p["values"]) < 2:
                p = t["params"] = {"values": [rng.randint(0, 9) for _ in range(rng.randint(2, 3))], "naming": None,
                                   "csv": rng.random() < 0.3}
            if p["naming"] is None:
                u = set()
                p["naming"] = [[_fresh(rng, u), _desc(rng)] for _ in p["values"]]
            a, b = rng.sample(range(len(p["values"])), 2)
            col = rng.randint(0, 1)
            p["naming"][b][col] = p["naming"][a][col]
            return kind
        if kind in ("class-name", "class-desc"):
            cands = [lst for lst, _ in scopes if len(classes_of(lst)) >= 2]
            if not cands:
                continue
            a, b = rng.sample(classes_of(rng.choice(cands)), 2)
            if kind == "class-name":
                b["name"] = a["name"] or a["attr"]
            else:
                b["desc"] = a["desc"] = a["desc"] or _desc(rng)
            return kind
        if kind == "class-vs-companion":
            cands = []
            for d in dirs:
                for m in d["mods"]:
                    comp = [x for x in d["dirs"] if x["name"] == m["file"]]
                    if comp and (comp[0]["mods"] or comp[0]["dirs"]) and classes_of(m["items"]):
                        cands.append((m, comp[0]))
            if not cands:
                continue
            m, comp = rng.choice(cands)
            c = rng.choice(classes_of(m["items"]))
            names = [(x["suite"] or {}).get("name") or x["file"] for x in comp["mods"]] + \
                    [x["name"] for x in comp["dirs"] if x["name"] not in [y["file"] for y in comp["mods"]]]
            names = [x for x in names if _ok_ident(x)]
            if not names:
                continue
            c["name"] = rng.choice(names)
            return kind
        if kind == "mods-same-name":
            cands = [d for d in inner_dirs if len(d["mods"]) >= 2]
            if not cands:
                continue
            a, b = rng.sample(rng.choice(cands)["mods"], 2)
            if rng.random() < 0.5:
                ensure_suite(b)["name"] = (a["suite"] or {}).get("name") or a["file"]
            else:
                ensure_suite(a)["desc"] = ensure_suite(b)["desc"] = _desc(rng)
            return kind
        if kind == "mod-vs-dir":
            cands = []
            for d in inner_dirs:
                free = [x for x in d["dirs"] if x["name"] not in [m["file"] for m in d["mods"]] and _ok_ident(x["name"])]
                if free and d["mods"]:
                    cands.append((d, free))
            if not cands:
                continue
            d, free = rng.choice(cands)
            ensure_suite(rng.choice(d["mods"]))["name"] = rng.choice(free)["name"]
            return kind
    return None


def gen_tree(rng, tier="quick"):
    """A random abstract source tree (seeded by `rng` only)."""
    want_dup = rng.random() < 0.27
    tree = None
    for _ in range(30):
        tree = _Gen(rng, tier).dir("", 0)
        if not tree["mods"] and not tree["dirs"]:
            continue
        if _strict_clean(tree):
            break
    if want_dup:
        _inject_duplicate(rng, tree)
    return tree


def tree_size(tree):
    """number of directories below the root + modules + items (tests and classes at any depth)"""
    def items(lst):
        return sum(1 + (items(it["body"]) if it["k"] == "class" else 0) for it in lst)
    return sum(1 + tree_size(d) for d in tree["dirs"]) + sum(1 + items(m["items"]) for m in tree["mods"])


# ============================================================================================ writer
def _call_args(pos, **kw):
    args = [] if pos is None else [repr(pos)]
    args += ["%s=%r" % (k, v) for k, v in kw.items() if v is not None]
    return ", ".join(args)


def _emit_items(items, ind, method, out):
    pad = "    " * ind
    for it in items:
        start = len(out)
        if it["k"] == "test":
            out.append("%s@lcc.test(%s)" % (pad, _call_args(it["desc"], name=it["name"])))
        else:
            out.append("%s@lcc.suite(%s)" % (pad, _call_args(it["desc"], name=it["name"], rank=it["rank"])))
        if it["cond"] is not None:
            # the same visibility written in the ways the API offers (chosen by the item's name, so that a layout is one text):
            # visible_if, hidden(), and two stacked decorators of which the upper one -- applied last -- decides
            import zlib
            form = zlib.crc32(("%s/%s" % (it.get("attr"), it.get("name"))).encode()) % 5
            if form == 0 and not it["cond"]:
                out.append("%s@lcc.hidden()" % pad)
            elif form == 1:
                out.append("%s@lcc.visible_if(lambda _: %r)" % (pad, bool(it["cond"])))
                out.append("%s@lcc.hidden()" % pad if it["cond"] else "%s@lcc.visible_if(lambda _: True)" % pad)
            elif form == 2 and not it["cond"]:
                out.append("%s@lcc.hidden()" % pad)
                out.append("%s@lcc.visible_if(lambda _: True)" % pad)
            else:
                out.append("%s@lcc.visible_if(lambda _: %r)" % (pad, bool(it["cond"])))
        if it["disabled"]:
            out.append("%s@lcc.disabled()" % pad)
        if it["tags"]:
            out.append("%s@lcc.tags(%s)" % (pad, ", ".join(repr(t) for t in it["tags"])))
        for k, v in props_of(it):
            out.append("%s@lcc.prop(%r, %r)" % (pad, k, v))
        for j, (url, name) in enumerate(links_of(it)):
            if name is None:
                out.append("%s@lcc.link(%r)" % (pad, url))
            else:
                out.append("%s@lcc.link(%r, %s%r)" % (pad, url, "name=" if j % 2 else "", name))
        if it["k"] == "test":
            p = it["params"]
            args = (["self"] if method else []) + (["i"] if p is not None else [])
            if p is not None:
                if p["csv"]:
                    # the CSV-like form: a header string (blanks around the names are not part of them), then one tuple per row
                    import zlib
                    header = ["i", " i", "i ", " i "][zlib.crc32(("hdr/%s" % it["attr"]).encode()) % 4]
                    src = repr((header,) + tuple((v,) for v in p["values"]))
                else:
                    src = repr([{"i": v} for v in p["values"]])
                if p["naming"] is None:
                    out.append("%s@lcc.parametrized(%s)" % (pad, src))
                else:
                    table = repr([(n, d) for n, d in p["naming"]])
                    out.append("%s@lcc.parametrized(%s, lambda name, desc, params, idx: %s[idx-1])" % (pad, src, table))
            out.append("%sdef %s(%s):" % (pad, it["attr"], ", ".join(args)))
            out.append("%s    pass" % pad)
        else:
            import zlib
            nested = [x for x in it["body"] if x["k"] != "test"]
            distinct = len(set(x["attr"] for x in it["body"])) == len(it["body"])      # no shadowing inside the class body
            # (the decorators number what they decorate in the order they run: the base class is written first, so only bodies
            #  whose sub-suite classes all come before their tests are written this way)
            kinds = [x["k"] == "test" for x in it["body"]]
            classes_first = kinds == sorted(kinds)
            if ind == 0 and nested and distinct and classes_first and zlib.crc32(("inherit/%s" % it["attr"]).encode()) % 2 == 0:
                # the same suite written with its sub-suite classes INHERITED from a plain base class (a mixin shared by several
                # suites is written like this): the loader looks at the attributes of the instance, inherited ones included
                base = []
                base.append("%sclass _Base_%s:" % (pad, it["attr"]))
                _emit_items(nested, ind + 1, True, base)
                base.append("")
                out[start:start] = base
                out.append("%sclass %s(_Base_%s):" % (pad, it["attr"], it["attr"]))
                rest = [x for x in it["body"] if x["k"] == "test"]
                if rest:
                    _emit_items(rest, ind + 1, True, out)
                else:
                    out.append("%s    pass" % pad)
            else:
                out.append("%sclass %s:" % (pad, it["attr"]))
                if it["body"]:
                    _emit_items(it["body"], ind + 1, True, out)
                else:
                    out.append("%s    pass" % pad)
        out.append("")


def module_source(mod):
    out = ["import lemoncheesecake.api as lcc", ""]
    s = mod["suite"]
    if s is not None:
        parts = []
        if s["name"] is not None:
            parts.append('"name": %r' % s["name"])
        if s["desc"] is not None:
            parts.append('"description": %r' % s["desc"])
        if s["rank"] is not None:
            parts.append('"rank": %r' % s["rank"])
        if s["cond"] is not None:
            parts.append('"visible_if": lambda m: %r' % bool(s["cond"]))
        if s["tags"]:
            parts.append('"tags": %r' % list(s["tags"]))
        if props_of(s):
            parts.append('"properties": {%s}' % ", ".join("%r: %r" % (k, v) for k, v in props_of(s)))
        if links_of(s):
            parts.append('"links": [%s]' % ", ".join(repr(l) if isinstance(l, str) else repr(tuple(l)) for l in links_of(s)))
        out.append("SUITE = {%s}" % ", ".join(parts))
        out.append("")
    _emit_items(mod["items"], 0, False, out)
    return "\n".join(out) + "\n"


def write_tree(tree, root_dir):
    """Write the source files of `tree` below the existing directory `root_dir`; returns the paths of the .py files."""
    paths = []
    files = [m["file"] for m in tree["mods"]]
    names = [d["name"] for d in tree["dirs"]]
    if len(set(files)) != len(files) or len(set(names)) != len(names):
        raise ValueError("abstract tree has two modules or two directories of the same name in one directory")
    for m in tree["mods"]:
        p = os.path.join(root_dir, m["file"] + ".py")
        with open(p, "w") as fh:
            fh.write(module_source(m))
        paths.append(p)
    for d in tree["dirs"]:
        p = os.path.join(root_dir, d["name"])
        os.mkdir(p)
        paths.extend(write_tree(d, p))
    return paths


# ============================================================================================ real implementation
def _obs_props(props):
    """a dict in iteration (= insertion) order"""
    return [[k, v] for k, v in props.items()]


def _obs_links(links):
    return [[l[0], l[1]] if isinstance(l, (tuple, list)) and len(l) == 2 else ["?" + repr(l), None] for l in links]


def _obs_suite(s):
    return {"name": s.name, "desc": s.description, "rank": s.rank, "disabled": bool(s.disabled), "tags": list(s.tags),
            "props": _obs_props(s.properties), "links": _obs_links(s.links),
            "tests": [{"name": t.name, "desc": t.description, "rank": t.rank, "disabled": bool(t.disabled),
                       "tags": list(t.tags), "props": _obs_props(t.properties), "links": _obs_links(t.links),
                       "param": ((t.parameters["i"] if "i" in t.parameters else 4999) if t.parameters else None)}
                      for t in s.get_tests()],
            "suites": [_obs_suite(x) for x in s.get_suites()]}


def via_link(tree):
    import zlib
    return zlib.crc32(json.dumps(tree, sort_keys=True).encode()) % 3 == 0


EXTERNAL_CAUSE_LINE = 'open(__import__("os").environ["C13_EXTERNAL_FILE"]).close()   # something outside the suite files\n'


def load_real(tree, rank0, after_failed_load=False):
    """Write `tree` to a fresh temporary directory, load it with the real loader, return the canonical observation.
    after_failed_load: every module starts by opening a file OUTSIDE the suite tree that does not exist yet, so that a first
    load of the project fails; the file is then created -- no suite file is touched -- and the observation is the second load,
    in the same process (a long-running process, `lcc` run again from a wrapper): the suites are those declared by the files."""
    from lemoncheesecake.suite import builder
    from lemoncheesecake.suite.loader import load_suites_from_directory
    from lemoncheesecake.exceptions import SuiteLoadingError
    root = tempfile.mkdtemp(prefix="c13_")
    paths = []
    saved = sys.dont_write_bytecode
    sys.dont_write_bytecode = True                  # no __pycache__ directories appearing between listings
    try:
        paths = write_tree(tree, root)
        if after_failed_load:
            ext = root + "_external"
            os.environ["C13_EXTERNAL_FILE"] = ext
            for p in paths:
                src = open(p).read()
                with open(p, "w") as fh:
                    fh.write(src.replace("\n", "\n" + EXTERNAL_CAUSE_LINE, 1))
            try:
                load_suites_from_directory(root)
                load_real.first_load_did_not_fail = getattr(load_real, "first_load_did_not_fail", 0) + (1 if paths else 0)
            except SuiteLoadingError:
                pass
            open(ext, "w").close()
        # the registry of decorated objects only grows (linear membership test): objects of earlier loads are dead
        del builder._objects_with_metadata[:]
        builder.Metadata._next_rank = rank0
        # every third layout is reached through a symbolic link to its directory (a checkout linked into a workspace): the
        # suites are the same whatever the spelling of the path
        load_root = root
        if via_link(tree):
            load_root = root + "_link"
            os.symlink(root, load_root)
        try:
            suites = load_suites_from_directory(load_root)
            obs = {"ok": [_obs_suite(s) for s in suites]}
        except SuiteLoadingError as e:
            msg = str(e)
            for k, prefix in enumerate(ERR_PREFIXES):
                if msg.startswith(prefix):
                    obs = {"err": k}
                    break
            else:
                obs = {"exc": ("SuiteLoadingError: " + msg.replace(load_root, "<root>").replace(root, "<root>"))[:220]}
        except BaseException as e:      # noqa
            if isinstance(e, KeyboardInterrupt):
                raise
            obs = {"exc": "%s: %s" % (type(e).__name__, str(e).replace(load_root, "<root>").replace(root, "<root>")[:200])}
    finally:
        sys.dont_write_bytecode = saved
        for p in paths:
            sys.modules.pop(p, None)
            sys.modules.pop(p.replace(root, root + "_link", 1), None)
        if os.path.islink(root + "_link"):
            os.remove(root + "_link")
        if os.path.exists(root + "_external"):
            os.remove(root + "_external")
        shutil.rmtree(root, ignore_errors=True)
    return obs


# ============================================================================================ meaning of a tree
# A tree denotes a forest of DECLARED SUITES:
#   node = {"name", "desc", "kind": "class"|"module"|"dir", "src": position in the source scope, "ranked": explicit rank,
#           "tests": [test record + "name" + "src"], "subs": [node], "ghost": bool}
# ghost nodes are not suites of the declared forest (nobody's sibling, in no path); they are kept for the analysis of
# what is declared INSIDE them: in the normal view these are the modules/directories without any visible test; in the
# diagnostic views (see _View) also the hidden classes and modules ("what if hidden suites were looked into").
def _auto_desc(name):
    return name.capitalize().replace("_", " ")


class _View:
    """normal view: ghosts=False, leak=False.
    ghosts: hidden classes / hidden modules are kept as ghost nodes (their content is analysed, they are nobody's
            sibling).
    leak:   the companion directory of a hidden module is looked at as if it were a directory without module."""
    def __init__(self, ghosts=False, leak=False, keep_empty=False):
        self.ghosts, self.leak, self.keep_empty = ghosts, leak, keep_empty
        self.notes = set()


def _bound(items):
    """the items of a scope that are still bound to their attr once the whole scope has been executed"""
    out = []
    for k, it in enumerate(items):
        if not any(later["attr"] == it["attr"] for later in items[k + 1:]):
            out.append((k, it))
    return out


def _decorated_props(it):
    """the dict declared by the @lcc.prop decorators of a symbol (written top to bottom): one entry per key, the value
    is the one of the topmost decorator of that key; decorators take effect bottom-up, which gives the order of the keys"""
    calls = props_of(it)
    ks = []
    for k, _ in reversed(calls):
        if k not in ks:
            ks.append(k)
    return [[k, [v for kk, v in calls if kk == k][0]] for k in ks]


def _decorated_links(it):
    """one link per @lcc.link decorator, bottom-up"""
    return [[u, n] for u, n in reversed(links_of(it))]


def _suite_dict_props(s):
    """a {...} literal: one entry per key at the place where the key is first written, the value written last"""
    ents = props_of(s)
    ks = []
    for k, _ in ents:
        if k not in ks:
            ks.append(k)
    return [[k, [v for kk, v in ents if kk == k][-1]] for k in ks]


def _suite_dict_links(s):
    return [[l, None] if isinstance(l, str) else [l[0], l[1]] for l in links_of(s)]


def _test_records(it):
    name = it["name"] or it["attr"]
    desc = it["desc"] or _auto_desc(name)
    p = it["params"]
    if p is None:
        named = [(name, desc, None)]
    elif p["naming"] is None:
        named = [("%s_%d" % (name, k), "%s #%d" % (desc, k), v) for k, v in enumerate(p["values"], 1)]
    else:
        named = [(p["naming"][k][0], p["naming"][k][1], v) for k, v in enumerate(p["values"])]
    return [{"name": n, "desc": d, "disabled": bool(it["disabled"]), "tags": list(it["tags"]),
             "props": _decorated_props(it), "links": _decorated_links(it), "param": v}
            for n, d, v in named]


def _node(name, desc, kind, src=0, ranked=False, tests=(), subs=(), ghost=False, meta=None):
    """meta = (tags, props, links) the suite declares; a directory declares none"""
    tags, props, links = meta or ([], [], [])
    return {"name": name, "desc": desc, "kind": kind, "src": src, "ranked": ranked, "tests": list(tests),
            "subs": list(subs), "ghost": ghost, "tags": list(tags), "props": props, "links": links}


def _scope(items, view):
    tests, subs = [], []
    for k, it in _bound(items):
        if it["k"] == "test":
            if it["cond"] is False:
                continue
            for r in _test_records(it):
                r["src"] = k
                tests.append(r)
        else:
            hidden = it["cond"] is False
            if hidden and not view.ghosts:
                continue
            t, s = _scope(it["body"], view)
            name = it["name"] or it["attr"]
            subs.append(_node(name, it["desc"] or _auto_desc(name), "class", k, it["rank"] is not None, t, s, hidden,
                              meta=(it["tags"], _decorated_props(it), _decorated_links(it))))
    return tests, subs


def _has_tests(n):
    return bool(n["tests"]) or any(_has_tests(c) for c in n["subs"] if not c["ghost"])


def _module_nodes(mod, comp, view):
    s = mod["suite"]
    name = (s and s["name"]) or mod["file"]
    desc = (s and s["desc"]) or _auto_desc(name)
    meta = None if s is None else (s["tags"], _suite_dict_props(s), _suite_dict_links(s))
    if s is not None and s["cond"] is False:            # hidden module: the module and its directory are not declared
        out = []
        if view.ghosts:
            t, c = _scope(mod["items"], view)
            out.append(_node(name, desc, "module", tests=t, subs=c, ghost=True, meta=meta))
        if comp is not None and view.leak:
            out.append(_node(comp["name"], _auto_desc(comp["name"]), "dir", subs=_dir_children(comp, view)))
        return out
    tests, subs = _scope(mod["items"], view)
    visible = [c for c in subs if not c["ghost"]]
    if s is None and not tests and len(visible) == 1 and visible[0]["name"] == mod["file"]:
        node = visible[0]                               # the class stands for the module
        node["kind"] = "module"
        node["subs"] = node["subs"] + [c for c in subs if c["ghost"]]
        view.notes.add("collapse")
        cls = [it for _, it in _bound(mod["items"]) if it["k"] == "class" and it["cond"] is not False][0]
        if cls["name"] is not None:
            view.notes.add("collapse:name-arg")
    else:
        node = _node(name, desc, "module", tests=tests, subs=subs, meta=meta)
    if comp is not None:
        node["subs"] = node["subs"] + _dir_children(comp, view)
    return [node]


def _dir_children(d, view):
    out = []
    by_name = {x["name"]: x for x in d["dirs"]}
    claimed = set()
    for m in d["mods"]:
        comp = by_name.get(m["file"])
        if comp is not None:
            claimed.add(m["file"])
        out.extend(_module_nodes(m, comp, view))
    for x in d["dirs"]:
        if x["name"] not in claimed:
            out.append(_node(x["name"], _auto_desc(x["name"]), "dir", subs=_dir_children(x, view)))
    # a module or directory that declares no visible test is not a suite: nobody's sibling, appears in no path
    # (it is kept as a ghost so that duplicate classes declared inside it are still seen)
    for n in out:
        if not (n["ghost"] or view.keep_empty or _has_tests(n)):
            n["ghost"] = True
    return out


def _flatten(nodes, prefix=()):
    for n in nodes:
        if n["ghost"]:
            continue
        p = prefix + (n["name"],)
        for t in n["tests"]:
            yield {"path": list(p) + [t["name"]], "desc": t["desc"], "disabled": t["disabled"], "tags": list(t["tags"]),
                   "props": t["props"], "links": t["links"], "param": t["param"]}
        for r in _flatten(n["subs"], p):
            yield r


def expected(tree):
    """The declared visible tests: [{"path": [suite names..., test name], "desc", "disabled", "tags", "props", "links",
    "param"}]."""
    return list(_flatten(_dir_children(tree, _View())))


def _repeated(values):
    seen, rep = set(), []
    for v in values:
        if v in seen and v not in rep:
            rep.append(v)
        seen.add(v)
    return rep


def _find_dups(nodes, root_too=False):
    """[(k, where, value)] with k = 0 test description, 1 test name, 2 sub-suite description, 3 sub-suite name;
    where = path of the suite ("" = the root, only when root_too)"""
    found = []

    def siblings(subs, where):
        sibs = [c for c in subs if not c["ghost"]]
        for v in _repeated([c["desc"] for c in sibs]):
            found.append((2, where, v))
        for v in _repeated([c["name"] for c in sibs]):
            found.append((3, where, v))

    def visit(n, prefix):
        where = ".".join(prefix + (n["name"],))
        for v in _repeated([t["desc"] for t in n["tests"]]):
            found.append((0, where, v))
        for v in _repeated([t["name"] for t in n["tests"]]):
            found.append((1, where, v))
        siblings(n["subs"], where)
        for c in n["subs"]:
            visit(c, prefix + (n["name"],))

    if root_too:
        siblings(nodes, "")
    for n in nodes:
        visit(n, ())
    return found


def declared_duplicates(tree):
    """Duplicates that the visible part of the tree declares inside one suite (the root is not a suite)."""
    return _find_dups(_dir_children(tree, _View()))


def _all_visible(tree):
    t = copy.deepcopy(tree)
    for lst, mod in _scopes(t):
        for it in lst:
            if it["cond"] is False:
                it["cond"] = None
    for d in _all_dirs(t):
        for m in d["mods"]:
            if m["suite"] is not None and m["suite"]["cond"] is False:
                m["suite"]["cond"] = None
    return t


def _strict_clean(tree):
    """no duplicate anywhere, even when every hidden item were visible, empty modules counted, the root taken as a suite"""
    nodes = _dir_children(_all_visible(tree), _View(keep_empty=True))
    return not _find_dups(nodes, root_too=True)


# ============================================================================================ oracle
def _flatten_obs(suites, prefix=()):
    for s in suites:
        p = prefix + (s["name"],)
        for t in s["tests"]:
            yield {"path": list(p) + [t["name"]], "desc": t["desc"], "disabled": t["disabled"], "tags": list(t["tags"]),
                   "props": t.get("props", []), "links": t.get("links", []), "param": t["param"]}
        for r in _flatten_obs(s["suites"], p):
            yield r


def _group(records):
    g = {}
    for r in records:
        g.setdefault(tuple(r["path"]), []).append(r)
    return g


def _check_order(declared, loaded, prefix, hits):
    """declared: nodes (normal view), loaded: observed suites of the same level"""
    declared = [n for n in declared if not n["ghost"]]
    names = [n["name"] for n in declared]
    for s in loaded:
        if names.count(s["name"]) != 1 or [x["name"] for x in loaded].count(s["name"]) != 1:
            continue
        n = declared[names.index(s["name"])]
        where = ".".join(prefix + (s["name"],))
        # tests: relative order = order of the declarations (parameter sets in order of the source)
        dnames = [t["name"] for t in n["tests"]]
        idx = [dnames.index(t["name"]) for t in s["tests"] if dnames.count(t["name"]) == 1]
        if idx != sorted(idx):
            hits.append(("order", "tests of suite %s are loaded as %s but declared as %s"
                         % (where, [t["name"] for t in s["tests"]], dnames)))
        # class suites without explicit rank: in source order
        cls = [c for c in n["subs"] if c["kind"] == "class" and not c["ranked"] and not c["ghost"]]
        cnames = [c["name"] for c in cls]
        all_names = [c["name"] for c in n["subs"] if not c["ghost"]]
        got = [x["name"] for x in s["suites"] if x["name"] in cnames and all_names.count(x["name"]) == 1]
        want = [c["name"] for c in sorted(cls, key=lambda c: c["src"]) if c["name"] in got]
        if got != want:
            hits.append(("order", "class suites of %s are loaded as %s but declared as %s" % (where, got, want)))
        _check_order(n["subs"], s["suites"], prefix + (s["name"],), hits)


def _check_suite_meta(declared, loaded, prefix, hits):
    """every loaded suite carries the tags / properties / links its declaration gives (class decorators, SUITE dict,
    nothing for a directory); suites are matched by name where the name is unambiguous on both sides"""
    declared = [n for n in declared if not n["ghost"]]
    names = [n["name"] for n in declared]
    for s in loaded:
        if names.count(s["name"]) != 1 or [x["name"] for x in loaded].count(s["name"]) != 1:
            continue
        n = declared[names.index(s["name"])]
        where = ".".join(prefix + (s["name"],))
        for f in ("tags", "props", "links"):
            if n[f] != s.get(f, []):
                hits.append(("suite-metadata:" + f, "suite %s: %s declared %r, loaded %r" % (where, f, n[f], s.get(f, []))))
        _check_suite_meta(n["subs"], s["suites"], prefix + (s["name"],), hits)


def oracle(tree, obs):
    """The property evaluated on what the loader did: [(signature, text)] (empty = fine)."""
    if "exc" in obs:
        return [("exception:" + obs["exc"].split(":")[0], obs["exc"])]
    nodes = _dir_children(tree, _View())
    dups = _find_dups(nodes)
    fmt = lambda ds: "; ".join("%s %r twice in suite %r" % (ERR_TEXT[k], v, w or "<root>") for k, w, v in ds[:3])
    if "err" in obs:
        k = obs["err"]
        if dups:
            return []
        what = "loader rejects the tree (%s already registered) but no visible suite declares a duplicate" % ERR_TEXT[k]
        ghost = _find_dups(_dir_children(tree, _View(ghosts=True)))
        if any(kk == k for kk, _, _ in ghost):
            return [("spurious-error:hidden-suite", what + "; inside hidden suites: " + fmt(ghost))]
        leak = _find_dups(_dir_children(tree, _View(ghosts=True, leak=True)))
        if any(kk == k for kk, _, _ in leak):
            return [("hidden-module-companion-dir-loaded", what + "; the companion directory of a hidden module is "
                     "loaded: " + fmt(leak))]
        return [("spurious-error", what)]
    hits = []
    exp = _group(_flatten(nodes))
    got = _group(_flatten_obs(obs["ok"]))
    leak = None
    for path in sorted(set(exp) | set(got)):
        e, g = exp.get(path, []), got.get(path, [])
        p = ".".join(path)
        if len(g) > 1:
            hits.append(("duplicate-path", "%d loaded tests have the path %s" % (len(g), p)))
        if len(e) > len(g):
            hits.append(("missing-test", "declared test %s is not loaded (%d declared, %d loaded)" % (p, len(e), len(g))))
        elif len(g) > len(e):
            if leak is None:
                leak = _group(_flatten(_dir_children(tree, _View(leak=True))))
            if len(leak.get(path, [])) > len(e):
                hits.append(("hidden-module-companion-dir-loaded",
                             "loaded test %s comes from the companion directory of a module hidden by SUITE visible_if"
                             % p))
            else:
                hits.append(("undeclared-test", "loaded test %s is not declared (%d declared, %d loaded)"
                             % (p, len(e), len(g))))
        if len(e) == 1 and len(g) == 1:
            for f in ("desc", "disabled", "tags", "props", "links", "param"):
                if e[0][f] != g[0][f]:
                    hits.append(("metadata:" + f, "test %s: %s declared %r, loaded %r" % (p, f, e[0][f], g[0][f])))
    _check_order(nodes, obs["ok"], (), hits)
    _check_suite_meta(nodes, obs["ok"], (), hits)
    if dups:
        hits.append(("duplicate-accepted", "loader accepts: " + fmt(dups)))
    else:
        root = [d for d in _find_dups(nodes, root_too=True) if d[1] == ""]
        if root:
            hits.append(("duplicate-accepted:root", "loader accepts at the top level: " + fmt(root)))
    return hits


# ============================================================================================ features
def features(tree):
    """Set of feature names present in the tree (coverage counters)."""
    f = set()
    view = _View()
    nodes = _dir_children(tree, view)
    f |= view.notes
    dups = _find_dups(nodes, root_too=True)
    for k, where, _ in dups:
        if where == "":
            f.add("duplicate:root")
        else:
            f.add("duplicate")
            f.add("duplicate:" + ["test-desc", "test-name", "suite-desc", "suite-name"][k])
    if not any(True for _ in _flatten(nodes)):
        f.add("no-visible-test")

    def depth(d):
        return 1 + max([depth(x) for x in d["dirs"]] + [0])
    dd = depth(tree) - 1
    if dd >= 1:
        f.add("dir-depth-%d" % dd)
    if dd >= 2:
        f.add("nested-dir")

    def items(lst, cdepth, in_hidden):
        attrs = [it["attr"] for it in lst]
        if len(set(attrs)) != len(attrs):
            f.add("shadowed-attr")
        ranks = [it["rank"] for it in lst if it["k"] == "class" and it["rank"] is not None]
        if len(set(ranks)) != len(ranks):
            f.add("rank-collision")
        for it in lst:
            kind = it["k"]
            if it["cond"] is False:
                f.add("hidden-" + kind)
            if it["cond"] is True:
                f.add(kind + "-cond-true")
            if it["disabled"]:
                f.add("disabled")
                f.add("disabled-" + kind)
            if it["name"] is not None:
                f.add("explicit-name")
            if it["desc"] is not None:
                f.add("explicit-desc")
            if it["tags"]:
                f.add("tags")
            pr, ln = props_of(it), links_of(it)
            if pr:
                f.add("props")
                f.add("props:" + kind)
                if len(set(k for k, _ in pr)) != len(pr):
                    f.add("props:repeated-key")
                if kind == "test" and it["params"] is not None and it["params"]["values"]:
                    f.add("props:parametrized")
            if ln:
                f.add("links")
                f.add("links:" + kind)
                if any(n is not None for _, n in ln):
                    f.add("links:named")
                if len(set(map(tuple, ln))) != len(ln):
                    f.add("links:repeated")
                if kind == "test" and it["params"] is not None and it["params"]["values"]:
                    f.add("links:parametrized")
            if any(c.isupper() for c in it["attr"] + (it["name"] or "")):
                f.add("mixed-case")
            if kind == "test":
                p = it["params"]
                if p is not None:
                    f.add("parametrized")
                    f.add("params-%d" % len(p["values"]))
                    f.add("table-naming" if p["naming"] is not None else "default-naming")
                    if p["csv"]:
                        f.add("csv")
                if cdepth > 0:
                    f.add("method")
                else:
                    f.add("function")
            else:
                if it["rank"] is not None:
                    f.add("explicit-rank")
                    f.add("explicit-rank:class")
                if cdepth >= 1:
                    f.add("nested-class")
                f.add("class-depth-%d" % (cdepth + 1))
                if not it["body"]:
                    f.add("empty-class")
                items(it["body"], cdepth + 1, in_hidden or it["cond"] is False)

    for d in _all_dirs(tree):
        files = [m["file"] for m in d["mods"]]
        sranks = [m["suite"]["rank"] for m in d["mods"] if m["suite"] and m["suite"]["rank"] is not None]
        if len(set(sranks)) != len(sranks):
            f.add("rank-collision")
        for x in d["dirs"]:
            if x["name"] == "__pycache__":
                f.add("pycache-dir")
            elif x["name"] not in files:
                f.add("dir-without-module")
            if not x["mods"] and not x["dirs"]:
                f.add("empty-dir")
        for m in d["mods"]:
            s = m["suite"]
            comp = [x for x in d["dirs"] if x["name"] == m["file"]]
            hidden = s is not None and s["cond"] is False
            if any(c.isupper() for c in m["file"]):
                f.add("mixed-case")
            if s is not None:
                f.add("SUITE")
                if s["rank"] is not None:
                    f.add("explicit-rank")
                    f.add("explicit-rank:SUITE")
                    cr = [it["rank"] for it in m["items"] if it["k"] == "class"]
                    if s["rank"] in cr:
                        f.add("rank-collision")
                if s["name"] is not None:
                    f.add("SUITE-name")
                if s["desc"] is not None:
                    f.add("SUITE-desc")
                if s["tags"]:
                    f.add("tags")
                if props_of(s):
                    f.add("props")
                    f.add("props:SUITE")
                    if len(set(k for k, _ in props_of(s))) != len(props_of(s)):
                        f.add("props:repeated-key")
                if links_of(s):
                    f.add("links")
                    f.add("links:SUITE")
                    if any(isinstance(l, str) for l in links_of(s)):
                        f.add("links:SUITE-bare-string")
                    if any(not isinstance(l, str) for l in links_of(s)):
                        f.add("links:SUITE-tuple")
                if hidden:
                    f.add("hidden-module")
                if s["cond"] is True:
                    f.add("module-cond-true")
            if comp:
                f.add("companion-dir")
                inner = [x["suite"]["rank"] for x in comp[0]["mods"] if x["suite"] and x["suite"]["rank"] is not None]
                if set(inner) & set(it["rank"] for it in m["items"] if it["k"] == "class"):
                    f.add("rank-collision")
                    f.add("rank-collision:class-vs-companion-module")
                f.add("companion-dir:" + ("SUITE" if s is not None else "no-SUITE"))
                if hidden:
                    f.add("hidden-module-with-companion-dir")
                    if any(True for _ in _flatten(_dir_children(comp[0], _View()))):
                        f.add("hidden-module-with-nonempty-companion-dir")
            if not m["items"]:
                f.add("empty-module")
            items(m["items"], 0, hidden)
            # neighbours of the single-class collapse
            live = [it for _, it in _bound(m["items"])]
            classes = [it for it in live if it["k"] == "class"]
            tests = [it for it in live if it["k"] == "test"]
            named = [c for c in classes if (c["name"] or c["attr"]) == m["file"]]
            if named:
                c = named[0]
                if s is not None:
                    f.add("near-collapse:has-SUITE")
                elif c["cond"] is False:
                    f.add("near-collapse:class-hidden")
                elif any(t["cond"] is not False and (t["params"] is None or t["params"]["values"]) for t in tests):
                    f.add("near-collapse:extra-test")
                elif any(x is not c and x["cond"] is not False for x in classes):
                    f.add("near-collapse:second-class")
                else:
                    if tests:
                        f.add("collapse:with-invisible-test-function")
                    if len(classes) > 1:
                        f.add("collapse:with-hidden-second-class")
                    if comp:
                        f.add("collapse:with-companion-dir")
            elif s is None and len(classes) == 1 and not tests and \
                    (classes[0]["name"] or classes[0]["attr"]).lower().rstrip("_1x") == m["file"].lower().rstrip("_1x"):
                f.add("near-collapse:name-differs")
    return f


# ============================================================================================ shrinking
def _edits(tree):
    """candidate simplifications: list of functions tree_copy -> None, addressed by access paths"""
    eds = []

    def at(t, path):
        for p in path:
            t = t[p]
        return t

    def delete(path, key, k):
        def f(t):
            del at(t, path)[key][k]
        return f

    def setv(path, key, val):
        def f(t):
            at(t, path)[key] = val
        return f

    def items(lst, path, key):
        for k, it in enumerate(lst):
            eds.append((0, delete(path, key, k)))
        for k, it in enumerate(lst):
            ip = path + [key, k]
            if it["k"] == "class":
                def hoist(t, path=path, key=key, k=k):          # the class is replaced by its body
                    lst = at(t, path)[key]
                    lst[k:k + 1] = lst[k]["body"]
                if it["body"]:
                    eds.append((1, hoist))
                items(it["body"], ip, "body")
                if it["rank"] is not None:
                    eds.append((2, setv(ip, "rank", None)))
            else:
                p = it["params"]
                if p is not None:
                    eds.append((2, setv(ip, "params", None)))
                    for j in range(len(p["values"])):
                        def drop(t, ip=ip, j=j):
                            q = at(t, ip)["params"]
                            del q["values"][j]
                            if q["naming"] is not None:
                                del q["naming"][j]
                        eds.append((2, drop))
                    if p["naming"] is not None:
                        eds.append((2, setv(ip + ["params"], "naming", None)))
                    if p["csv"]:
                        eds.append((2, setv(ip + ["params"], "csv", False)))
            for fld, dflt in (("name", None), ("desc", None), ("cond", None), ("disabled", False), ("tags", []),
                              ("props", []), ("links", [])):
                if it.get(fld, dflt) != dflt:
                    eds.append((2, setv(ip, fld, dflt)))
            for fld in ("props", "links"):
                if len(it.get(fld) or []) > 1:
                    for j in range(len(it[fld])):
                        eds.append((2, delete(ip, fld, j)))

    def dirs(d, path):
        for k in range(len(d["dirs"])):
            eds.append((0, delete(path, "dirs", k)))
        for k in range(len(d["mods"])):
            eds.append((0, delete(path, "mods", k)))
        for k, m in enumerate(d["mods"]):
            mp = path + ["mods", k]
            items(m["items"], mp, "items")
            s = m["suite"]
            if s is not None:
                eds.append((1, setv(mp, "suite", None)))
                for fld, dflt in (("name", None), ("desc", None), ("rank", None), ("cond", None), ("tags", []),
                                  ("props", []), ("links", [])):
                    if s.get(fld, dflt) != dflt:
                        eds.append((2, setv(mp + ["suite"], fld, dflt)))
                for fld in ("props", "links"):
                    if len(s.get(fld) or []) > 1:
                        for j in range(len(s[fld])):
                            eds.append((2, delete(mp + ["suite"], fld, j)))
        for k, x in enumerate(d["dirs"]):
            dirs(x, path + ["dirs", k])

    dirs(tree, [])
    eds.sort(key=lambda e: e[0])        # stable: deletions first, then SUITE removal, then fields
    return [e[1] for e in eds]


def shrink(tree, pred, max_calls=150):
    """Greedy shrinking: a smaller/simpler tree for which pred still holds (at most ~max_calls calls of pred)."""
    cur = copy.deepcopy(tree)
    calls = 0
    k = 0
    fails_in_a_row = 0
    while calls < max_calls:
        eds = _edits(cur)
        if not eds or fails_in_a_row >= len(eds):
            break
        if k >= len(eds):
            k = 0
        cand = copy.deepcopy(cur)
        try:
            eds[k](cand)
            calls += 1
            ok = cand != cur and bool(pred(cand))
        except Exception:
            ok = False
        if ok:
            cur = cand
            fails_in_a_row = 0          # same index now addresses the next candidate
        else:
            k += 1
            fails_in_a_row += 1
    return cur


# ============================================================================================ self-test
def _main(argv):
    import json
    import random
    import time
    n = int(argv[1]) if len(argv) > 1 else 200
    seed = int(argv[2]) if len(argv) > 2 else 1
    tier = argv[3] if len(argv) > 3 else "quick"
    rng = random.Random(seed)
    feat, kinds, sizes, hits_by_sig = {}, {}, [], {}
    t_gen = t_run = 0.0
    for case in range(n):
        t0 = time.time()
        tree = gen_tree(rng, tier)
        rank0 = rng.choice([1, 1, rng.randint(0, 12), rng.randint(0, 12), 1000])
        t1 = time.time()
        obs = load_real(tree, rank0)
        hits = oracle(tree, obs)
        t2 = time.time()
        t_gen += t1 - t0
        t_run += t2 - t1
        sizes.append(tree_size(tree))
        for x in features(tree):
            feat[x] = feat.get(x, 0) + 1
        kind = "ok" if "ok" in obs else ("err%d" % obs["err"] if "err" in obs else "exc")
        if kind == "ok" and not obs["ok"]:
            kind = "ok(empty)"
        kinds[kind] = kinds.get(kind, 0) + 1
        for sig in sorted(set(s for s, _ in hits)):
            hits_by_sig.setdefault(sig, []).append((case, tree, rank0, [t for s, t in hits if s == sig][0]))
    print("trees: %d  seed: %d  tier: %s" % (n, seed, tier))
    print("size: min %d  mean %.1f  max %d" % (min(sizes), sum(sizes) / len(sizes), max(sizes)))
    print("generation: %.1f trees/s   load_real+oracle: %.1f trees/s" % (n / max(t_gen, 1e-9), n / max(t_run, 1e-9)))
    print("observations:", json.dumps(kinds, sort_keys=True))
    print("features:")
    for x in sorted(feat):
        print("  %-45s %5d  %5.1f%%" % (x, feat[x], 100.0 * feat[x] / n))
    print("oracle hits: %s" % ({s: len(v) for s, v in hits_by_sig.items()} or "none"))
    for sig in sorted(hits_by_sig):
        case, tree, rank0, text = hits_by_sig[sig][0]
        small = shrink(tree, lambda t: any(s == sig for s, _ in oracle(t, load_real(t, rank0))))
        obs = load_real(small, rank0)
        print("--- %s (first: case %d, rank0 %d; %d cases)" % (sig, case, rank0, len(hits_by_sig[sig])))
        print("    " + text)
        print("    shrunk tree: " + json.dumps(small, sort_keys=True))
        print("    observation: " + json.dumps(obs, sort_keys=True))
        print("    hits: " + json.dumps(oracle(small, obs)))
    return 0


if __name__ == "__main__":
    sys.exit(_main(sys.argv))
