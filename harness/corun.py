"""Runs one generated project on the real implementation, deterministically scheduled (detsched) or free, and returns
everything observable: task graph, linear trace, per-backend event streams, final report normal form, outcome."""
import os
import shutil
import sys
import tempfile
import threading
import time
import traceback

import detsched
import projbuild

import lemoncheesecake.runner as lcc_runner
import lemoncheesecake.session as lcc_session
from lemoncheesecake.project import PreparedProject
from lemoncheesecake.reporting.backend import ReportingBackend, ReportingSessionBuilderMixin, ReportingSession
from lemoncheesecake.reporting.savingstrategy import make_report_saving_strategy


class FaultA(Exception):            # one-argument exception class
    pass


class FaultEmpty(Exception):        # raised without message: str(e) == ""
    def __init__(self, *a):
        super().__init__()


class FaultMulti(Exception):        # cannot be rebuilt from a single string
    def __init__(self, a, b, c):
        super().__init__(a, b, c)


class FaultPicky(Exception):        # validates its argument: rebuilding it from a text raises ValueError, not TypeError
    def __init__(self, code):
        super().__init__("backend-fault: quota of %d bytes exceeded" % int(code))


FAULTS = {"one": lambda: FaultA("backend-fault"), "empty": lambda: FaultEmpty(), "picky": lambda: FaultPicky(4096),
          "multi": lambda: FaultMulti("backend-fault", 2, 3), "unicode": lambda: UnicodeEncodeError("utf-8", "x", 0, 1, "backend-fault")}


class RecordingSession(ReportingSession):
    def __init__(self, stream, fault, names, plain=None):
        self.stream, self.fault, self.names = stream, fault, names
        self.count = 0
        self.plain = plain
        self.thmap = {}

    def handle(self, event):
        idx = self.count
        self.count += 1
        self.stream.append(canon_event(event, self.names))
        if self.plain is not None:
            # the event as Model/Events.v sees it (C18's encoding), with the controller's name of the firing thread
            try:
                self.plain.append([getattr(event, "_verif_thread", None), _plain_event(event, self.thmap)])
            except Exception as e:      # noqa: BLE001
                self.plain.append([None, ["unencodable", "%s: %s" % (type(e).__name__, e)]])
        if self.fault and self.fault["at"] == idx:
            raise FAULTS[self.fault["cls"]]()
        if self.fault and self.fault.get("again") and idx > self.fault["at"]:
            # a backend that keeps failing: only reachable if events are still delivered after the first failure
            raise FaultA("second-fault-at-%d" % idx)


def _plain_event(event, thmap):
    from props import c18
    c18.SUITE_POSITIONS[0] = True          # a live stream: sibling suites are sorted by (rank, declared position)
    try:
        return c18.plain_event(event, thmap)
    finally:
        c18.SUITE_POSITIONS[0] = False


class RecordingBackend(ReportingBackend, ReportingSessionBuilderMixin):
    def __init__(self, fault=None, names=None, record_plain=False):
        self.stream = []
        self.fault = fault
        self.names = names if names is not None else {}
        self.plain = [] if record_plain else None

    def get_name(self):
        return "recording"

    def create_reporting_session(self, report_dir, report, parallel, report_saving_strategy):
        s = RecordingSession(self.stream, self.fault, self.names, self.plain)
        from lemoncheesecake import events as ev
        for cls in ev.EventManager._get_event_classes():
            setattr(s, "on_" + cls.get_name(), s.handle)
        return s


def canon_event(ev, names):
    return list(detsched.event_label(ev))


def graph_of(tasks):
    idx = {id(t): i for i, t in enumerate(tasks)}
    res = []
    for t in tasks:
        res.append({"label": list(detsched.task_label(t)),
                    "succ": [idx.get(id(d), -1) for d in t.get_on_success_dependencies()],
                    "compl": [idx.get(id(d), -1) for d in t.get_on_completion_dependencies()]})
    return res


def step_nf(step, names):
    logs = []
    for l in step.get_logs():
        cls = type(l).__name__
        if cls == "Log":
            logs.append(["log", l.level, l.message])
        elif cls == "Check":
            logs.append(["check", l.description, l.is_successful, l.details])
        elif cls == "Attachment":
            logs.append(["attachment", l.description, l.filename, l.as_image])
        elif cls == "Url":
            logs.append(["url", l.description, l.url])
    return {"description": step.description, "ended": step.end_time is not None, "logs": logs}


def result_nf(r, names):
    if r is None:
        return None
    return {"status": r.status, "status_details": r.status_details, "ended": r.end_time is not None,
            "steps": [step_nf(s, names) for s in r.get_steps()]}


def suite_nf(s, names):
    return {"name": s.name, "ended": s.end_time is not None, "setup": result_nf(s.suite_setup, names),
            "teardown": result_nf(s.suite_teardown, names),
            "tests": [dict(result_nf(t, names), name=t.name) for t in s.get_tests()],
            "suites": [suite_nf(x, names) for x in s.get_suites()]}


def report_nf(report, names=None):
    names = names or {}
    return {"ended": report.end_time is not None, "nb_threads": report.nb_threads,
            "session_setup": result_nf(report.test_session_setup, names),
            "session_teardown": result_nf(report.test_session_teardown, names),
            "suites": [suite_nf(s, names) for s in report.get_suites()],
            "is_successful": report.is_successful()}


def run_case(case, watchdog=60.0):
    opts = case.get("options", {})
    n = int(opts.get("nb_threads", 1))
    mode = case.get("mode", "det")
    rec = projbuild.Recorder()
    rec.suffix = case.get("payload_suffix", "")
    rec.abort_subclasses = bool(case.get("abort_subclasses"))
    tmp = tempfile.mkdtemp(prefix="lccverif_run_")
    out = {"mode": mode}
    names = {}
    backend = RecordingBackend(case.get("fault"), names, bool(case.get("record_plain")))
    backends = [backend]
    extra = case.get("file_backends") or []
    if extra:
        from lemoncheesecake.reporting.backends import JsonBackend, XmlBackend, JunitBackend
        cls = {"json": JsonBackend, "xml": XmlBackend, "junit": JunitBackend}
        mk = lambda b: JsonBackend(pretty_formatting=True) if (b == "json" and case.get("json_pretty")) else cls[b]()
        backends = [mk(b) for b in extra] + backends if case.get("file_first", True) else backends + [mk(b) for b in extra]
    saving = make_report_saving_strategy(case["saving"]) if case.get("saving") else None
    captured = {}
    orig_build = lcc_runner.build_tasks

    def build_tasks(*a, **kw):
        tasks = orig_build(*a, **kw)
        captured["graph"] = graph_of(tasks)
        return tasks

    ctl = None
    try:
        project = projbuild.build_project(rec, case["project"], tmp)
        lcc_runner.build_tasks = build_tasks
        try:
            if case.get("exclude_tests"):
                from lemoncheesecake.testtree import filter_suites
                excl = set(case["exclude_tests"])
                scheduled = filter_suites(project.load_suites(), lambda t: t.path not in excl)
                prepared = PreparedProject.create(project, scheduled)
            else:
                prepared = PreparedProject.create(project)
        except Exception as e:
            out["outcome"] = ["rejected", type(e).__name__, str(e)[:300]]
            return out
        if mode == "det":
            ctl = detsched.Controller(case.get("sched", []))
            ctl.interrupt_at = case.get("interrupt_at")
            rec.thread_class = detsched.make_cthread_class()
            rec.record = ctl.record
            rec.yield_ = ctl.yield_
        else:
            rec.thread_class = lcc_session.Thread
            lock = threading.Lock()
            delays = case.get("delays", {})

            def record(*atom):
                with lock:
                    rec.trace.append((threading.current_thread().name,) + atom)

            def yield_(label):
                d = delays.get(str(label[1]))
                if d:
                    time.sleep(d)
            rec.record, rec.yield_ = record, yield_
        result = {}

        def target():
            try:
                if ctl is not None:
                    with detsched.Installed(ctl):
                        names[threading.get_ident()] = "main"
                        try:
                            result["report"] = prepared.run(backends, tmp, saving, force_disabled=bool(opts.get("force_disabled")),
                                                            stop_on_failure=bool(opts.get("stop_on_failure")), nb_threads=n)
                        finally:
                            for t in ctl.threads.values():
                                if t.ident is not None:
                                    names.setdefault(t.ident, t.name)
                else:
                    result["report"] = prepared.run(backends, tmp, saving, force_disabled=bool(opts.get("force_disabled")),
                                                    stop_on_failure=bool(opts.get("stop_on_failure")), nb_threads=n)
                result["outcome"] = ["returned", bool(result["report"].is_successful())]
            except detsched.SchedAbort as e:
                result["outcome"] = ["sched_abort", str(e)[:500]]
            except BaseException as e:
                result["outcome"] = ["raised", type(e).__name__, str(e)[:2000]]
                result["traceback"] = traceback.format_exc()[-3000:]
        th = threading.Thread(target=target, daemon=True)
        th.start()
        th.join(watchdog)
        if th.is_alive():
            out["outcome"] = ["hang", "no completion within %ss" % watchdog]
            if ctl is not None:
                ctl.aborted = "watchdog"
                ctl._release_all()
                th.join(5)
        else:
            out["outcome"] = result.get("outcome")
            if "traceback" in result:
                out["traceback"] = result["traceback"]
        session = lcc_session.Session._instance
        report = result.get("report") or (session.report if session else None)
        # thread names for canonical event streams: map real idents to controller names (main, wNN, h, uNN)
        if ctl is not None:
            for t in ctl.threads.values():
                if t.ident is not None:
                    names.setdefault(t.ident, t.name)
            out["trace"] = [canon_atom(a, names) for a in ctl.trace]
            out["decisions"] = len(ctl.decisions)
            out["aborted"] = ctl.aborted if ctl.aborted not in (None, "run finished") else None
        else:
            out["trace"] = [list(a) for a in rec.trace]
        out["graph"] = captured.get("graph")
        out["events"] = fix_threads(backend.stream, names)
        out["body_starts"] = rec.body_starts
        if report is not None:
            out["report"] = report_nf(report, names)
            if backend.plain is not None:
                import gen_reports_views
                out["plain_events"] = backend.plain
                out["report_desc"] = gen_reports_views.describe_report(report)
        if session is not None:
            out["failures"] = sorted(str(l) for l in session._failures)
        files, attachments = {}, {}
        for root, _, fs in os.walk(tmp):
            for f in fs:
                p = os.path.join(root, f)
                rel = os.path.relpath(p, tmp)
                files[rel] = os.path.getsize(p)
                if rel.startswith("attachments" + os.sep) and files[rel] < 4096:
                    attachments[rel] = open(p, errors="replace").read()
        out["files"] = files
        out["attachments"] = attachments
        return out
    finally:
        lcc_runner.build_tasks = orig_build
        shutil.rmtree(tmp, ignore_errors=True)


def canon_atom(atom, names):
    """Replace raw thread idents inside event labels by controller thread names."""
    def fix(x):
        if isinstance(x, tuple):
            return [fix(y) for y in x]
        return x
    return [fix(x) for x in atom]


def fix_threads(stream, names):
    res = []
    for ev in stream:
        e2 = []
        for x in ev:
            if isinstance(x, tuple) and x and x[0] == "thread" and isinstance(x[1], str) and x[1].startswith("T?"):
                ident = int(x[1][2:])
                e2.append(("thread", names.get(ident, x[1])))
            else:
                e2.append(x)
        res.append(e2)
    return res


def main():
    """Driver protocol: one JSON case per input line, one JSON result per output line (flushed)."""
    import json
    for line in sys.stdin:
        line = line.strip()
        if not line:
            continue
        case = json.loads(line)
        try:
            res = run_case(case, watchdog=case.get("watchdog", 60.0))
        except Exception:
            res = {"outcome": ["driver_error", traceback.format_exc()[-3000:]]}
        res["id"] = case.get("id")
        sys.stdout.write(json.dumps(res, default=str) + "\n")
        sys.stdout.flush()
        if res.get("outcome") and res["outcome"][0] == "hang":
            os._exit(3)     # threads of the hung run cannot be reclaimed: the parent restarts the driver


if __name__ == "__main__":
    main()
