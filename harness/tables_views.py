"""C20 translator: the outcome-carrying tables of junit.py / report.py / console.py  ->  coq/theories/gen/TablesViews.v

What is extracted (Python `ast`, fail-closed: any shape that is not the one recognised here raises TranslationError):
  gen_statuses          Result.STATUSES
  gen_enabled           the statuses summed by ReportStats.tests_enabled_nb
  gen_message_vars      _report_message_variables: (name, status counted or "" or "None->n/a", "of" of the percentage or "")
                        in dict order
  gen_junit_rules       _serialize_test_result: (condition, child tag) in program order; the log rules carry the status guard
                        of the branch they are in ("status==failed&...")
  gen_junit_suite       _serialize_suite_result: (counter attribute, status it counts)
  gen_junit_top         serialize_report_as_xml_tree: (attribute, status whose ReportStats count it shows)
  gen_console_labels    _make_test_status_label: (status or "None", label), then ("*", label of the else branch)
  gen_console_summary   _print_summary: (line title, status shown, "if" when the line is printed only when non-zero)
Props/C20.v compares these tables with the constants the hand-written models (Model/Stats.v, Junit.v) are built on
(Theorem C20_tables_tie), so a change of a status name, of a counted status, of a JUnit rule or of a summary line breaks the build
of the obligations.  Strings are emitted as lists of code points.

Pinned without being emitted (the hand-written model is built on them; any other shape aborts): _get_duration, Report.duration,
ReportStats.from_results / from_report / from_suites, Report.build_message (every variable is evaluated), _percent and
ReportStats.successful_tests_percentage (integer arithmetic `* 100 //`).  The shapes accepted are those of the code WITH the
repairs F12, F13, F14, F18 (DESIGN.md section 6): a tree without one of them is rejected (fail-closed)."""
import ast
import os

from tables import TranslationError
from lib import c_str

PROPS = ["C20"]


def fail(node, msg):
    raise TranslationError("tables_views: %s (line %s): %s" % (msg, getattr(node, "lineno", "?"),
                                                               ast.unparse(node)[:200] if isinstance(node, ast.AST) else node))


def parse(repo, rel):
    path = os.path.join(repo, rel)
    return ast.parse(open(path, encoding="utf-8").read(), path)


def find(tree, kind, name):
    for n in tree.body if hasattr(tree, "body") else []:
        if isinstance(n, kind) and getattr(n, "name", None) == name:
            return n
    fail(tree if isinstance(tree, ast.AST) and hasattr(tree, "lineno") else "<module>", "no %s named %s" % (kind.__name__, name))


def norm(src):
    """canonical text (ast.unparse) of a statement / expression given as source"""
    return ast.unparse(ast.parse(src))


def body_src(fn):
    """the statements of a function as canonical text, docstring dropped"""
    body = fn.body
    if body and isinstance(body[0], ast.Expr) and isinstance(body[0].value, ast.Constant) and isinstance(body[0].value.value, str):
        body = body[1:]
    return [ast.unparse(x) for x in body]


def const_str(node):
    if isinstance(node, ast.Constant) and isinstance(node.value, str):
        return node.value
    fail(node, "expected a string constant")


def by_status_key(node, owner):
    """`<owner>.tests_nb_by_status["x"]` -> "x" """
    if isinstance(node, ast.Subscript) and ast.unparse(node.value) == owner + ".tests_nb_by_status":
        return const_str(node.slice)
    fail(node, "expected %s.tests_nb_by_status[...]" % owner)


def report_tables(repo):
    tree = parse(repo, "lemoncheesecake/reporting/report.py")
    # Result.STATUSES = "passed", "failed", ...
    res = find(tree, ast.ClassDef, "Result")
    statuses = None
    for n in res.body:
        if isinstance(n, ast.Assign) and ast.unparse(n.targets[0]) == "STATUSES":
            if not isinstance(n.value, ast.Tuple):
                fail(n, "STATUSES is not a tuple")
            statuses = [const_str(e) for e in n.value.elts]
    if statuses is None:
        fail(res, "Result.STATUSES not found")
    # Log.LEVEL_ERROR
    log = find(tree, ast.ClassDef, "Log")
    level_error = None
    for n in log.body:
        if isinstance(n, ast.Assign) and ast.unparse(n.targets[0]) == "LEVEL_ERROR":
            level_error = const_str(n.value)
    if level_error is None:
        fail(log, "Log.LEVEL_ERROR not found")
    # ReportStats.__init__ / tests_enabled_nb
    rs = find(tree, ast.ClassDef, "ReportStats")
    init = find(rs, ast.FunctionDef, "__init__")
    if "self.tests_nb_by_status = {s: 0 for s in Result.STATUSES}" not in [ast.unparse(s) for s in init.body]:
        fail(init, "tests_nb_by_status is not {s: 0 for s in Result.STATUSES}")
    en = find(rs, ast.FunctionDef, "tests_enabled_nb")
    if len(en.body) != 1 or not isinstance(en.body[0], ast.Return):
        fail(en, "tests_enabled_nb: unexpected body")
    call = en.body[0].value
    if not (isinstance(call, ast.Call) and ast.unparse(call.func) == "sum" and len(call.args) == 1 and
            isinstance(call.args[0], ast.Tuple)):
        fail(call, "tests_enabled_nb is not sum((...))")
    enabled = [by_status_key(e, "self") for e in call.args[0].elts]
    # from_results: the counting loop
    fr = find(rs, ast.FunctionDef, "from_results")
    src = [ast.unparse(s) for s in fr.body]
    for want in ("tests = list(filter(lambda r: isinstance(r, TestResult), results))", "stats.tests_nb = len(tests)",
                 "for test in tests:\n    if test.status:\n        stats.tests_nb_by_status[test.status] += 1"):
        if want not in src:
            fail(fr, "from_results: statement not found: %s" % want)
    # from_report / from_suites (F13 repaired: None-safe duration, empty selection accepted)
    if body_src(find(rs, ast.FunctionDef, "from_report")) != \
            [norm("return cls.from_results(list(report.all_results()), report.duration)")]:
        fail(rs, "from_report: unexpected body")
    if body_src(find(rs, ast.FunctionDef, "from_suites")) != [
            norm("results = list(flatten_results(suites))"),
            norm("return cls.from_results(results, _get_duration(results[0].start_time, results[-1].end_time) "
                 "if results and not parallelized else None)")]:
        fail(find(rs, ast.FunctionDef, "from_suites"), "from_suites: unexpected body")
    # _get_duration, Report.duration, Report.build_message
    if body_src(find(tree, ast.FunctionDef, "_get_duration")) != [norm(
            "if start_time is not None and end_time is not None:\n    return end_time - start_time\nelse:\n    return None")]:
        fail(find(tree, ast.FunctionDef, "_get_duration"), "_get_duration: unexpected body")
    rep_cls = find(tree, ast.ClassDef, "Report")
    if body_src(find(rep_cls, ast.FunctionDef, "duration")) != [norm("return _get_duration(self.start_time, self.end_time)")]:
        fail(rep_cls, "Report.duration: unexpected body")
    if body_src(find(rep_cls, ast.FunctionDef, "build_message")) != [
            norm("stats = ReportStats.from_report(self)"),
            norm("variables = {name: func(self, stats) for name, func in _report_message_variables.items()}"),
            norm("return template.format(**variables)")]:
        fail(rep_cls, "Report.build_message: unexpected body")
    # _percent (F18 repaired: integer arithmetic)
    pc = find(tree, ast.FunctionDef, "_percent")
    if [a.arg for a in pc.args.args] != ["val", "of"] or body_src(pc) != [norm("return '%d%%' % (val * 100 // of if of else 0)")]:
        fail(pc, "_percent: unexpected body")
    # _report_message_variables
    mv = None
    for n in tree.body:
        if isinstance(n, ast.Assign) and ast.unparse(n.targets[0]) == "_report_message_variables":
            mv = n.value
    if not isinstance(mv, ast.Dict):
        fail(tree.body[0], "_report_message_variables is not a dict literal")
    mvars = []
    for k, v in zip(mv.keys, mv.values):
        name = const_str(k)
        if not (isinstance(v, ast.Lambda) and [a.arg for a in v.args.args] == ["report", "stats"]):
            fail(v, "message variable %s is not lambda report, stats" % name)
        body = v.body
        text = ast.unparse(body)
        if name in ("start_time", "end_time"):
            if text != "time.asctime(time.localtime(report.%s))" % name:
                fail(body, "unexpected %s" % name)
            mvars.append((name, "", ""))
        elif name == "duration":      # F14 repaired
            if text != norm("humanize_duration(report.duration) if report.duration is not None else 'n/a'"):
                fail(body, "unexpected duration")
            mvars.append((name, "None->n/a", ""))
        elif text == "stats.tests_nb":
            mvars.append((name, "*", ""))
        elif text == "stats.tests_enabled_nb":
            mvars.append((name, "enabled", ""))
        elif isinstance(body, ast.Subscript):
            mvars.append((name, by_status_key(body, "stats"), ""))
        elif isinstance(body, ast.Call) and ast.unparse(body.func) == "_percent" and len(body.args) == 1 and \
                [kw.arg for kw in body.keywords] == ["of"]:
            of = {"stats.tests_enabled_nb": "enabled", "stats.tests_nb": "*"}.get(ast.unparse(body.keywords[0].value))
            if of is None:
                fail(body, "unexpected `of`")
            mvars.append((name, by_status_key(body.args[0], "stats"), of))
        else:
            fail(body, "unrecognised message variable %s" % name)
    return statuses, level_error, enabled, mvars


def junit_tables(repo, level_error):
    tree = parse(repo, "lemoncheesecake/reporting/backends/junit.py")
    f = find(tree, ast.FunctionDef, "_serialize_test_result")
    ifs = [s for s in f.body if isinstance(s, ast.If)]
    others = [s for s in f.body if not isinstance(s, (ast.If, ast.Assign, ast.Return))]
    if len(ifs) != 1 or others:
        fail(f, "_serialize_test_result: unexpected statements")
    top = ifs[0]
    rules = []

    def child_tag(stmts, what):
        if len(stmts) != 1 or not (isinstance(stmts[0], ast.Expr) and isinstance(stmts[0].value, ast.Call)):
            fail(stmts[0] if stmts else top, "%s: expected a single make_xml_child call" % what)
        c = stmts[0].value
        if ast.unparse(c.func) != "make_xml_child" or ast.unparse(c.args[0]) != "xml_test":
            fail(c, "%s: expected make_xml_child(xml_test, ...)" % what)
        return const_str(c.args[1])
    if ast.unparse(top.test) != "test.status == 'skipped'":
        fail(top.test, "unexpected first condition")
    rules.append(("status==skipped", child_tag(top.body, "skipped branch")))
    # F12 repaired: the failure/error children are emitted under `elif test.status == "failed":` (a plain `else:` is rejected)
    if len(top.orelse) != 1 or not isinstance(top.orelse[0], ast.If):
        fail(top, "the branch after the skipped one is not `elif test.status == 'failed':`")
    guard = top.orelse[0]
    if ast.unparse(guard.test) != "test.status == 'failed'" or guard.orelse:
        fail(guard, "the branch after the skipped one is not a final `elif test.status == 'failed':`")
    if len(guard.body) != 1 or not isinstance(guard.body[0], ast.For) or ast.unparse(guard.body[0].iter) != "test.get_steps()":
        fail(guard, "failed branch is not `for step in test.get_steps()`")
    inner = guard.body[0].body
    if len(inner) != 1 or not isinstance(inner[0], ast.For) or ast.unparse(inner[0].iter) != "step.get_logs()":
        fail(guard.body[0], "expected `for log in step.get_logs()`")
    chain = inner[0].body
    if len(chain) != 1 or not isinstance(chain[0], ast.If):
        fail(inner[0], "expected one if/elif chain over the log")
    node = chain[0]
    conds = {"isinstance(log, Check) and log.is_successful is False": "check:unsuccessful",
             "isinstance(log, Log) and log.level == Log.LEVEL_ERROR": "log:level==" + level_error}
    while node is not None:
        text = ast.unparse(node.test)
        if text not in conds:
            fail(node.test, "unrecognised log condition")
        rules.append(("status==failed&" + conds[text], child_tag(node.body, text)))
        if not node.orelse:
            node = None
        elif len(node.orelse) == 1 and isinstance(node.orelse[0], ast.If):
            node = node.orelse[0]
        else:
            fail(node, "unexpected else branch in the log chain")
    # _serialize_suite_result
    g = find(tree, ast.FunctionDef, "_serialize_suite_result")
    call = None
    for s in g.body:
        if isinstance(s, ast.Assign) and ast.unparse(s.targets[0]) == "xml_suite":
            call = s.value
    if call is None or ast.unparse(call.func) != "make_xml_node" or const_str(call.args[0]) != "testsuite":
        fail(g, "xml_suite = make_xml_node('testsuite', ...) not found")
    args = call.args[1:]
    if len(args) % 2:
        fail(call, "odd number of attribute arguments")
    suite = []
    for k, v in zip(args[0::2], args[1::2]):
        name, text = const_str(k), ast.unparse(v)
        if name == "tests":
            if text != "str(len(tests))":
                fail(v, "unexpected tests attribute")
            suite.append((name, "*"))
        elif name in ("name", "time", "timestamp"):
            continue
        else:
            pre, post = "str(len(list(filter(lambda t: t.status == '", "', tests))))"
            if not (text.startswith(pre) and text.endswith(post)):
                fail(v, "unrecognised counter attribute %s" % name)
            suite.append((name, text[len(pre):-len(post)]))
    if "tests = suite.get_tests()" not in [ast.unparse(s) for s in g.body]:
        fail(g, "tests = suite.get_tests() not found")
    # serialize_report_as_xml_tree
    h = find(tree, ast.FunctionDef, "serialize_report_as_xml_tree")
    topattrs = []
    for s in h.body:
        if isinstance(s, ast.Assign) and isinstance(s.targets[0], ast.Subscript) and \
                ast.unparse(s.targets[0].value) == "xml_report.attrib":
            v = s.value
            if not (isinstance(v, ast.Call) and ast.unparse(v.func) == "str" and len(v.args) == 1):
                fail(s, "unexpected testsuites attribute")
            topattrs.append((const_str(s.targets[0].slice), by_status_key(v.args[0], "stats")))
    src = [ast.unparse(s) for s in h.body]
    for want in ("stats = ReportStats.from_report(report)",
                 "for suite in report.all_suites():\n    if suite.get_tests():\n        xml_report.append(_serialize_suite_result(suite))",
                 "if report.end_time is not None:\n    xml_report.attrib['time'] = _serialization_duration(report.end_time - report.start_time)"):
        if want not in src:
            fail(h, "serialize_report_as_xml_tree: statement not found: %s" % want.split("\n")[0])
    return rules, suite, topattrs


def console_tables(repo):
    tree = parse(repo, "lemoncheesecake/reporting/backends/console.py")
    f = find(tree, ast.FunctionDef, "_make_test_status_label")
    node = f.body[0]
    if not isinstance(node, ast.If):
        fail(f, "_make_test_status_label does not start with an if chain")
    labels = []

    def label_of(stmts):
        if len(stmts) != 1 or not isinstance(stmts[0], ast.Assign) or ast.unparse(stmts[0].targets[0]) != "label":
            fail(stmts[0], "expected label = '..'")
        return const_str(stmts[0].value)
    while True:
        t = node.test
        if isinstance(t, ast.Compare) and ast.unparse(t.left) == "status" and len(t.ops) == 1:
            if isinstance(t.ops[0], ast.Eq):
                keys = [const_str(t.comparators[0])]
            elif isinstance(t.ops[0], ast.In) and isinstance(t.comparators[0], ast.Tuple):
                keys = ["None" if (isinstance(e, ast.Constant) and e.value is None) else const_str(e) for e in t.comparators[0].elts]
            else:
                fail(t, "unrecognised label condition")
        else:
            fail(t, "unrecognised label condition")
        for k in keys:
            labels.append((k, label_of(node.body)))
        if len(node.orelse) == 1 and isinstance(node.orelse[0], ast.If):
            node = node.orelse[0]
        else:
            labels.append(("*", label_of(node.orelse)))
            break
    # _print_summary
    g = find(tree, ast.FunctionDef, "_print_summary")
    summary = []

    def line(stmt, cond):
        text = ast.unparse(stmt)
        import re
        m = re.fullmatch(r"print\(' \* (\w+): %d' % stats\.tests_nb_by_status\['(\w+)'\]\)", text)
        if m:
            summary.append((m.group(1), m.group(2), cond))
            return True
        m = re.fullmatch(r"print\(' \* (\w+): %d \(%d%%\)' % \(stats\.tests_nb_by_status\['(\w+)'\], "
                         r"stats\.successful_tests_percentage\)\)", text)
        if m:
            summary.append((m.group(1), m.group(2), "pct"))
            return True
        if text == "print(' * Tests: %d' % stats.tests_nb)":
            summary.append(("Tests", "*", ""))
            return True
        return False
    for s in g.body:
        if isinstance(s, ast.If):
            t = ast.unparse(s.test)
            if t == "parallel":
                continue
            if len(s.body) != 1 or s.orelse or not t.startswith("stats.tests_nb_by_status["):
                fail(s, "_print_summary: unrecognised conditional line")
            st = by_status_key(s.test, "stats")
            if not line(s.body[0], "if") or summary[-1][1] != st:
                fail(s, "_print_summary: the condition and the printed number differ")
        elif isinstance(s, ast.Expr):
            text = ast.unparse(s)
            if text in ("print()", "print(colored('Statistics', attrs=['bold']), ':')") or text.startswith("print(' * Duration: "):
                continue
            if not line(s, ""):
                fail(s, "_print_summary: unrecognised line")
        else:
            fail(s, "_print_summary: unrecognised statement")
    sp = None
    rtree = parse(repo, "lemoncheesecake/reporting/report.py")
    rs = find(rtree, ast.ClassDef, "ReportStats")
    sp = find(rs, ast.FunctionDef, "successful_tests_percentage")
    if body_src(sp) != \
            [norm("return self.tests_nb_by_status['passed'] * 100 // self.tests_enabled_nb if self.tests_enabled_nb else 0")]:
        fail(sp, "successful_tests_percentage: unexpected body (F18 repaired: integer arithmetic)")
    return labels, summary


def c_strs(xs):
    return "[" + "; ".join(c_str(x) for x in xs) + "]"


def c_tuples(ts):
    return "[" + ";\n   ".join("(" + ", ".join(c_str(x) for x in t) + ")" for t in ts) + "]"


def generate(repo):
    statuses, level_error, enabled, mvars = report_tables(repo)
    rules, suite, topattrs = junit_tables(repo, level_error)
    labels, summary = console_tables(repo)
    t = "(* GENERATED by harness/tables_views.py from lemoncheesecake/reporting/{report.py,backends/junit.py,backends/console.py}. Do not edit. *)\n"
    t += "From Coq Require Import List NArith.\nImport ListNotations.\n"
    t += "Definition gen_statuses : list (list N) := %s.\n" % c_strs(statuses)
    t += "Definition gen_enabled : list (list N) := %s.\n" % c_strs(enabled)
    t += "Definition gen_message_vars : list (list N * list N * list N) :=\n  %s.\n" % c_tuples(mvars)
    t += "Definition gen_junit_rules : list (list N * list N) :=\n  %s.\n" % c_tuples(rules)
    t += "Definition gen_junit_suite : list (list N * list N) := %s.\n" % c_tuples(suite)
    t += "Definition gen_junit_top : list (list N * list N) := %s.\n" % c_tuples(topattrs)
    t += "Definition gen_console_labels : list (list N * list N) :=\n  %s.\n" % c_tuples(labels)
    t += "Definition gen_console_summary : list (list N * list N * list N) :=\n  %s.\n" % c_tuples(summary)
    return {"TablesViews.v": t}


if __name__ == "__main__":
    import sys
    print(generate(sys.argv[1] if len(sys.argv) > 1 else "/repo")["TablesViews.v"])
