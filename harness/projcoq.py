"""Gallina printer: abstract project description (projbuild.py format) -> terms of Model/Proj.v."""
from projbuild import num
from lib import c_bool, c_list, c_opt

SCOPE = {"test": "ScTest", "suite": "ScSuite", "session": "ScSession", "pre_run": "ScPreRun"}
RAISE = {"Exception": "ExcException", "AbortTest": "ExcAbortTest", "AbortSuite": "ExcAbortSuite",
         "AbortAllTests": "ExcAbortAllTests", "UserError": "ExcUserError", "Base": "ExcBase"}


def c_name(n):
    if n.startswith("inj:"):
        n = n[4:]
    return str(num(n))


def c_names(l):
    return c_list(l, c_name)


def c_pathstr(p):
    return c_list(p.split("."), c_name) if p else "[]"


def c_action(a):
    op = a[0]
    if op == "log":
        return "ALog %d %d" % (a[1], a[2])
    if op == "check":
        return "ACheck %s %d" % (c_bool(a[1]), a[2])
    if op == "url":
        return "AUrl %d" % a[1]
    if op == "attach":
        return "AAttach %d" % a[1]
    if op == "step":
        return "ASetStep %d" % a[1]
    if op == "mark":
        return "AMark %d" % a[1]
    if op == "use":
        return "AUse %s" % c_name(a[1])
    if op == "spawn":
        return "ASpawn %s" % c_script(a[1])
    if op == "join":
        return "AJoin"
    if op == "raise":
        return "ARaise %s" % RAISE[a[1]]
    raise ValueError(op)


def c_script(s):
    return c_list(s, c_action)


def c_fixture(f):
    return "mkFixture %s %s %s %s false %s %s %s" % (
        c_name(f["name"]), SCOPE[f["scope"]], c_names(f["params"]), c_bool(f.get("per_thread")),
        c_bool(f.get("generator")), c_script(f["setup"]), c_script(f.get("teardown") or []))


def c_test(t):
    return "mkTest %s %s %s %s %s %s" % (
        c_name(t["name"]), c_bool(t.get("disabled")), c_list(t.get("deps", []), c_pathstr), c_names(t["args"]),
        c_names(list(t.get("params", {}).keys())), c_script(t["body"]))


def c_hooks(h):
    h = h or {}
    ss = h.get("setup_suite")
    return "(mkHooks %s %s %s %s)" % (
        "None" if not ss else "(Some (%s, %s))" % (c_names(ss["args"]), c_script(ss["script"])),
        c_opt(h.get("teardown_suite"), c_script), c_opt(h.get("setup_test"), c_script), c_opt(h.get("teardown_test"), c_script))


def c_suite(s):
    return "(Suite %s %s %s %s\n      %s\n      %s)" % (
        c_name(s["name"]), c_bool(s.get("disabled")), c_hooks(s.get("hooks")), c_names(s.get("injected") or []),
        c_list(s.get("tests", []), lambda t: "(" + c_test(t) + ")"), c_list(s.get("subs", []), c_suite))


def c_project(pd):
    suites = c_list(pd["suites"], c_suite)
    return "(mkProject %s\n    %s\n    %s)" % (c_list(pd.get("fixtures", []), lambda f: "(" + c_fixture(f) + ")"), suites, suites)
