"""Seeded generator of abstract projects (see projbuild.py for the format) — valid by construction.
Profiles tune feature rates; every choice comes from the rng passed in."""

SCOPES = ["test", "suite", "session", "pre_run"]
LEVEL = {"test": 1, "suite": 2, "session": 3, "pre_run": 4}

DEFAULT = dict(
    max_depth=3, max_tests=4, max_subs=2, max_top=2, max_fixtures=6,
    p_disabled_test=0.12, p_disabled_suite=0.08, p_dep=0.25, p_hook=0.3, p_inject=0.2, p_param=0.15,
    p_empty_suite=0.0, p_per_thread=0.0, p_generator=0.6, p_fixture_arg=0.5,
    script_len=4, p_fail=0.18, p_spawn=0.08, p_mark=0.35,
    raise_kinds=["Exception", "AbortTest", "AbortSuite", "AbortAllTests"], p_raise_in_fail=0.45,
    fail_in_fixtures=True, fail_in_hooks=True, tied_ranks=False,
)


class Gen:
    def __init__(self, rng, **profile):
        self.rng = rng
        self.p = dict(DEFAULT)
        self.p.update(profile)
        self.counter = 2
        self.mark = 0
        self.payload = 0
        self.tests = []     # (path, test dict)

    def fresh(self):
        self.counter += 1
        return self.counter

    def chance(self, key):
        return self.rng.random() < self.p[key]

    # ---------------------------------------------------------------- scripts
    def script(self, can_fail=True, depth=0, allow_spawn=True):
        n = self.rng.randint(0, self.p["script_len"])
        out = []
        for _ in range(n):
            r = self.rng.random()
            self.payload += 1
            if can_fail and r < self.p["p_fail"]:
                if self.rng.random() < self.p["p_raise_in_fail"]:
                    out.append(["raise", self.rng.choice(self.p["raise_kinds"])])
                    break
                out.append(self.rng.choice([["log", 3, self.payload], ["check", False, self.payload]]))
            elif r < self.p["p_fail"] + self.p["p_mark"]:
                self.mark += 1
                out.append(["mark", self.mark])
            elif allow_spawn and depth < 2 and self.rng.random() < self.p["p_spawn"]:
                out.append(["spawn", self.script(can_fail, depth + 1)])
                if self.rng.random() < 0.5:
                    out.append(["join"])
            else:
                out.append(self.rng.choice([["log", self.rng.choice([0, 1, 2]), self.payload], ["check", True, self.payload],
                                            ["url", self.payload], ["attach", self.payload], ["step", self.payload]]))
        return out

    def marks(self):
        out = []
        for _ in range(self.rng.randint(0, 2)):
            self.mark += 1
            out.append(["mark", self.mark])
        return out

    # ---------------------------------------------------------------- fixtures
    def fixtures(self):
        fxs = []
        for _ in range(self.rng.randint(0, self.p["max_fixtures"])):
            scope = self.rng.choice(SCOPES)
            name = "f%d" % self.fresh()
            cands = [f for f in fxs if LEVEL[f["scope"]] >= LEVEL[scope] and (not f["per_thread"] or scope == "test")]
            params = [f["name"] for f in cands if self.rng.random() < 0.35]
            if self.rng.random() < 0.15:
                params.insert(self.rng.randint(0, len(params)), "fixture_name")
            per_thread = scope in ("session", "suite") and self.chance("p_per_thread")
            gen = self.chance("p_generator")
            cf = self.p["fail_in_fixtures"]
            if scope == "pre_run":      # no report location exists yet: pre_run fixtures cannot log (only marks here)
                setup, teardown = self.marks(), self.marks()
            else:
                setup, teardown = self.script(cf), self.script(cf)
            fxs.append({"name": name, "scope": scope, "params": params, "per_thread": per_thread, "generator": gen,
                        "setup": setup + [["use", p] for p in params if p != "fixture_name"],
                        "teardown": teardown if gen else []})
        return fxs

    # ---------------------------------------------------------------- suites
    def suite(self, fxs, prefix, depth):
        # names are only unique among siblings: a suite may bear the name of a suite that lives under another parent
        name = None
        seen = self.__dict__.setdefault("_suite_seen", [])
        if seen and self.rng.random() < self.p.get("p_dup_name", 0.2):
            cands = [n for n, pref in seen if pref != prefix and (n, prefix) not in seen]
            if cands:
                name = self.rng.choice(cands)
        if name is None:
            name = "s%d" % self.fresh()
        seen.append((name, prefix))
        path = prefix + name
        hooks = {"setup_suite": None, "teardown_suite": None, "setup_test": None, "teardown_test": None}
        suite_fx = [f["name"] for f in fxs if LEVEL[f["scope"]] >= 2 and not f["per_thread"]]
        cf = self.p["fail_in_hooks"]
        if self.chance("p_hook"):
            args = [f for f in suite_fx if self.rng.random() < 0.3]
            hooks["setup_suite"] = {"args": args, "script": self.script(cf) + [["use", a] for a in args]}
        if self.chance("p_hook"):
            hooks["teardown_suite"] = self.script(cf)
        if self.chance("p_hook"):
            hooks["setup_test"] = self.script(cf)
        if self.chance("p_hook"):
            hooks["teardown_test"] = self.script(cf)
        injected = [f for f in suite_fx if self.chance("p_inject") and self.rng.random() < 0.5]
        tests = []
        force_empty = depth > 1 and self.chance("p_empty_suite")      # a suite left without tests and sub-suites
        ntests = 0 if force_empty else self.rng.randint(0 if depth < self.p["max_depth"] else 1, self.p["max_tests"])
        for k in range(ntests):
            tname = None
            tseen = self.__dict__.setdefault("_test_seen", [])
            if tseen and self.rng.random() < self.p.get("p_dup_name", 0.2) * 0.75:
                cands = [n for n, pth in tseen if pth != path and (n, path) not in tseen]
                if cands:
                    tname = self.rng.choice(cands)
            if tname is None:
                tname = "t%d" % self.fresh()
            tseen.append((tname, path))
            args = [f["name"] for f in fxs if self.rng.random() < self.p["p_fixture_arg"] * 0.5]
            params = {}
            if self.chance("p_param"):
                pn = "p%d" % self.fresh()
                args.insert(self.rng.randint(0, len(args)), pn)
                params[pn] = self.rng.randint(0, 9)
            body = self.script(True) + [["use", a] for a in args if a not in params] + \
                [["use", "inj:" + n] for n in injected if self.rng.random() < 0.5]
            t = {"name": tname, "disabled": self.chance("p_disabled_test"), "rank": 0 if self.p["tied_ranks"] else k,
                 "deps": [], "args": args, "params": params, "body": body}
            tests.append(t)
            self.tests.append((path + "." + tname, t))
        subs = []
        if depth < self.p["max_depth"] and not force_empty:
            for _ in range(self.rng.randint(0, self.p["max_subs"])):
                subs.append(self.suite(fxs, path + ".", depth + 1))
        if not tests and not subs and not force_empty:
            tname = "t%d" % self.fresh()
            t = {"name": tname, "disabled": False, "rank": 0, "deps": [], "args": [], "params": {}, "body": self.script(True)}
            tests.append(t)
            self.tests.append((path + "." + tname, t))
        for i, s in enumerate(subs):
            s["rank"] = i
        return {"name": name, "disabled": self.chance("p_disabled_suite"), "rank": 0, "hooks": hooks, "injected": injected,
                "tests": tests, "subs": subs}

    def project(self):
        fxs = self.fixtures()
        suites = []
        for i in range(self.rng.randint(1, self.p["max_top"])):
            s = self.suite(fxs, "", 1)
            s["rank"] = i
            suites.append(s)
        # test dependencies: a random order guarantees acyclicity; edges go to tests earlier in that order
        order = list(self.tests)
        self.rng.shuffle(order)
        for i, (path, t) in enumerate(order):
            if i and self.chance("p_dep"):
                for _ in range(self.rng.choice([1, 1, 2])):
                    dep = order[self.rng.randrange(i)][0]
                    if dep not in t["deps"]:
                        t["deps"].append(dep)
                        # the same test named twice (a path and a predicate that both designate it): one dependency, listed twice
                        if self.rng.random() < self.p.get("p_dup_dep", 0.12):
                            t["deps"].append(dep)
                    # ... and a test of ANOTHER suite that bears the same name as that dependency (dependencies are paths, not names)
                    twins = [order[j][0] for j in range(i) if order[j][0] != dep and order[j][0].rsplit(".", 1)[-1] == dep.rsplit(".", 1)[-1]]
                    if twins and self.rng.random() < 0.6:
                        tw = self.rng.choice(twins)
                        if tw not in t["deps"]:
                            t["deps"].append(tw)
        return {"fixtures": fxs, "suites": suites}


def gen_project(rng, **profile):
    return Gen(rng, **profile).project()


def gen_sched(rng, kind=None, length=400):
    kind = kind or rng.choice(["zeros", "random", "last", "random", "bursts"])
    if kind == "zeros":
        return []
    if kind == "last":
        return [97] * length          # 97 mod k: spreads over the enabled set, mostly not the first
    if kind == "bursts":
        out = []
        while len(out) < length:
            out += [rng.randint(0, 7)] * rng.randint(1, 12)
        return out
    return [rng.randint(0, 7) for _ in range(length)]


def count_tests(pd):
    def cs(s):
        return len(s["tests"]) + sum(cs(x) for x in s["subs"])
    return sum(cs(s) for s in pd["suites"])


def filter_project(pd, exclude):
    """The scheduled part of a project when the tests whose path is in `exclude` are filtered out (testtree.filter_suites:
    hierarchy and order kept, suites left empty dropped)."""
    import copy

    def go(s, prefix):
        path = prefix + s["name"]
        s2 = dict(s)
        s2["tests"] = [t for t in s["tests"] if path + "." + t["name"] not in exclude]
        s2["subs"] = [x for x in (go(sub, path + ".") for sub in s["subs"]) if x is not None]
        if not s2["tests"] and not s2["subs"]:
            return None
        return s2
    return {"fixtures": pd["fixtures"], "suites": [x for x in (go(copy.deepcopy(s), "") for s in pd["suites"]) if x is not None]}


def all_test_paths(pd):
    out = []

    def go(s, prefix):
        path = prefix + s["name"]
        out.extend(path + "." + t["name"] for t in s["tests"])
        for sub in s["subs"]:
            go(sub, path + ".")
    for s in pd["suites"]:
        go(s, "")
    return out
