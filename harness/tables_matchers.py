"""Translator  lemoncheesecake/matching/**  ->  coq/theories/gen/TablesMatchers.v   (C16, C17).

What is read off the source (Python `ast`), fail-closed:
  * the wording: CONJUGATION_FORMS, the regular-verb rule of MatcherDescriptionTransformer.__call__, every template passed
    to `transformation(...)` by a build_description of the modelled matcher classes, type names, the "anything" wordings,
    the words and layout strings of the composite rendering and its length limit, the "Expect ..." sentence;
  * which of the recognised implementations two small functions have:
      operations._format_result_details : details[0].upper()  (FrdIndex0)  |  details[:1].upper()  (FrdSlice)
      composites.Not.build_description  : sets transformation.negative on the shared object (NotMutates)
                                          | passes a new transformer with the negation flipped (NotFresh)
      composites.AllOf / AnyOf.build_description : the relationship word is one constant (RelOneWord: rel_and / rel_or,
                                          and rel_all_neg / rel_any_neg are emitted equal to them: the source has no other word)
                                          | `W1 if transformation.negative else W2` (RelByNegation: W1 -> rel_all_neg /
                                          rel_any_neg, W2 -> rel_and / rel_or).  The four words are exported as they are in the
                                          source; that W1 of all_of is the word of any_of (De Morgan) is a theorem, not a pin.
      composites._build_single_line_description_if_suitable : its "an operand is a composite" test is
                                          isinstance(matcher, (AllOf, AnyOf))  (SlObjectTest: single_line_sees_through_of_source = false)
                                          | _is_composite(matcher)  (SlSeesThrough: = true), and then composites._is_composite must
                                          exist with the pinned shape (looks through Not and through a MatcherWrapper whose
                                          description is NotImplemented; MatcherWrapper.__init__ is pinned for that default)
How: every function listed in SPEC is located, its AST is normalised (string constants and integer constants > 1 replaced
by placeholders, docstrings dropped), the dump is hashed and compared with the recorded shape(s); the constants, in source
order, are bound to the names given in SPEC.  Any function that moved, changed shape or changed its number of constants
raises TranslationError: the hand-written model of that function (Model/Describe.v, Model/Matcher.v) is no longer known
to describe it, and the check reports a broken tie.

`python tables_matchers.py --shapes [repo]` prints the current shape hashes (used when a reviewed change of /repo is adopted).
"""
import ast
import hashlib
import os
import re
import sys

PROPS = ["C16", "C17"]
BASE = "lemoncheesecake/matching/"


class _TE(Exception):
    pass


def _terror(msg):
    try:
        from tables import TranslationError
    except Exception:  # stand-alone use
        TranslationError = _TE
    raise TranslationError("tables_matchers: " + msg)


# ----------------------------------------------------------------------------- AST helpers
class _Norm(ast.NodeTransformer):
    def __init__(self):
        self.consts = []

    def visit_Constant(self, node):
        if isinstance(node.value, str):
            self.consts.append(node.value)
            return ast.copy_location(ast.Name(id="__S%d" % (len(self.consts) - 1), ctx=ast.Load()), node)
        if isinstance(node.value, int) and not isinstance(node.value, bool) and node.value > 1:
            self.consts.append(node.value)
            return ast.copy_location(ast.Name(id="__I%d" % (len(self.consts) - 1), ctx=ast.Load()), node)
        return node


def _drop_docstring(node):
    body = getattr(node, "body", None)
    if isinstance(body, list) and body and isinstance(body[0], ast.Expr) and isinstance(getattr(body[0], "value", None), ast.Constant) \
            and isinstance(body[0].value.value, str):
        node.body = body[1:] or [ast.Pass()]
    return node


def _strip_annotations(node):
    for n in ast.walk(node):
        if isinstance(n, (ast.FunctionDef, ast.AsyncFunctionDef)):
            n.returns = None
            for a in n.args.args + n.args.kwonlyargs + n.args.posonlyargs:
                a.annotation = None
            if n.args.vararg:
                n.args.vararg.annotation = None
            if n.args.kwarg:
                n.args.kwarg.annotation = None
    return node


def shape_of(node):
    """(hash, constants) of a function / assignment node."""
    import copy
    node = copy.deepcopy(node)
    for n in ast.walk(node):
        _drop_docstring(n)
    _strip_annotations(node)
    nz = _Norm()
    node = nz.visit(node)
    dump = ast.dump(node, annotate_fields=False, include_attributes=False)
    return hashlib.sha256(dump.encode()).hexdigest()[:16], nz.consts


def find(tree, qual):
    """Locate `Class.method`, `function` or a module-level assignment `NAME =`."""
    parts = qual.split(".")
    body = tree.body
    node = None
    for i, p in enumerate(parts):
        found = None
        for n in body:
            if isinstance(n, (ast.FunctionDef, ast.ClassDef)) and n.name == p:
                if found is not None:
                    _terror("%s defined twice" % qual)
                found = n
            elif isinstance(n, ast.Assign) and len(n.targets) == 1 and isinstance(n.targets[0], ast.Name) and n.targets[0].id == p:
                if found is not None:
                    _terror("%s defined twice" % qual)
                found = n
        if found is None:
            _terror("%s not found" % qual)
        node = found
        body = getattr(found, "body", [])
    return node


# ----------------------------------------------------------------------------- what is extracted
# (file under lemoncheesecake/matching/, qualified name, [names bound to the constants in source order])
# the recorded shapes are in matchers_shapes.py: {"file:qualname": {shape hash: variant name or None}}
# a name starting with "_" means: constant checked to be present but not exported; "=literal" means it must equal literal.
# a dict instead of the list: {variant name of the recognised shape: names}.
SPEC = [
    ("matcher.py", "CONJUGATION_FORMS",
     ["cf_pat0", "cf_pat1", "cf_pat2", "cf_pat3", "cf0_c", "cf0_cn", "cf0_in", "cf1_c", "cf1_cn", "cf1_in",
      "cf2_c", "cf2_cn", "cf2_in", "cf3_c", "cf3_cn", "cf3_in"]),   # ast.Dict: keys first, then values
    ("matcher.py", "MatcherDescriptionTransformer.__init__", []),
    ("matcher.py", "MatcherDescriptionTransformer.__call__",
     ["reg_pattern", "reg_conj_neg_prefix", "reg_conj_suffix", "reg_neg_prefix", "_reg_unreachable"]),
    ("matcher.py", "MatcherWrapper.__init__", []),
    ("matcher.py", "MatcherWrapper.build_description", []),
    ("matcher.py", "Matcher.override_description", []),
    ("matcher.py", "Matcher.hide_result_details", []),
    ("matchers/composites.py", "_make_item", ["_item_default_prefix", "=\n", "=\n", "item_indent_first", "item_indent_next"]),
    ("matchers/composites.py", "_build_multi_line_description", ["=\n", "ml_head", "ml_prefix_rel", "ml_prefix_first"]),
    ("matchers/composites.py", "_build_single_line_description_if_suitable", ["=\n", "sl_join_format", "sl_limit"]),
    ("matchers/composites.py", "_build_composite_description", []),
    ("matchers/composites.py", "AllOf.build_description", {"RelOneWord": ["rel_and"], "RelByNegation": ["rel_all_neg", "rel_and"]}),
    ("matchers/composites.py", "AnyOf.build_description", {"RelOneWord": ["rel_or"], "RelByNegation": ["rel_any_neg", "rel_or"]}),
    ("matchers/composites.py", "Anything.__init__", ["w_anything"]),
    ("matchers/composites.py", "Anything.build_description", []),
    ("matchers/composites.py", "anything", []),
    ("matchers/composites.py", "something", ["w_something"]),
    ("matchers/composites.py", "existing", ["w_exist"]),
    ("matchers/composites.py", "present", ["w_present"]),
    ("matchers/composites.py", "is_", []),
    ("matchers/composites.py", "not_", []),
    ("matchers/composites.py", "Not.__init__", []),
    ("matchers/composites.py", "Not.build_description", []),
    ("matchers/value.py", "EqualTo.build_description", ["tpl_equal_to"]),
    ("matchers/value.py", "_Comparator.build_description", ["tpl_comparator"]),
    ("matchers/value.py", "not_equal_to", ["cmp_ne"]),
    ("matchers/value.py", "greater_than", ["cmp_gt"]),
    ("matchers/value.py", "greater_than_or_equal_to", ["cmp_ge"]),
    ("matchers/value.py", "less_than", ["cmp_lt"]),
    ("matchers/value.py", "less_than_or_equal_to", ["cmp_le"]),
    ("matchers/value.py", "IsBetween.build_description", ["tpl_is_between"]),
    ("matchers/value.py", "IsNone.build_description", ["tpl_is_none"]),
    ("matchers/value.py", "is_not_none", []),
    ("matchers/value.py", "HasLength.build_description", ["tpl_has_length"]),
    ("matchers/value.py", "has_length", []),
    ("matchers/value.py", "is_true", []),
    ("matchers/value.py", "is_false", []),
    ("matchers/string.py", "StartsWith.build_description", ["tpl_starts_with"]),
    ("matchers/string.py", "EndsWith.build_description", ["tpl_ends_with"]),
    ("matchers/string.py", "ContainsString.build_description", ["tpl_contains_string"]),
    ("matchers/list_.py", "_jsonify_items", ["items_sep"]),
    ("matchers/list_.py", "HasItem.build_description", ["tpl_has_item"]),
    ("matchers/list_.py", "HasItems.build_description", ["tpl_has_items"]),
    ("matchers/list_.py", "HasOnlyItems.build_description", ["tpl_has_only_items"]),
    ("matchers/list_.py", "HasAllItems.build_description", ["tpl_has_all_items"]),
    ("matchers/list_.py", "IsIn.build_description", ["tpl_is_in"]),
    ("matchers/dict_.py", "KeyPathMatcher.build_description", ["path_sep"]),
    ("matchers/dict_.py", "wrap_key_matcher", []),
    ("matchers/dict_.py", "HasEntry.build_description", ["tpl_has_entry", "has_entry_that"]),
    ("matchers/dict_.py", "has_entry", []),
    ("matchers/types_.py", "IsValueOfType.build_description", ["tpl_is_type", "tpl_is_type_that"]),
    ("matchers/types_.py", "_is_type", []),
    ("matchers/types_.py", "is_integer", ["ty_int"]),
    ("matchers/types_.py", "is_bool", ["ty_bool"]),
    ("matchers/types_.py", "is_str", ["ty_str"]),
    ("matchers/types_.py", "is_dict", ["ty_dict"]),
    ("matchers/types_.py", "is_list", ["ty_list"]),
    ("operations.py", "_format_result_details", []),
    ("operations.py", "_log_match_result", ["tpl_expect_hint", "tpl_expect"]),
    ("../helpers/text.py", "jsonify", []),
]

# functions that exist only in some variants of the source: (file, qualname, names, lambda variants: required?)
CONDITIONAL = [
    ("matchers/composites.py", "_is_composite", [],
     lambda variants: variants["_build_single_line_description_if_suitable"] == "SlSeesThrough"),
]


def load_shapes():
    p = os.path.join(os.path.dirname(os.path.abspath(__file__)), "matchers_shapes.py")
    ns = {}
    exec(open(p).read(), ns)
    return ns["SHAPES"]


def parse_sources(repo):
    trees = {}
    for f in sorted(set(s[0] for s in SPEC)):
        path = os.path.normpath(os.path.join(repo, BASE, f))
        try:
            trees[f] = ast.parse(open(path, encoding="utf-8").read())
        except (OSError, SyntaxError) as e:
            _terror("cannot parse %s: %s" % (path, e))
    return trees


def current_shapes(repo):
    trees = parse_sources(repo)
    res = {}
    for f, qual, names in SPEC:
        node = find(trees[f], qual)
        res[(f, qual)] = shape_of(node)
    for f, qual, names, _ in CONDITIONAL:
        try:
            res[(f, qual)] = shape_of(find(trees[f], qual))
        except Exception:
            res[(f, qual)] = None          # absent
    return res


# ----------------------------------------------------------------------------- Gallina
def c_str(s):
    return "[" + "; ".join("%d" % ord(ch) for ch in s) + "]%N"


def c_tpl(s, hole="%s"):
    """'to be %s and %s' -> list of the literal pieces around the holes."""
    return "[" + "; ".join(c_str(p) for p in s.split(hole)) + "]"


def generate(repo):
    shapes = load_shapes()
    cur = current_shapes(repo)
    vals, variants = {}, {}
    for f, qual, names in SPEC:
        h, consts = cur[(f, qual)]
        known = shapes.get("%s:%s" % (f, qual))
        if not known:
            _terror("no recorded shape for %s:%s" % (f, qual))
        if h not in known:
            _terror("%s:%s has an unrecognised shape %s (known: %s): the model of this function is not known to describe it"
                    % (f, qual, h, ", ".join(sorted(known))))
        variants[qual] = known[h]
        if isinstance(names, dict):
            if known[h] not in names:
                _terror("%s:%s: no constant names for the variant %r" % (f, qual, known[h]))
            names = names[known[h]]
        if len(consts) != len(names):
            _terror("%s:%s has %d constants, %d expected" % (f, qual, len(consts), len(names)))
        for n, c in zip(names, consts):
            if n.startswith("="):
                if c != n[1:]:
                    _terror("%s:%s constant %r expected to be %r" % (f, qual, c, n[1:]))
            elif not n.startswith("_"):
                if n in vals:
                    _terror("duplicate table entry " + n)
                vals[n] = c
    for f, qual, names, required in CONDITIONAL:
        known = shapes.get("%s:%s" % (f, qual)) or {}
        if required(variants):
            if cur[(f, qual)] is None:
                _terror("%s:%s not found although the source refers to it" % (f, qual))
            h, consts = cur[(f, qual)]
            if h not in known:
                _terror("%s:%s has an unrecognised shape %s (known: %s)" % (f, qual, h, ", ".join(sorted(known))))
            if len(consts) != len(names):
                _terror("%s:%s has %d constants, %d expected" % (f, qual, len(consts), len(names)))
    sl = variants["_build_single_line_description_if_suitable"]
    if sl not in ("SlObjectTest", "SlSeesThrough"):
        _terror("_build_single_line_description_if_suitable: unknown variant %r" % (sl,))
    # a composite whose build_description has a single relationship word uses it under every transformer
    for neg, pos, qual in (("rel_all_neg", "rel_and", "AllOf.build_description"), ("rel_any_neg", "rel_or", "AnyOf.build_description")):
        if variants[qual] == "RelOneWord":
            if neg in vals:
                _terror("duplicate table entry " + neg)
            vals[neg] = vals[pos]
        elif variants[qual] != "RelByNegation" or neg not in vals:
            _terror("%s: unknown variant %r" % (qual, variants[qual]))
    out = ["(* GENERATED by harness/tables_matchers.py from %s*.py -- do not edit. *)" % BASE,
           "From Coq Require Import List NArith ZArith.", "Import ListNotations.",
           "From LCC Require Import Model.PyVal Model.Matcher.", ""]
    # conjugation table: patterns must be ^(literal)
    forms = []
    for i in range(4):
        pat = vals.pop("cf_pat%d" % i)
        m = re.fullmatch(r"\^\(([a-z ]+)\)", pat)
        if not m:
            _terror("CONJUGATION_FORMS pattern %r is not ^(literal)" % pat)
        trip = [vals.pop("cf%d_%s" % (i, k)) for k in ("c", "cn", "in")]
        for s in trip:
            if "\\" in s:
                _terror("substitution %r contains a backslash" % s)
        forms.append("(%s, (%s, %s, %s))" % (c_str(m.group(1)), c_str(trip[0]), c_str(trip[1]), c_str(trip[2])))
    out.append("Definition conjugation_forms : list (str * (str * str * str)) :=\n  [%s]." % ";\n   ".join(forms))
    if vals.pop("reg_pattern") != r"^to (\w+)":
        _terror("regular verb pattern changed")
    out.append("Definition reg_prefix : str := %s." % c_str("to "))
    for n in ("reg_conj_neg_prefix", "reg_conj_suffix", "reg_neg_prefix"):
        out.append("Definition %s : str := %s." % (n, c_str(vals.pop(n))))
    fmt = vals.pop("sl_join_format")
    if fmt.count("{}") != 1 or "%" in fmt:
        _terror("single-line join format %r" % fmt)
    out.append("Definition sl_join_format : list str := %s." % c_tpl(fmt, "{}"))
    lim = vals.pop("sl_limit")
    if not isinstance(lim, int) or lim > 4000:
        _terror("single-line limit %r" % (lim,))
    out.append("Definition sl_limit : nat := %d." % lim)
    for n in sorted(vals):
        v = vals[n]
        if not isinstance(v, str):
            _terror("table entry %s is not a string: %r" % (n, v))
        if n.startswith("tpl_") or n == "ml_prefix_rel":
            if "%" in v.replace("%s", ""):
                _terror("template %s uses a format other than %%s: %r" % (n, v))
            out.append("Definition %s : list str := %s." % (n, c_tpl(v)))
        else:
            out.append("Definition %s : str := %s." % (n, c_str(v)))
    out.append("")
    out.append("(* operations._format_result_details and composites.Not.build_description as they are in the source now *)")
    out.append("Definition frd_of_source : frd_impl := %s." % variants["_format_result_details"])
    out.append("Definition not_of_source : not_impl := %s." % variants["Not.build_description"])
    out.append("(* composites._build_single_line_description_if_suitable: does its composite-operand test look through Not and "
               "through description-less wrappers (composites._is_composite)? *)")
    out.append("Definition single_line_sees_through_of_source : bool := %s." % ("true" if sl == "SlSeesThrough" else "false"))
    return {"TablesMatchers.v": "\n".join(out) + "\n"}


if __name__ == "__main__":
    repo = sys.argv[2] if len(sys.argv) > 2 else os.environ.get("VERIF_REPO", "/repo")
    if len(sys.argv) > 1 and sys.argv[1] == "--shapes":
        for (f, qual), hc in current_shapes(repo).items():
            print("%s:%s %s" % (f, qual, "absent" if hc is None else "%s %r" % hc))
    else:
        print(generate(repo)["TablesMatchers.v"])
