"""C10 driver: runs one generated project on the real runner (harness/corun.py, deterministic scheduler) with a real file
backend and a --save-report strategy, and observes the report file after EVERY event through a listener subscribed after the
file backend's session (so it sees the file as that event left it).

stdin: one JSON case  {"project":…, "options":…, "sched":…, "saving": "<expression>", "backend": "json"|"xml"|"junit",
                       "clock_step": <seconds between two reads of the session's clock, a multiple of 1/8>}
stdout (last line): JSON
  {"outcome":…, "events": [plain event…]         (props/c10.py c_event prints them as Gallina),
   "t0": ms, "clocks": [[c_call, c_saved]…]       what FileReportSession read from its clock while handling each event (0 = no read),
   "present": [bool…], "loadable": [bool|null…]   the report file after each event,
   "changes": [{"at": k, "nf": normal form of the loaded file | null, "error": str | null, "current": bool}]
                                                  k = number of events handled when the file was found rewritten (its bytes changed, or
                                                  backend.save_report was called: junit rewrites identical bytes when only logs were added),
                                                  current = the loaded file equals the in-memory report at that moment,
   "current": [bool|null…]                        after each event: does the file (if any) equal the in-memory report,
   "final": normal form of the in-memory report at the end, "final_file": normal form of the file at the end | null}
Clocks: lemoncheesecake.events.time is replaced by a counter clock (1 ms per read: event times are exact milliseconds, runs are
reproducible); reporting.backend.time and reporting.savingstrategy.time by a second counter clock (clock_step per read) whose
reads are recorded.  Nothing in /repo is modified."""
import json
import os
import sys
import traceback

BASE_S = 1700000000


class CounterClock:
    """time-module double: time() returns base + k*step_ms milliseconds (exactly representable for step = n/8 s; an exact
    millisecond for step = 1 ms).  Several doubles may share one counter (`shared`)."""

    def __init__(self, who, step_ms, log=None, shared=None):
        self.who, self.step_ms, self.log = who, step_ms, log
        self.shared = shared if shared is not None else {"k": 0}

    def time(self):
        self.shared["k"] += 1
        ms = BASE_S * 1000 + self.shared["k"] * self.step_ms
        if self.log is not None:
            self.log.append((self.who, ms))
        return ms / 1000.0

    def __getattr__(self, name):           # anything else: the real module
        import time as real
        return getattr(real, name)


def plain_event(e, thmap):
    """Real event object -> plain JSON-able value (shapes: see props/c10.py c_event; same convention as props/c18.py)."""
    k = e.__class__.get_name()
    t = int(round(e.time * 1000))

    def _sort_key(n):
        # Events.n_rank: suite.rank for a suite; for a test the integer order-isomorphic to the pair ReportWriter sorts by,
        # (test.rank, position of the test in its suite): rank * 2^20 + position (see Model/Events.v, harness/props/c18.py)
        from lemoncheesecake.testtree import BaseTest
        rank = getattr(n, "rank", 0)
        if not isinstance(n, BaseTest):
            # suites (repair F24): (suite.rank, position among the parent's suites / given by the runner to a top-level suite)
            if n.parent_suite:
                spos = next((i for i, x in enumerate(n.parent_suite.get_suites()) if x is n), 0)
            else:
                spos = getattr(n, "position", 0)
            return rank * (2 ** 20) + spos
        siblings = n.parent_suite.get_tests() if n.parent_suite else [n]
        pos = next((i for i, x in enumerate(siblings) if x is n), 0)
        return rank * (2 ** 20) + pos

    def node(n):
        hier = list(n.hierarchy)
        return {"parent": [x.name for x in hier[:-1]],
                "meta": {"name": n.name, "description": n.description, "tags": list(n.tags),
                         "properties": [[a, b] for a, b in n.properties.items()], "links": [[u, d] for u, d in n.links]},
                "rank": _sort_key(n)}

    def loc(l):
        kinds = {0: "session_setup", 1: "session_teardown", 2: "suite_setup", 3: "suite_teardown", 4: "test"}
        return [kinds[l.node_type]] + ([list(l.node_hierarchy)] if l.node_hierarchy is not None else [])

    def th():
        return thmap.setdefault(e.thread_id, len(thmap) + 1)
    if k in ("test_session_start", "test_session_end", "test_session_setup_start", "test_session_setup_end",
             "test_session_teardown_start", "test_session_teardown_end"):
        return [k, t]
    if k in ("suite_start", "suite_end", "suite_setup_start", "suite_setup_end", "suite_teardown_start", "suite_teardown_end"):
        return [k, node(e.suite), t]
    if k in ("test_start", "test_end"):
        return [k, node(e.test), t]
    if k == "test_skipped":
        return [k, node(e.test), e.skipped_reason, t]
    if k == "test_disabled":
        return [k, node(e.test), e.disabled_reason, t]
    if k == "step_start":
        return [k, loc(e.location), e.step_description, th(), t]
    if k == "step_end":
        return [k, loc(e.location), e.step, th(), t]
    if k == "log":
        return [k, loc(e.location), e.step, th(), e.log_level, e.log_message, t]
    if k == "check":
        return [k, loc(e.location), e.step, th(), e.check_description, bool(e.check_is_successful), e.check_details, t]
    if k == "log_attachment":
        return [k, loc(e.location), e.step, th(), e.attachment_path, e.attachment_description, bool(e.as_image), t]
    if k == "log_url":
        return [k, loc(e.location), e.step, th(), e.url, e.url_description, t]
    raise ValueError("unknown event %s" % k)


def same_but_saving(a, b):
    if a is None or b is None:
        return False
    a, b = dict(a), dict(b)
    a["saving"] = b["saving"] = None
    return a == b


def run(case):
    import corun
    import gen_reports
    import lemoncheesecake.events as lcc_events
    import lemoncheesecake.reporting.backend as lcc_backend
    import lemoncheesecake.reporting.savingstrategy as lcc_strategy
    from lemoncheesecake.reporting.backends import JsonBackend, XmlBackend, JunitBackend

    obs = {"events": [], "clocks": [], "present": [], "loadable": [], "changes": [], "current": [], "t0": None}
    reads = []
    backend_name = case["backend"]
    loader = {"json": JsonBackend, "xml": XmlBackend, "junit": JunitBackend}[backend_name]()
    fname = loader.get_report_filename()
    state = {"bytes": None, "nf": None, "dir": None, "report": None}
    thmap = {}

    def load(path):
        if backend_name == "junit":            # no loader: well-formed XML stands for "loadable"
            import xml.etree.ElementTree as ET
            ET.parse(path)
            return None
        return gen_reports.normal_form(loader.load_report(path))

    class SnapshotSession(corun.RecordingSession):
        def handle(self, event):
            super().handle(event)
            obs["events"].append(plain_event(event, thmap))
            mine = list(reads)
            del reads[:]
            call = [ms for who, ms in mine if who == "strategy"]
            saved = [ms for who, ms in mine if who == "backend"]
            if len(call) > 1 or len(saved) > 1:
                obs.setdefault("driver_errors", []).append("several clock reads during one event: %r" % (mine,))
            obs["clocks"].append([call[0] if call else 0, saved[0] if saved else 0])
            path = os.path.join(state["dir"], fname)
            count = len(obs["events"])
            if os.path.exists(path):
                with open(path, "rb") as fh:
                    data = fh.read()
                obs["present"].append(True)
                if data != state["bytes"] or saves["n"] != state.get("saves_seen", 0):
                    state["bytes"] = data
                    state["saves_seen"] = saves["n"]
                    try:
                        state["nf"] = load(path)
                        state["err"] = None
                    except Exception as e:
                        state["nf"] = None
                        state["err"] = "%s: %s" % (type(e).__name__, str(e)[:200])
                    live = gen_reports.normal_form(state["report"])
                    obs["changes"].append({"at": count, "nf": state["nf"], "error": state["err"], "size": len(data),
                                           "current": same_but_saving(state["nf"], live) if backend_name != "junit" else None})
                obs["loadable"].append(state["err"] is None)
                if backend_name != "junit":
                    obs["current"].append(same_but_saving(state["nf"], gen_reports.normal_form(state["report"])))
                else:
                    obs["current"].append(None)
            else:
                obs["present"].append(False)
                obs["loadable"].append(None)
                obs["current"].append(None)

    class SnapshotBackend(corun.RecordingBackend):
        def create_reporting_session(self, report_dir, report, parallel, report_saving_strategy):
            state["dir"], state["report"] = report_dir, report
            s = SnapshotSession(self.stream, self.fault, self.names)
            for cls in lcc_events.EventManager._get_event_classes():
                setattr(s, "on_" + cls.get_name(), s.handle)
            return s

    step_ms = int(round(float(case.get("clock_step", 0.125)) * 1000))
    t0 = {}
    orig_init = lcc_backend.FileReportSession.__init__

    def init(self, *a, **kw):
        orig_init(self, *a, **kw)
        t0["v"] = int(round(self.last_saved_time * 1000))
        del reads[:]                      # the read of __init__ belongs to no event

    # a save that rewrites identical bytes (junit does not show logs) is still a save: count the calls of backend.save_report
    saves = {"n": 0}
    bcls = type(loader)
    orig_save = bcls.save_report

    def save_report(self, filename, report):
        saves["n"] += 1
        return orig_save(self, filename, report)
    bcls.save_report = save_report
    saved = (corun.RecordingBackend, lcc_events.time, lcc_backend.time, lcc_strategy.time)
    corun.RecordingBackend = SnapshotBackend
    lcc_events.time = CounterClock("events", 1)
    lcc_backend.time = CounterClock("backend", step_ms, reads)
    lcc_strategy.time = CounterClock("strategy", step_ms, reads, shared=lcc_backend.time.shared)
    lcc_backend.FileReportSession.__init__ = init
    try:
        c = dict(case)
        c["file_backends"] = [backend_name]
        c["file_first"] = True
        res = corun.run_case(c, watchdog=case.get("watchdog", 60.0))
    finally:
        corun.RecordingBackend, lcc_events.time, lcc_backend.time, lcc_strategy.time = saved
        lcc_backend.FileReportSession.__init__ = orig_init
        bcls.save_report = orig_save
    out = {"outcome": res.get("outcome"), "traceback": res.get("traceback"), "aborted": res.get("aborted")}
    out.update(obs)
    out["t0"] = t0.get("v")
    out["final"] = gen_reports.normal_form(state["report"]) if state["report"] is not None else None
    out["final_file"] = state["nf"]
    return out


class EventClock:
    """time-module double whose time depends only on HOW MANY EVENTS have been handled so far (step seconds per event): every
    reader sees the same time while one event is being handled, whatever the number of readers."""

    def __init__(self, events, step_s):
        self.events, self.step_s = events, step_s

    def time(self):
        return BASE_S + len(self.events) * self.step_s

    def __getattr__(self, name):
        import time as real
        return getattr(real, name)


def run_multi(case):
    """Several file backends at once ("multi": ["json", "xml", ...]) under one saving strategy: at which events (count of events
    handled so far) was each backend's report file rewritten?  -> {"outcome":…, "n_events": n, "refresh": {name: [k…]}}"""
    import corun
    import lemoncheesecake.events as lcc_events
    import lemoncheesecake.reporting.backend as lcc_backend
    import lemoncheesecake.reporting.savingstrategy as lcc_strategy
    from lemoncheesecake.reporting.backends import JsonBackend, XmlBackend, JunitBackend
    names = list(case["multi"])
    fnames = {n: {"json": JsonBackend, "xml": XmlBackend, "junit": JunitBackend}[n]().get_report_filename() for n in names}
    events, refresh, last, state = [], {n: [] for n in names}, {n: None for n in names}, {"dir": None}

    class MultiSession(corun.RecordingSession):
        def handle(self, event):
            super().handle(event)
            events.append(1)
            for n in names:
                path = os.path.join(state["dir"], fnames[n])
                if os.path.exists(path):
                    with open(path, "rb") as fh:
                        data = fh.read()
                    if data != last[n]:
                        last[n] = data
                        refresh[n].append(len(events))

    class MultiBackend(corun.RecordingBackend):
        def create_reporting_session(self, report_dir, report, parallel, report_saving_strategy):
            state["dir"] = report_dir
            s = MultiSession(self.stream, self.fault, self.names)
            for cls in lcc_events.EventManager._get_event_classes():
                setattr(s, "on_" + cls.get_name(), s.handle)
            return s
    saved = (corun.RecordingBackend, lcc_events.time, lcc_backend.time, lcc_strategy.time)
    corun.RecordingBackend = MultiBackend
    clock = EventClock(events, float(case.get("seconds_per_event", 100)))
    lcc_backend.time = clock
    lcc_strategy.time = clock
    try:
        c = dict(case)
        c["file_backends"] = names
        c["file_first"] = True
        res = corun.run_case(c, watchdog=case.get("watchdog", 60.0))
    finally:
        corun.RecordingBackend, lcc_events.time, lcc_backend.time, lcc_strategy.time = saved
    return {"outcome": res.get("outcome"), "traceback": res.get("traceback"), "n_events": len(events), "refresh": refresh}


def main():
    case = json.loads(sys.stdin.read())
    try:
        res = run_multi(case) if case.get("multi") else run(case)
    except Exception:
        res = {"outcome": ["driver_error", traceback.format_exc()[-3000:]]}
    sys.stdout.write("\n" + json.dumps(res, default=str) + "\n")
    sys.stdout.flush()
    os._exit(0)       # threads of a hung run cannot be reclaimed


if __name__ == "__main__":
    main()
