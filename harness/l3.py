"""Layer-3 correspondence: per-task, per-thread atoms of the implementation's trace as Gallina terms for Model/TaskSem.v."""
import re

import l1
from l1 import Unmodelled
from lib import c_bool, c_list, c_opt
from projbuild import num

LEVELS = {"debug": 0, "info": 1, "warn": 2, "error": 3}
FIXED_STEPS = {"Setup test session": "SdSetupSession", "Teardown test session": "SdTeardownSession",
               "Setup suite": "SdSetupSuite", "Teardown suite": "SdTeardownSuite", "Setup test": "SdSetupTest",
               "Teardown test": "SdTeardownTest"}
OWNERS = {"body": "OBody", "setup_test": "OSetupTest", "teardown_test": "OTeardownTest", "setup_suite": "OSetupSuite",
          "teardown_suite": "OTeardownSuite", "fxsetup": "OFxSetup", "fxteardown": "OFxTeardown"}
RAISE = {"Exception": "ExcException", "AbortTest": "ExcAbortTest", "AbortSuite": "ExcAbortSuite",
         "AbortAllTests": "ExcAbortAllTests", "UserError": "ExcUserError", "Base": "ExcBase"}
ARTEFACTS = {"decide", "take", "dispatch", "job_exception"}
CALLS = {"fx_setup_begin": ("AtBegin", "fxsetup"), "fx_setup_end": ("AtEnd", "fxsetup"),
         "fx_teardown_begin": ("AtBegin", "fxteardown"), "fx_teardown_end": ("AtEnd", "fxteardown")}
HOOKS = {"setup_suite": "OSetupSuite", "teardown_suite": "OTeardownSuite", "setup_test": "OSetupTest",
         "teardown_test": "OTeardownTest"}


def c_npath(p):
    return l1.c_path(p)


def c_tp(tp):
    return c_list(list(tp), str)


def parse_tag(tag):
    """'body:s1.t2#0.1' -> ('(OBody [1; 2])', [0, 1])"""
    m = re.match(r"^([a-z_]+):([^#|]+)(?:#([\d.]+))?$", tag)
    if not m:
        raise Unmodelled("tag %r" % (tag,))
    kind, what, tp = m.group(1), m.group(2), m.group(3)
    if kind in ("fxsetup", "fxteardown"):
        owner = "(%s %d)" % (OWNERS[kind], num(what))
    else:
        owner = "(%s %s)" % (OWNERS[kind], c_npath(what))
    return owner, [int(x) for x in tp.split(".")] if tp else []


def c_msg(text):
    if text is None:
        raise Unmodelled("message None")
    if text.startswith("The test has been aborted"):
        return "MAbortTest"
    if text.startswith("The suite has been aborted"):
        return "MAbortSuite"
    if text.startswith("All tests have been aborted"):
        return "MAbortAll"
    if text.startswith("Caught unexpected exception while running test"):
        return "MUnexpected"
    m = re.match(r"^(.*)\|(\d+)$", text)
    if not m:
        raise Unmodelled("message %r" % (text[:80],))
    owner, tp = parse_tag(m.group(1))
    return "(MUser %s %s %s)" % (owner, c_tp(tp), m.group(2))


def c_stepd(text):
    if text is None:
        return "None"
    if text in FIXED_STEPS:
        return "(Some %s)" % FIXED_STEPS[text]
    m = re.match(r"^desc of t(\d+)$", text)
    if m:
        return "(Some (SdTest %s))" % m.group(1)
    m = re.match(r"^(.*)\|step(\d+)$", text)
    if m:
        owner, tp = parse_tag(m.group(1))
        return "(Some (SdUser %s %s %s))" % (owner, c_tp(tp), m.group(2))
    raise Unmodelled("step description %r" % (text,))


def c_loc(loc):
    _, ty, path = loc
    return ["LSessionSetup", "LSessionTeardown", "(LSuiteSetup %s)" % c_npath(path), "(LSuiteTeardown %s)" % c_npath(path),
            "(LTest %s)" % c_npath(path)][ty]


def field(ev, name):
    for x in ev[1:]:
        if isinstance(x, (list, tuple)) and len(x) == 2 and x[0] == name:
            return x[1]
    raise Unmodelled("event %r has no field %s" % (ev, name))


class L3:
    def __init__(self, graph, trace):
        self.L1 = l1.L1(graph)
        self.graph = graph
        self.trace = trace
        # thread name of user threads -> (owner tag, thread path), from the spawn records
        self.thread_key = {}
        for a in trace:
            if a[1] == "spawn":
                self.thread_key[a[4]] = (a[2], tuple(a[3]))
        self.value_inst = {}

    def thread_tp(self, name):
        if name in self.thread_key:
            return list(self.thread_key[name][1])
        return []

    def c_event(self, ev):
        name = ev[0]
        simple = {"test_session_setup_start": "RSessionSetupStart", "test_session_setup_end": "RSessionSetupEnd",
                  "test_session_teardown_start": "RSessionTeardownStart", "test_session_teardown_end": "RSessionTeardownEnd"}
        if name in simple:
            return simple[name]
        pathy = {"suite_start": "RSuiteStart", "suite_end": "RSuiteEnd", "suite_setup_start": "RSuiteSetupStart",
                 "suite_setup_end": "RSuiteSetupEnd", "suite_teardown_start": "RSuiteTeardownStart",
                 "suite_teardown_end": "RSuiteTeardownEnd", "test_start": "RTestStart", "test_end": "RTestEnd",
                 "test_disabled": "RTestDisabled"}
        if name in pathy:
            return "(%s %s)" % (pathy[name], c_npath(ev[1]))
        if name == "test_skipped":
            reason = field(ev, "skipped_reason")
            if reason is None:
                r = "None"
            else:
                if not reason.startswith("Test skipped because "):
                    raise Unmodelled("skip reason %r" % (reason,))
                r = self.L1.reason(reason[len("Test skipped because "):])
            return "(RTestSkipped %s %s)" % (c_npath(ev[1]), r)
        loc = c_loc(ev[1])
        th = c_tp(self.thread_tp(field(ev, "thread")))
        if name == "step_start":
            return "(RStepStart %s %s %s)" % (loc, c_stepd(field(ev, "step_description")), th)
        if name == "step_end":
            return "(RStepEnd %s %s %s)" % (loc, c_stepd(field(ev, "step")), th)
        step = c_stepd(field(ev, "step"))
        if name == "log":
            return "(RLog %s %s %s %d %s)" % (loc, step, th, LEVELS[field(ev, "log_level")], c_msg(field(ev, "log_message")))
        if name == "check":
            return "(RCheck %s %s %s %s %s)" % (loc, step, th, c_bool(field(ev, "check_is_successful")),
                                               c_msg(field(ev, "check_description")))
        if name == "log_url":
            return "(RUrl %s %s %s %s)" % (loc, step, th, c_msg(field(ev, "url_description")))
        if name == "log_attachment":
            return "(RAttach %s %s %s %s)" % (loc, step, th, c_msg(field(ev, "attachment_description")))
        raise Unmodelled("event %r" % (ev,))

    def c_inst(self, value):
        if value == "<absent>":
            return "IAbsent"
        if value not in self.value_inst:
            raise Unmodelled("value %r was never set up" % (value,))
        return self.value_inst[value]

    def c_atom(self, a):
        op = a[1]
        if op == "fire":
            return "AtFire %s" % self.c_event(a[2])
        if op == "flag":
            k = a[2]
            if k == "failure":
                return "AtFlag FFailure"
            if k == "aborted_suite":
                return None if a[3] is None else "AtFlag (FAbortedSuite %s)" % c_npath(a[3])
            if k == "_aborted_session":
                return "AtFlag FAbortedSession"
            raise Unmodelled("flag in a task: %r" % (a,))
        if op == "mark":
            o, tp = parse_tag(a[2])
            return "AtMark %s %s %d" % (o, c_tp(tp), a[3])
        if op == "use":
            o, tp = parse_tag(a[2])
            fx = a[3][4:] if a[3].startswith("inj:") else a[3]
            return "AtUse %s %s %d %s" % (o, c_tp(tp), num(fx), self.c_inst(a[4]))
        if op == "raise":
            o, tp = parse_tag(a[2])
            return "AtRaise %s %s %s" % (o, c_tp(tp), RAISE[a[3]])
        if op in CALLS:
            kind, what = CALLS[op]
            return "%s (%s %d)" % (kind, OWNERS[what], num(a[2]))
        if op in ("hook_begin", "hook_end"):
            base = "%s (%s %s)" % ("AtBegin" if op == "hook_begin" else "AtEnd", HOOKS[a[2]], c_npath(a[3]))
            if op == "hook_begin" and a[2] == "teardown_test":
                return ["AtStatus %s" % c_bool(a[4] == "passed"), base]
            return base
        if op in ("body_begin", "body_end"):
            return "%s (OBody %s)" % ("AtBegin" if op == "body_begin" else "AtEnd", c_npath(a[2]))
        if op == "spawn":
            return "AtSpawn %s" % c_tp(a[3])
        if op == "join":
            return "AtJoin %s" % c_tp(a[3])
        raise Unmodelled("atom %r" % (a,))

    def observations(self, modes):
        """modes: {task index: Gallina mode} from the L1 moves. Returns the list of Gallina `observed` terms."""
        trace = self.trace
        # 1. attribute every atom to a task: workers by take..finish segments, user threads through their creator
        cur = {}            # thread name -> task index currently run by that thread
        owner_task = {}     # user thread name -> task index
        per_task_main, per_task_children, results, died = {}, {}, {}, set()
        for a in trace:
            th, op = a[0], a[1]
            if op == "take":
                cur[th] = self.L1.tid(a[3])
                per_task_main.setdefault(cur[th], [])
                continue
            if op == "finish":
                results[self.L1.tid(a[2])] = a[3]
                cur.pop(th, None)
                continue
            if op == "worker_died":
                if th in cur:
                    died.add(cur.pop(th))
                continue
            if op == "fx_setup_end":
                t = cur.get(th, owner_task.get(th))
                if t is None:
                    self.value_inst[a[3]] = "IGlobal"          # pre_run fixtures, set up by the main thread
                else:
                    k, p = self.graph[t]["label"]
                    self.value_inst[a[3]] = {"TestTask": "(ITest %s)" % c_npath(p),
                                             "SuiteInitializationTask": "(ISuite %s)" % c_npath(p)}.get(k, "IGlobal")
            if op in ARTEFACTS or op in ("main_get", "handle", "interrupt"):
                continue
            if th in cur:
                t = cur[th]
                if op == "spawn":
                    owner_task[a[4]] = t
                    per_task_children.setdefault(t, {}).setdefault(a[4], [])
                per_task_main[t].append(a)
            elif th in owner_task:
                t = owner_task[th]
                if op == "spawn":
                    owner_task[a[4]] = t
                    per_task_children.setdefault(t, {}).setdefault(a[4], [])
                per_task_children.setdefault(t, {}).setdefault(th, []).append(a)
            else:
                if th in ("main", "h"):
                    continue      # session start/end, pre_run fixtures, flags raised by main / handler
                raise Unmodelled("atom outside any task: %r" % (a,))
        # 2. print
        out = []
        for t in sorted(per_task_main):
            atoms = flat(self.c_atom(a) for a in per_task_main[t])
            children = []
            for th, al in per_task_children.get(t, {}).items():
                tag, tp = self.thread_key[th]
                owner, _ = parse_tag(tag.split("#")[0])
                catoms = flat(self.c_atom(a) for a in al)
                children.append("(%s, %s, %s)" % (owner, c_tp(tp), c_list(catoms, lambda s: s)))
            setup_md = "None"
            k, p = self.graph[t]["label"]
            if k in ("SuiteTeardownTask", "TestSessionTeardownTask"):
                want = ("SuiteInitializationTask", p) if k == "SuiteTeardownTask" else ("TestSessionSetupTask", "")
                st = self.L1.index.get(want)
                if st is not None and st in modes:
                    setup_md = "(Some %s)" % modes[st]
            if t in died:
                res = "None"
            elif t in results:
                res = "(Some %s)" % self.L1.result(results[t])
            else:
                raise Unmodelled("task %d neither finished nor died" % t)
            out.append("mkObs %d %s %s\n      %s\n      %s\n      %s" % (
                t, modes[t], setup_md, c_list(atoms, lambda s: s), c_list(children, lambda s: s), res))
        return out


def flat(items):
    out = []
    for x in items:
        if x is None:
            continue
        if isinstance(x, list):
            out.extend(x)
        else:
            out.append(x)
    return out


def modes_from_moves(moves):
    """{task index: mode term} from the Gallina L1 moves ('MTake 3 (Skip (Some ...))')."""
    res = {}
    for m in moves:
        mm = re.match(r"^MTake (\d+) (.*)$", m)
        if mm:
            res[int(mm.group(1))] = mm.group(2)
    return res
