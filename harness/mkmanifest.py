"""Builds /verif/MANIFEST.json from manifest.d/<Cnn>.json fragments (one per claimed property)."""
import glob
import json
import os

ROOT = os.path.dirname(os.path.dirname(os.path.abspath(__file__)))
props = [json.loads(l)["id"] for l in open(os.path.join(ROOT, "properties.jsonl")) if l.strip()]
na_reasons = {}
p = os.path.join(ROOT, "manifest.d", "not_applicable.json")
if os.path.exists(p):
    na_reasons = json.load(open(p))
checks, claimed = [], set()
ready = set(open(os.path.join(ROOT, "manifest.d", "READY")).read().split())   # maintained by the coordinator
for f in sorted(glob.glob(os.path.join(ROOT, "manifest.d", "C*.json"))):
    frag = json.load(open(f))
    pid = frag["property_id"]
    if pid not in ready:
        continue
    claimed.add(pid)
    c = {
        "property_id": pid,
        "quick_cmd": "./check %s --tier quick" % pid,
        "thorough_cmd": "./check %s --tier thorough" % pid,
        "evidence_file": "/verif/evidence/%s.json" % pid,
        "replay_cmd_template": "./check %s --replay {path}" % pid,
        "engine": "coq-proof+correspondence",
    }
    c.update(frag)
    checks.append(c)
hooks = json.load(open(os.path.join(ROOT, "manifest.d", "hooks.json")))
m = {
    "version": 1,
    "setup_cmd": "./setup.sh",
    "hooks": hooks,
    "engines": [{
        "name": "coq-proof+correspondence",
        "path": "/verif/check",
        "serves_properties": sorted(claimed),
        "kind_free_text": "Coq 8.16 development under /verif/coq (Model/, Proofs/, Props/, gen/ regenerated from /repo by harness/tables.py) "
                          "+ Python correspondence harness under /verif/harness that runs the implementation and evaluates the model "
                          "inside Coq (vm_compute) on the same inputs",
    }],
    "checks": checks,
    "notes": "See DESIGN.md. Every check: regenerate tables from /repo, full .vo build of the property's theorems with Print Assumptions, "
             "audit for axioms/admits, model-vs-implementation correspondence on seeded cases, independent oracle, known findings.",
    "not_applicable": [{"property_id": p, "reason": na_reasons.get(p, "check not built yet in this round; see DESIGN.md section 5 for the plan")}
                       for p in props if p not in claimed],
}
json.dump(m, open(os.path.join(ROOT, "MANIFEST.json"), "w"), indent=1)
print("claimed:", sorted(claimed))
