"""Oracles over one co-simulated run (independent of the Coq model): the properties evaluated directly on what the
implementation did. Each function returns a list of (signature, text)."""


def walk_suites(pd):
    """[(path, suite dict, inherited_disabled)] in declaration order."""
    out = []

    def go(s, prefix, dis):
        path = prefix + s["name"]
        d = dis or bool(s.get("disabled"))
        out.append((path, s, d))
        for sub in s.get("subs", []):
            go(sub, path + ".", d)
    for s in pd["suites"]:
        go(s, "", False)
    return out


def expected_tests(pd):
    """{test path: disabled?} for every scheduled test."""
    res = {}
    for path, s, dis in walk_suites(pd):
        for t in s.get("tests", []):
            res[path + "." + t["name"]] = dis or bool(t.get("disabled"))
    return res


def report_tests(report):
    """[(path, status)] of every test result in the report normal form."""
    out = []

    def go(s, prefix):
        path = prefix + s["name"]
        for t in s["tests"]:
            out.append((path + "." + t["name"], t["status"]))
        for sub in s["suites"]:
            go(sub, path + ".")
    for s in report["suites"]:
        go(s, "")
    return out


def report_suites(report):
    out = []

    def go(s, prefix):
        path = prefix + s["name"]
        out.append((path, s["ended"]))
        for sub in s["suites"]:
            go(sub, path + ".")
    for s in report["suites"]:
        go(s, "")
    return out


def c01_oracle(case, r):
    hits = []
    oc = r.get("outcome") or ["?"]
    if oc[0] in ("hang", "sched_abort"):
        hits.append(("run-does-not-terminate", "the run does not terminate: %s" % (oc[1][:200],)))
        return hits
    if oc[0] == "raised":
        hits.append(("run-raised:" + oc[1], "the run raised %s: %s" % (oc[1], oc[2][:300].replace("\n", " "))))
    pd = case["project"]
    force = bool(case.get("options", {}).get("force_disabled"))
    exp = expected_tests(pd)
    rep = r.get("report")
    if rep is None:
        hits.append(("no-report", "no report was produced"))
        return hits
    got = report_tests(rep)
    seen = {}
    for path, status in got:
        seen[path] = seen.get(path, 0) + 1
    for path in exp:
        if seen.get(path, 0) == 0:
            hits.append(("test-missing", "scheduled test %s is not in the report" % path))
        elif seen[path] > 1:
            hits.append(("test-duplicated", "test %s appears %d times in the report" % (path, seen[path])))
    for path, status in got:
        if path not in exp:
            hits.append(("test-unexpected", "report contains %s which was not scheduled" % path))
        elif status not in ("passed", "failed", "skipped", "disabled"):
            hits.append(("test-without-terminal-status", "test %s has status %r" % (path, status)))
        elif (status == "disabled") != (exp[path] and not force):
            hits.append(("disabled-status-wrong", "test %s: disabled=%s force=%s but status %s" % (path, exp[path], force, status)))
    # suites opened and closed exactly once, start first (from the event stream delivered to a backend)
    starts, ends = {}, {}
    for i, ev in enumerate(r.get("events") or []):
        if ev[0] == "suite_start":
            starts.setdefault(ev[1], []).append(i)
        elif ev[0] == "suite_end":
            ends.setdefault(ev[1], []).append(i)
    for path, s, dis in walk_suites(pd):
        if len(starts.get(path, [])) != 1 or len(ends.get(path, [])) != 1:
            hits.append(("suite-not-opened-closed-once", "suite %s: %d start / %d end events" % (
                path, len(starts.get(path, [])), len(ends.get(path, [])))))
        elif starts[path][0] > ends[path][0]:
            hits.append(("suite-closed-before-opened", "suite %s is closed before it is opened" % path))
    # bodies
    for path, n in (r.get("body_starts") or {}).items():
        if n > 1:
            hits.append(("body-executed-twice", "body of %s executed %d times" % (path, n)))
        if exp.get(path) and not force and n > 0:
            hits.append(("disabled-test-executed", "disabled test %s was executed without --force-disabled" % path))
    return hits
