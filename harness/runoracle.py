"""Oracles over one co-simulated run (independent of the Coq model): the properties evaluated directly on what the
implementation did. Each function returns a list of (signature, text)."""


def walk_suites(pd):
    """[(path, suite dict, inherited_disabled)] in declaration order."""
    out = []

    def go(s, prefix, dis):
        path = prefix + s["name"]
        d = dis or bool(s.get("disabled"))
        out.append((path, s, d))
        for sub in s.get("subs", []):
            go(sub, path + ".", d)
    for s in pd["suites"]:
        go(s, "", False)
    return out


def expected_tests(pd):
    """{test path: disabled?} for every scheduled test."""
    res = {}
    for path, s, dis in walk_suites(pd):
        for t in s.get("tests", []):
            res[path + "." + t["name"]] = dis or bool(t.get("disabled"))
    return res


def report_tests(report):
    """[(path, status)] of every test result in the report normal form."""
    out = []

    def go(s, prefix):
        path = prefix + s["name"]
        for t in s["tests"]:
            out.append((path + "." + t["name"], t["status"]))
        for sub in s["suites"]:
            go(sub, path + ".")
    for s in report["suites"]:
        go(s, "")
    return out


def report_suites(report):
    out = []

    def go(s, prefix):
        path = prefix + s["name"]
        out.append((path, s["ended"]))
        for sub in s["suites"]:
            go(sub, path + ".")
    for s in report["suites"]:
        go(s, "")
    return out


def c01_oracle(case, r):
    hits = []
    oc = r.get("outcome") or ["?"]
    if oc[0] in ("hang", "sched_abort"):
        hits.append(("run-does-not-terminate", "the run does not terminate: %s" % (oc[1][:200],)))
        return hits
    if oc[0] == "raised":
        hits.append(("run-raised:" + oc[1], "the run raised %s: %s" % (oc[1], oc[2][:300].replace("\n", " "))))
    pd = case["project"]
    force = bool(case.get("options", {}).get("force_disabled"))
    exp = expected_tests(pd)
    rep = r.get("report")
    if rep is None:
        hits.append(("no-report", "no report was produced"))
        return hits
    got = report_tests(rep)
    seen = {}
    for path, status in got:
        seen[path] = seen.get(path, 0) + 1
    for path in exp:
        if seen.get(path, 0) == 0:
            hits.append(("test-missing", "scheduled test %s is not in the report" % path))
        elif seen[path] > 1:
            hits.append(("test-duplicated", "test %s appears %d times in the report" % (path, seen[path])))
    for path, status in got:
        if path not in exp:
            hits.append(("test-unexpected", "report contains %s which was not scheduled" % path))
        elif status not in ("passed", "failed", "skipped", "disabled"):
            hits.append(("test-without-terminal-status", "test %s has status %r" % (path, status)))
        elif (status == "disabled") != (exp[path] and not force):
            hits.append(("disabled-status-wrong", "test %s: disabled=%s force=%s but status %s" % (path, exp[path], force, status)))
    # suites opened and closed exactly once, start first (from the event stream delivered to a backend)
    starts, ends = {}, {}
    for i, ev in enumerate(r.get("events") or []):
        if ev[0] == "suite_start":
            starts.setdefault(ev[1], []).append(i)
        elif ev[0] == "suite_end":
            ends.setdefault(ev[1], []).append(i)
    for path, s, dis in walk_suites(pd):
        if len(starts.get(path, [])) != 1 or len(ends.get(path, [])) != 1:
            hits.append(("suite-not-opened-closed-once", "suite %s: %d start / %d end events" % (
                path, len(starts.get(path, [])), len(ends.get(path, [])))))
        elif starts[path][0] > ends[path][0]:
            hits.append(("suite-closed-before-opened", "suite %s is closed before it is opened" % path))
    # bodies
    for path, n in (r.get("body_starts") or {}).items():
        if n > 1:
            hits.append(("body-executed-twice", "body of %s executed %d times" % (path, n)))
        if exp.get(path) and not force and n > 0:
            hits.append(("disabled-test-executed", "disabled test %s was executed without --force-disabled" % path))
    return hits


# ---------------------------------------------------------------------------------------------- C03
LOC_OF_KIND = {"TestTask": 4, "SuiteInitializationTask": 2, "TestSessionSetupTask": 0, "SuiteTeardownTask": 3,
               "TestSessionTeardownTask": 1}


def _fixture_index(pd):
    return {f["name"]: f for f in pd.get("fixtures", [])}


def _closure(fx, names):
    out, todo = [], list(names)
    while todo:
        n = todo.pop()
        if n in out or n not in fx:
            continue
        out.append(n)
        todo += [p for p in fx[n]["params"] if p != "fixture_name"]
    return set(out)


def needed_fixtures(pd, force):
    """Fixtures that some enabled (or forced) scheduled test needs, directly or not."""
    fx = _fixture_index(pd)
    direct = set()
    for path, s, dis in walk_suites(pd):
        tests = s.get("tests", [])
        enabled = [t for t in tests if force or not (dis or t.get("disabled"))]
        if not enabled:
            continue
        for t in enabled:
            direct |= {a for a in t["args"] if a not in t.get("params", {})}
        direct |= set(s.get("injected") or [])
        ss = (s.get("hooks") or {}).get("setup_suite")
        if ss:
            direct |= set(ss["args"])
    return _closure(fx, direct)


def needed_by_suite(pd, force):
    """{suite path: fixtures that this suite needs itself (its injected fixtures, the arguments of its setup_suite, the
    arguments of its own tests that are going to run), directly or through fixture parameters}; {} entry = nothing to run"""
    fx = _fixture_index(pd)
    out = {}
    for path, s, dis in walk_suites(pd):
        tests = s.get("tests", [])
        enabled = [t for t in tests if force or not (dis or t.get("disabled"))]
        direct = set()
        if enabled:
            for t in enabled:
                direct |= {a for a in t["args"] if a not in t.get("params", {})}
            direct |= set(s.get("injected") or [])
            ss = (s.get("hooks") or {}).get("setup_suite")
            if ss:
                direct |= set(ss["args"])
        out[path] = _closure(fx, direct)
    return out


def _inst_key(fx, name, task):
    """The scope instance of fixture `name` that code running in `task` sees."""
    scope = (fx.get(name) or {}).get("scope")
    if scope == "test":
        return (name, task)
    if scope == "suite" and task:
        return (name, task[1].rsplit(".", 1)[0] if task[0] == "TestTask" else task[1])
    return (name,)


def c03_oracle(case, r):
    hits = []
    oc = r.get("outcome") or ["?"]
    if oc[0] not in ("returned", "raised"):
        return hits        # hangs are C01's business
    if oc[0] == "raised" and ("fixture" in (oc[2] if len(oc) > 2 else "").lower()):
        hits.append(("run-raised-about-a-fixture", "the run raised %s: %s" % (oc[1], [l for l in oc[2].strip().split("\n") if "ixture" in l][-1][:200])))
    pd, trace = case.get("scheduled_project") or case["project"], r.get("trace") or []
    force = bool(case.get("options", {}).get("force_disabled"))
    fx = _fixture_index(pd)
    cur = {}                      # thread -> current task label (tuple)
    owner = {}                    # user thread name -> task label
    failed_locs = set()
    nfail, began, last_status = {}, {}, {}     # failures recorded per location; count at the begin of a fixture setup; begun/clean/failed
    setups = {}                   # value -> dict(name, task, idx, clean)
    setup_count = {}
    teardowns = {}                # value -> [idx]
    uses = []                     # (idx, tag, fixture, value, task)
    finishes = {}                 # task label -> idx
    results = {}
    bodies = {}                   # test path -> idx
    hooks = []                    # (idx, begin/end, kind, path, task)
    phase_td_order = {}           # task label -> [values in teardown order]
    for i, a in enumerate(trace):
        th, op = a[0], a[1]
        task = cur.get(th, owner.get(th))
        if op == "take":
            cur[th] = tuple(a[3])
        elif op == "finish":
            finishes[tuple(a[2])] = i
            results[tuple(a[2])] = a[3][0]
            cur.pop(th, None)
        elif op == "spawn":
            owner[a[4]] = task
        elif op == "flag" and a[2] == "failure":
            failed_locs.add((a[3][0], a[3][1]))
            nfail[(a[3][0], a[3][1])] = nfail.get((a[3][0], a[3][1]), 0) + 1
        elif op == "fx_setup_begin":
            key = (a[2], task)
            setup_count[key] = setup_count.get(key, 0) + 1
            if setup_count[key] > 1:
                hits.append(("fixture-evaluated-twice", "fixture %s evaluated twice in %s" % (a[2], task)))
            loc = (LOC_OF_KIND.get(task[0]), task[1]) if task else None
            began[key] = nfail.get(loc, 0)
            # a fixture is a consumer of its parameters: it is not evaluated when one of them failed to set up
            for prm in (fx.get(a[2]) or {}).get("params", []):
                if prm in fx and last_status.get(_inst_key(fx, prm, task)) in ("begun", "failed"):
                    hits.append(("fixture-evaluated-after-dependency-failed",
                                 "fixture %s was evaluated in %s although the setup of its parameter %s had failed" % (a[2], task, prm)))
            last_status[_inst_key(fx, a[2], task)] = "begun"
        elif op == "fx_setup_end":
            loc = (LOC_OF_KIND.get(task[0]), task[1]) if task else None
            # "whose setup completed without recording a failure": no failure was recorded in its location while it was set up
            own_clean = nfail.get(loc, 0) == began.get((a[2], task), 0)
            setups[a[3]] = {"name": a[2], "task": task, "idx": i, "clean": own_clean}
            last_status[_inst_key(fx, a[2], task)] = "clean" if own_clean else "failed"
        elif op == "fx_teardown_begin":
            teardowns.setdefault(a[3], []).append(i)
            phase_td_order.setdefault(task, []).append(a[3])
        elif op == "use":
            uses.append((i, a[2], a[3], a[4], task))
        elif op == "body_begin":
            bodies[a[2]] = i
        elif op in ("hook_begin", "hook_end"):
            hooks.append((i, op, a[2], a[3], task))
    needed = needed_fixtures(pd, force)
    by_suite = needed_by_suite(pd, force)
    test_finishes = {lab[1]: idx for lab, idx in finishes.items() if lab[0] == "TestTask"}
    for v, s in setups.items():
        f = fx.get(s["name"])
        if f is None:
            continue
        if s["name"] not in needed:
            hits.append(("unneeded-fixture-evaluated", "fixture %s is needed by no enabled scheduled test but was evaluated" % s["name"]))
        elif (f.get("scope") == "suite" and s["task"] and s["task"][0] == "SuiteInitializationTask"
              and s["task"][1] in by_suite and s["name"] not in by_suite[s["task"][1]]):
            # once per scope INSTANCE that needs it (C03_suite_fixtures_exactly_the_needed_ones): a sub-suite needing a suite
            # fixture does not make its parent need it
            hits.append(("fixture-evaluated-for-a-suite-that-does-not-need-it",
                         "suite fixture %s was evaluated for suite %s, which neither uses it nor has a test that is going to run "
                         "and needs it" % (s["name"], s["task"][1])))
        td = teardowns.get(v, [])
        if len(td) > 1:
            hits.append(("fixture-torn-down-twice", "fixture %s torn down %d times" % (s["name"], len(td))))
        if f["generator"] and s["clean"] and len(td) == 0:
            hits.append(("fixture-never-torn-down", "fixture %s (scope %s) was set up without failure in %s but never torn down" % (
                s["name"], f["scope"], s["task"])))
        if td:
            # after the last consumer finished
            if f["scope"] == "suite" and s["task"]:
                spath = s["task"][1]
                late = [p for p, idx in test_finishes.items() if p.rsplit(".", 1)[0] == spath and idx > td[0]]
            elif f["scope"] in ("session", "pre_run"):
                late = [p for p, idx in test_finishes.items() if idx > td[0]]
            else:
                late = []
            if late:
                hits.append(("fixture-torn-down-before-consumer-finished",
                             "fixture %s (scope %s) torn down before %s finished" % (s["name"], f["scope"], late[0])))
    for i, tag, name, v, task in uses:
        n = name[4:] if name.startswith("inj:") else name
        if n not in fx:
            continue
        if v == "<absent>" or v not in setups:
            hits.append(("consumer-got-no-value", "%s received no value for fixture %s" % (tag, n)))
            continue
        s = setups[v]
        if s["name"] != n:
            hits.append(("consumer-got-wrong-fixture", "%s asked %s and received the value of %s" % (tag, n, s["name"])))
        if s["idx"] > i:
            hits.append(("fixture-used-before-setup", "%s used %s before its setup completed" % (tag, n)))
        if any(t < i for t in teardowns.get(v, [])):
            hits.append(("fixture-used-after-teardown", "%s used %s after it was torn down" % (tag, n)))
        scope = fx[n]["scope"]
        if scope == "test" and task and s["task"] != task:
            hits.append(("consumer-got-foreign-instance", "%s received the test-scope value of another test for %s" % (tag, n)))
        if scope == "suite" and task and s["task"] and task[0] == "TestTask" and s["task"][1] != task[1].rsplit(".", 1)[0]:
            hits.append(("consumer-got-foreign-instance", "%s received the suite-scope value of another suite for %s" % (tag, n)))
    # reverse order inside one teardown phase / one test
    for task, order in phase_td_order.items():
        idx = [setups[v]["idx"] for v in order if v in setups]
        if idx != sorted(idx, reverse=True):
            hits.append(("teardown-not-reverse-order", "teardowns in %s are not in reverse order of setup" % (task,)))
    # inner scopes before outer
    def first_td(scope):
        l = [min(teardowns[v]) for v, s in setups.items() if v in teardowns and fx.get(s["name"], {}).get("scope") == scope]
        return min(l) if l else None

    def last_td(scope):
        l = [max(teardowns[v]) for v, s in setups.items() if v in teardowns and fx.get(s["name"], {}).get("scope") == scope]
        return max(l) if l else None
    for inner, outer in (("test", "suite"), ("suite", "session"), ("session", "pre_run")):
        a, b = last_td(inner), first_td(outer)
        if a is not None and b is not None and inner != "test" and a > b:
            hits.append(("outer-scope-torn-down-first", "a %s-scope fixture was torn down before a %s-scope one" % (outer, inner)))
    # setup failure: consumers not executed
    for lab, res in results.items():
        if lab[0] == "SuiteInitializationTask" and res == "failure":
            for p in bodies:
                if p.rsplit(".", 1)[0] == lab[1]:
                    hits.append(("body-executed-after-suite-setup-failure", "test %s executed although the setup of its suite failed" % p))
        if lab[0] == "TestSessionSetupTask" and res == "failure" and bodies:
            hits.append(("body-executed-after-session-setup-failure", "a test was executed although the session setup failed"))
    # hooks: teardown_suite exactly once, after the suite's tests, whenever the suite setup phase completed cleanly
    for path, s, dis in walk_suites(pd):
        hk = s.get("hooks") or {}
        tests = s.get("tests", [])
        active = force or any(not (dis or t.get("disabled")) for t in tests)
        begins = [h for h in hooks if h[1] == "hook_begin" and h[2] == "teardown_suite" and h[3] == path]
        sbegins = [h for h in hooks if h[1] == "hook_begin" and h[2] == "setup_suite" and h[3] == path]
        sends = [h for h in hooks if h[1] == "hook_end" and h[2] == "setup_suite" and h[3] == path]
        if len(begins) > 1 or len(sbegins) > 1:
            hits.append(("suite-hook-executed-twice", "a suite hook of %s was executed more than once" % path))
        init_res = results.get(("SuiteInitializationTask", path))
        if hk.get("teardown_suite") is not None and active and init_res == "success" and len(begins) == 0:
            hits.append(("teardown-suite-never-executed", "teardown_suite of %s was never executed although its setup phase succeeded" % path))
        for h in begins:
            late = [p for p, idx in test_finishes.items() if p.rsplit(".", 1)[0] == path and idx > h[0]]
            if late:
                hits.append(("teardown-suite-before-test-finished", "teardown_suite of %s ran before %s finished" % (path, late[0])))
            init_fin = finishes.get(("SuiteInitializationTask", path))
            if init_fin is not None and init_fin > h[0]:
                hits.append(("teardown-suite-before-setup", "teardown of suite %s ran before its setup" % path))
        for h in sbegins:
            early = [p for p, idx in bodies.items() if p.rsplit(".", 1)[0] == path and idx < h[0]]
            if early:
                hits.append(("test-before-setup-suite", "test %s started before setup_suite of %s" % (early[0], path)))
    # hooks of the TEST scope: teardown_test exactly once whenever setup_test has completed (also when a test fixture set up
    # after it, or the body, fails), never twice, never before the body has ended; when the suite has no setup_test hook,
    # teardown_test runs for every test whose test-scope setup began at all
    if oc[0] == "returned":
        for path, s, dis in walk_suites(pd):
            hk = s.get("hooks") or {}
            if hk.get("teardown_test") is None:
                continue
            for t in s.get("tests", []):
                tp = path + "." + t["name"]
                tb = [h for h in hooks if h[1] == "hook_begin" and h[2] == "teardown_test" and h[3] == tp]
                se = [h for h in hooks if h[1] == "hook_end" and h[2] == "setup_test" and h[3] == tp]
                if len(tb) > 1:
                    hits.append(("teardown-test-executed-twice", "teardown_test of %s was executed %d times" % (tp, len(tb))))
                # "completed" = returned without having recorded a failure (an error log makes the setup a failed one, whose
                # teardown is not due)
                dirty = [i for i, a in enumerate(trace) if a[1] == "flag" and a[2] == "failure" and len(a) > 3 and
                         isinstance(a[3], list) and len(a[3]) > 1 and a[3][1] == tp and se and i <= se[0][0]]
                if hk.get("setup_test") is not None and se and not dirty and not tb:
                    hits.append(("teardown-test-never-executed", "setup_test of %s completed but teardown_test was never executed" % tp))
                if hk.get("setup_test") is None and tp in bodies and not tb:
                    hits.append(("teardown-test-never-executed", "the body of %s was executed but teardown_test was never executed" % tp))
    # de-duplicate by signature
    seen, out = set(), []
    for sig, text in hits:
        if sig not in seen:
            seen.add(sig)
            out.append((sig, text))
    return out


# ---------------------------------------------------------------------------------------------- C02
def _results_of_report(report):
    """{location key: result dict}; keys: ('session_setup',), ('session_teardown',), ('suite_setup', path), ..., ('test', path)"""
    out = {}
    if report.get("session_setup"):
        out[("session_setup", "")] = report["session_setup"]
    if report.get("session_teardown"):
        out[("session_teardown", "")] = report["session_teardown"]

    def go(s, prefix):
        path = prefix + s["name"]
        if s.get("setup"):
            out[("suite_setup", path)] = s["setup"]
        if s.get("teardown"):
            out[("suite_teardown", path)] = s["teardown"]
        for t in s["tests"]:
            out[("test", path + "." + t["name"])] = t
        for sub in s["suites"]:
            go(sub, path + ".")
    for s in report["suites"]:
        go(s, "")
    return out


LOC_NAMES = {0: "session_setup", 1: "session_teardown", 2: "suite_setup", 3: "suite_teardown", 4: "test"}
TASK_LOC = {"TestTask": "test", "SuiteInitializationTask": "suite_setup", "SuiteTeardownTask": "suite_teardown",
            "TestSessionSetupTask": "session_setup", "TestSessionTeardownTask": "session_teardown"}


def _abnormal_end(oc, what):
    """No fault, interrupt or BaseException is injected in the runs of this property: a run that does not return normally cannot
    satisfy it (%s), whatever made it crash (a reporting backend such as the report writer included)."""
    if oc[0] in ("hang", "sched_abort"):
        return [("run-does-not-terminate", "the run does not terminate: %s" % (str(oc[1])[:200],))]
    if oc[0] == "raised":
        return [("run-raised:" + str(oc[1]), "the run raised %s, so %s: %s" % (oc[1], what, str(oc[2])[:300].replace("\n", " ")))]
    return []


def _success_flags(oc, rep, results):
    hits = []
    all_ok = all(res["status"] in ("passed", "disabled") for res in results.values())
    if bool(rep["is_successful"]) != all_ok:
        hits.append(("report-success-flag-wrong", "Report.is_successful() is %s but all results passed/disabled is %s" % (rep["is_successful"], all_ok)))
    if bool(oc[1]) != all_ok:
        hits.append(("run-return-value-wrong", "the run returned %s but all results passed/disabled is %s" % (oc[1], all_ok)))
    return hits


def c02_success_oracle(case, r):
    """The last sentence of C02 only (the run is reported successful iff every test and phase is passed or disabled), for runs
    whose verdicts the full oracle does not judge: interrupted runs, where tests are skipped although nothing failed."""
    oc = r.get("outcome") or ["?"]
    rep = r.get("report")
    if oc[0] != "returned" or rep is None:
        return _abnormal_end(oc, "the outcome of the run is not reported")
    return _success_flags(oc, rep, _results_of_report(rep))


def c02_oracle(case, r):
    hits = []
    oc = r.get("outcome") or ["?"]
    rep = r.get("report")
    if oc[0] != "returned" or rep is None:
        return hits + _abnormal_end(oc, "the verdicts are not reported")
    results = _results_of_report(rep)
    # failing actions really executed, per location: exceptions raised by user code (trace) and failing logs fired (stream)
    failing = {}
    cur, owner = {}, {}
    body_end = set()
    for a in r.get("trace") or []:
        th, op = a[0], a[1]
        if op == "take":
            cur[th] = tuple(a[3])
        elif op == "finish":
            cur.pop(th, None)
        elif op == "spawn":
            owner[a[4]] = cur.get(th, owner.get(th))
        elif op == "raise":
            task = cur.get(th, owner.get(th))
            if task and task[0] in TASK_LOC:
                failing.setdefault((TASK_LOC[task[0]], task[1]), []).append("raise " + a[3])
        elif op == "body_end":
            body_end.add(a[2])
        elif op == "fire":
            ev = a[2]
            loc = next((x for x in ev[1:] if isinstance(x, list) and x and x[0] == "loc"), None)
            if loc is None:
                continue
            key = (LOC_NAMES[loc[1]], loc[2])
            d = {x[0]: x[1] for x in ev[1:] if isinstance(x, list) and len(x) == 2 and isinstance(x[0], str)}
            if ev[0] == "log" and d.get("log_level") == "error":
                failing.setdefault(key, []).append("error log")
            if ev[0] == "check" and d.get("check_is_successful") is False:
                failing.setdefault(key, []).append("failed check")
    for key, res in results.items():
        st = res["status"]
        if st in ("skipped", "disabled"):
            continue
        has_fail = bool(failing.get(key))
        if st == "passed" and has_fail:
            hits.append(("passed-despite-failure", "%s %s is reported passed although %s happened in it" % (key[0], key[1], failing[key][0])))
        if st == "failed" and not has_fail:
            hits.append(("failed-without-failure", "%s %s is reported failed although nothing failed in it" % key))
        if st not in ("passed", "failed"):
            hits.append(("executed-result-without-verdict", "%s %s ended with status %r" % (key[0], key[1], st)))
        if st == "passed" and key[0] == "test" and key[1] not in body_end:
            hits.append(("passed-without-running-to-completion", "test %s is passed but its body did not run to its end" % key[1]))
        # the status agrees with the logs the report itself holds
        logs_fail = any((l[0] == "log" and l[1] == "error") or (l[0] == "check" and l[2] is False)
                        for s in res["steps"] for l in s["logs"])
        if (st == "failed") != logs_fail:
            hits.append(("status-disagrees-with-logs", "%s %s: status %s but failing logs in the report: %s" % (key[0], key[1], st, logs_fail)))
    for key in failing:
        if key not in results:
            hits.append(("failure-not-reported", "a failure happened in %s %s but the report has no such result" % key))
    # the verdict the runner acts upon (the result of the task: what dependents and --stop-on-failure see) is the verdict that is
    # reported: Success <-> passed (or disabled), TaskFailure <-> failed, skipped <-> skipped
    loc_of_task = {"TestTask": "test", "SuiteInitializationTask": "suite_setup", "TestSessionSetupTask": "session_setup"}
    for a in r.get("trace") or []:
        if a[1] != "finish" or a[2][0] not in loc_of_task:
            continue
        key = (loc_of_task[a[2][0]], a[2][1])
        res = results.get(key)
        if res is None:
            continue
        tr = a[3][0]
        # (a disabled test is reported disabled whatever happens to its task: run and skip alike)
        want = {"passed": "success", "failed": "failure", "skipped": "skipped"}.get(res["status"])
        if want is not None and tr in ("success", "failure", "skipped") and tr != want:
            hits.append(("runner-verdict-differs-from-report", "%s %s is reported %s but its task ended with %s: what depends on it sees another verdict" % (
                key[0], key[1], res["status"], tr)))
    # the three notions of success agree
    hits += _success_flags(oc, rep, results)
    # session failures = results that failed or were skipped
    marked = set(r.get("failures") or [])
    for key, res in results.items():
        name = {"session_setup": "<ReportLocation session setup>", "session_teardown": "<ReportLocation session teardown>",
                "suite_setup": "<ReportLocation '%s' suite setup>" % key[1], "suite_teardown": "<ReportLocation '%s' suite teardown>" % key[1],
                "test": "<ReportLocation '%s' test>" % key[1]}[key[0]]
        if (name in marked) != (res["status"] in ("failed", "skipped")):
            hits.append(("session-failures-disagree", "%s: marked failed in the session = %s, status %s" % (name, name in marked, res["status"])))
    seen, out = set(), []
    for sig, text in hits:
        if sig not in seen:
            seen.add(sig)
            out.append((sig, text))
    return out


# ---------------------------------------------------------------------------------------------- C04
def transitive_deps(pd):
    """{test path: set of test paths it depends on, directly or not} (valid graphs only)."""
    direct = {}
    for path, s, dis in walk_suites(pd):
        for t in s.get("tests", []):
            direct[path + "." + t["name"]] = list(t.get("deps", []))
    res = {}
    for t in direct:
        seen, todo = set(), list(direct[t])
        while todo:
            d = todo.pop()
            if d in seen:
                continue
            seen.add(d)
            todo += direct.get(d, [])
        res[t] = seen
    return res, direct


def c04_oracle(case, r):
    hits = []
    oc = r.get("outcome") or ["?"]
    pd = case.get("scheduled_project") or case["project"]
    if case.get("expect_rejected"):
        if oc[0] != "rejected" or oc[1] != "ValidationError":
            hits.append(("bad-graph-not-rejected", "a project with %s dependencies was not rejected by a ValidationError: %s" % (
                case["expect_rejected"], oc[:2])))
        if r.get("trace") or r.get("body_starts"):
            hits.append(("bad-graph-executed", "something was executed although the dependency graph is invalid"))
        return hits
    if oc[0] == "rejected":
        hits.append(("valid-graph-rejected", "a valid dependency graph was rejected: %s" % (oc[2][:200],)))
        return hits
    died = case.get("base_exception") and oc[0] == "raised" and oc[1] == "LemoncheesecakeException" and \
        "Error(s) while running tasks" in (oc[2] if len(oc) > 2 else "") and r.get("report")
    if (oc[0] != "returned" or not r.get("report")) and not died:
        return hits + _abnormal_end(oc, "the tests are not accounted for")
    # (died: user code raised a BaseException -- sys.exit() -- so the run ends with the runner's "Error(s) while running tasks";
    #  what was executed and reported until then is judged like any other run: a test that died is not a successful dependency)
    trans, direct = transitive_deps(pd)
    status = dict(report_tests(r["report"]))
    details = {}

    def go(s, prefix):
        path = prefix + s["name"]
        for t in s["tests"]:
            details[path + "." + t["name"]] = t["status_details"]
        for sub in s["suites"]:
            go(sub, path + ".")
    for s in r["report"]["suites"]:
        go(s, "")
    body, fin, init_fin = {}, {}, {}
    for i, a in enumerate(r.get("trace") or []):
        if a[1] == "body_begin":
            body[a[2]] = i
        elif a[1] == "finish":
            if a[2][0] == "TestTask":
                fin[a[2][1]] = i
            elif a[2][0] == "SuiteInitializationTask":
                init_fin[a[2][1]] = i
    force = bool(case.get("options", {}).get("force_disabled"))
    for t, deps in trans.items():
        if t in body:
            for d in deps:
                if d not in fin or fin[d] > body[t]:
                    hits.append(("started-before-dependency-finished", "test %s started before its dependency %s had finished" % (t, d)))
                if status.get(d) not in ("passed", "disabled"):
                    hits.append(("executed-despite-failed-dependency", "test %s was executed although its dependency %s is %s" % (t, d, status.get(d))))
            sp = t.rsplit(".", 1)[0]
            if sp in init_fin and init_fin[sp] > body[t]:
                hits.append(("started-before-suite-setup-finished", "test %s started before the setup of its suite finished" % t))
        bad = [d for d in direct.get(t, []) if status.get(d) not in ("passed", "disabled")]
        if bad and status.get(t) not in ("skipped", "disabled"):
            hits.append(("not-skipped-despite-failed-dependency", "test %s has status %s although its dependency %s is %s" % (
                t, status.get(t), bad[0], status.get(bad[0]))))
        if bad and status.get(t) == "skipped" and not details.get(t) and not died:
            # (not in a run that died: a dependency that left through sys.exit() has neither passed nor failed, the runner has no
            #  reason to pass on and reports the escaped exception itself when the run ends)
            hits.append(("skipped-without-reason", "test %s was skipped because of %s but carries no reason" % (t, bad[0])))
    seen, out = set(), []
    for sig, text in hits:
        if sig not in seen:
            seen.add(sig)
            out.append((sig, text))
    return out


# ---------------------------------------------------------------------------------------------- C06
import re as _re


def _owner_location(tag):
    """'body:s1.t2#0' -> ('test', 's1.t2'); fixtures -> None (they run wherever they are set up)."""
    kind, rest = tag.split(":", 1)
    what = rest.split("#")[0]
    return {"body": ("test", what), "setup_test": ("test", what), "teardown_test": ("test", what),
            "setup_suite": ("suite_setup", what), "teardown_suite": ("suite_teardown", what)}.get(kind)


def _may_run_in(owner_tag, loc_kind, loc_path, fx_scopes):
    """Can the code named by owner_tag ('body:s1.t2#0', 'fxteardown:f3', ...) execute in the location (loc_kind, loc_path)?"""
    want = _owner_location(owner_tag)
    if want is not None:
        return want == (loc_kind, loc_path)
    kind, rest = owner_tag.split(":", 1)
    scope = fx_scopes.get(rest.split("#")[0])
    if scope is None:
        return True                      # unknown owner: no claim
    return loc_kind in {"test": ("test",), "suite": ("suite_setup", "suite_teardown"),
                        "session": ("session_setup", "session_teardown")}.get(scope, ())


def _tag_of(text):
    m = _re.match(r"^(.*)\|(?:step)?(\d+)$", text or "")
    return (m.group(1), int(m.group(2))) if m else None


def expected_steps(pd):
    """{(tag, payload): expected step description} for the logs of bodies and hooks: the step that is current in the
    emitting thread according to the script itself (last set_step of that thread, else the step inherited at creation)."""
    exp = {}

    def walk(script, tag_base, tp, current):
        tag = tag_base + ("" if not tp else "#" + ".".join(map(str, tp)))
        nspawn = 0
        for a in script:
            if a[0] == "step":
                current = "%s|step%d" % (tag, a[1])
            elif a[0] in ("log", "check", "url", "attach"):
                exp[(tag, a[2] if a[0] in ("log", "check") else a[1])] = current
            elif a[0] == "spawn":
                walk(a[1], tag_base, tp + (nspawn,), current)
                nspawn += 1
            elif a[0] == "raise":
                break
    # only test bodies: a body always starts with set_step(<test description>); hooks and fixtures share the step of their
    # phase with whatever ran before them in the same thread, which is the thread's current step as well
    for path, s, dis in walk_suites(pd):
        for t in s.get("tests", []):
            walk(t["body"], "body:" + path + "." + t["name"], (), "desc of " + t["name"])
    return exp


def c06_oracle(case, r):
    hits = []
    if (r.get("outcome") or ["?"])[0] != "returned" or not r.get("report"):
        return hits + _abnormal_end(r.get("outcome") or ["?"], "what the tests emitted is not recorded")
    exp_steps = expected_steps(case.get("scheduled_project") or case["project"])
    fx_scopes = {f["name"]: f["scope"] for f in (case.get("scheduled_project") or case["project"]).get("fixtures", [])}
    # 1. events: the location of every user log is the location of the code that emitted it; threads are not confused
    thread_of_tag = {}
    for ev in r.get("events") or []:
        if ev[0] not in ("log", "check", "log_url", "log_attachment"):
            continue
        d = {x[0]: x[1] for x in ev[1:] if isinstance(x, list) and len(x) == 2 and isinstance(x[0], str)}
        loc = next((x for x in ev[1:] if isinstance(x, list) and x and x[0] == "loc"), None)
        text = d.get("log_message") or d.get("check_description") or d.get("url_description") or d.get("attachment_description")
        tg = _tag_of(text)
        if not tg:
            continue
        want = _owner_location(tg[0])
        if want and (LOC_NAMES[loc[1]], loc[2]) != want:
            hits.append(("log-in-wrong-location", "a log of %s was emitted with the location %s %s" % (tg[0], LOC_NAMES[loc[1]], loc[2])))
        th = d.get("thread")
        prev = thread_of_tag.setdefault(tg[0], th)
        if want and prev != th:
            hits.append(("log-with-wrong-thread", "logs of %s carry two different thread ids" % tg[0]))
        step = d.get("step")
        stg = _tag_of(step)
        # the step a log lies in was set by code that ran in the same location (the same test / setup / teardown phase): the
        # emitting code itself, or code that ran before it on the same thread (a fixture teardown before teardown_test ...), or
        # the creator of the thread (lcc.Thread inherits the creator's current step).  A step set by code that cannot run in
        # this location (another test's body or hooks, a fixture of another scope) is a leak.
        if stg and stg[0] != tg[0] and not _may_run_in(stg[0], LOC_NAMES[loc[1]], loc[2], fx_scopes):
            hits.append(("log-in-foreign-step", "a log of %s, emitted in %s %s, is filed in a step set by %s" % (
                tg[0], LOC_NAMES[loc[1]], loc[2], stg[0])))
    # 2. report: every log lies in the result of its owner, in emission order per thread
    results = _results_of_report(r["report"])
    for key, res in results.items():
        last = {}
        for st in res["steps"]:
            for l in st["logs"]:
                text = l[2] if l[0] == "log" else l[1]
                tg = _tag_of(text)
                if not tg:
                    continue
                want = _owner_location(tg[0])
                if want and want != key:
                    hits.append(("log-leaked-to-other-result", "a log of %s is recorded in %s %s" % (tg[0], key[0], key[1])))
                want_step = exp_steps.get(tg)
                if want_step is not None and st["description"] != want_step:
                    hits.append(("log-in-wrong-step", "a log of %s (payload %d) is recorded in step %r instead of %r, the step current "
                                 "in the emitting thread" % (tg[0], tg[1], st["description"], want_step)))
                if tg[0] in last and last[tg[0]] > tg[1]:
                    hits.append(("log-order-changed", "logs of %s are not in emission order in %s %s" % (tg[0], key[0], key[1])))
                last[tg[0]] = tg[1]
    # 3. attachments: distinct names, existing files with the written content
    names = []
    for key, res in results.items():
        for st in res["steps"]:
            for l in st["logs"]:
                if l[0] == "attachment":
                    names.append((l[2], l[1]))
    if len(set(n for n, _ in names)) != len(names):
        hits.append(("attachment-name-collision", "two attachments share a file name"))
    att = r.get("attachments") or {}
    for fn, desc in names:
        if fn not in att:
            hits.append(("attachment-file-missing", "the report references %s which does not exist" % fn))
        elif att[fn] != desc:
            hits.append(("attachment-content-wrong", "attachment %s does not hold what was written" % fn))
    seen, out = set(), []
    for sig, text in hits:
        if sig not in seen:
            seen.add(sig)
            out.append((sig, text))
    return out


# ---------------------------------------------------------------------------------------------- C07
RESULT_BRACKETS = {"test_session_setup_start": ("test_session_setup_end", ("session_setup", "")),
                   "test_session_teardown_start": ("test_session_teardown_end", ("session_teardown", "")),
                   "suite_setup_start": ("suite_setup_end", "suite_setup"), "suite_teardown_start": ("suite_teardown_end", "suite_teardown"),
                   "test_start": ("test_end", "test")}


def _event_result(ev):
    """The result (location key) an event belongs to, or None for suite / session level events."""
    name = ev[0]
    if name in ("test_session_setup_start", "test_session_setup_end"):
        return ("session_setup", "")
    if name in ("test_session_teardown_start", "test_session_teardown_end"):
        return ("session_teardown", "")
    if name in ("suite_setup_start", "suite_setup_end"):
        return ("suite_setup", ev[1])
    if name in ("suite_teardown_start", "suite_teardown_end"):
        return ("suite_teardown", ev[1])
    if name in ("test_start", "test_end", "test_skipped", "test_disabled"):
        return ("test", ev[1])
    loc = next((x for x in ev[1:] if isinstance(x, list) and x and x[0] == "loc"), None)
    if loc is not None:
        return (LOC_NAMES[loc[1]], loc[2])
    return None


def _suite_of(key):
    if key[0] == "test":
        return key[1].rsplit(".", 1)[0]
    if key[0] in ("suite_setup", "suite_teardown"):
        return key[1]
    return None


def c07_oracle(case, r, stream=None, sequential=None):
    """The grammar of DESIGN.md A.1 on the stream delivered to a backend."""
    hits = []
    oc = r.get("outcome") or ["?"]
    if oc[0] not in ("returned", "raised"):
        return hits
    evs = stream if stream is not None else (r.get("events") or [])
    if oc[0] == "raised":
        # the run was aborted by an error (e.g. the report writer rejected the stream): judge the stream that was put on the queue
        hits.append(("run-aborted:" + oc[1], "the run was aborted by %s: %s" % (oc[1], (oc[2] if len(oc) > 2 else "").strip().split("\n")[-1][:160])))
        evs = [a[2] for a in (r.get("trace") or []) if a[1] == "fire"]
    if not evs:
        return hits + [("empty-stream", "the backend received nothing")]
    if evs[0][0] != "test_session_start":
        hits.append(("session-start-not-first", "the first event is %s" % evs[0][0]))
    if evs[-1][0] != "test_session_end":
        hits.append(("session-end-not-last", "the last event is %s" % evs[-1][0]))
    if sum(1 for e in evs if e[0] in ("test_session_start", "test_session_end")) != 2:
        hits.append(("session-brackets-repeated", "session start / end are not delivered exactly once"))
    sstart, send = {}, {}
    open_results, closed_results, single = {}, set(), set()
    open_steps = {}           # (result key, thread) -> [description, nlogs]
    for i, ev in enumerate(evs):
        name = ev[0]
        if name == "suite_start":
            if ev[1] in sstart:
                hits.append(("suite-started-twice", "suite %s started twice" % ev[1]))
            sstart[ev[1]] = i
            parent = ev[1].rsplit(".", 1)[0] if "." in ev[1] else None
            if parent and (parent not in sstart or parent in send):
                hits.append(("suite-outside-parent", "suite %s starts outside its parent suite" % ev[1]))
            continue
        if name == "suite_end":
            if ev[1] not in sstart:
                hits.append(("suite-end-without-start", "suite %s ends before it starts" % ev[1]))
            if ev[1] in send:
                hits.append(("suite-ended-twice", "suite %s ended twice" % ev[1]))
            send[ev[1]] = i
            for k in open_results:
                if _suite_of(k) and (_suite_of(k) == ev[1] or _suite_of(k).startswith(ev[1] + ".")):
                    hits.append(("suite-ended-with-open-result", "suite %s ends while %s %s is still open" % (ev[1], k[0], k[1])))
            continue
        key = _event_result(ev)
        if key is None:
            continue
        su = _suite_of(key)
        if su is not None:
            anc = su
            while True:
                if anc not in sstart or anc in send:
                    hits.append(("event-outside-suite", "%s of %s %s delivered outside suite %s" % (name, key[0], key[1], anc)))
                    break
                if "." not in anc:
                    break
                anc = anc.rsplit(".", 1)[0]
        if name in RESULT_BRACKETS:
            if key in open_results or key in closed_results or key in single:
                hits.append(("result-started-twice", "%s %s started twice" % key))
            open_results[key] = i
        elif name in ("test_session_setup_end", "test_session_teardown_end", "suite_setup_end", "suite_teardown_end", "test_end"):
            if key not in open_results:
                hits.append(("result-end-without-start", "%s %s ended without having started" % key))
            open_results.pop(key, None)
            closed_results.add(key)
            for (k, th), st in list(open_steps.items()):
                if k == key:
                    hits.append(("result-ended-with-open-step", "%s %s ended while step %r is open" % (key[0], key[1], st[0])))
                    del open_steps[(k, th)]
        elif name in ("test_skipped", "test_disabled"):
            if key in open_results or key in closed_results or key in single:
                hits.append(("single-event-test-has-more", "test %s has other events besides %s" % (key[1], name)))
            single.add(key)
        else:
            d = {x[0]: x[1] for x in ev[1:] if isinstance(x, list) and len(x) == 2 and isinstance(x[0], str)}
            th = d.get("thread")
            if key in closed_results or key in single:
                hits.append(("event-after-result-end", "%s delivered for %s %s after its end" % (name, key[0], key[1])))
            if key not in open_results and key not in closed_results and key not in single:
                hits.append(("event-before-result-start", "%s delivered for %s %s before its start" % (name, key[0], key[1])))
            if name == "step_start":
                if (key, th) in open_steps:
                    hits.append(("step-started-in-open-step", "thread %s starts a step in %s %s while %r is open" % (th, key[0], key[1], open_steps[(key, th)][0])))
                open_steps[(key, th)] = [d.get("step_description"), 0]
            elif name == "step_end":
                st = open_steps.pop((key, th), None)
                if st is None:
                    hits.append(("step-end-without-start", "thread %s ends a step it did not start in %s %s" % (th, key[0], key[1])))
                elif st[0] != d.get("step"):
                    hits.append(("step-end-mismatch", "step %r ended as %r" % (st[0], d.get("step"))))
                elif st[1] == 0:
                    hits.append(("empty-step-not-elided", "an empty step %r was delivered" % (st[0],)))
            else:
                st = open_steps.get((key, th))
                if st is None:
                    hits.append(("log-outside-step", "%s of thread %s in %s %s lies outside any open step of that thread" % (name, th, key[0], key[1])))
                else:
                    if st[0] != d.get("step"):
                        hits.append(("log-with-wrong-step", "%s carries step %r while %r is open" % (name, d.get("step"), st[0])))
                    st[1] += 1
    for key in open_results:
        hits.append(("start-without-end", "%s %s has a start but no end" % key))
    for s in sstart:
        if s not in send:
            hits.append(("suite-start-without-end", "suite %s has a start but no end" % s))
    # setups before / teardowns after the tests of their suite
    first_test, last_test = {}, {}
    for i, ev in enumerate(evs):
        key = _event_result(ev)
        if key and key[0] == "test":
            s = key[1].rsplit(".", 1)[0]
            first_test.setdefault(s, i)
            last_test[s] = i
    for i, ev in enumerate(evs):
        if ev[0] == "suite_setup_end" and ev[1] in first_test and first_test[ev[1]] < i:
            hits.append(("test-before-suite-setup-end", "a test of %s was delivered before the end of the suite setup" % ev[1]))
        if ev[0] == "suite_teardown_start" and ev[1] in last_test and last_test[ev[1]] > i:
            hits.append(("test-after-suite-teardown-start", "a test of %s was delivered after the start of the suite teardown" % ev[1]))
    if sequential if sequential is not None else int(case.get("options", {}).get("nb_threads", 1)) == 1:
        # events of different results never interleave (threads of one test may)
        seen_keys, cur = [], None
        for ev in evs:
            key = _event_result(ev)
            if key is None:
                cur = None
                continue
            if key != cur:
                if key in seen_keys:
                    hits.append(("results-interleaved", "events of %s %s are not contiguous with one worker thread" % key))
                seen_keys.append(key)
                cur = key
    seen, out = set(), []
    for sig, text in hits:
        if sig not in seen:
            seen.add(sig)
            out.append((sig, text))
    return out


# ---------------------------------------------------------------------------------------------- C08
def c08_oracle(case, r):
    hits = []
    oc = r.get("outcome") or ["?"]
    if oc[0] in ("hang", "sched_abort"):
        return [("run-does-not-terminate", "the run does not terminate: %s" % (oc[1][:200],))]
    if oc[0] != "returned" or not r.get("report"):
        if oc[0] == "raised":
            hits.append(("run-raised:" + oc[1], "the run raised %s" % oc[1]))
        return hits
    pd = case.get("scheduled_project") or case["project"]
    opts = case.get("options", {})
    force = bool(opts.get("force_disabled"))
    exp = expected_tests(pd)
    status = dict(report_tests(r["report"]))
    trace = r.get("trace") or []
    cur, owner = {}, {}
    take_idx, fin_idx = {}, {}
    triggers = []      # (idx from which it is visible, kind, suite or None, description)
    first_failure = None
    for i, a in enumerate(trace):
        th, op = a[0], a[1]
        if op == "take":
            cur[th] = tuple(a[3])
            take_idx[tuple(a[3])] = i
        elif op == "finish":
            lab = tuple(a[2])
            fin_idx[lab] = i
            cur.pop(th, None)
            if first_failure is None and a[3][0] in ("failure", "skipped") and lab[0] in ("TestTask", "SuiteInitializationTask", "TestSessionSetupTask"):
                if not (lab[0] == "TestTask" and exp.get(lab[1]) and not force):
                    first_failure = i
        elif op == "spawn":
            owner[a[4]] = cur.get(th, owner.get(th))
        elif op == "interrupt":
            triggers.append((i, "interrupt", None, "the keyboard interrupt"))
        elif op == "raise" and a[3] in ("AbortSuite", "AbortAllTests") and "#" not in a[2]:
            # (an exception raised inside a lcc.Thread never reaches the runner: Thread.run turns it into an error log)
            task = cur.get(th, owner.get(th))
            if task and task[0] == "TestTask":
                triggers.append((("finish", task), a[3], task[1].rsplit(".", 1)[0], "%s raised by %s" % (a[3], a[2])))
            elif task and a[3] == "AbortAllTests":
                triggers.append((("finish", task), a[3], None, "%s raised by %s" % (a[3], a[2])))
    # teardown failures also count for --stop-on-failure (any location marked failed)
    if opts.get("stop_on_failure"):
        for i, a in enumerate(trace):
            if a[1] == "flag" and a[2] == "failure":
                # visible at the latest when the task that recorded it has finished
                first_failure = i if first_failure is None else min(first_failure, max(i, 0))
                break
    resolved = []
    for vis, kind, suite, what in triggers:
        if isinstance(vis, tuple):
            if vis[1] not in fin_idx:
                continue
            vis = fin_idx[vis[1]]
        resolved.append((vis, kind, suite, what))
    if opts.get("stop_on_failure") and first_failure is not None:
        # the failure is certainly visible once the task that failed has finished
        fin_after = [i for lab, i in fin_idx.items() if i >= first_failure]
        if fin_after:
            resolved.append((min(fin_after), "stop_on_failure", None, "the first failure under --stop-on-failure"))
    for path, disabled in exp.items():
        lab = ("TestTask", path)
        if disabled and not force:
            continue
        if lab not in take_idx:
            continue
        for vis, kind, suite, what in resolved:
            if take_idx[lab] <= vis:
                continue
            if kind == "AbortSuite" and path.rsplit(".", 1)[0] != suite:
                continue
            if status.get(path) != "skipped":
                hits.append(("started-after-%s" % kind.lower().replace("_", "-"),
                             "test %s was taken by a worker after %s was visible and is %s instead of skipped" % (path, what, status.get(path))))
    # sub-suites are not affected by AbortSuite: the reason "the tests of this test suite have been aborted" may only be given to
    # tests whose OWN suite raised AbortSuite
    details = {}
    for key, res in _results_of_report(r["report"]).items():
        if key[0] == "test":
            details[key[1]] = res.get("status_details")
    test_deps = {}
    for spath, su, _dis in walk_suites(pd):
        for t in su.get("tests", []):
            test_deps[spath + "." + t["name"]] = list(t.get("deps") or [])
    raised_in = set()
    for i, a in enumerate(trace):
        if a[1] == "raise" and a[3] == "AbortSuite" and "#" not in a[2]:
            t = _owner_location(a[2])
            if t and t[0] == "test":
                raised_in.add(t[1].rsplit(".", 1)[0])
            elif ":" in a[2] and a[2].split(":", 1)[0] in ("fxsetup", "fxteardown"):
                raised_in.add(None)              # a fixture: the suite is the one of the test it runs in; do not judge
    for path, d in details.items():
        if status.get(path) == "skipped" and d and "of this test suite have been aborted" in d:
            # (a test skipped because a test it depends on was skipped inherits that test's reason: not judged here)
            # (through a disabled test too, whose task is skipped with the reason while it is reported disabled: any dependency)
            inherited = bool(test_deps.get(path))
            if None not in raised_in and path.rsplit(".", 1)[0] not in raised_in and not inherited:
                hits.append(("test-of-other-suite-skipped-by-abortsuite",
                             "test %s was skipped because 'the tests of this test suite have been aborted' but AbortSuite was only raised in %s" % (
                                 path, sorted(x for x in raised_in if x))))
    # "skipped with an explanatory reason": every test skipped by one of these triggers says why
    if resolved:
        for path, d in details.items():
            if status.get(path) == "skipped" and not d:
                hits.append(("skipped-without-reason", "test %s was skipped after %s without any reason in its status details" % (path, resolved[0][3])))
    # the report is complete, the session end was delivered, the run is unsuccessful
    for path in exp:
        if path not in status:
            hits.append(("test-missing-after-abort", "test %s is not in the report" % path))
    evs = r.get("events") or []
    if not evs or evs[-1][0] != "test_session_end":
        hits.append(("session-end-not-delivered", "the backends did not receive the session end"))
    if resolved and oc[1] is not False and any(s in ("failed", "skipped") for s in status.values()):
        hits.append(("aborted-run-reported-successful", "the run returned success although tests failed or were skipped"))
    files = r.get("files") or {}
    if case.get("file_backends") and "json" in case["file_backends"] and not any(f.startswith("report.js") for f in files):
        hits.append(("report-not-saved", "no report file was saved"))
    # teardowns still run, after their consumers (reuse the C03 oracle)
    for sig, text in c03_oracle(case, r):
        if sig in ("fixture-never-torn-down", "fixture-torn-down-before-consumer-finished", "fixture-torn-down-twice",
                   "teardown-suite-never-executed", "teardown-suite-before-test-finished", "teardown-suite-before-setup"):
            hits.append((sig, text))
    seen, out = set(), []
    for sig, text in hits:
        if sig not in seen:
            seen.add(sig)
            out.append((sig, text))
    return out


# ---------------------------------------------------------------------------------------------- C11
FAULT_TEXT = {"one": "backend-fault", "multi": "backend-fault", "unicode": "backend-fault", "empty": "", "picky": "backend-fault: quota of 4096 bytes exceeded"}
FAULT_CLASS = {"one": "FaultA", "multi": "FaultMulti", "unicode": "UnicodeEncodeError", "empty": "FaultEmpty", "picky": "FaultPicky"}


def c11_oracle(case, r):
    hits = []
    fault = case.get("fault")
    oc = r.get("outcome") or ["?"]
    if oc[0] in ("hang", "sched_abort"):
        return [("run-hangs-after-backend-failure", "the run does not terminate after a backend raised: %s" % (oc[1][:200],))]
    if not fault:
        return hits
    trace = r.get("trace") or []
    fired = sum(1 for a in trace if a[1] == "handle")
    # did the fault trigger at all? (the backend raises when it handles its k-th event)
    triggered = any(a[1] == "flag" and a[2] == "pending" for a in trace)
    if not triggered:
        if len(r.get("events") or []) > fault["at"]:
            hits.append(("backend-failure-not-recorded", "the backend raised at event %d but no failure is pending" % fault["at"]))
        return hits
    # never silent: an error is raised to the caller, carrying the original text
    if oc[0] != "raised":
        hits.append(("backend-failure-silent", "a backend raised %s at event %d and the run ended with %s" % (FAULT_CLASS[fault["cls"]], fault["at"], oc[:2])))
    else:
        text = oc[2] if len(oc) > 2 else ""
        want = FAULT_TEXT[fault["cls"]]
        if want and want not in text:
            hits.append(("error-text-lost", "the error raised to the caller (%s) does not carry the original text %r: %r" % (oc[1], want, text[:120])))
        if FAULT_CLASS[fault["cls"]] not in text and FAULT_CLASS[fault["cls"]] != oc[1]:
            hits.append(("error-class-lost", "the error raised to the caller (%s) mentions neither the class nor the traceback of %s" % (oc[1], FAULT_CLASS[fault["cls"]])))
    # the handler thread stops at the first failure: nothing is delivered after the event on which the backend raised, and the
    # failure kept for the caller is the FIRST one (a backend that would fail again on later events is never called again)
    delivered = len(r.get("events") or [])
    if delivered > fault["at"] + 1:
        hits.append(("event-delivered-after-backend-failure", "%d events were delivered to the backend after it raised at event %d" % (
            delivered - fault["at"] - 1, fault["at"])))
    if oc[0] == "raised" and "second-fault" in (oc[2] if len(oc) > 2 else ""):
        hits.append(("later-failure-overwrote-first", "the error raised to the caller is that of a later failure: %r" % (oc[2][:120],)))
    # no further test body is started once the failure is visible (= recorded before the worker took the task)
    vis = next(i for i, a in enumerate(trace) if a[1] == "flag" and a[2] == "pending")
    take_idx = {}
    for i, a in enumerate(trace):
        if a[1] == "take":
            take_idx[tuple(a[3])] = i
        elif a[1] == "body_begin":
            lab = ("TestTask", a[2])
            if take_idx.get(lab, -1) > vis:
                hits.append(("body-started-after-backend-failure", "the body of %s was started after the backend failure was recorded" % a[2]))
    # teardowns of completed setups still run (reuse the C03 oracle's teardown checks on the trace)
    fake = dict(r)
    fake["outcome"] = ["returned", False]
    for sig, text in c03_oracle(case, fake):
        if sig in ("fixture-never-torn-down", "teardown-suite-never-executed", "fixture-torn-down-before-consumer-finished"):
            hits.append((sig, text))
    # ... and run to their END: a teardown (fixture teardown, teardown_suite, teardown_test) that has begun is only left early by
    # an exception its own code raises (the code after a logging call is what releases the resource)
    open_td = {}
    for a in trace:
        th, op = a[0], a[1]
        if op == "fx_teardown_begin":
            open_td[th] = ("teardown of fixture %s" % a[2], False)
        elif op == "hook_begin" and a[2] in ("teardown_suite", "teardown_test"):
            open_td[th] = ("%s of %s" % (a[2], a[3]), False)
        elif op in ("fx_teardown_end",) or (op == "hook_end" and a[2] in ("teardown_suite", "teardown_test")):
            open_td.pop(th, None)
        elif op == "raise" and th in open_td:
            open_td[th] = (open_td[th][0], True)
        elif op in ("take", "finish") and th in open_td:
            what, own = open_td.pop(th)
            if not own:
                hits.append(("teardown-cut-short-after-backend-failure", "the %s began but did not run to its end although nothing in it raised" % what))
    for th, (what, own) in open_td.items():
        if not own:
            hits.append(("teardown-cut-short-after-backend-failure", "the %s began but did not run to its end although nothing in it raised" % what))
    seen, out = set(), []
    for sig, text in hits:
        if sig not in seen:
            seen.add(sig)
            out.append((sig, text))
    return out


# ---------------------------------------------------------------------------------------------- C05
def strip_attachment_prefix(nf):
    """Report normal form with the schedule-dependent NNNN_ uniquifier of attachment file names removed (C06 constrains it)."""
    import copy
    import re
    nf = copy.deepcopy(nf)

    def fix_result(res):
        if not res:
            return
        for st in res["steps"]:
            for l in st["logs"]:
                if l[0] == "attachment":
                    l[2] = re.sub(r"^attachments/\d+_", "attachments/", l[2])

    def go(s):
        fix_result(s.get("setup"))
        fix_result(s.get("teardown"))
        for t in s["tests"]:
            fix_result(t)
        for sub in s["suites"]:
            go(sub)
    fix_result(nf.get("session_setup"))
    fix_result(nf.get("session_teardown"))
    for s in nf["suites"]:
        go(s)
    nf.pop("nb_threads", None)
    return nf


def first_difference(a, b, path="report"):
    if type(a) != type(b):
        return "%s: %r vs %r" % (path, a, b)
    if isinstance(a, dict):
        for k in a:
            if k not in b:
                return "%s.%s missing" % (path, k)
            d = first_difference(a[k], b[k], path + "." + str(k))
            if d:
                return d
        return None
    if isinstance(a, list):
        if len(a) != len(b):
            names = lambda l: [x.get("name") if isinstance(x, dict) else x for x in l][:8]
            return "%s: %d vs %d items (%s vs %s)" % (path, len(a), len(b), names(a), names(b))
        if a and all(isinstance(x, dict) and "name" in x for x in a + b):
            na, nb = [x["name"] for x in a], [x["name"] for x in b]
            if na != nb:
                return "%s: ORDER %s vs %s" % (path, na[:10], nb[:10])
        for i, (x, y) in enumerate(zip(a, b)):
            d = first_difference(x, y, "%s[%s]" % (path, (x.get("name") if isinstance(x, dict) and "name" in x else i)))
            if d:
                return d
        return None
    return None if a == b else "%s: %r vs %r" % (path, a, b)


# ---------------------------------------------------------------------------------------------- structure of the task graph
def graph_structure_violations(graph):
    """Ordering requirements that the implementation's task graph must enforce (DESIGN 4.1: begin_before_all, end_after_all,
    teardown_after_consumers, setup_before_tests). Returns [(kind, task label A, task label B)] meaning 'B does not wait for A'.
    Used to pick the projects on which a schedule search is worthwhile when a correspondence broke."""
    n = len(graph)
    deps = [set(t["succ"]) | set(t["compl"]) for t in graph]
    reach = [None] * n

    def closure(i):
        if reach[i] is None:
            reach[i] = set()
            for d in deps[i]:
                if 0 <= d < n:
                    reach[i].add(d)
                    reach[i] |= closure(d)
        return reach[i]
    import sys
    sys.setrecursionlimit(10000)
    idx = {tuple(t["label"]): i for i, t in enumerate(graph)}
    out = []

    def in_subtree(path, suite):
        return path == suite or path.startswith(suite + ".")
    for i, t in enumerate(graph):
        k, p = t["label"]
        if k == "TestTask":
            s = p.rsplit(".", 1)[0]
            for need in (("SuiteBeginningTask", s), ("SuiteInitializationTask", s), ("TestSessionSetupTask", "")):
                if need in idx and idx[need] not in closure(i):
                    out.append(("test-does-not-wait-for-setup", list(need), t["label"]))
            for waiter in (("SuiteTeardownTask", s), ("SuiteEndingTask", s), ("TestSessionTeardownTask", "")):
                if waiter in idx and i not in closure(idx[waiter]):
                    out.append(("teardown-or-end-does-not-wait-for-test", t["label"], list(waiter)))
        if k == "SuiteBeginningTask":
            for j, u in enumerate(graph):
                if j != i and u["label"][0] != "TestSessionSetupTask" and u["label"][0] != "TestSessionTeardownTask":
                    up = u["label"][1] if u["label"][0] != "TestTask" else u["label"][1].rsplit(".", 1)[0]
                    if in_subtree(up, p) and i not in closure(j):
                        out.append(("task-does-not-wait-for-suite-begin", t["label"], u["label"]))
        if k == "SuiteEndingTask":
            for j, u in enumerate(graph):
                if j != i and u["label"][0] not in ("TestSessionSetupTask", "TestSessionTeardownTask"):
                    up = u["label"][1] if u["label"][0] != "TestTask" else u["label"][1].rsplit(".", 1)[0]
                    if in_subtree(up, p) and j not in closure(i):
                        out.append(("suite-end-does-not-wait-for-task", u["label"], t["label"]))
            if ("TestSessionTeardownTask", "") in idx and i not in closure(idx[("TestSessionTeardownTask", "")]):
                out.append(("session-teardown-does-not-wait-for-suite-end", t["label"], ["TestSessionTeardownTask", ""]))
    return out
