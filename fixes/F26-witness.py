import lemoncheesecake.api as lcc
from lemoncheesecake.suite import load_suite_from_class, resolve_tests_dependencies
from lemoncheesecake.testtree import filter_suites

@lcc.suite("db")
class db:
    @lcc.test("setup")
    @lcc.tags("db")
    def setup(self):
        pass

    @lcc.test("cleanup")
    @lcc.tags("db")
    @lcc.depends_on(lambda t: "db" in t.tags)
    def cleanup(self):
        pass

suites = [load_suite_from_class(db)]
resolve_tests_dependencies(suites, suites)
print("unfiltered: ok", [t.path for t in suites[0].get_tests()[1].resolved_dependencies])
filtered = filter_suites(suites, lambda t: True)
try:
    resolve_tests_dependencies(filtered, suites)
    print("filtered: ok", [t.path for t in filtered[0].get_tests()[1].resolved_dependencies])
except Exception as e:
    print("filtered: REJECTED:", e)
