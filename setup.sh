#!/bin/bash
# MANIFEST.setup_cmd : offline build of the whole Coq development (full .vo build).
set -e
here="$(cd "$(dirname "$0")" && pwd)"
cd "$here"
export PYTHONPATH="/repo:$here/harness" PYTHONHASHSEED=0 PYTHONDONTWRITEBYTECODE=1
/venv/bin/python - <<'PY'
import sys, os
sys.path.insert(0, "harness")
import lib
import tables
try:
    tables.regenerate()
except Exception as e:
    print("table regeneration failed:", e)
lib.ensure_makefile()
PY
cd coq
timeout 3000 make -j16 -k 2>&1 | tail -5 || true
echo "setup done"
