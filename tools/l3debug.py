"""usage: PYTHONPATH=/repo:/verif/harness /venv/bin/python tools/l3debug.py <replay.json> <broken index> [task]
Re-runs the case of a broken layer-3 correspondence and prints, for the mismatching tasks, model vs implementation."""
import json, re, sys
sys.path.insert(0, "/verif/harness")
import lib, projcoq, l1, l3, sim
r = json.load(open(sys.argv[1]))
b = r["broken"][int(sys.argv[2])]
c = b["case"]; c.setdefault("sched", []); c.setdefault("id", "dbg")
res = sim.run_cases([c])[c["id"]]
L = l3.L3(res["graph"], res["trace"]); moves, _ = L.L1.moves(res["trace"]); modes = l3.modes_from_moves(moves)
obs = L.observations(modes)
head = """From Coq Require Import List Arith Bool.
Import ListNotations.
From LCC Require Import Base.Util Model.Proj Model.Sched Model.Fixture Model.TaskSem Model.TaskSemEq.
Definition p := %s.
Definition g := %s.
""" % (projcoq.c_project(c["project"]), l1.c_graph(res["graph"]))
force = lib.c_bool(c["options"].get("force_disabled"))
run = lib.Run("C01", "quick", 1)
if len(sys.argv) < 4:
    text = head + "Definition obs := [%s].\nEval vm_compute in (map (fun i => ob_task (nth i obs (mkObs 0 Run None [] [] None))) (run_ok p %s g obs)).\n" % (";\n".join(obs), force)
    rc, out = run.coq_eval("dbg", text)
    print(out[-400:])
    sys.exit(0)
task = int(sys.argv[3])
ob = [o for o in obs if o.startswith("mkObs %d " % task)][0]
print("TASK", res["graph"][task], modes[task])
text = head + """Definition ob := %s.
Definition o := match build_registry (p_fixtures p) with Ok reg => task_sem p reg %s (get_task g (ob_task ob)) (ob_mode ob) (ob_setup_mode ob) | _ => None end.
Eval vm_compute in (match o with Some x => to_main x | None => [] end).
Eval vm_compute in (ob_main ob).
Eval vm_compute in (match o with Some x => (to_children x, predicted_result (ob_task ob) (ob_mode ob) x) | None => ([], None) end).
Eval vm_compute in (ob_children ob, ob_result ob).
""" % (ob, force)
rc, out = run.coq_eval("dbg", text)
out = re.sub(r"\s+", " ", out)
parts = out.split(" = ")
names = ["MODEL main", "IMPL main", "MODEL children,result", "IMPL children,result"]
ma = parts[1].replace("; At", "\n  At").split("\n"); ia = parts[2].replace("; At", "\n  At").split("\n")
for k in range(max(len(ma), len(ia))):
    x = ma[k] if k < len(ma) else "-"; y = ia[k] if k < len(ia) else "-"
    print(("   " if x.strip() == y.strip() else "!! ") + x[:150] + ("" if x.strip() == y.strip() else "\n      IMPL: " + y[:150]))
print(names[2], parts[3][:1500]); print(names[3], parts[4][:1500])
