(* C18, finished reports: the replay of a replayable report in which everything has ended satisfies the stream grammar with every
   bracket closed (StreamOk mode m_unfinished = false, empty steps allowed), Model/StreamOk.v. *)
From Coq Require Import List NArith ZArith Bool Lia Setoid.
Import ListNotations.
From LCC Require Import Base.Util Model.Report Model.Events Model.Replay Model.StreamOk
  Proofs.WriterP Proofs.ReplayP Proofs.StreamP.

Definition fin_mode := mkMode false true.   (* = StreamOk.finished_replay_mode *)

(* ---------------- association lists whose current bindings are all "good", except for exempt keys ---------------- *)
Section Quiet.
  Variables (K V : Type) (eqb : K -> K -> bool).
  Hypothesis eqb_refl : forall k, eqb k k = true.
  Hypothesis eqb_eq : forall a b, eqb a b = true -> a = b.

  Definition quiet (ex : K -> bool) (good : V -> bool) (l : list (K * V)) : Prop :=
    forall k v, In (k, v) l -> ex k = true \/ exists v', lookup eqb k l = Some v' /\ good v' = true.

  Lemma lookup_in : forall k (l : list (K * V)) v, lookup eqb k l = Some v -> In (k, v) l.
  Proof.
    induction l as [|[k' v'] l]; simpl; intros; [discriminate|].
    destruct (eqb k' k) eqn:E.
    - apply eqb_eq in E. inversion H; subst. auto.
    - right. auto.
  Qed.

  Lemma in_lookup : forall k v (l : list (K * V)), In (k, v) l -> exists v', lookup eqb k l = Some v'.
  Proof.
    induction l as [|[k' v'] l]; simpl; intros; [contradiction|].
    destruct (eqb k' k) eqn:E; eauto. destruct H as [H|H]; [inversion H; subst; rewrite eqb_refl in E; discriminate|auto].
  Qed.

  Lemma quiet_lookup : forall ex good l k v, quiet ex good l -> lookup eqb k l = Some v -> ex k = true \/ good v = true.
  Proof.
    intros ex good l k v Q H. destruct (Q k v (lookup_in _ _ _ H)) as [E|[v' [L G]]]; auto.
    right. congruence.
  Qed.

  Lemma quiet_nil : forall ex good, quiet ex good [].
  Proof. intros ex good k v H. inversion H. Qed.

  (* new bindings for one key k on top: the newest is good (or k is exempt) *)
  Lemma quiet_ext : forall ex good old k v d,
    quiet ex good old -> (ex k = true \/ good v = true) -> Forall (fun kv => fst kv = k) d ->
    quiet ex good (((k, v) :: d) ++ old).
  Proof.
    intros ex good old k v d Q Hv Hd k0 v0 Hin.
    destruct (eqb k k0) eqn:E.
    - apply eqb_eq in E. subst k0. destruct Hv as [Hv|Hv]; [left; assumption|].
      right. exists v. simpl. rewrite eqb_refl. auto.
    - assert (Hold : In (k0, v0) old).
      { simpl in Hin. destruct Hin as [Hin|Hin]; [inversion Hin; subst; rewrite eqb_refl in E; discriminate|].
        apply in_app_or in Hin. destruct Hin as [Hin|Hin]; auto.
        rewrite Forall_forall in Hd. specialize (Hd _ Hin). simpl in Hd. subst k0. rewrite eqb_refl in E. discriminate. }
      destruct (Q k0 v0 Hold) as [Hex|[v' [L G]]]; auto.
      right. exists v'. split; auto.
      change (((k, v) :: d) ++ old) with ((k, v) :: d ++ old). simpl. rewrite E.
      rewrite lookup_app_none; auto.
      eapply Forall_impl; [|exact Hd]. intros kv Hk. cbv beta in *. rewrite Hk. assumption.
  Qed.

  Lemma quiet_weaken_ex : forall (ex ex' : K -> bool) good l,
    (forall k, ex k = true -> ex' k = true) -> quiet ex good l -> quiet ex' good l.
  Proof. intros ex ex' good l H Q k v Hin. destruct (Q k v Hin); auto. Qed.
End Quiet.

Lemma quiet_app_ex : forall K V (eqb : K -> K -> bool), (forall a b, eqb a b = true -> a = b) ->
  forall (ex : K -> bool) (good : V -> bool) old d,
  quiet K V eqb ex good old -> Forall (fun kv => ex (fst kv) = true) d -> quiet K V eqb ex good (d ++ old).
Proof.
  intros K V eqb eqb_eq ex good old d Q Hd k0 v0 Hin.
  apply in_app_or in Hin. destruct Hin as [Hin|Hin].
  - left. rewrite Forall_forall in Hd. apply (Hd _ Hin).
  - destruct (Q k0 v0 Hin) as [Hex|[v' [L G]]]; auto.
    destruct (existsb (fun kv => eqb (fst kv) k0) d) eqn:E.
    + left. apply existsb_exists in E. destruct E as [kv [Hkv Ek]]. apply eqb_eq in Ek. subst k0.
      rewrite Forall_forall in Hd. apply (Hd _ Hkv).
    + right. exists v'. split; auto. rewrite lookup_app_none; auto.
      apply Forall_forall. intros kv Hkv. apply (existsb_false_in _ _ _ kv E Hkv).
Qed.

Lemma key_eqb_eq : forall a b, key_eqb a b = true -> a = b.
Proof.
  intros [l1 t1] [l2 t2] H. unfold key_eqb in H. simpl in H. apply andb_true_iff in H. destruct H as [H1 H2].
  apply location_eqb_eq in H1. apply Z.eqb_eq in H2. subst. reflexivity.
Qed.

Definition step_good (o : option (str * bool)) : bool := match o with Some _ => false | None => true end.
Definition test_good (t : tstate) : bool := match t with TStarted => false | _ => true end.
Definition suite_good (s : sstate) : bool :=
  ss_ended s && negb (rstate_eqb (ss_setup s) ROpen) && negb (rstate_eqb (ss_teardown s) ROpen).
Definition nobody {K} (k : K) : bool := false.
Definition spine (u k : path) : bool := match k with [] => false | _ :: _ => has_prefix k u end.

Definition QSt (c : cstate) : Prop := quiet _ _ key_eqb nobody step_good (c_steps c).
Definition QT (c : cstate) : Prop := quiet _ _ path_eqb nobody test_good (c_tests c).
Definition QS (u : path) (c : cstate) : Prop := quiet _ _ path_eqb (spine u) suite_good (c_suites c).

Lemma no_open_step_quiet : forall c loc, QSt c -> no_open_step c loc = true.
Proof.
  intros c loc Q. unfold no_open_step. apply forallb_forall. intros [k v] Hin. simpl fst.
  destruct (Q k v Hin) as [E|[v' [L G]]]; [discriminate|].
  rewrite L. destruct v'; [discriminate|]. apply orb_true_r.
Qed.

Lemma tests_over_quiet : forall c P, QT c -> tests_over c P = true.
Proof.
  intros c P Q. unfold tests_over. apply forallb_forall. intros [k v] Hin. simpl fst.
  destruct (Q k v Hin) as [E|[v' [L G]]]; [discriminate|].
  rewrite L. destruct v'; try discriminate; apply orb_true_r.
Qed.

Lemma suites_over_quiet : forall u c P, QS u c -> (forall k, P k = true -> spine u k = false) -> suites_over c P = true.
Proof.
  intros u c P Q HP. unfold suites_over. apply forallb_forall. intros [k v] Hin. simpl fst.
  destruct (P k) eqn:EP; [|reflexivity]. simpl.
  destruct (Q k v Hin) as [E|[v' [L G]]]; [rewrite (HP k EP) in E; discriminate|].
  rewrite L. exact G.
Qed.

Lemma spine_child : forall u x k, spine u k = true -> spine (u ++ [x]) k = true.
Proof.
  intros u x k H. destruct k as [|a k]; [discriminate|]. unfold spine in *. eapply has_prefix_trans; [exact H|apply has_prefix_app].
Qed.

Lemma has_prefix_snoc : forall k pp x, has_prefix k (pp ++ [x]) = true -> k = pp ++ [x] \/ has_prefix k pp = true.
Proof.
  induction k as [|a k IH]; intros pp x H; [right; reflexivity|].
  destruct pp as [|b pp]; simpl in *.
  - apply andb_true_iff in H. destruct H as [H1 H2]. apply str_eqb_eq in H1. subst.
    destruct k; [left; reflexivity|discriminate].
  - apply andb_true_iff in H. destruct H as [H1 H2]. apply str_eqb_eq in H1. subst.
    destruct (IH pp x H2) as [E|E]; [left; congruence|right]. rewrite str_eqb_refl. assumption.
Qed.

Lemma spine_self : forall u, u <> [] -> spine u u = true.
Proof. intros. destruct u; [contradiction|]. simpl. rewrite str_eqb_refl. apply has_prefix_refl. Qed.

Lemma QSt_with_steps_irrel : forall c x, QT (with_steps c x) <-> QT c.
Proof. intros. split; intro H; exact H. Qed.

Section Fin1.
  Variable now : Z.
  Variable th : tid.
  Let m := fin_mode.

  Lemma log_event_check_fin : forall loc d lg c,
    check_event m c (replay_log now th loc d lg)
    = match c_phase c with PRunning => step_event m c loc d th 2 | _ => None end.
  Proof. intros. destruct lg; reflexivity. Qed.

  Lemma chk_logs_fin : forall loc d logs c b,
    c_phase c = PRunning -> result_open m c loc = true ->
    lookup key_eqb (loc, th) (c_steps c) = Some (Some (d, b)) ->
    exists ds b', check_all m c (map (replay_log now th loc d) logs) = Some (with_steps c (ds ++ c_steps c)) /\
                  Forall (fun kv => fst kv = (loc, th)) ds /\
                  lookup key_eqb (loc, th) (ds ++ c_steps c) = Some (Some (d, b')).
  Proof.
    intros loc d. induction logs as [|lg logs IH]; intros c b Hp Ho Hl.
    - exists [], b. split; [destruct c; reflexivity|]. split; [constructor|exact Hl].
    - cbn [map check_all]. rewrite log_event_check_fin, Hp. unfold step_event. rewrite Ho. cbn [negb].
      rewrite Hl. rewrite str_eqb_refl. cbn [guard].
      destruct (IH (put_step c (loc, th) (Some (d, true))) true) as [ds [b' [E1 [F1 E2]]]]; auto.
      { cbn [put_step c_steps lookup]. rewrite key_eqb_refl. reflexivity. }
      exists (ds ++ [((loc, th), Some (d, true))]), b'. rewrite <- app_assoc. split; [exact E1|]. split; [|exact E2].
      apply Forall_app. split; auto.
  Qed.

  Lemma chk_step_fin : forall loc st c, c_phase c = PRunning -> result_open m c loc = true ->
    QSt c -> step_ended st = true ->
    exists S', check_all m c (replay_step now th loc st) = Some (with_steps c S') /\ QSt (with_steps c S').
  Proof.
    intros loc st c Hp Ho Q Hend. unfold replay_step. cbn [check_all check_event]. rewrite Hp.
    unfold step_event at 1. rewrite Ho. cbn [negb].
    set (c1 := put_step c (loc, th) (Some (st_description st, false))).
    assert (E0 : match lookup key_eqb (loc, th) (c_steps c) with Some (Some x) => Some x | _ => None end = None).
    { destruct (lookup key_eqb (loc, th) (c_steps c)) as [[x|]|] eqn:E; auto.
      destruct (quiet_lookup _ _ key_eqb key_eqb_eq _ _ _ _ _ Q E); discriminate. }
    rewrite E0. rewrite check_all_app.
    destruct (chk_logs_fin loc (st_description st) (st_logs st) c1 false) as [ds [b' [E1 [F1 E2]]]]; auto.
    { unfold c1. cbn [put_step c_steps lookup]. rewrite key_eqb_refl. reflexivity. }
    rewrite E1. unfold step_ended in Hend. rewrite Hend.
    cbn [check_all check_event c_phase with_steps]. unfold c1 at 1. cbn [put_step c_phase]. rewrite Hp.
    unfold step_event. rewrite result_open_with_steps. change (result_open m c1 loc) with (result_open m c loc).
    rewrite Ho. cbn [negb with_steps c_steps]. rewrite E2. rewrite str_eqb_refl.
    cbn [m m_empty_steps fin_mode orb andb guard].
    eexists. split; [reflexivity|].
    unfold QSt. cbn [put_step with_steps c_steps c1].
    replace (((loc, th), None) :: ds ++ ((loc, th), Some (st_description st, false)) :: c_steps c)
      with ((((loc, th), @None (str * bool)) :: (ds ++ [((loc, th), Some (st_description st, false))])) ++ c_steps c)
      by (rewrite <- app_comm_cons, <- app_assoc; reflexivity).
    apply quiet_ext; auto using key_eqb_refl, key_eqb_eq.
    apply Forall_app. split; auto.
  Qed.
End Fin1.

Section Fin2.
  Variable now : Z.
  Variable th : tid.
  Let m := fin_mode.

  Lemma chk_steps_fin : forall loc steps c, c_phase c = PRunning -> result_open m c loc = true ->
    QSt c -> forallb step_ended steps = true ->
    exists S', check_all m c (replay_steps replay_step now th loc steps) = Some (with_steps c S') /\ QSt (with_steps c S').
  Proof.
    intros loc. induction steps as [|st steps IH]; intros c Hp Ho Q Hend.
    - exists (c_steps c). split; [destruct c; reflexivity|exact Q].
    - simpl in Hend. apply andb_true_iff in Hend. destruct Hend as [H1 H2].
      unfold replay_steps. cbn [flat_map]. rewrite check_all_app.
      destruct (chk_step_fin now th loc st c Hp Ho Q H1) as [S1 [E1 Q1]]. unfold m. rewrite E1.
      destruct (IH (with_steps c S1)) as [S2 [E2 Q2]]; auto.
      exists S2. unfold replay_steps in E2. unfold m in E2. rewrite E2. split; [reflexivity|exact Q2].
  Qed.

  Lemma QS_self_bindings : forall u c c', u <> [] -> QS u c -> ExtSelf u c c' -> QS u c'.
  Proof.
    intros u c c' Hu Q [_ [ds [E F]]]. unfold QS. rewrite E. apply quiet_app_ex; auto using path_eqb_eq.
    eapply Forall_impl; [|exact F]. intros kv Hk. cbv beta in *. rewrite Hk. apply spine_self. assumption.
  Qed.

  (* ---------------- setup / teardown of a suite, finished ---------------- *)
  Lemma chk_suite_setup_fin : forall pp mt u o c,
    u = pp ++ [m_name mt] ->
    Open u c (mkS false RNone RNone) -> no_test_of c u = true -> opt_result_ok o = true -> opt_result_ended o = true ->
    QSt c ->
    exists c' x, check_all m c (replay_phase replay_step now th (LocSuiteSetup u)
                                  (ESuiteSetupStart (mkNode pp mt 0)) (ESuiteSetupEnd (mkNode pp mt 0)) o) = Some c' /\
      Open u c' (mkS false x RNone) /\ rstate_eqb x ROpen = false /\ ExtSelf u c c' /\ QSt c' /\
      c_setup c' = c_setup c.
  Proof.
    intros pp mt u o c Hu Hopen Hnt Hok Hend Q.
    destruct o as [r|]; [|exists c, RNone; split; [reflexivity|]; split; [exact Hopen|]; split; [reflexivity|];
                           split; [apply ExtSelf_refl; auto|]; split; [exact Q|reflexivity]].
    cbn [opt_result_ended] in Hend. unfold result_ended in Hend. apply andb_true_iff in Hend. destruct Hend as [He Hse].
    unfold replay_phase. cbn [check_all check_event]. unfold node_path. cbn [n_parent n_meta]. rewrite <- Hu.
    pose proof Hopen as (Hp & _). rewrite Hp. rewrite (open_suite_Open _ _ _ Hopen). cbn [ss_setup ss_teardown rstate_eqb andb].
    rewrite Hnt. cbn [guard].
    set (c1 := put_suite c u (mkS false ROpen RNone)).
    assert (Ho1 : Open u c1 (mkS false ROpen RNone)) by (apply (Open_put_suite u c _ _ Hopen); reflexivity).
    rewrite check_all_app.
    destruct (chk_steps_fin (LocSuiteSetup u) (r_steps r) c1) as [S1 [E1 Q1]]; [exact Hp| |exact Q|exact Hse|].
    { cbn [result_open]. rewrite (open_suite_Open _ _ _ Ho1). cbn. exact Hnt. }
    setoid_rewrite E1. rewrite He.
    cbn [check_all check_event c_phase with_steps]. change (c_phase c1) with (c_phase c). rewrite Hp.
    unfold node_path. cbn [n_parent n_meta]. rewrite <- Hu.
    rewrite (open_suite_Open u _ _ (Open_with_steps _ _ _ S1 Ho1)).
    cbn [ss_setup rstate_eqb andb m_unfinished fin_mode orb ss_teardown].
    rewrite (no_open_step_quiet _ _ Q1). cbn [guard].
    eexists. exists RClosed. split; [reflexivity|]. split; [|split; [reflexivity|split; [|split]]].
    - apply (Open_put_suite u _ _ _ (Open_with_steps _ _ _ S1 Ho1)). reflexivity.
    - eapply ExtSelf_trans; [apply (ExtSelf_put_suite u c (mkS false ROpen RNone))|].
      apply (ExtSelf_put_suite u (with_steps c1 S1)).
    - exact Q1.
    - reflexivity.
  Qed.

  Lemma chk_suite_teardown_fin : forall pp mt u o c su,
    u = pp ++ [m_name mt] ->
    Open u c (mkS false su RNone) -> rstate_eqb su ROpen = false -> opt_result_ok o = true -> opt_result_ended o = true ->
    QSt c -> QT c ->
    exists c' y, check_all m c (replay_phase replay_step now th (LocSuiteTeardown u)
                                  (ESuiteTeardownStart (mkNode pp mt 0)) (ESuiteTeardownEnd (mkNode pp mt 0)) o) = Some c' /\
      Open u c' (mkS false su y) /\ rstate_eqb y ROpen = false /\ ExtSelf u c c' /\ QSt c' /\ c_setup c' = c_setup c.
  Proof.
    intros pp mt u o c su Hu Hopen Hsu Hok Hend Q QTc.
    destruct o as [r|]; [|exists c, RNone; split; [reflexivity|]; split; [exact Hopen|]; split; [reflexivity|];
                           split; [apply ExtSelf_refl; auto|]; split; [exact Q|reflexivity]].
    cbn [opt_result_ended] in Hend. unfold result_ended in Hend. apply andb_true_iff in Hend. destruct Hend as [He Hse].
    unfold replay_phase. cbn [check_all check_event]. unfold node_path. cbn [n_parent n_meta]. rewrite <- Hu.
    pose proof Hopen as (Hp & _). rewrite Hp. rewrite (open_suite_Open _ _ _ Hopen).
    cbn [ss_setup ss_teardown rstate_eqb andb m m_unfinished fin_mode orb]. rewrite Hsu.
    rewrite (tests_over_quiet c _ QTc). cbn [negb andb guard].
    set (c1 := put_suite c u (mkS false su ROpen)).
    assert (Ho1 : Open u c1 (mkS false su ROpen)) by (apply (Open_put_suite u c _ _ Hopen); reflexivity).
    rewrite check_all_app.
    destruct (chk_steps_fin (LocSuiteTeardown u) (r_steps r) c1) as [S1 [E1 Q1]]; [exact Hp| |exact Q|exact Hse|].
    { cbn [result_open]. rewrite (open_suite_Open _ _ _ Ho1). reflexivity. }
    setoid_rewrite E1. rewrite He.
    cbn [check_all check_event c_phase with_steps]. change (c_phase c1) with (c_phase c). rewrite Hp.
    unfold node_path. cbn [n_parent n_meta]. rewrite <- Hu.
    rewrite (open_suite_Open u _ _ (Open_with_steps _ _ _ S1 Ho1)).
    cbn [ss_setup rstate_eqb andb m_unfinished fin_mode orb ss_teardown].
    rewrite (no_open_step_quiet _ _ Q1). cbn [guard].
    eexists. exists RClosed. split; [reflexivity|]. split; [|split; [reflexivity|split; [|split]]].
    - apply (Open_put_suite u _ _ _ (Open_with_steps _ _ _ S1 Ho1)). reflexivity.
    - eapply ExtSelf_trans; [apply (ExtSelf_put_suite u c (mkS false su ROpen))|].
      apply (ExtSelf_put_suite u (with_steps c1 S1)).
    - exact Q1.
    - reflexivity.
  Qed.

  (* ---------------- tests, finished ---------------- *)
  Lemma chk_test_fin : forall u pos t c st,
    Open u c st -> ss_teardown st = RNone -> rstate_eqb (ss_setup st) ROpen = false ->
    lookup path_eqb (u ++ [m_name (t_meta t)]) (c_tests c) = None -> test_ok t = true -> test_ended t = true ->
    QSt c -> QT c ->
    exists es c', replay_test replay_step now th u pos t = (es, None) /\ check_all m c es = Some c' /\
      Open u c' st /\ c_suites c' = c_suites c /\ c_setup c' = c_setup c /\ QSt c' /\ QT c' /\
      exists dt, c_tests c' = dt ++ c_tests c /\ Forall (fun kv => fst kv = u ++ [m_name (t_meta t)]) dt.
  Proof.
    intros u pos t c st Hopen Htd Hsu Hfresh Hok Hended Q QTc.
    destruct t as [tm r]. cbn [t_meta t_result] in *.
    pose proof Hopen as (Hp & _).
    set (nd := mkNode u tm (test_key 0 pos)). set (p := u ++ [m_name tm]).
    assert (Hnew : forall x, new_test m c nd x = Some (put_test c p x)).
    { intro. unfold new_test. cbn [n_parent nd]. rewrite (open_suite_Open _ _ _ Hopen). rewrite Htd, Hsu.
      unfold node_path. cbn [n_parent n_meta nd]. rewrite Hfresh. reflexivity. }
    unfold test_ok in Hok. cbn [t_result] in Hok. unfold test_ended in Hended. cbn [t_result] in Hended.
    unfold replay_test. cbn [t_result t_meta]. fold nd.
    destruct (bypassed r) eqn:Hb.
    - unfold bypassed in Hb. destruct (r_status r) as [stt|] eqn:Es; [|discriminate].
      apply orb_true_iff in Hb.
      assert (Hpf : str_eqb stt s_passed || str_eqb stt s_failed = false).
      { destruct Hb as [Hb|Hb]; apply str_eqb_eq in Hb; subst; reflexivity. }
      rewrite Hpf.
      assert (Hone : forall e, (e = ETestSkipped nd (r_status_details r) (event_time now (r_start r)) \/
                                e = ETestDisabled nd (r_status_details r) (event_time now (r_start r))) ->
                exists c', check_all m c [e] = Some c' /\ Open u c' st /\ c_suites c' = c_suites c /\
                  c_setup c' = c_setup c /\ QSt c' /\ QT c' /\
                  exists dt, c_tests c' = dt ++ c_tests c /\ Forall (fun kv => fst kv = p) dt).
      { intros e He. exists (put_test c p TBypassed). split.
        - destruct He; subst e; cbn [check_all check_event]; rewrite Hp, Hnew; reflexivity.
        - split; [exact Hopen|]. split; [reflexivity|]. split; [reflexivity|]. split; [exact Q|]. split.
          + unfold QT. cbn [put_test c_tests]. apply (quiet_ext _ _ path_eqb path_eqb_refl path_eqb_eq _ _ (c_tests c) p TBypassed []); auto.
          + exists [(p, TBypassed)]. split; auto. }
      destruct (str_eqb stt s_skipped) eqn:Hsk.
      + destruct (Hone _ (or_introl eq_refl)) as [c' [E1 E2]]. eexists. exists c'. split; [reflexivity|]. split; assumption.
      + destruct Hb as [Hb|Hb]; [congruence|]. rewrite Hb.
        destruct (Hone _ (or_intror eq_refl)) as [c' [E1 E2]]. eexists. exists c'. split; [reflexivity|]. split; assumption.
    - cbn [orb] in Hended. unfold result_ended in Hended. apply andb_true_iff in Hended. destruct Hended as [He Hse].
      assert (Hst : match r_status r with
                    | None => True
                    | Some stt => str_eqb stt s_passed || str_eqb stt s_failed = true end).
      { pose proof Hok as Hok'. unfold result_ok in Hok'. repeat (apply andb_true_iff in Hok'; destruct Hok' as [Hok' ?]).
        apply option_eqb_str_eq in H. rewrite H. unfold computed_status.
        destruct (r_end r); auto. destruct (forallb step_successful (r_steps r)); reflexivity. }
      set (started := fire (ETestStart nd (event_time now (r_start r))
             :: replay_steps replay_step now th (LocTest (node_path nd)) (r_steps r)
             ++ (if truthy_time (r_end r) then [ETestEnd nd (event_time now (r_end r))] else []))).
      assert (Hsame : match r_status r with
                      | None => started
                      | Some st0 => if str_eqb st0 s_passed || str_eqb st0 s_failed then started
                                    else if str_eqb st0 s_skipped then fire [ETestSkipped nd (r_status_details r) (event_time now (r_start r))]
                                    else if str_eqb st0 s_disabled then fire [ETestDisabled nd (r_status_details r) (event_time now (r_start r))]
                                    else ([], Some ValueError)
                      end = started).
      { destruct (r_status r); auto. rewrite Hst. reflexivity. }
      rewrite Hsame. unfold started, fire. rewrite He.
      set (c1 := put_test c p TStarted).
      assert (Hro : result_open m c1 (LocTest p) = true).
      { cbn [result_open]. unfold p. rewrite parent_of_child. fold p.
        rewrite (open_suite_Open u c1 st Hopen). rewrite Htd.
        cbn [c1 put_test c_tests lookup]. rewrite path_eqb_refl. reflexivity. }
      destruct (chk_steps_fin (LocTest p) (r_steps r) c1) as [S1 [E1 Q1]]; [exact Hp|exact Hro|exact Q|exact Hse|].
      eexists. eexists. split; [reflexivity|].
      cbn [check_all check_event]. rewrite Hp, Hnew. fold c1.
      unfold node_path. cbn [n_parent n_meta nd]. fold p.
      rewrite check_all_app. unfold m in *. rewrite E1.
      cbn [check_all check_event c_phase with_steps]. change (c_phase c1) with (c_phase c). rewrite Hp.
      unfold node_path. cbn [n_parent n_meta nd]. fold p.
      rewrite result_open_with_steps, Hro. rewrite (no_open_step_quiet _ _ Q1). cbn [andb m_unfinished fin_mode orb guard].
      split; [reflexivity|]. split; [exact Hopen|]. split; [reflexivity|]. split; [reflexivity|]. split; [exact Q1|]. split.
      + unfold QT. cbn [put_test with_steps c_tests c1].
        apply (quiet_ext _ _ path_eqb path_eqb_refl path_eqb_eq _ _ (c_tests c) p TEnded [(p, TStarted)]); auto.
      + exists [(p, TEnded); (p, TStarted)]. split; auto.
  Qed.

  Lemma chk_tests_fin : forall u st tests c pos,
    Open u c st -> ss_teardown st = RNone -> rstate_eqb (ss_setup st) ROpen = false ->
    (forall t, In t tests -> lookup path_eqb (u ++ [m_name (t_meta t)]) (c_tests c) = None) ->
    distinct (map (fun t => m_name (t_meta t)) tests) = true -> forallb test_ok tests = true ->
    forallb test_ended tests = true -> QSt c -> QT c ->
    exists es c', seq_all_from (replay_test replay_step now th u) pos tests = (es, None) /\ check_all m c es = Some c' /\
      Open u c' st /\ c_suites c' = c_suites c /\ c_setup c' = c_setup c /\ QSt c' /\ QT c' /\
      exists dt, c_tests c' = dt ++ c_tests c /\ Forall (fun kv => exists x, fst kv = u ++ [x]) dt.
  Proof.
    intros u st. induction tests as [|t tests IH]; intros c pos Hopen Htd Hsu Hfresh Hd Hok Hended Q QTc.
    - exists [], c. split; [reflexivity|]. split; [reflexivity|]. split; [exact Hopen|]. split; [reflexivity|].
      split; [reflexivity|]. split; [exact Q|]. split; [exact QTc|]. exists []. split; [reflexivity|constructor].
    - simpl in Hd, Hok, Hended. apply andb_true_iff in Hd. destruct Hd as [Hd1 Hd2].
      apply andb_true_iff in Hok. destruct Hok as [Hok1 Hok2]. apply negb_true_iff in Hd1.
      apply andb_true_iff in Hended. destruct Hended as [He1 He2].
      destruct (chk_test_fin u pos t c st Hopen Htd Hsu (Hfresh t (or_introl eq_refl)) Hok1 He1 Q QTc)
        as [es1 [c1 [R1 [E1 [O1 [S1 [U1 [Q1 [QT1 [dt1 [T1 F1]]]]]]]]]]].
      destruct (IH c1 (Z.succ pos) O1 Htd Hsu) as [es2 [c2 [R2 [E2 [O2 [S2 [U2 [Q2 [QT2 [dt2 [T2 F2]]]]]]]]]]]; auto.
      { intros t' Ht'. rewrite T1. rewrite lookup_app_none; [apply Hfresh; right; assumption|].
        eapply Forall_impl; [|exact F1]. intros [k v] Hkv. simpl in Hkv. simpl. subst k.
        apply path_eqb_child.
        apply (existsb_false_in _ _ _ (m_name (t_meta t')) Hd1). apply in_map_iff. eauto. }
      exists (es1 ++ es2), c2. split; [|split; [|split; [exact O2|split; [congruence|split; [congruence|split; [exact Q2|split; [exact QT2|]]]]]]].
      + cbn [seq_all_from]. rewrite R1, R2. reflexivity.
      + rewrite check_all_app. rewrite E1. exact E2.
      + exists (dt2 ++ dt1). split; [rewrite T2, T1, app_assoc; reflexivity|].
        apply Forall_app. split; auto. eapply Forall_impl; [|exact F1]. intros kv Hkv. exists (m_name (t_meta t)). exact Hkv.
  Qed.
End Fin2.

Lemma suite_good_closed : forall xs ys, rstate_eqb xs ROpen = false -> rstate_eqb ys ROpen = false ->
  suite_good (mkS true xs ys) = true.
Proof. intros. unfold suite_good. simpl. rewrite H, H0. reflexivity. Qed.

Lemma QS_open_child : forall pp x c st, QS pp c -> QS (pp ++ [x]) (put_suite c (pp ++ [x]) st).
Proof.
  intros pp x c st Q. unfold QS. cbn [put_suite c_suites].
  change ((pp ++ [x], st) :: c_suites c) with ([(pp ++ [x], st)] ++ c_suites c).
  apply quiet_app_ex; auto using path_eqb_eq.
  - eapply quiet_weaken_ex; [|exact Q]. intros k Hk. apply spine_child. exact Hk.
  - constructor; [|constructor]. simpl fst. apply spine_self. destruct pp; discriminate.
Qed.

Lemma QS_close : forall pp x c v, QS (pp ++ [x]) c -> suite_good v = true -> QS pp (put_suite c (pp ++ [x]) v).
Proof.
  intros pp x c v Q Hv k0 v0 Hin. cbn [put_suite c_suites] in *.
  destruct (path_eqb (pp ++ [x]) k0) eqn:E.
  - apply path_eqb_eq in E. subst k0. right. exists v. simpl. rewrite path_eqb_refl. auto.
  - assert (Hold : In (k0, v0) (c_suites c)).
    { simpl in Hin. destruct Hin as [Hin|Hin]; auto. inversion Hin; subst. rewrite path_eqb_refl in E. discriminate. }
    destruct (Q k0 v0 Hold) as [Hs|[v' [L G]]].
    + left. destruct k0 as [|a k0]; [discriminate|]. unfold spine in *.
      destruct (has_prefix_snoc _ _ _ Hs) as [E2|E2]; auto. rewrite E2, path_eqb_refl in E. discriminate.
    + right. exists v'. simpl. rewrite E. auto.
Qed.

Lemma below_not_spine : forall u k, has_prefix u k && negb (path_eqb u k) = true -> spine u k = false.
Proof.
  intros u k H. apply andb_true_iff in H. destruct H as [H1 H2]. apply negb_true_iff in H2.
  destruct k as [|a k]; [reflexivity|]. unfold spine.
  destruct (has_prefix (a :: k) u) eqn:E; auto.
  pose proof (has_prefix_len _ _ H1). pose proof (has_prefix_len _ _ E).
  rewrite (has_prefix_same_len u (a :: k)) in H2; [discriminate|assumption|lia].
Qed.

Section Fin3.
  Variable now : Z.
  Variable th : tid.
  Let m := fin_mode.

  Definition suite_chk_fin (s : suite_result) : Prop :=
    suite_ok s = true -> suite_ended s = true -> forall pp c, LoopInv pp c ->
      FS (pp ++ [m_name (s_meta_of s)]) (c_suites c) -> FT (pp ++ [m_name (s_meta_of s)]) (c_tests c) ->
      rstate_eqb (c_setup c) ROpen = false -> QSt c -> QT c -> QS pp c ->
      exists es c', replay_suite replay_step now th pp s = (es, None) /\ check_all m c es = Some c' /\
        c_phase c' = PRunning /\ c_teardown c' = RNone /\ Ext (pp ++ [m_name (s_meta_of s)]) c c' /\
        c_setup c' = c_setup c /\ QSt c' /\ QT c' /\ QS pp c'.

  Lemma chk_suites_loop_fin : forall pp subs, Forall suite_chk_fin subs -> forallb suite_ok subs = true ->
    forallb suite_ended subs = true ->
    forall c, LoopInv pp c ->
    (forall s', In s' subs -> FS (pp ++ [m_name (s_meta_of s')]) (c_suites c) /\ FT (pp ++ [m_name (s_meta_of s')]) (c_tests c)) ->
    distinct (map (fun u => m_name (s_meta_of u)) subs) = true ->
    rstate_eqb (c_setup c) ROpen = false -> QSt c -> QT c -> QS pp c ->
    exists es c', seq_all (replay_suite replay_step now th pp) subs = (es, None) /\ check_all m c es = Some c' /\
      LoopInv pp c' /\
      (exists ds, c_suites c' = ds ++ c_suites c /\ Forall (fun kv => below pp (fst kv) = true) ds) /\
      (exists dt, c_tests c' = dt ++ c_tests c /\ Forall (fun kv => below pp (fst kv) = true) dt) /\
      c_setup c' = c_setup c /\ QSt c' /\ QT c' /\ QS pp c'.
  Proof.
    intros pp. induction subs as [|s1 subs IH]; intros HP Hok Hended c Hinv Hfresh Hd Hcs Q QTc QSc.
    - exists [], c. split; [reflexivity|]. split; [reflexivity|]. split; [exact Hinv|].
      split; [exists []; split; auto|]. split; [exists []; split; auto|]. auto.
    - inversion HP as [|? ? P1 P2]; subst. simpl in Hok, Hd, Hended.
      apply andb_true_iff in Hok. destruct Hok as [Hok1 Hok2].
      apply andb_true_iff in Hended. destruct Hended as [Hen1 Hen2].
      apply andb_true_iff in Hd. destruct Hd as [Hd1 Hd2]. apply negb_true_iff in Hd1.
      destruct (Hfresh s1 (or_introl eq_refl)) as [F1 F2].
      destruct (P1 Hok1 Hen1 pp c Hinv F1 F2 Hcs Q QTc QSc)
        as [es1 [c1 [R1 [E1 [Hp1 [Ht1 [[[ds1 [S1 G1]] [dt1 [T1 G2]]] [U1 [Q1 [QT1 QS1]]]]]]]]]].
      assert (Hinv1 : LoopInv pp c1).
      { destruct Hinv as (_ & _ & Ha). split; [exact Hp1|]. split; [exact Ht1|].
        rewrite S1. rewrite (prefixes_open_app_other (c_suites c) ds1 pp []); auto.
        eapply Forall_impl; [|exact G1]. intros kv Hk. cbv beta in *. simpl.
        apply below_not_prefix_of. eapply prefix_child_below. exact Hk. }
      destruct (IH P2 Hok2 Hen2 c1 Hinv1) as [es2 [c2 [R2 [E2 [Hinv2 [[ds2 [S2 G3]] [[dt2 [T2 G4]] [U2 [Q2 [QT2 QS2]]]]]]]]]]; auto.
      { intros s' Hs'. destruct (Hfresh s' (or_intror Hs')) as [F3 F4].
        assert (Hne : str_eqb (m_name (s_meta_of s')) (m_name (s_meta_of s1)) = false).
        { apply str_eqb_sym_false. apply (existsb_false_in _ _ _ (m_name (s_meta_of s')) Hd1). apply in_map_iff. eauto. }
        split.
        - unfold FS. rewrite S1. apply Forall_app. split; [|exact F3].
          eapply Forall_impl; [|exact G1]. intros kv Hk. cbv beta in *. eapply has_prefix_diverge; eauto.
        - unfold FT. rewrite T1. apply Forall_app. split; [|exact F4].
          eapply Forall_impl; [|exact G2]. intros kv Hk. cbv beta in *. eapply below_diverge; eauto. }
      { congruence. }
      exists (es1 ++ es2), c2. split; [|split; [|split; [exact Hinv2|split; [|split; [|split; [congruence|auto]]]]]].
      + cbn [seq_all]. rewrite R1, R2. reflexivity.
      + rewrite check_all_app. rewrite E1. exact E2.
      + exists (ds2 ++ ds1). split; [rewrite S2, S1, app_assoc; reflexivity|].
        apply Forall_app. split; auto. eapply Forall_impl; [|exact G1]. intros kv Hk. eapply prefix_child_below. exact Hk.
      + exists (dt2 ++ dt1). split; [rewrite T2, T1, app_assoc; reflexivity|].
        apply Forall_app. split; auto. eapply Forall_impl; [|exact G2]. intros kv Hk. eapply below_trans_child. exact Hk.
  Qed.

  Lemma replay_suite_chk_fin : forall s, suite_chk_fin s.
  Proof.
    induction s using suite_ind'. rename H into HP, m0 into mt.
    unfold suite_chk_fin. intros Hok Hended pp c (Hp & Htd & Hanc) HFS HFT Hcs Q QTc QSc. cbn [s_meta_of] in *.
    cbn [suite_ok] in Hok. repeat (apply andb_true_iff in Hok; destruct Hok as [Hok ?]).
    rename H into Hsubs, H0 into Hdsubs, H1 into Hdtests, H2 into Htests, H3 into Htdok, H4 into Hsuok, H5 into Hen.
    cbn [suite_ended] in Hended. repeat (apply andb_true_iff in Hended; destruct Hended as [Hended ?]).
    rename H into Esubs, H0 into Etests, H1 into Etd, H2 into Esu.
    set (u := pp ++ [m_name mt]) in *.
    assert (Hu : u <> []) by (unfold u; destruct pp; discriminate).
    cbn [replay_suite]. rewrite go_seq_all. unfold node_path. cbn [n_parent n_meta]. fold u.
    set (nd := mkNode pp mt 0).
    set (st0 := mkS false RNone RNone).
    (* 1. SuiteStart *)
    set (c1 := put_suite c u st0).
    assert (E0 : forall t, check_event m c (ESuiteStart nd t) = Some c1).
    { intro t. cbn [check_event]. rewrite Hp, Htd, Hcs. unfold node_path. cbn [n_parent n_meta nd]. fold u.
      cbn [rstate_eqb m m_unfinished fin_mode orb andb negb].
      assert (E : match pp with [] => true | _ :: _ => suite_open c pp end = true).
      { destruct pp; auto. }
      rewrite E. rewrite (lookup_none_forall _ _ path_eqb u (c_suites c)). reflexivity.
      eapply Forall_impl; [|exact HFS]. intros kv Hk. cbv beta in *.
      destruct (path_eqb (fst kv) u) eqn:E2; auto. apply path_eqb_eq in E2. rewrite E2, has_prefix_refl in Hk. discriminate. }
    assert (O1 : Open u c1 st0).
    { unfold Open. cbn [c1 put_suite c_phase c_teardown c_suites]. repeat split; auto.
      - apply (prefixes_open_new_child (c_suites c) st0 (m_name mt) pp []); auto.
      - simpl. rewrite path_eqb_refl. reflexivity. }
    assert (QS1 : QS u c1) by (apply QS_open_child; exact QSc).
    (* 2. setup *)
    destruct (chk_suite_setup_fin now th pp mt u x c1 eq_refl O1) as [c2 [xs [E2 [O2 [Hxs [X2 [Q2 U2]]]]]]]; auto.
    { apply no_test_of_fresh; auto. }
    destruct X2 as [T2 [ds2 [S2 G2]]].
    assert (QT2 : QT c2) by (unfold QT; rewrite T2; exact QTc).
    assert (QS2 : QS u c2) by (apply (QS_self_bindings u c1 c2 Hu QS1); split; [exact T2|exists ds2; auto]).
    (* 3. tests *)
    destruct (chk_tests_fin now th u (mkS false xs RNone) tests c2 0%Z O2 eq_refl Hxs)
      as [es3 [c3 [R3 [E3 [O3 [S3 [U3 [Q3 [QT3 [dt3 [T3 G3]]]]]]]]]]]; auto.
    { intros t Ht. rewrite T2. cbn [c1 put_suite c_tests]. apply lookup_none_forall.
      eapply Forall_impl; [|exact HFT]. intros kv Hk. cbv beta in *.
      destruct (path_eqb (fst kv) (u ++ [m_name (t_meta t)])) eqn:E; auto.
      apply path_eqb_eq in E. rewrite E, below_child in Hk. discriminate. }
    assert (QS3 : QS u c3) by (unfold QS; rewrite S3; exact QS2).
    (* 4. sub-suites *)
    destruct (chk_suites_loop_fin u subs HP Hsubs Esubs c3)
      as [es4 [c4 [R4 [E4 [I4 [[ds4 [S4 G4]] [[dt4 [T4 G5]] [U4 [Q4 [QT4 QS4]]]]]]]]]]; auto.
    { destruct O3 as (A1 & A2 & A3 & _). split; auto. }
    { intros s' Hs'. split.
      - unfold FS. rewrite S3, S2. cbn [c1 put_suite c_suites]. apply Forall_app. split.
        + eapply Forall_impl; [|exact G2]. intros [k v] Hk. simpl in *. subst k.
          destruct (has_prefix (u ++ [m_name (s_meta_of s')]) u) eqn:E; auto.
          apply has_prefix_len in E. rewrite app_length in E. simpl in E. lia.
        + constructor; [|apply FS_child; exact HFS]. simpl.
          destruct (has_prefix (u ++ [m_name (s_meta_of s')]) u) eqn:E; auto.
          apply has_prefix_len in E. rewrite app_length in E. simpl in E. lia.
      - unfold FT. rewrite T3, T2. cbn [c1 put_suite c_tests]. apply Forall_app. split.
        + eapply Forall_impl; [|exact G3]. intros [k v] [x0 Hk]. simpl in *. subst k.
          apply below_short. rewrite !app_length. simpl. lia.
        + apply FT_child. exact HFT. }
    { rewrite U3, U2. exact Hcs. }
    assert (O4 : Open u c4 (mkS false xs RNone)).
    { destruct I4 as (A1 & A2 & A3). destruct O3 as (_ & _ & _ & B4 & B5 & B6).
      unfold Open. repeat split; auto.
      rewrite S4. rewrite lookup_app_none; auto.
      eapply Forall_impl; [|exact G4]. intros kv Hk. cbv beta in *.
      apply path_eqb_false_len. apply below_len in Hk. lia. }
    (* 5. teardown *)
    destruct (chk_suite_teardown_fin now th pp mt u y c4 xs eq_refl O4 Hxs)
      as [c5 [ys [E5 [O5 [Hys [X5 [Q5 U5]]]]]]]; auto.
    assert (QT5 : QT c5) by (destruct X5 as [T5 _]; unfold QT; rewrite T5; exact QT4).
    assert (QS5 : QS u c5) by (apply (QS_self_bindings u c4 c5 Hu QS4 X5)).
    (* 6. SuiteEnd *)
    rewrite R3, R4. unfold seq, fire. cbn [fst snd].
    assert (Hext : Ext u c c5).
    { eapply Ext_trans; [apply (Ext_put_suite u c st0)|]. fold c1.
      eapply Ext_trans; [apply ExtSelf_Ext; split; [exact T2|exists ds2; auto]|].
      eapply Ext_trans.
      { split; [exists []; split; [exact S3|constructor]|exists dt3; split; [exact T3|]].
        eapply Forall_impl; [|exact G3]. intros [k v] [x0 Hk]. simpl in *. subst k. apply below_child. }
      eapply Ext_trans.
      { split; [exists ds4; split; [exact S4|]|exists dt4; split; [exact T4|exact G5]].
        eapply Forall_impl; [|exact G4]. intros kv Hk. apply below_has_prefix. exact Hk. }
      apply ExtSelf_Ext. exact X5. }
    rewrite Hended.
    eexists. exists (put_suite c5 u (mkS true xs ys)). split; [reflexivity|].
    split; [|split; [|split; [|split; [|split; [|split; [|split]]]]]].
    - rewrite <- app_comm_cons. cbn [check_all]. rewrite E0.
      rewrite check_all_app. unfold nd, m in *. rewrite E2.
      rewrite check_all_app. rewrite E3. rewrite check_all_app. rewrite E4.
      rewrite check_all_app. rewrite E5.
      cbn [check_all check_event]. pose proof O5 as (A1 & _).
      rewrite A1. unfold node_path. cbn [n_parent n_meta]. fold u.
      rewrite (open_suite_Open u c5 _ O5). cbn [ss_setup ss_teardown m_unfinished fin_mode orb].
      rewrite Hxs, Hys. rewrite (tests_over_quiet c5 _ QT5).
      rewrite (suites_over_quiet u c5 _ QS5 (below_not_spine u)). reflexivity.
    - destruct O5 as (A1 & _). exact A1.
    - destruct O5 as (_ & A2 & _). exact A2.
    - eapply Ext_trans; [exact Hext|]. apply Ext_put_suite.
    - cbn [put_suite c_setup]. rewrite U5, U4, U3, U2. reflexivity.
    - exact Q5.
    - exact QT5.
    - apply QS_close; [exact QS5|]. apply suite_good_closed; assumption.
  Qed.

  (* ---------------- session setup / teardown, the report ---------------- *)
  Lemma chk_session_setup_fin : forall o c,
    c_phase c = PRunning -> c_setup c = RNone -> c_teardown c = RNone -> c_suites c = [] -> opt_result_ok o = true ->
    opt_result_ended o = true -> QSt c ->
    exists c', check_all m c (replay_phase replay_step now th LocSessionSetup ESessionSetupStart ESessionSetupEnd o) = Some c' /\
      c_phase c' = PRunning /\ c_teardown c' = RNone /\ c_suites c' = [] /\ c_tests c' = c_tests c /\
      rstate_eqb (c_setup c') ROpen = false /\ QSt c'.
  Proof.
    intros o c Hp Hs Ht Hsu Hok Hend Q. destruct o as [r|].
    2: { exists c. rewrite Hs. auto 10. }
    cbn [opt_result_ended] in Hend. unfold result_ended in Hend. apply andb_true_iff in Hend. destruct Hend as [He Hse].
    unfold replay_phase. cbn [check_all check_event]. rewrite Hp, Hs, Ht, Hsu. cbn [rstate_eqb andb guard].
    set (c1 := set_setup c ROpen).
    rewrite check_all_app.
    destruct (chk_steps_fin now th LocSessionSetup (r_steps r) c1) as [S1 [E1 Q1]]; [exact Hp| |exact Q|exact Hse|].
    { cbn [result_open c1 set_setup c_setup c_suites rstate_eqb]. rewrite Hsu. reflexivity. }
    unfold m. rewrite E1. rewrite He.
    cbn [check_all check_event c_phase with_steps c1 set_setup c_setup]. rewrite Hp.
    cbn [rstate_eqb andb m_unfinished fin_mode orb].
    rewrite (no_open_step_quiet _ _ Q1). cbn [guard].
    eexists. split; [reflexivity|]. cbn. auto 10.
  Qed.

  Lemma chk_session_teardown_fin : forall o c,
    c_phase c = PRunning -> c_teardown c = RNone -> opt_result_ok o = true -> opt_result_ended o = true ->
    rstate_eqb (c_setup c) ROpen = false -> QSt c -> QT c -> QS [] c ->
    exists c', check_all m c (replay_phase replay_step now th LocSessionTeardown ESessionTeardownStart ESessionTeardownEnd o) = Some c' /\
      c_phase c' = PRunning /\ rstate_eqb (c_setup c') ROpen = false /\ rstate_eqb (c_teardown c') ROpen = false /\
      QT c' /\ QS [] c'.
  Proof.
    intros o c Hp Ht Hok Hend Hcs Q QTc QSc. destruct o as [r|].
    2: { exists c. rewrite Ht. auto 10. }
    cbn [opt_result_ended] in Hend. unfold result_ended in Hend. apply andb_true_iff in Hend. destruct Hend as [He Hse].
    assert (Hall : suites_over c (fun _ => true) = true).
    { apply (suites_over_quiet [] c _ QSc). intros k _. destruct k; reflexivity. }
    unfold replay_phase. cbn [check_all check_event]. rewrite Hp, Ht, Hcs, Hall.
    cbn [rstate_eqb andb m m_unfinished fin_mode orb negb guard].
    set (c1 := set_teardown c ROpen).
    rewrite check_all_app.
    destruct (chk_steps_fin now th LocSessionTeardown (r_steps r) c1) as [S1 [E1 Q1]]; [exact Hp|reflexivity|exact Q|exact Hse|].
    unfold m. rewrite E1. rewrite He.
    cbn [check_all check_event c_phase with_steps c1 set_teardown c_teardown]. rewrite Hp.
    cbn [rstate_eqb andb m_unfinished fin_mode orb].
    rewrite (no_open_step_quiet _ _ Q1). cbn [guard].
    eexists. split; [reflexivity|]. cbn. auto 10.
  Qed.

  Theorem replay_stream_ok_finished : forall r, replayable r = true -> finished r = true ->
    stream_ok fin_mode (fst (replay_report_events now th r)) = true.
  Proof.
    intros r Hok Hfin. unfold replayable in Hok. repeat (apply andb_true_iff in Hok; destruct Hok as [Hok ?]).
    rename H into Hsuites, H0 into Hd, H1 into Htd, H2 into Hsu, H3 into Hen.
    unfold finished in Hfin. repeat (apply andb_true_iff in Hfin; destruct Hfin as [Hfin ?]).
    rename H into Fsuites, H0 into Ftd, H1 into Fsu.
    unfold replay_report_events, replay.
    set (c0 := set_phase init_cstate PRunning).
    destruct (chk_session_setup_fin (rp_session_setup r) c0) as [c1 [E1 [P1 [T1 [S1 [X1 [U1 Q1]]]]]]]; auto.
    { apply quiet_nil. }
    destruct (chk_suites_loop_fin [] (rp_suites r)) with (c := c1)
      as [es2 [c2 [R2 [E2 [[P2 [T2 _]] [_ [_ [U2 [Q2 [QT2 QS2]]]]]]]]]]; auto.
    { apply Forall_forall. intros. apply replay_suite_chk_fin. }
    { split; auto. }
    { intros s' _. rewrite S1, X1. split; constructor. }
    { unfold QT. rewrite X1. apply quiet_nil. }
    { unfold QS. rewrite S1. apply quiet_nil. }
    destruct (chk_session_teardown_fin (rp_session_teardown r) c2) as [c3 [E3 [P3 [U3 [T3 [QT3 QS3]]]]]]; auto.
    { rewrite U2. exact U1. }
    rewrite R2. unfold seq, fire. cbn [fst snd]. unfold stream_ok.
    rewrite <- app_comm_cons. cbn [check_all check_event init_cstate c_phase]. fold c0.
    rewrite check_all_app. unfold m in *. rewrite E1.
    rewrite check_all_app. rewrite E2.
    rewrite check_all_app. rewrite E3.
    rewrite Hfin.
    cbn [check_all check_event]. rewrite P3. cbn [m_unfinished fin_mode orb]. rewrite U3, T3.
    rewrite (tests_over_quiet c3 _ QT3).
    assert (Hall : suites_over c3 (fun _ => true) = true).
    { apply (suites_over_quiet [] c3 _ QS3). intros k _. destruct k; reflexivity. }
    rewrite Hall. reflexivity.
  Qed.
End Fin3.

Theorem replay_sequential_finished : forall now th r, replayable r = true -> finished r = true ->
  sequential_ok finished_replay_mode (fst (replay_report_events now th r)) = true.
Proof.
  intros. unfold sequential_ok. change finished_replay_mode with fin_mode.
  rewrite (replay_stream_ok_finished now th r), replay_contiguous; auto.
Qed.
