(* Composition: a project whose test dependencies pass validation (Model/Deps.v, C04) has a task graph
   (Model/Graph.v build_tasks returns one) and that graph is well-formed, so every dispatch-loop theorem applies to it. *)
From Coq Require Import List Arith Bool Lia Relations.
Import ListNotations.
From LCC Require Import Base.Util Model.Proj Model.Sched Model.Graph Model.Fixture Model.Deps
     Proofs.SchedP Proofs.GraphP Proofs.AcyclicP Proofs.DepsP.

Definition path_dec : forall a b : path, {a = b} + {a <> b} := list_eq_dec Nat.eq_dec.

(* ------------------------------------------------------------------ acyclic depends_on => well-formed graph *)
Definition dep_nodes (tbl : list (path * list path)) : list path := map fst tbl ++ concat (map snd tbl).

Lemma deps_lookup_support tbl p d : In d (deps_lookup tbl p) -> In p (dep_nodes tbl) /\ In d (dep_nodes tbl).
Proof.
  unfold deps_lookup, dep_nodes. destruct (find (fun e => path_eqb (fst e) p) tbl) as [e|] eqn:Hf; [|intros []].
  intros Hd. apply find_some in Hf as [Hin Hp]. apply path_eqb_true in Hp. subst p. split; apply in_app_iff.
  - left. apply in_map. exact Hin.
  - right. apply in_concat. exists (snd e). split; [apply in_map; exact Hin|exact Hd].
Qed.

Theorem acyclic_project_graph_wf si force suites g :
  build_tasks si force suites = Some g ->
  (forall p, ~ clos_trans path (fun a b => In b (deps_lookup (deps_table suites) a)) p p) ->
  exists rk, wf g rk.
Proof.
  intros Hg Hac.
  set (tbl := deps_table suites) in *.
  exists (rank_of g (rank path (deps_lookup tbl) (dep_nodes tbl))).
  apply (build_tasks_wf si force suites g _ Hg). intros p d Hd.
  apply (rank_decreases path path_dec (deps_lookup tbl) (dep_nodes tbl)); [apply deps_lookup_support|exact Hac|exact Hd].
Qed.

(* ------------------------------------------------------------------ first match = last match when keys are unique *)
Lemma find_last_In {V} (l : list (path * V)) k v : find_last l k = Some v -> In k (map fst l).
Proof.
  revert v. induction l as [|[k' v'] l IH]; intros v; simpl; [discriminate|]. destruct (find_last l k) as [w|] eqn:E.
  - intros _. right. apply (IH w). reflexivity.
  - destruct (path_eqb k k') eqn:Ek; [|discriminate]. intros _. left. apply path_eqb_eq in Ek. congruence.
Qed.

Lemma find_last_first {V} (l : list (path * V)) k : NoDup (map fst l) ->
  find_last l k = option_map snd (find (fun e => path_eqb (fst e) k) l).
Proof.
  induction l as [|[k' v'] l IH]; intros Hnd; simpl; [reflexivity|]. inversion Hnd as [|? ? Hnin Hnd']. subst.
  destruct (find_last l k) as [w|] eqn:E.
  - assert (Hk : In k (map fst l)) by (eapply find_last_In; exact E).
    destruct (path_eqb k' k) eqn:Ek; [apply path_eqb_eq in Ek; subst k'; contradiction|].
    rewrite <- IH by exact Hnd'. reflexivity.
  - destruct (path_eqb k k') eqn:Ek.
    + apply path_eqb_eq in Ek. subst k'. rewrite path_eqb_refl. reflexivity.
    + assert (Ek' : path_eqb k' k = false) by (apply path_eqb_neq; apply path_eqb_neq in Ek; congruence).
      rewrite Ek'. apply IH. exact Hnd'.
Qed.

Definition test_paths (suites : list suite) : list path := map (fun x => fst (fst x)) (all_tests_with_path suites).

Lemma deps_lookup_find_test suites p : NoDup (test_paths suites) ->
  deps_lookup (deps_table suites) p = match find_test suites p with Some t => tt_deps t | None => [] end.
Proof.
  intros Hnd. unfold find_test. rewrite find_last_first by (rewrite map_map; exact Hnd).
  unfold deps_lookup, deps_table. induction (all_tests_with_path suites) as [|x l IH]; simpl; [reflexivity|].
  destruct (path_eqb (fst (fst x)) p); [reflexivity|]. apply IH.
Qed.

(* ------------------------------------------------------------------ validated => acyclic *)
Lemma clos_trans_first {A} (R : A -> A -> Prop) a b : clos_trans A R a b -> exists c, R a c.
Proof. induction 1 as [a b H|a b c _ IH _ _]; [exists b; exact H|exact IH]. Qed.

Lemma clos_trans_mono {A} (R S : A -> A -> Prop) : (forall a b, R a b -> S a b) -> forall a b, clos_trans A R a b -> clos_trans A S a b.
Proof. intros H a b Hc. induction Hc as [a b H1|a b c _ IH1 _ IH2]; [apply t_step; apply H; exact H1|eapply t_trans; eassumption]. Qed.

Section Validated.
  Variables ssuites asuites : list suite.
  Hypothesis unique : NoDup (test_paths ssuites).
  Hypothesis consistent : sched_consistent (find_test ssuites) (find_test asuites).
  Hypothesis valid : forall r, ~ DepInvalid (find_test ssuites) (find_test asuites) r.

  Lemma edge_is_DepEdge a b : In b (deps_lookup (deps_table ssuites) a) ->
    find_test ssuites a <> None /\ DepEdge (find_test asuites) a b.
  Proof.
    rewrite (deps_lookup_find_test ssuites a unique). destruct (find_test ssuites a) as [t|] eqn:E; [|intros []].
    intros Hb. split; [discriminate|]. destruct (consistent a t E) as [t' [Ht' Hd]]. exists t'. split; [exact Ht'|]. rewrite Hd. exact Hb.
  Qed.

  Lemma validated_acyclic p : ~ clos_trans path (fun a b => In b (deps_lookup (deps_table ssuites) a)) p p.
  Proof.
    intros Hc. apply (valid RDepCircular). exists p. split.
    - destruct (clos_trans_first _ _ _ Hc) as [c Hpc]. apply (edge_is_DepEdge p c Hpc).
    - apply (clos_trans_mono _ _ (fun a b H => proj2 (edge_is_DepEdge a b H)) p p Hc).
  Qed.

  (* every dependency of a scheduled test is a scheduled test *)
  Lemma validated_deps_scheduled a b : In b (deps_lookup (deps_table ssuites) a) -> In b (test_paths ssuites).
  Proof.
    intros H. destruct (edge_is_DepEdge a b H) as [Ha He].
    destruct (find_test asuites b) as [tb|] eqn:Eall.
    - destruct (find_test ssuites b) as [sb|] eqn:Es.
      + unfold find_test in Es. apply find_last_In in Es. rewrite map_map in Es. exact Es.
      + exfalso. apply (valid RDepNotScheduled). exists a, b. repeat split; try assumption. congruence.
    - exfalso. apply (valid RDepUnknown). exists a, b. repeat split; assumption.
  Qed.
End Validated.

(* ------------------------------------------------------------------ every test has its task *)
Lemma lookup_total g p : (exists t, In t g /\ t_kind t = KTest /\ t_path t = p) -> forall i0, lookup_test_task g p i0 <> None.
Proof.
  intros [t [Hin [Hk Hp]]]. induction g as [|x g IH]; intros i0; [destruct Hin|]. simpl.
  destruct (kind_eqb (t_kind x) KTest && path_eqb (t_path x) p) eqn:E; [discriminate|].
  destruct Hin as [Hx|Hin]; [|apply IH; exact Hin]. subst x. rewrite Hk, Hp in E. simpl in E.
  rewrite path_eqb_refl in E. discriminate.
Qed.

Lemma blocks_In f l : forall b tx, In tx (blocks f l b) -> exists s b', In s l /\ tx = f b' s.
Proof.
  induction l as [|x r IH]; intros b tx H; simpl in H; [destruct H|]. destruct H as [H|H].
  - exists x, b. split; [left; reflexivity|symmetry; exact H].
  - destruct (IH _ _ H) as [s [b' [Hs He]]]. exists s, b'. split; [right; exact Hs|exact He].
Qed.

Lemma blocks_covers f l s : In s l -> forall b, exists b', In (f b' s) (blocks f l b).
Proof.
  induction l as [|x r IH]; intros Hs b; [destruct Hs|]. simpl. destruct Hs as [Hs|Hs].
  - subst x. exists b. left. reflexivity.
  - destruct (IH Hs (b + length (f b x))) as [b' Hb']. exists b'. right. exact Hb'.
Qed.

Lemma suite_tasks_tests : forall s si force ss pb prefix inh inh' base x,
  In x (suite_tests_with_path prefix inh' s) ->
  exists t, In t (suite_tasks si force ss pb prefix inh base s) /\ t_kind t = KTest /\ t_path t = fst (fst x).
Proof.
  induction s as [n d h inj ts subs IH] using suite_ind3. intros si force ss pb prefix inh inh' base x Hx.
  rewrite suite_tasks_eq. cbv zeta. simpl in Hx. apply in_app_iff in Hx as [Hx|Hx].
  - apply in_map_iff in Hx as [t0 [Hx Hin]]. subst x. simpl.
    eexists. split.
    { right. apply in_app_iff. right. apply in_app_iff. left. apply in_map_iff. exists t0. split; [reflexivity|exact Hin]. }
    split; reflexivity.
  - apply in_flat_map in Hx as [s [Hs Hx]].
    set (f := suite_tasks si force ss (Some base) (prefix ++ [n]) (inh || d)).
    match goal with |- context [blocks f subs ?b0] => destruct (blocks_covers f subs s Hs b0) as [b' Hb'] end.
    destruct (IH s Hs si force ss (Some base) (prefix ++ [n]) (inh || d) (inh' || d) b' x Hx) as [t [Ht Hk]].
    exists t. split; [|exact Hk].
    do 4 (apply in_or_app; right). apply in_or_app. left.
    apply in_concat. exists (f b' s). split; [exact Hb'|exact Ht].
Qed.

Lemma structural_tests si force suites x : In x (all_tests_with_path suites) ->
  exists t, In t (build_tasks_structural si force suites) /\ t_kind t = KTest /\ t_path t = fst (fst x).
Proof.
  intros Hx. unfold all_tests_with_path in Hx. apply in_flat_map in Hx as [s [Hs Hx]].
  unfold build_tasks_structural. rewrite suites_tasks_eq.
  set (ss := if si_session si then Some 0 else None). set (b0 := if si_session si then 1 else 0).
  set (f := suite_tasks si force ss None [] false).
  destruct (blocks_covers f suites s Hs b0) as [b' Hb'].
  destruct (suite_tasks_tests s si force ss None [] false false b' x Hx) as [t [Ht Hk]].
  exists t. split; [|exact Hk]. apply in_app_iff. right. apply in_app_iff. left. apply in_concat. exists (f b' s). split; assumption.
Qed.

Lemma map_opt_total {A B} (f : A -> option B) l : (forall x, In x l -> f x <> None) -> exists l', map_opt f l = Some l'.
Proof.
  induction l as [|a l IH]; intros H; [exists []; reflexivity|]. simpl.
  destruct (f a) as [b|] eqn:E; [|exfalso; apply (H a); [left; reflexivity|exact E]].
  destruct IH as [l' Hl']; [intros x Hx; apply H; right; exact Hx|]. rewrite Hl'. eexists. reflexivity.
Qed.

(* ------------------------------------------------------------------ the composition *)
Theorem validated_project_has_wellformed_graph : forall ssuites asuites l si force,
  NoDup (test_paths ssuites) ->
  sched_consistent (find_test ssuites) (find_test asuites) ->
  resolve_tests_dependencies ssuites asuites = Ok l ->
  exists g rk, build_tasks si force ssuites = Some g /\ wf g rk.
Proof.
  intros ssuites asuites l si force Hu Hc Hr.
  pose proof (resolve_tests_dependencies_complete ssuites asuites l Hc Hr) as Hv.
  assert (Hg : exists g, build_tasks si force ssuites = Some g).
  { unfold build_tasks, add_test_deps. apply map_opt_total. intros t Ht.
    destruct (t_kind t) eqn:Hk; try discriminate.
    destruct (map_opt_total (fun p => lookup_test_task (build_tasks_structural si force ssuites) p 0)
                (deps_lookup (deps_table ssuites) (t_path t))) as [ids Hids]; [|rewrite Hids; discriminate].
    intros p Hp. apply lookup_total.
    pose proof (validated_deps_scheduled ssuites asuites Hu Hc Hv (t_path t) p Hp) as Hin.
    unfold test_paths in Hin. apply in_map_iff in Hin as [x [Hx Hin]].
    destruct (structural_tests si force ssuites x Hin) as [t' [Ht' [Hk' Hp']]]. exists t'. repeat split; congruence. }
  destruct Hg as [g Hg]. exists g.
  destruct (acyclic_project_graph_wf si force ssuites g Hg (validated_acyclic ssuites asuites Hu Hc Hv)) as [rk Hrk].
  exists rk. split; assumption.
Qed.
