(* Layer 2 proofs: the task graph that Model/Graph.v builds (runner.build_tasks) is well-formed for EVERY project:
   dependencies exist and there is a rank function that decreases along every dependency, provided the depends_on
   relation between tests is acyclic (what project validation establishes, C04/C14).  This discharges, for graphs coming
   from projects, the hypothesis [wf g rk] of the dispatch-loop theorems (Proofs/SchedP.v). *)
From Coq Require Import List Arith Bool Lia.
Import ListNotations.
From LCC Require Import Base.Util Model.Proj Model.Sched Model.Graph Proofs.SchedP.

Definition early (k : kind) : bool := match k with KSessionSetup | KSuiteBegin | KSuiteInit => true | _ => false end.
Definition late (k : kind) : bool := match k with KSuiteTeardown | KSuiteEnd | KSessionTeardown => true | _ => false end.

(* ------------------------------------------------------------------ segments of the task list *)
(* [tasks] sit at indexes base, base+1, ... of the graph; [ext d] : d < base is known to hold an early task.
   Every dependency points backwards; those of early tasks and tests point to early tasks. *)
Definition dep_ok (ext : nat -> Prop) (base : nat) (tasks : list task) (k : nat) (t : task) : Prop :=
  forall d, In d (all_deps t) ->
    d < base + k /\
    (late (t_kind t) = false ->
       (d < base /\ ext d) \/
       (base <= d /\ exists t', nth_error tasks (d - base) = Some t' /\ early (t_kind t') = true)).
Definition seg_ok (ext : nat -> Prop) (base : nat) (tasks : list task) : Prop :=
  forall k t, nth_error tasks k = Some t -> dep_ok ext base tasks k t.

Lemma seg_nil (ext : nat -> Prop) base : seg_ok ext base [].
Proof. intros k t H. destruct k; discriminate. Qed.

Lemma seg_app (ext ext' : nat -> Prop) base A B :
  seg_ok ext base A ->
  seg_ok ext' (base + length A) B ->
  (forall d, d < base + length A -> ext' d ->
     (d < base /\ ext d) \/ (base <= d /\ exists t', nth_error A (d - base) = Some t' /\ early (t_kind t') = true)) ->
  seg_ok ext base (A ++ B).
Proof.
  intros HA HB Hext k t Hk d Hd.
  destruct (Nat.lt_ge_cases k (length A)) as [Hlt|Hge].
  - rewrite nth_error_app1 in Hk by exact Hlt.
    destruct (HA k t Hk d Hd) as [H1 H2]. split; [exact H1|]. intros Hl.
    destruct (H2 Hl) as [H|[Hb [t' [Ht' He]]]]; [left; exact H|]. right. split; [exact Hb|]. exists t'. split; [|exact He].
    rewrite nth_error_app1; [exact Ht'|]. apply nth_error_Some. congruence.
  - rewrite nth_error_app2 in Hk by exact Hge.
    destruct (HB _ t Hk d Hd) as [H1 H2]. split; [lia|]. intros Hl.
    destruct (H2 Hl) as [[Hlt He]|[Hb [t' [Ht' He]]]].
    + destruct (Hext d Hlt He) as [H|[Hb [t' [Ht' He']]]]; [left; exact H|]. right. split; [exact Hb|]. exists t'. split; [|exact He'].
      rewrite nth_error_app1; [exact Ht'|]. apply nth_error_Some. congruence.
    + right. split; [lia|]. exists t'. split; [|exact He].
      rewrite nth_error_app2 by lia. replace (d - base - length A) with (d - (base + length A)) by lia. exact Ht'.
Qed.

Lemma seg_single (ext : nat -> Prop) base t :
  (forall d, In d (all_deps t) -> d < base /\ (late (t_kind t) = false -> ext d)) -> seg_ok ext base [t].
Proof.
  intros H k t' Hk d Hd. destruct k as [|k]; [|destruct k; discriminate]. inversion Hk. subst t'.
  destruct (H d Hd) as [H1 H2]. split; [lia|]. intros Hl. left. split; [exact H1|apply H2; exact Hl].
Qed.

(* a run of tasks that all have the same backward dependencies *)
Lemma seg_map {A} (ext : nat -> Prop) base (f : A -> task) (l : list A) :
  (forall x d, In x l -> In d (all_deps (f x)) -> d < base /\ (late (t_kind (f x)) = false -> ext d)) ->
  seg_ok ext base (map f l).
Proof.
  intros H k t Hk d Hd. apply nth_error_In in Hk as Hin. apply in_map_iff in Hin as [x [Hx Hin]]. subst t.
  destruct (H x d Hin Hd) as [H1 H2]. split; [lia|]. intros Hl. left. split; [exact H1|apply H2; exact Hl].
Qed.

(* ------------------------------------------------------------------ blocks (sub-suites, top-level suites) *)
Section Blocks.
  Variable f : nat -> suite -> list task.
  Fixpoint blocks (l : list suite) (b : nat) : list (list task) :=
    match l with
    | [] => []
    | x :: r => let tx := f b x in tx :: blocks r (b + length tx)
    end.
End Blocks.

Lemma suite_tasks_eq si force ss pb prefix inh base n d h inj ts subs :
  suite_tasks si force ss pb prefix inh base (Suite n d h inj ts subs) =
  let s := Suite n d h inj ts subs in
  let p := prefix ++ [n] in
  let init := needs_init si force inh p s in
  let first_test := if init then S (S base) else S base in
  let test_ids := seq first_test (length ts) in
  let after_tests := first_test + length ts in
  let sub_base := if init then S after_tests else after_tests in
  let test_dep := if init then S base else base in
  let subs_tasks := blocks (suite_tasks si force ss (Some base) p (inh || d)) subs sub_base in
  [mkTask KSuiteBegin p (opt_to_list ss ++ opt_to_list pb) []] ++
  (if init then [mkTask KSuiteInit p [base] []] else []) ++
  map (fun t => mkTask KTest (p ++ [tt_name t]) [test_dep] []) ts ++
  (if init then [mkTask KSuiteTeardown p [] (S base :: test_ids)] else []) ++
  concat subs_tasks ++
  [mkTask KSuiteEnd p (base :: test_ids ++ (if init then [after_tests] else []) ++ block_ends subs_tasks sub_base) []].
Proof. reflexivity. Qed.

Lemma suites_tasks_eq si force ss base l :
  suites_tasks si force ss base l = blocks (suite_tasks si force ss None [] false) l base.
Proof. revert base. induction l as [|s r IH]; intros base; simpl; [reflexivity|]. rewrite IH. reflexivity. Qed.

Lemma suite_tasks_nonempty si force ss pb prefix inh base s : 1 <= length (suite_tasks si force ss pb prefix inh base s).
Proof. destruct s as [n d h inj ts subs]. rewrite suite_tasks_eq. cbv zeta. simpl length. lia. Qed.

Lemma blocks_seg (f : nat -> suite -> list task) (ext : nat -> Prop) b0 l :
  (forall d, ext d -> d < b0) ->
  (forall s b, In s l -> b0 <= b -> seg_ok ext b (f b s)) ->
  forall b, b0 <= b -> seg_ok ext b (concat (blocks f l b)).
Proof.
  intros Hb0. induction l as [|x r IH]; intros Hf b Hb; simpl; [apply seg_nil|].
  apply (seg_app ext ext).
  - apply Hf; [left; reflexivity|exact Hb].
  - apply IH; [|lia]. intros s b' Hs Hb'. apply Hf; [right; exact Hs|exact Hb'].
  - intros d _ He. left. split; [|exact He]. apply Hb0 in He. lia.
Qed.

Lemma blocks_length_pos f l b : (forall s b, 1 <= length (f b s)) -> Forall (fun tx => 1 <= length tx) (blocks f l b).
Proof. intros Hf. revert b. induction l as [|x r IH]; intros b; simpl; constructor; [apply Hf|apply IH]. Qed.

Lemma block_ends_lt bl b : Forall (fun tx => 1 <= length tx) bl ->
  forall e, In e (block_ends bl b) -> e < b + length (concat bl).
Proof.
  revert b. induction bl as [|tx r IH]; intros b Hpos e He; simpl in *; [contradiction|].
  inversion Hpos as [|? ? Htx Hr]. subst. rewrite app_length. destruct He as [He|He]; [lia|].
  apply IH in He; [lia|exact Hr].
Qed.

(* ------------------------------------------------------------------ one suite *)
Lemma in_seq_lt a n x : In x (seq a n) -> a <= x < a + n.
Proof. intros H. apply in_seq in H. exact H. Qed.

Section SuiteInd.
  Variable P : suite -> Prop.
  Hypothesis Hstep : forall n d h i ts subs, (forall s, In s subs -> P s) -> P (Suite n d h i ts subs).
  Fixpoint suite_ind3 (s : suite) : P s :=
    match s with
    | Suite n d h i ts subs =>
        Hstep n d h i ts subs
          ((fix go (l : list suite) : forall s, In s l -> P s :=
              match l with
              | [] => fun s f => match f with end
              | x :: r => fun s f => match f with
                                     | or_introl e => eq_rect x P (suite_ind3 x) s e
                                     | or_intror i => go r s i
                                     end
              end) subs)
    end.
End SuiteInd.

(* the shape shared by both values of [init]: head tasks A1 (Begin, Init?) whose early ids are C, then tests, Teardown?,
   sub-suite blocks, End *)
Lemma suite_shape_seg (ext C : nat -> Prop) base A1 (tests : list task) td bl endt :
  seg_ok ext base A1 ->
  (forall d, C d -> d < base + length A1) ->
  (forall d, C d -> (d < base /\ ext d) \/
                    (base <= d /\ exists t', nth_error A1 (d - base) = Some t' /\ early (t_kind t') = true)) ->
  (forall t d, In t tests -> In d (all_deps t) -> late (t_kind t) = false /\ C d) ->
  (forall t d, In t td -> In d (all_deps t) -> late (t_kind t) = true /\ d < base + length A1 + length tests) ->
  length td <= 1 ->
  seg_ok C (base + length A1 + length tests + length td) (concat bl) ->
  late (t_kind endt) = true ->
  (forall d, In d (all_deps endt) -> d < base + length A1 + length tests + length td + length (concat bl)) ->
  seg_ok ext base (A1 ++ tests ++ td ++ concat bl ++ [endt]).
Proof.
  intros HA1 HCb HC Htests Htd Htdlen Hbl Hend Hendd.
  apply (seg_app ext C); [exact HA1| |intros d _ Hd; exact (HC d Hd)].
  apply (seg_app C C).
  - intros k t Hk d Hd. apply nth_error_In in Hk as Hin. destruct (Htests t d Hin Hd) as [Hl Hc].
    split; [apply HCb in Hc; lia|]. intros _. left. split; [apply HCb; exact Hc|exact Hc].
  - apply (seg_app C C).
    + intros k t Hk d Hd. apply nth_error_In in Hk as Hin. destruct (Htd t d Hin Hd) as [Hl Hlt].
      split; [lia|]. intros Hl'. congruence.
    + apply (seg_app C C).
      * exact Hbl.
      * apply seg_single. intros d Hd. split; [|intros Hl; congruence].
        apply Hendd in Hd. lia.
      * intros d _ Hd. left. split; [apply HCb in Hd; lia|exact Hd].
    + intros d _ Hd. left. split; [apply HCb in Hd; lia|exact Hd].
  - intros d _ Hd. left. split; [apply HCb; exact Hd|exact Hd].
Qed.

Lemma suite_tasks_seg : forall s si force ss pb prefix inh base (ext : nat -> Prop),
  (forall d, ext d -> d < base) ->
  (forall x, ss = Some x -> ext x) -> (forall x, pb = Some x -> ext x) ->
  seg_ok ext base (suite_tasks si force ss pb prefix inh base s).
Proof.
  induction s as [n d h inj ts subs IH] using suite_ind3.
  intros si force ss pb prefix inh base ext Hext Hss Hpb.
  rewrite suite_tasks_eq. cbv zeta.
  set (p := prefix ++ [n]).
  assert (Hbegin : seg_ok ext base [mkTask KSuiteBegin p (opt_to_list ss ++ opt_to_list pb) []]).
  { apply seg_single. intros x Hx. unfold all_deps in Hx. simpl in Hx.
    assert (He : ext x).
    { apply in_app_iff in Hx as [Hx|Hx]; [destruct ss as [y|]|destruct pb as [y|]]; simpl in Hx;
        try contradiction; destruct Hx as [Hx|[]]; subst y; [apply Hss|apply Hpb]; reflexivity. }
    split; [apply Hext; exact He|intros _; exact He]. }
  destruct (needs_init si force inh p (Suite n d h inj ts subs)) eqn:Hinit.
  - (* with an initialization task *)
    set (C := fun x => ext x \/ x = base \/ x = S base).
    change ([mkTask KSuiteBegin p (opt_to_list ss ++ opt_to_list pb) []] ++ [mkTask KSuiteInit p [base] []] ++ ?r)
      with (([mkTask KSuiteBegin p (opt_to_list ss ++ opt_to_list pb) []] ++ [mkTask KSuiteInit p [base] []]) ++ r).
    apply (suite_shape_seg ext C).
    + apply (seg_app ext (fun x => ext x \/ x = base)); [exact Hbegin| |].
      * apply seg_single. intros x Hx. unfold all_deps in Hx. simpl in Hx. destruct Hx as [Hx|[]]. subst x.
        simpl. split; [lia|]. intros _. right. reflexivity.
      * intros x _ [Hx|Hx]; [left; split; [apply Hext; exact Hx|exact Hx]|]. subst x. right. split; [lia|].
        rewrite Nat.sub_diag. eexists. split; [reflexivity|reflexivity].
    + intros x [Hx|[Hx|Hx]]; simpl; [apply Hext in Hx|..]; lia.
    + intros x [Hx|[Hx|Hx]]; [left; split; [apply Hext; exact Hx|exact Hx]|subst x|subst x].
      * right. split; [lia|]. rewrite Nat.sub_diag. eexists. split; reflexivity.
      * right. split; [lia|]. replace (S base - base) with 1 by lia. eexists. split; reflexivity.
    + intros t x Ht Hx. apply in_map_iff in Ht as [tt0 [Ht _]]. subst t. unfold all_deps in Hx. simpl in Hx.
      destruct Hx as [Hx|[]]. subst x. split; [reflexivity|]. right. right. reflexivity.
    + intros t x Ht Hx. destruct Ht as [Ht|[]]. subst t. split; [reflexivity|]. unfold all_deps in Hx. simpl in Hx.
      rewrite map_length. simpl length. rewrite app_nil_r in Hx. destruct Hx as [Hx|Hx]; [lia|]. apply in_seq in Hx. lia.
    + simpl. lia.
    + simpl length. rewrite map_length.
      replace (base + 2 + length ts + 1) with (S (S (S base) + length ts)) by lia.
      apply (blocks_seg _ C (S (S (S base) + length ts))).
      * intros x [Hx|[Hx|Hx]]; [apply Hext in Hx|..]; lia.
      * intros s b Hs Hb. apply IH; [exact Hs| | |].
        -- intros x [Hx|[Hx|Hx]]; [apply Hext in Hx|..]; lia.
        -- intros x Hx. left. apply Hss. exact Hx.
        -- intros x Hx. inversion Hx. subst x. right. left. reflexivity.
      * lia.
    + reflexivity.
    + intros x Hx. unfold all_deps in Hx. simpl in Hx. simpl length. rewrite map_length.
      set (bl := blocks _ _ _) in *.
      destruct Hx as [Hx|Hx]; [lia|]. apply in_app_iff in Hx as [Hx|Hx]; [apply in_seq in Hx; lia|].
      destruct Hx as [Hx|Hx]; [lia|]. rewrite ?app_nil_r in Hx.
      apply block_ends_lt in Hx; [lia|]. apply blocks_length_pos. intros s b. apply suite_tasks_nonempty.
  - (* without *)
    set (C := fun x => ext x \/ x = base).
    change (?a ++ [] ++ ?r) with (a ++ r).
    match goal with |- seg_ok _ _ (?a ++ ?t ++ [] ++ ?r) => change (a ++ t ++ [] ++ r) with (a ++ t ++ ([] : list task) ++ r) end.
    apply (suite_shape_seg ext C).
    + exact Hbegin.
    + intros x [Hx|Hx]; simpl; [apply Hext in Hx|]; lia.
    + intros x [Hx|Hx]; [left; split; [apply Hext; exact Hx|exact Hx]|subst x].
      right. split; [lia|]. rewrite Nat.sub_diag. eexists. split; reflexivity.
    + intros t x Ht Hx. apply in_map_iff in Ht as [tt0 [Ht _]]. subst t. unfold all_deps in Hx. simpl in Hx.
      destruct Hx as [Hx|[]]. subst x. split; [reflexivity|]. right. reflexivity.
    + intros t x [].
    + simpl. lia.
    + simpl length. rewrite map_length.
      replace (base + 1 + length ts + 0) with (S base + length ts) by lia.
      apply (blocks_seg _ C (S base + length ts)).
      * intros x [Hx|Hx]; [apply Hext in Hx|]; lia.
      * intros s b Hs Hb. apply IH; [exact Hs| | |].
        -- intros x [Hx|Hx]; [apply Hext in Hx|]; lia.
        -- intros x Hx. left. apply Hss. exact Hx.
        -- intros x Hx. inversion Hx. subst x. right. reflexivity.
      * lia.
    + reflexivity.
    + intros x Hx. unfold all_deps in Hx. simpl in Hx. simpl length. rewrite map_length.
      set (bl := blocks _ _ _) in *.
      destruct Hx as [Hx|Hx]; [lia|]. apply in_app_iff in Hx as [Hx|Hx]; [apply in_seq in Hx; lia|].
      rewrite ?app_nil_r in Hx.
      apply block_ends_lt in Hx; [lia|]. apply blocks_length_pos. intros s b. apply suite_tasks_nonempty.
Qed.

(* ------------------------------------------------------------------ the whole first pass *)
Lemma structural_seg si force suites : seg_ok (fun _ => False) 0 (build_tasks_structural si force suites).
Proof.
  unfold build_tasks_structural. rewrite suites_tasks_eq. destruct (si_session si).
  - set (E := fun x : nat => x = 0).
    apply (seg_app (fun _ => False) E 0 [mkTask KSessionSetup [] [] []]).
    + apply seg_single. intros x [].
    + simpl. apply (seg_app E E 1).
      * apply (blocks_seg _ E 1); [intros x Hx; unfold E in Hx; lia| |lia].
        intros s b _ Hb. apply suite_tasks_seg.
        -- intros x Hx. unfold E in Hx. lia.
        -- intros x Hx. inversion Hx. reflexivity.
        -- intros x Hx. discriminate.
      * apply seg_single. intros x Hx. split; [|intros Hl; discriminate]. unfold all_deps in Hx. simpl in Hx.
        rewrite app_nil_r in Hx. apply block_ends_lt in Hx; [exact Hx|].
        apply blocks_length_pos. intros s b. apply suite_tasks_nonempty.
      * intros x _ Hx. left. split; [unfold E in Hx; lia|exact Hx].
    + intros x _ Hx. right. unfold E in Hx. subst x. split; [lia|]. eexists. split; reflexivity.
  - simpl. rewrite app_nil_r. apply (blocks_seg _ (fun _ => False) 0); [intros x []| |lia].
    intros s b _ _. apply suite_tasks_seg; [intros x []|intros x Hx; discriminate|intros x Hx; discriminate].
Qed.

Lemma structural_back si force suites i t :
  nth_error (build_tasks_structural si force suites) i = Some t ->
  forall d, In d (all_deps t) ->
    d < i /\ (late (t_kind t) = false ->
              exists t', nth_error (build_tasks_structural si force suites) d = Some t' /\ early (t_kind t') = true).
Proof.
  intros Hi d Hd. destruct (structural_seg si force suites i t Hi d Hd) as [H1 H2]. split; [exact H1|].
  intros Hl. destruct (H2 Hl) as [[_ []]|[_ [t' [Ht' He]]]]. rewrite Nat.sub_0_r in Ht'. exists t'. split; assumption.
Qed.

(* ------------------------------------------------------------------ second pass: depends_on edges *)
Lemma path_eqb_true a b : path_eqb a b = true -> a = b.
Proof.
  unfold path_eqb. revert b. induction a as [|x a IH]; intros [|y b]; simpl; intros H; try reflexivity; try discriminate.
  apply andb_true_iff in H. destruct H as [H1 H2]. apply Nat.eqb_eq in H1. apply IH in H2. subst. reflexivity.
Qed.

Lemma map_opt_nth {A B} (f : A -> option B) l l' :
  map_opt f l = Some l' ->
  forall i y, nth_error l' i = Some y -> exists x, nth_error l i = Some x /\ f x = Some y.
Proof.
  revert l'. induction l as [|a l IH]; intros l' H i y Hy; simpl in H.
  - inversion H. subst l'. destruct i; discriminate.
  - destruct (f a) as [b|] eqn:Hfa; [|discriminate]. destruct (map_opt f l) as [ys|] eqn:Hm; [|discriminate].
    inversion H. subst l'. destruct i as [|i]; simpl in Hy.
    + inversion Hy. subst y. exists a. split; [reflexivity|exact Hfa].
    + destruct (IH ys eq_refl i y Hy) as [x [Hx Hfx]]. exists x. split; assumption.
Qed.

Lemma map_opt_length {A B} (f : A -> option B) l l' : map_opt f l = Some l' -> length l' = length l.
Proof.
  revert l'. induction l as [|a l IH]; intros l' H; simpl in H.
  - inversion H. reflexivity.
  - destruct (f a); [|discriminate]. destruct (map_opt f l) as [ys|]; [|discriminate]. inversion H. simpl. f_equal. apply IH. reflexivity.
Qed.

Lemma map_opt_In {A B} (f : A -> option B) l l' y :
  map_opt f l = Some l' -> In y l' -> exists x, In x l /\ f x = Some y.
Proof.
  intros H Hy. apply In_nth_error in Hy as [i Hi]. destruct (map_opt_nth f l l' H i y Hi) as [x [Hx Hf]].
  exists x. split; [eapply nth_error_In; exact Hx|exact Hf].
Qed.

Lemma lookup_test_task_spec g p : forall i0 j, lookup_test_task g p i0 = Some j ->
  i0 <= j /\ exists t, nth_error g (j - i0) = Some t /\ t_kind t = KTest /\ t_path t = p.
Proof.
  induction g as [|t g IH]; intros i0 j H; simpl in H; [discriminate|].
  destruct (kind_eqb (t_kind t) KTest && path_eqb (t_path t) p) eqn:Hm.
  - inversion H. subst j. split; [lia|]. rewrite Nat.sub_diag. exists t. split; [reflexivity|].
    apply andb_true_iff in Hm as [Hk Hp]. split; [destruct (t_kind t); try discriminate; reflexivity|apply path_eqb_true; exact Hp].
  - apply IH in H as [Hle [t' [Ht' Hk]]]. split; [lia|]. exists t'. split; [|exact Hk].
    replace (j - i0) with (S (j - S i0)) by lia. exact Ht'.
Qed.

(* what the second pass does to the task at index i *)
Lemma add_test_deps_nth deps_of g g' :
  add_test_deps deps_of g = Some g' ->
  length g' = length g /\
  forall i t', nth_error g' i = Some t' ->
    exists t, nth_error g i = Some t /\ t_kind t' = t_kind t /\ t_path t' = t_path t /\
      forall d, In d (all_deps t') ->
        In d (all_deps t) \/
        (t_kind t = KTest /\ exists tp p, In p (deps_of (t_path t)) /\ nth_error g d = Some tp /\ t_kind tp = KTest /\ t_path tp = p).
Proof.
  unfold add_test_deps. intros H. split; [eapply map_opt_length; exact H|].
  intros i t' Ht'. destruct (map_opt_nth _ _ _ H i t' Ht') as [t [Ht Hf]]. exists t. split; [exact Ht|].
  destruct (t_kind t) eqn:Hk; try (inversion Hf; subst t'; rewrite Hk; repeat split; try reflexivity; intros d Hd; left; exact Hd).
  destruct (map_opt (fun p => lookup_test_task g p 0) (deps_of (t_path t))) as [ids|] eqn:Hids; [|discriminate].
  inversion Hf. subst t'. simpl. repeat split; try reflexivity.
  intros d Hd. unfold all_deps in Hd. simpl in Hd. unfold all_deps.
  apply in_app_iff in Hd as [Hd|Hd]; [left; apply in_app_iff; left; exact Hd|].
  apply in_app_iff in Hd as [Hd|Hd]; [left; apply in_app_iff; right; exact Hd|].
  right. split; [reflexivity|]. destruct (map_opt_In _ _ _ d Hids Hd) as [p [Hp Hl]].
  apply lookup_test_task_spec in Hl as [_ [tp [Htp [Hkp Hpp]]]]. rewrite Nat.sub_0_r in Htp.
  exists tp, p. repeat split; assumption.
Qed.

(* ------------------------------------------------------------------ the rank *)
Definition rank_of (g : graph) (tr : path -> nat) (i : nat) : nat :=
  let t := get_task g i in
  let L := length g in
  let T := S (list_max (map (fun t => tr (t_path t)) g)) in
  if early (t_kind t) then i else if late (t_kind t) then L + T + i else L + tr (t_path t).

Lemma get_task_nth g i t : nth_error g i = Some t -> get_task g i = t.
Proof. intros H. unfold get_task. apply nth_error_nth. exact H. Qed.

Lemma tr_lt_T g (tr : path -> nat) i t : nth_error g i = Some t -> tr (t_path t) < S (list_max (map (fun t => tr (t_path t)) g)).
Proof.
  intros H. apply nth_error_In in H. apply Nat.lt_succ_r.
  assert (Hall : Forall (fun k => k <= list_max (map (fun t => tr (t_path t)) g)) (map (fun t => tr (t_path t)) g))
    by (apply list_max_le; lia).
  rewrite Forall_forall in Hall. apply Hall. apply in_map_iff. exists t. split; [reflexivity|exact H].
Qed.

Lemma kind_classes k : early k = true \/ late k = true \/ k = KTest.
Proof. destruct k; simpl; auto. Qed.

(* Every project's task graph is well-formed as soon as depends_on is acyclic (ranked by tr). *)
Theorem build_tasks_wf si force suites g (tr : path -> nat) :
  build_tasks si force suites = Some g ->
  (forall p d, In d (deps_lookup (deps_table suites) p) -> tr d < tr p) ->
  wf g (rank_of g tr).
Proof.
  unfold build_tasks. intros Hg Htr.
  destruct (add_test_deps_nth _ _ _ Hg) as [Hlen Hnth].
  set (g0 := build_tasks_structural si force suites) in *.
  assert (Hkinds : forall i t0, nth_error g0 i = Some t0 -> exists t', nth_error g i = Some t' /\ t_kind t' = t_kind t0 /\ t_path t' = t_path t0).
  { intros i t0 Hi. assert (Hlt : i < length g) by (rewrite Hlen; apply nth_error_Some; congruence).
    destruct (nth_error g i) as [t'|] eqn:Ht'; [|apply nth_error_None in Ht'; lia].
    destruct (Hnth i t' Ht') as [t [Ht [Hk [Hp _]]]]. rewrite Hi in Ht. inversion Ht. subst t. exists t'. auto. }
  assert (Hmain : forall i d, i < length g -> In d (all_deps (get_task g i)) -> d < length g /\ rank_of g tr d < rank_of g tr i).
  { intros i d Hi Hd.
    destruct (nth_error g i) as [t'|] eqn:Ht'; [|apply nth_error_None in Ht'; lia].
    rewrite (get_task_nth _ _ _ Ht') in Hd.
    destruct (Hnth i t' Ht') as [t [Ht [Hk [Hp Hdeps]]]].
    unfold rank_of at 2. rewrite (get_task_nth _ _ _ Ht'). cbv zeta.
    destruct (Hdeps d Hd) as [Hold|[Hkt [tp [p [Hpin [Htp [Hkp Hpp]]]]]]].
    - (* a dependency of the first pass: points backwards *)
      destruct (structural_back si force suites i t Ht d Hold) as [Hlt Hearly].
      split; [lia|].
      destruct (kind_classes (t_kind t)) as [He|[Hl|Hte]].
      + (* early task: the dependency is early too *)
        assert (Hnl : late (t_kind t) = false) by (destruct (t_kind t); simpl in *; congruence).
        destruct (Hearly Hnl) as [t0 [Ht0 He0]]. destruct (Hkinds d t0 Ht0) as [td [Htd [Hkd _]]].
        unfold rank_of. rewrite (get_task_nth _ _ _ Htd). cbv zeta. rewrite Hkd, He0, Hk, He. exact Hlt.
      + (* late task *)
        assert (Hne : early (t_kind t) = false) by (destruct (t_kind t); simpl in *; congruence).
        rewrite Hk, Hne, Hl.
        assert (Hdl : d < length g0) by lia.
        destruct (nth_error g0 d) as [t0|] eqn:Ht0; [|apply nth_error_None in Ht0; lia].
        destruct (Hkinds d t0 Ht0) as [td [Htd [Hkd Hpd]]].
        unfold rank_of. rewrite (get_task_nth _ _ _ Htd). cbv zeta.
        destruct (early (t_kind td)); [lia|]. destruct (late (t_kind td)); [lia|].
        pose proof (tr_lt_T g tr d td Htd). lia.
      + (* test: its first-pass dependency is an early task *)
        assert (Hnl : late (t_kind t) = false) by (rewrite Hte; reflexivity).
        destruct (Hearly Hnl) as [t0 [Ht0 He0]]. destruct (Hkinds d t0 Ht0) as [td [Htd [Hkd _]]].
        unfold rank_of. rewrite (get_task_nth _ _ _ Htd). cbv zeta. rewrite Hkd, He0, Hk, Hte. simpl. lia.
    - (* a depends_on edge: test to test, ranked by tr *)
      assert (Hdl : d < length g) by (rewrite Hlen; apply nth_error_Some; congruence).
      split; [exact Hdl|].
      destruct (Hkinds d tp Htp) as [td [Htd [Hkd Hpd]]].
      unfold rank_of. rewrite (get_task_nth _ _ _ Htd). cbv zeta. rewrite Hkd, Hkp, Hk, Hkt. simpl.
      rewrite Hpd, Hpp, Hp. apply Htr in Hpin. lia. }
  split; intros i d Hi Hd; apply (Hmain i d Hi Hd).
Qed.

(* an executable form of the acyclicity hypothesis *)
Definition ranked_b (tr : path -> nat) (tbl : list (path * list path)) : bool :=
  forallb (fun e => forallb (fun d => tr d <? tr (fst e)) (snd e)) tbl.

Lemma ranked_b_sound tr tbl : ranked_b tr tbl = true -> forall p d, In d (deps_lookup tbl p) -> tr d < tr p.
Proof.
  intros H p d Hd. unfold deps_lookup in Hd. destruct (find (fun e => path_eqb (fst e) p) tbl) as [e|] eqn:Hf; [|destruct Hd].
  apply find_some in Hf as [Hin Hp]. apply path_eqb_true in Hp. subst p.
  unfold ranked_b in H. rewrite forallb_forall in H. specialize (H e Hin). rewrite forallb_forall in H.
  apply Nat.ltb_lt. apply H. exact Hd.
Qed.
