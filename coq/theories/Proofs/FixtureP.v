(* Proofs about Model/Fixture.v: termination (fuel) of get_fixture_dependencies, meaning of its errors, what an Ok result
   contains and in which order, and the structural soundness of the schedules. Used by Proofs/ValidateP.v (C14). *)
From Coq Require Import List Arith Bool Lia Relations.
Import ListNotations.
From LCC Require Import Model.Proj Model.Fixture.

(* ================================================================ specification vocabulary *)
(* a fixture table: which fixture a name denotes *)
Definition lookup := name -> option fixture.
(* a depends directly on b: b is a parameter of the fixture named a, "fixture_name" excepted *)
Definition Edge (look : lookup) (a b : name) : Prop := exists fx, look a = Some fx /\ In b (fparams fx).

(* ================================================================ small facts *)
Lemma name_mem_In : forall x l, name_mem x l = true <-> In x l.
Proof.
  intros x l. unfold name_mem. rewrite existsb_exists. split.
  - intros [y [H1 H2]]. apply Nat.eqb_eq in H2. subst. exact H1.
  - intros H. exists x. split; [exact H | apply Nat.eqb_refl].
Qed.

Lemma name_mem_false : forall x l, name_mem x l = false <-> ~ In x l.
Proof.
  intros x l. rewrite <- name_mem_In. destruct (name_mem x l).
  - split; [discriminate | intros H; exfalso; apply H; reflexivity].
  - split; [intros _; discriminate | reflexivity].
Qed.

Lemma for_each_ok : forall {A} (f : A -> result unit) l, for_each f l = Ok tt <-> forall x, In x l -> f x = Ok tt.
Proof.
  intros A f l. induction l as [|a l IH]; simpl.
  - split; [intros _ x [] | reflexivity].
  - destruct (f a) as [[]|e] eqn:Hf.
    + rewrite IH. split.
      * intros H x [Hx|Hx]; [subst; exact Hf | auto].
      * intros H x Hx. apply H. right. exact Hx.
    + split; [discriminate|]. intros H. specialize (H a (or_introl eq_refl)). congruence.
Qed.

Lemma for_each_err : forall {A} (f : A -> result unit) l e, for_each f l = Err e -> exists x, In x l /\ f x = Err e.
Proof.
  intros A f l e. induction l as [|a l IH]; simpl; [discriminate|].
  destruct (f a) as [[]|e'] eqn:Hf.
  - intros H. destruct (IH H) as [x [Hx Hfx]]. exists x. auto.
  - intros H. inversion H. subst. exists a. auto.
Qed.

Lemma result_unit_cases : forall r : result unit, r = Ok tt \/ exists e, r = Err e.
Proof. intros [[]|e]; [left; reflexivity | right; exists e; reflexivity]. Qed.

Lemma reg_find_In : forall reg n fx, reg_find reg n = Some fx -> In (n, fx) reg.
Proof.
  induction reg as [|[k f] r IH]; simpl; [discriminate|]. intros n fx.
  destruct (Nat.eqb n k) eqn:E.
  - apply Nat.eqb_eq in E. intros H. inversion H. subst. left. reflexivity.
  - intros H. right. apply IH. exact H.
Qed.

Lemma reg_find_names : forall reg n, (exists fx, reg_find reg n = Some fx) <-> In n (reg_names reg).
Proof.
  induction reg as [|[k f] r IH]; simpl; intros n.
  - split; [intros [fx H]; discriminate | intros []].
  - destruct (Nat.eqb n k) eqn:E.
    + apply Nat.eqb_eq in E. subst. split; [intros _; left; reflexivity | intros _; exists f; reflexivity].
    + apply Nat.eqb_neq in E. rewrite IH. split; [intros H; right; exact H | intros [H|H]; [congruence | exact H]].
Qed.

Lemma reg_mem_true : forall reg n, reg_mem reg n = true <-> exists fx, reg_find reg n = Some fx.
Proof.
  intros reg n. unfold reg_mem. destruct (reg_find reg n) as [fx|].
  - split; [intros _; exists fx; reflexivity | reflexivity].
  - split; [discriminate | intros [fx H]; discriminate].
Qed.

(* ================================================================ OrderedSet *)
Lemma oset_add_In : forall x s y, In y (oset_add x s) <-> In y s \/ y = x.
Proof.
  intros x s y. unfold oset_add. destruct (name_mem x s) eqn:E.
  - apply name_mem_In in E. split; [auto | intros [H|H]; [exact H | subst; exact E]].
  - rewrite in_app_iff. simpl. split.
    + intros [H|[H|[]]]; [left; exact H | right; symmetry; exact H].
    + intros [H|H]; [left; exact H | right; left; symmetry; exact H].
Qed.

Lemma oset_update_In : forall xs s y, In y (oset_update s xs) <-> In y s \/ In y xs.
Proof.
  unfold oset_update. induction xs as [|x xs IH]; intros s y; simpl.
  - split; [auto | intros [H|[]]; exact H].
  - rewrite IH, oset_add_In. split.
    + intros [[H|H]|H]; auto.
    + intros [H|[H|H]]; auto.
Qed.

(* L keeps its order as a prefix: the position-based notion used for "set up earlier" *)
Definition before (l : list name) (y x : name) : Prop := exists l1 l2, l = l1 ++ x :: l2 /\ In y l1.

Lemma before_app_l : forall l l' y x, before l y x -> before (l ++ l') y x.
Proof.
  intros l l' y x [l1 [l2 [H Hy]]]. exists l1, (l2 ++ l'). subst. rewrite <- app_assoc. simpl. auto.
Qed.

Lemma oset_add_prefix : forall x s, exists t, oset_add x s = s ++ t.
Proof.
  intros x s. unfold oset_add. destruct (name_mem x s); [exists []; rewrite app_nil_r | exists [x]]; reflexivity.
Qed.

Lemma oset_update_prefix : forall xs s, exists t, oset_update s xs = s ++ t.
Proof.
  unfold oset_update. induction xs as [|x xs IH]; intros s; simpl.
  - exists []. rewrite app_nil_r. reflexivity.
  - destruct (oset_add_prefix x s) as [t1 H1]. rewrite H1. destruct (IH (s ++ t1)) as [t2 H2]. rewrite H2.
    exists (t1 ++ t2). rewrite app_assoc. reflexivity.
Qed.

Lemma before_oset_update : forall xs s y x, before s y x -> before (oset_update s xs) y x.
Proof. intros xs s y x H. destruct (oset_update_prefix xs s) as [t Ht]. rewrite Ht. apply before_app_l. exact H. Qed.

Lemma before_oset_add : forall z s y x, before s y x -> before (oset_add z s) y x.
Proof. intros z s y x H. destruct (oset_add_prefix z s) as [t Ht]. rewrite Ht. apply before_app_l. exact H. Qed.

Lemma NoDup_app_single : forall (s : list name) x, NoDup s -> ~ In x s -> NoDup (s ++ [x]).
Proof.
  induction s as [|a s IH]; intros x Hs Hx; simpl.
  - constructor; [intros [] | constructor].
  - inversion Hs as [|? ? Ha Hs']. subst. constructor.
    + rewrite in_app_iff. simpl. intros [H|[H|[]]]; [auto | subst; apply Hx; left; reflexivity].
    + apply IH; [exact Hs' | intros H; apply Hx; right; exact H].
Qed.

Lemma oset_add_NoDup : forall x s, NoDup s -> NoDup (oset_add x s).
Proof.
  intros x s H. unfold oset_add. destruct (name_mem x s) eqn:E; [exact H|].
  apply name_mem_false in E. apply NoDup_app_single; assumption.
Qed.

Lemma oset_update_NoDup : forall xs s, NoDup s -> NoDup (oset_update s xs).
Proof.
  unfold oset_update. induction xs as [|x xs IH]; intros s H; simpl; [exact H|]. apply IH. apply oset_add_NoDup. exact H.
Qed.

(* ================================================================ deps_loop *)
Lemma deps_loop_err : forall rec ps acc e, deps_loop rec ps acc = Err e -> exists p, In p ps /\ rec p = Err e.
Proof.
  intros rec ps. induction ps as [|p ps IH]; intros acc e; simpl; [discriminate|].
  destruct (rec p) as [d|e'] eqn:Hp.
  - intros H. destruct (IH _ _ H) as [q [Hq Hr]]. exists q. auto.
  - intros H. inversion H. subst. exists p. auto.
Qed.

Lemma deps_loop_ok_each : forall rec ps acc r, deps_loop rec ps acc = Ok r -> forall p, In p ps -> exists d, rec p = Ok d.
Proof.
  intros rec ps. induction ps as [|p ps IH]; intros acc r; simpl; [intros _ q []|].
  destruct (rec p) as [d|e'] eqn:Hp; [|discriminate].
  intros H q [Hq|Hq]; [subst; exists d; exact Hp | eapply IH; eauto].
Qed.

(* any invariant of the accumulator that every successful iteration preserves holds at the end *)
Lemma deps_loop_inv : forall (I : list name -> Prop) rec ps acc r,
  (forall a p d, In p ps -> rec p = Ok d -> I a -> I (oset_update a d)) ->
  I acc -> deps_loop rec ps acc = Ok r -> I r.
Proof.
  intros I rec ps. induction ps as [|p ps IH]; intros acc r Hstep Hacc; simpl.
  - intros H. inversion H. subst. exact Hacc.
  - destruct (rec p) as [d|e'] eqn:Hp; [|discriminate]. intros H.
    eapply IH; [| |exact H].
    + intros a q d' Hq. apply Hstep. right. exact Hq.
    + eapply Hstep; [left; reflexivity | exact Hp | exact Hacc].
Qed.

Lemma deps_loop_In : forall rec ps acc r, deps_loop rec ps acc = Ok r ->
  forall y, In y r <-> In y acc \/ exists p d, In p ps /\ rec p = Ok d /\ In y d.
Proof.
  intros rec ps. induction ps as [|p ps IH]; intros acc r; simpl.
  - intros H. inversion H. subst. intros y. split; [auto | intros [H1|[p [d [[] _]]]]; exact H1].
  - destruct (rec p) as [d|e'] eqn:Hp; [|discriminate]. intros H y.
    rewrite (IH _ _ H y), oset_update_In. split.
    + intros [[H1|H1]|[q [d' [Hq [Hr Hy]]]]].
      * left. exact H1.
      * right. exists p, d. auto.
      * right. exists q, d'. auto.
    + intros [H1|[q [d' [[Hq|Hq] [Hr Hy]]]]].
      * left. left. exact H1.
      * subst q. rewrite Hp in Hr. inversion Hr. subst d'. left. right. exact Hy.
      * right. exists q, d'. auto.
Qed.

(* ================================================================ termination of get_fixture_dependencies *)
(* registered names that are not yet on the reference stack *)
Definition missing (reg : registry) (ref : list name) : nat :=
  length (filter (fun k => negb (name_mem k ref)) (reg_names reg)).

Lemma filter_length_lt : forall {A} (f g : A -> bool) l x,
  (forall y, g y = true -> f y = true) -> In x l -> f x = true -> g x = false ->
  length (filter g l) < length (filter f l).
Proof.
  intros A f g l x Hfg. induction l as [|a l IH]; simpl; [intros []|].
  assert (Hle : length (filter g l) <= length (filter f l)).
  { clear IH. induction l as [|b l IHl]; simpl; [lia|].
    destruct (g b) eqn:Hg; [rewrite (Hfg _ Hg); simpl; lia | destruct (f b); simpl; lia]. }
  intros [Ha|Hx] Hf Hg.
  - subst a. rewrite Hf, Hg. simpl. lia.
  - specialize (IH Hx Hf Hg). destruct (g a) eqn:Hga; [rewrite (Hfg _ Hga); simpl; lia | destruct (f a); simpl; lia].
Qed.

Lemma missing_push : forall reg ref n, In n (reg_names reg) -> ~ In n ref -> missing reg (n :: ref) < missing reg ref.
Proof.
  intros reg ref n Hn Hr. unfold missing. apply filter_length_lt with (x := n).
  - intros y Hy. apply negb_true_iff in Hy. apply negb_true_iff. apply name_mem_false. apply name_mem_false in Hy.
    intros H. apply Hy. right. exact H.
  - exact Hn.
  - apply negb_true_iff. apply name_mem_false. exact Hr.
  - apply negb_false_iff. apply name_mem_In. left. reflexivity.
Qed.

Lemma filter_length_le : forall {A} (f : A -> bool) l, length (filter f l) <= length l.
Proof. intros A f l. induction l as [|a l IH]; simpl; [lia|]. destruct (f a); simpl; lia. Qed.

Lemma missing_le : forall reg ref, missing reg ref <= length reg.
Proof.
  intros reg ref. unfold missing, reg_names. rewrite <- (map_length fst reg). apply filter_length_le.
Qed.

Lemma existsb_ref_false : forall ref fp, existsb (fun r => name_mem r fp) ref = false -> forall r, In r ref -> ~ In r fp.
Proof.
  intros ref fp H r Hr Hfp. assert (existsb (fun r => name_mem r fp) ref = true).
  { apply existsb_exists. exists r. split; [exact Hr | apply name_mem_In; exact Hfp]. }
  congruence.
Qed.

Lemma existsb_ref_true : forall ref fp, existsb (fun r => name_mem r fp) ref = true -> exists r, In r ref /\ In r fp.
Proof.
  intros ref fp H. apply existsb_exists in H. destruct H as [r [Hr Hm]]. exists r. split; [exact Hr | apply name_mem_In; exact Hm].
Qed.

(* The termination argument of the Python recursion: every recursive call pushes a registered name that is not yet in
   ref_fixtures (a name already there makes the circular-dependency check of the callee fail at once). *)
Lemma gfd_never_out_of_fuel : forall fuel reg n ref,
  (In n ref -> Edge (reg_find reg) n n) ->
  missing reg ref < fuel ->
  get_fixture_dependencies fuel reg n ref <> Err OutOfFuel.
Proof.
  induction fuel as [|fuel IH]; intros reg n ref Hinv Hfuel; [lia|].
  simpl. destruct (reg_find reg n) as [fx|] eqn:Hfind; [|discriminate].
  destruct (existsb (fun r => name_mem r (fparams fx)) ref) eqn:Hcyc; [discriminate|].
  destruct (deps_loop _ (fparams fx) []) as [deps|e] eqn:Hloop; [discriminate|].
  intros He. inversion He. subst e.
  destruct (deps_loop_err _ _ _ _ Hloop) as [p [Hp Hrec]].
  destruct (reg_mem reg p); [|discriminate].
  revert Hrec. apply IH.
  - intros [Hpn|Hpr].
    + subst p. exists fx. auto.
    + exfalso. exact (existsb_ref_false _ _ Hcyc p Hpr Hp).
  - assert (Hnr : ~ In n ref).
    { intros Hn. destruct (Hinv Hn) as [fx' [Hf' Hin]]. rewrite Hfind in Hf'. inversion Hf'. subst fx'.
      exact (existsb_ref_false _ _ Hcyc n Hn Hin). }
    assert (Hnk : In n (reg_names reg)) by (apply reg_find_names; exists fx; exact Hfind).
    pose proof (missing_push reg ref n Hnk Hnr). lia.
Qed.

Theorem fixture_deps_never_out_of_fuel : forall reg n, fixture_deps reg n <> Err OutOfFuel.
Proof.
  intros reg n. unfold fixture_deps. apply gfd_never_out_of_fuel; [intros [] | pose proof (missing_le reg []); lia].
Qed.

(* ================================================================ meaning of the errors *)
Lemma gfd_errors : forall fuel reg n ref e, get_fixture_dependencies fuel reg n ref = Err e ->
  e = ValidationError RFxCircular \/ e = ValidationError RFxUnknownParam \/ (e = KeyError /\ reg_find reg n = None) \/ e = OutOfFuel.
Proof.
  induction fuel as [|fuel IH]; intros reg n ref e; simpl; [intros H; inversion H; auto|].
  destruct (reg_find reg n) as [fx|] eqn:Hfind; [|intros H; inversion H; auto].
  destruct (existsb _ ref); [intros H; inversion H; auto|].
  destruct (deps_loop _ (fparams fx) []) as [deps|e'] eqn:Hloop; [discriminate|].
  intros H. inversion H. subst e'.
  destruct (deps_loop_err _ _ _ _ Hloop) as [p [Hp Hrec]].
  destruct (reg_mem reg p) eqn:Hm; [|inversion Hrec; auto].
  destruct (IH _ _ _ _ Hrec) as [H1|[H1|[[H1 H2]|H1]]]; auto.
  apply reg_mem_true in Hm. destruct Hm as [fx' Hm]. congruence.
Qed.

(* ref is a stack of fixtures each of which reaches n *)
Definition stack_reaches (look : lookup) (ref : list name) (n : name) : Prop :=
  forall r, In r ref -> clos_refl_trans name (Edge look) r n.

Lemma clos_t_rt_t : forall {A} (R : relation A) x y z, clos_trans A R x y -> clos_refl_trans A R y z -> clos_trans A R x z.
Proof.
  intros A R x y z Hxy Hyz. revert x Hxy. induction Hyz as [y z H|y|y w z H1 IH1 H2 IH2]; intros x Hxy.
  - apply t_trans with (y := y); [exact Hxy | apply t_step; exact H].
  - exact Hxy.
  - apply IH2. apply IH1. exact Hxy.
Qed.

Lemma clos_t_in_rt : forall {A} (R : relation A) x y, clos_trans A R x y -> clos_refl_trans A R x y.
Proof.
  intros A R x y H. induction H as [x y H|x y z H1 IH1 H2 IH2]; [apply rt_step; exact H | apply rt_trans with (y := y); assumption].
Qed.

Lemma clos_trans_mono : forall {A} (R R' : relation A), (forall a b, R a b -> R' a b) ->
  forall a b, clos_trans A R a b -> clos_trans A R' a b.
Proof.
  intros A R R' H a b Hab. induction Hab as [a b Hab|a b c _ IH1 _ IH2]; [apply t_step; apply H; exact Hab | apply t_trans with (y := b); assumption].
Qed.

Lemma clos_trans_last : forall {A} (R : relation A) a b, clos_trans A R a b -> exists q, clos_refl_trans A R a q /\ R q b.
Proof.
  intros A R a b H. induction H as [a b H|a b c H0 _ _ [q [H1 H2]]].
  - exists a. split; [apply rt_refl | exact H].
  - exists q. split; [|exact H2]. apply rt_trans with (y := b); [apply clos_t_in_rt; exact H0 | exact H1].
Qed.

Lemma gfd_circular_sound : forall fuel reg n ref,
  get_fixture_dependencies fuel reg n ref = Err (ValidationError RFxCircular) ->
  stack_reaches (reg_find reg) ref n ->
  exists a, clos_trans name (Edge (reg_find reg)) a a.
Proof.
  induction fuel as [|fuel IH]; intros reg n ref; simpl; [discriminate|].
  destruct (reg_find reg n) as [fx|] eqn:Hfind; [|discriminate].
  destruct (existsb _ ref) eqn:Hcyc.
  - intros _ Hst. destruct (existsb_ref_true _ _ Hcyc) as [r [Hr Hfp]].
    exists r. apply clos_rt_t with (y := n); [exact (Hst r Hr) | apply t_step; exists fx; auto].
  - destruct (deps_loop _ (fparams fx) []) as [deps|e'] eqn:Hloop; [discriminate|].
    intros H Hst. inversion H. subst e'.
    destruct (deps_loop_err _ _ _ _ Hloop) as [p [Hp Hrec]].
    destruct (reg_mem reg p) eqn:Hm; [|discriminate].
    apply (IH _ _ _ Hrec).
    assert (Hnp : Edge (reg_find reg) n p) by (exists fx; auto).
    intros r [Hr|Hr].
    + subst r. apply rt_step. exact Hnp.
    + apply rt_trans with (y := n); [exact (Hst r Hr) | apply rt_step; exact Hnp].
Qed.

Lemma gfd_unknown_sound : forall fuel reg n ref,
  get_fixture_dependencies fuel reg n ref = Err (ValidationError RFxUnknownParam) ->
  exists a b, Edge (reg_find reg) a b /\ reg_find reg b = None.
Proof.
  induction fuel as [|fuel IH]; intros reg n ref; simpl; [discriminate|].
  destruct (reg_find reg n) as [fx|] eqn:Hfind; [|discriminate].
  destruct (existsb _ ref) eqn:Hcyc; [discriminate|].
  destruct (deps_loop _ (fparams fx) []) as [deps|e'] eqn:Hloop; [discriminate|].
  intros H. inversion H. subst e'.
  destruct (deps_loop_err _ _ _ _ Hloop) as [p [Hp Hrec]].
  destruct (reg_mem reg p) eqn:Hm.
  - exact (IH _ _ _ Hrec).
  - exists n, p. split; [exists fx; auto|]. unfold reg_mem in Hm. destruct (reg_find reg p); [discriminate | reflexivity].
Qed.

(* ================================================================ what an Ok result says *)
Lemma gfd_ok_inv : forall fuel reg n ref r, get_fixture_dependencies (S fuel) reg n ref = Ok r ->
  exists fx deps, reg_find reg n = Some fx /\ (forall x, In x ref -> ~ In x (fparams fx)) /\
    deps_loop (fun p => if reg_mem reg p then get_fixture_dependencies fuel reg p (n :: ref)
                        else Err (ValidationError RFxUnknownParam)) (fparams fx) [] = Ok deps /\
    r = oset_update deps (fparams fx) /\
    forall p, In p (fparams fx) -> reg_mem reg p = true /\ exists d, get_fixture_dependencies fuel reg p (n :: ref) = Ok d.
Proof.
  intros fuel reg n ref r. simpl.
  destruct (reg_find reg n) as [fx|] eqn:Hfind; [|discriminate].
  destruct (existsb _ ref) eqn:Hcyc; [discriminate|].
  destruct (deps_loop _ (fparams fx) []) as [deps|e'] eqn:Hloop; [|discriminate].
  intros H. inversion H. subst r. exists fx, deps. repeat split; auto.
  - exact (existsb_ref_false _ _ Hcyc).
  - destruct (deps_loop_ok_each _ _ _ _ Hloop p H0) as [d Hd]. destruct (reg_mem reg p); [reflexivity | discriminate].
  - destruct (deps_loop_ok_each _ _ _ _ Hloop p H0) as [d Hd]. destruct (reg_mem reg p); [exists d; exact Hd | discriminate].
Qed.

(* an Ok result: nothing reachable from n points back into the reference stack *)
Lemma gfd_ok_no_back : forall fuel reg n ref r, get_fixture_dependencies fuel reg n ref = Ok r ->
  forall q d, clos_refl_trans name (Edge (reg_find reg)) n q -> Edge (reg_find reg) q d -> ~ In d ref.
Proof.
  induction fuel as [|fuel IH]; intros reg n ref r Hok; [discriminate|].
  destruct (gfd_ok_inv _ _ _ _ _ Hok) as [fx [deps [Hfind [Hnoref [_ [_ Hparams]]]]]].
  intros q d Hnq. apply clos_rt_rt1n in Hnq. revert d. destruct Hnq as [|p q Hnp Hpq]; intros d Hqd.
  - destruct Hqd as [fx' [Hf' Hd]]. rewrite Hfind in Hf'. inversion Hf'. subst fx'. intros Hr. exact (Hnoref d Hr Hd).
  - destruct Hnp as [fx' [Hf' Hp]]. rewrite Hfind in Hf'. inversion Hf'. subst fx'.
    destruct (Hparams p Hp) as [_ [dp Hdp]].
    intros Hr. apply (IH _ _ _ _ Hdp q d); [apply clos_rt1n_rt; exact Hpq | exact Hqd | right; exact Hr].
Qed.

Lemma gfd_ok_acyclic : forall reg a r, fixture_deps reg a = Ok r -> ~ clos_trans name (Edge (reg_find reg)) a a.
Proof.
  intros reg a r Hok Hcyc. unfold fixture_deps in Hok.
  destruct (gfd_ok_inv _ _ _ _ _ Hok) as [fx [deps [Hfind [_ [_ [_ Hparams]]]]]].
  apply clos_trans_t1n in Hcyc.
  assert (Hstep : exists p, Edge (reg_find reg) a p /\ clos_refl_trans name (Edge (reg_find reg)) p a).
  { inversion Hcyc as [y H1|y z H1 H2]; subst.
    - exists a. split; [exact H1 | apply rt_refl].
    - exists y. split; [exact H1 | apply clos_t1n_trans in H2; apply clos_t_in_rt; exact H2 ]. }
  destruct Hstep as [p [Hap Hpa]].
  destruct Hap as [fx' [Hf' Hp]]. rewrite Hfind in Hf'. inversion Hf'. subst fx'.
  destruct (Hparams p Hp) as [_ [dp Hdp]].
  apply clos_rt_rtn1 in Hpa. inversion Hpa as [|q z Hqa Hpq]; subst.
  - (* p = a: a self loop *)
    apply (gfd_ok_no_back _ _ _ _ _ Hdp a a); [apply rt_refl | exists fx; auto | left; reflexivity].
  - apply (gfd_ok_no_back _ _ _ _ _ Hdp q a); [apply clos_rtn1_rt; exact Hpq | exact Hqa | left; reflexivity].
Qed.

(* ================================================================ order and closure of an Ok result *)
(* every occurrence of a fixture comes after all its direct dependencies: the dependency-first order of the OrderedSet *)
Definition dep_closed (look : lookup) (L : list name) : Prop :=
  forall l1 x l2, L = l1 ++ x :: l2 -> forall y, Edge look x y -> In y l1.

Lemma app_single_split : forall (s : list name) x l1 z l2, s ++ [x] = l1 ++ z :: l2 ->
  (exists l2', l2 = l2' ++ [x] /\ s = l1 ++ z :: l2') \/ (l1 = s /\ z = x /\ l2 = []).
Proof.
  intros s x l1 z l2. induction l2 as [|w l2 _] using rev_ind.
  - intros H. right. apply app_inj_tail in H. destruct H. subst. auto.
  - intros H. left. exists l2.
    replace (l1 ++ z :: l2 ++ [w]) with ((l1 ++ z :: l2) ++ [w]) in H by (rewrite <- app_assoc; reflexivity).
    apply app_inj_tail in H. destruct H as [H1 H2]. subst. split; reflexivity.
Qed.

Lemma dep_closed_nil : forall look, dep_closed look [].
Proof. intros look l1 x l2 H. destruct l1; discriminate. Qed.

Lemma oset_add_closed : forall look x s, dep_closed look s -> (forall y, Edge look x y -> In y s) -> dep_closed look (oset_add x s).
Proof.
  intros look x s Hs Hx. unfold oset_add. destruct (name_mem x s); [exact Hs|].
  intros l1 z l2 Heq y Hzy. destruct (app_single_split _ _ _ _ _ Heq) as [[l2' [H1 H2]]|[H1 [H2 H3]]].
  - exact (Hs _ _ _ H2 y Hzy).
  - subst. apply Hx. exact Hzy.
Qed.

Lemma oset_update_closed : forall look xs s, dep_closed look s ->
  (forall l1 x l2, xs = l1 ++ x :: l2 -> forall y, Edge look x y -> In y l1 \/ In y s) ->
  dep_closed look (oset_update s xs).
Proof.
  intros look. unfold oset_update. induction xs as [|x xs IH]; intros s Hs Hxs; simpl; [exact Hs|].
  apply IH.
  - apply oset_add_closed; [exact Hs|]. intros y Hy. destruct (Hxs [] x xs eq_refl y Hy) as [[]|H]. exact H.
  - intros l1 z l2 Heq y Hzy. destruct (Hxs (x :: l1) z l2 (f_equal (cons x) Heq) y Hzy) as [[H|H]|H].
    + right. apply oset_add_In. right. symmetry. exact H.
    + left. exact H.
    + right. apply oset_add_In. left. exact H.
Qed.

Lemma dep_closed_step : forall look L x y, dep_closed look L -> In x L -> Edge look x y -> In y L.
Proof.
  intros look L x y HL Hx Hxy. destruct (in_split _ _ Hx) as [l1 [l2 Heq]].
  pose proof (HL _ _ _ Heq y Hxy) as H. subst L. apply in_or_app. left. exact H.
Qed.

Definition good_result (reg : registry) (n : name) (r : list name) : Prop :=
  dep_closed (reg_find reg) r /\ NoDup r /\
  (forall y, Edge (reg_find reg) n y -> In y r) /\
  (forall x, In x r -> clos_trans name (Edge (reg_find reg)) n x) /\
  (forall x, In x r -> reg_mem reg x = true).

Lemma gfd_ok_result : forall fuel reg n ref r, get_fixture_dependencies fuel reg n ref = Ok r -> good_result reg n r.
Proof.
  induction fuel as [|fuel IH]; intros reg n ref r Hok; [discriminate|].
  destruct (gfd_ok_inv _ _ _ _ _ Hok) as [fx [deps [Hfind [_ [Hloop [Hr Hparams]]]]]].
  set (rec := fun p => if reg_mem reg p then get_fixture_dependencies fuel reg p (n :: ref)
                       else Err (ValidationError RFxUnknownParam)) in *.
  assert (Hrec : forall p d, In p (fparams fx) -> rec p = Ok d -> good_result reg p d).
  { intros p d Hp Hd. unfold rec in Hd. destruct (reg_mem reg p); [|discriminate]. exact (IH _ _ _ _ Hd). }
  assert (Hedge : forall p, In p (fparams fx) -> Edge (reg_find reg) n p) by (intros p Hp; exists fx; auto).
  set (I := fun acc : list name => dep_closed (reg_find reg) acc /\ NoDup acc /\
            (forall x, In x acc -> clos_trans name (Edge (reg_find reg)) n x) /\ (forall x, In x acc -> reg_mem reg x = true)).
  assert (HI : I deps).
  { apply (deps_loop_inv I rec (fparams fx) [] deps); [| |exact Hloop].
    - intros a p d Hp Hd [Ha1 [Ha2 [Ha3 Ha4]]]. destruct (Hrec p d Hp Hd) as [Hd1 [Hd2 [Hd3 [Hd4 Hd5]]]].
      repeat split.
      + apply oset_update_closed; [exact Ha1|]. intros l1 x l2 Heq y Hxy. left. exact (Hd1 _ _ _ Heq y Hxy).
      + apply oset_update_NoDup. exact Ha2.
      + intros x Hx. apply oset_update_In in Hx. destruct Hx as [Hx|Hx]; [exact (Ha3 x Hx)|].
        apply t_trans with (y := p); [apply t_step; exact (Hedge p Hp) | exact (Hd4 x Hx)].
      + intros x Hx. apply oset_update_In in Hx. destruct Hx as [Hx|Hx]; [exact (Ha4 x Hx) | exact (Hd5 x Hx)].
    - repeat split; [apply dep_closed_nil | constructor | intros x [] | intros x []]. }
  destruct HI as [HI1 [HI2 [HI3 HI4]]].
  subst r. repeat split.
  - apply oset_update_closed; [exact HI1|]. intros l1 x l2 Heq y Hxy. right.
    assert (Hx : In x (fparams fx)) by (rewrite Heq; apply in_or_app; right; left; reflexivity).
    destruct (deps_loop_ok_each _ _ _ _ Hloop x Hx) as [d Hd].
    destruct (Hrec x d Hx Hd) as [_ [_ [Hd3 _]]].
    apply (deps_loop_In _ _ _ _ Hloop y). right. exists x, d. repeat split; auto.
  - apply oset_update_NoDup. exact HI2.
  - intros y [fx' [Hf' Hy]]. rewrite Hfind in Hf'. inversion Hf'. subst fx'. apply oset_update_In. right. exact Hy.
  - intros x Hx. apply oset_update_In in Hx. destruct Hx as [Hx|Hx]; [exact (HI3 x Hx) | apply t_step; exact (Hedge x Hx)].
  - intros x Hx. apply oset_update_In in Hx. destruct Hx as [Hx|Hx]; [exact (HI4 x Hx) | exact (proj1 (Hparams x Hx))].
Qed.

Lemma good_result_closure : forall reg n r, good_result reg n r -> forall x, clos_trans name (Edge (reg_find reg)) n x -> In x r.
Proof.
  intros reg n r [H1 [_ [H3 _]]] x Hx. apply clos_trans_tn1 in Hx. induction Hx as [y Hy|y z Hyz Hny IH].
  - exact (H3 y Hy).
  - exact (dep_closed_step _ _ _ _ H1 IH Hyz).
Qed.

(* ================================================================ check_dependencies *)
(* the registry is a dict: its keys are unique (build_registry_wf) *)
Definition reg_wf (reg : registry) : Prop := NoDup (reg_names reg).

Lemma reg_find_of_In : forall reg k fx, reg_wf reg -> In (k, fx) reg -> reg_find reg k = Some fx.
Proof.
  unfold reg_wf, reg_names. induction reg as [|[k' f'] r IH]; intros k fx Hwf; simpl; [intros []|].
  inversion Hwf as [|? ? Hnot Hwf']. subst.
  intros [H|H].
  - inversion H. subst. rewrite Nat.eqb_refl. reflexivity.
  - destruct (Nat.eqb k k') eqn:E.
    + apply Nat.eqb_eq in E. subst. exfalso. apply Hnot. apply in_map_iff. exists (k', fx). auto.
    + apply IH; assumption.
Qed.

Lemma scope_eqb_eq : forall a b, scope_eqb a b = true <-> a = b.
Proof. intros [] []; unfold scope_eqb; simpl; split; intros; try reflexivity; try discriminate. Qed.

(* what is wrong in a fixture table, by kind (the ValidationErrors of check_dependencies) *)
Definition FxInvalid (look : lookup) (r : reason) : Prop :=
  match r with
  | RFxForbiddenName => look n_fixture_name <> None
  | RFxCircular => exists a, clos_trans name (Edge look) a a
  | RFxUnknownParam => exists a b, Edge look a b /\ look b = None
  | RFxPerThreadParam => exists a fa b fb, look a = Some fa /\ In b (fparams fa) /\ look b = Some fb /\
                                           fx_per_thread fb = true /\ fx_scope fa <> ScTest
  | RFxScopeParam => exists a fa b fb, look a = Some fa /\ In b (fparams fa) /\ look b = Some fb /\
                                       scope_level (fx_scope fb) < scope_level (fx_scope fa)
  | _ => False
  end.

Lemma lookup_all_err : forall reg names e, lookup_all reg names = Err e -> e = KeyError /\ exists n, In n names /\ reg_find reg n = None.
Proof.
  intros reg names. induction names as [|n r IH]; intros e; simpl; [discriminate|].
  destruct (reg_find reg n) as [fx|] eqn:Hf.
  - destruct (lookup_all reg r) as [l|e'] eqn:Hl; [discriminate|]. intros H. inversion H. subst.
    destruct (IH _ eq_refl) as [H1 [m [Hm Hn]]]. split; [exact H1 | exists m; auto].
  - intros H. inversion H. split; [reflexivity | exists n; auto].
Qed.

Lemma lookup_all_ok : forall reg names l, lookup_all reg names = Ok l ->
  forall f, In f l <-> exists n, In n names /\ reg_find reg n = Some f.
Proof.
  intros reg names. induction names as [|n r IH]; intros l; simpl.
  - intros H. inversion H. intros f. split; [intros [] | intros [m [[] _]]].
  - destruct (reg_find reg n) as [fx|] eqn:Hf; [|discriminate].
    destruct (lookup_all reg r) as [l'|e'] eqn:Hl; [|discriminate]. intros H. inversion H. subst l.
    intros f. simpl. rewrite (IH l' eq_refl f). split.
    + intros [H1|[m [Hm Hn]]]; [subst; exists n; auto | exists m; auto].
    + intros [m [[Hm|Hm] Hn]]; [subst; left; congruence | right; exists m; auto].
Qed.

Lemma check_direct_dependency_err : forall fx dep e, check_direct_dependency fx dep = Err e ->
  (e = ValidationError RFxPerThreadParam /\ fx_per_thread dep = true /\ fx_scope fx <> ScTest) \/
  (e = ValidationError RFxScopeParam /\ scope_level (fx_scope dep) < scope_level (fx_scope fx)).
Proof.
  intros fx dep e. unfold check_direct_dependency.
  destruct (fx_per_thread dep && negb (scope_eqb (fx_scope fx) ScTest)) eqn:E1.
  - intros H. inversion H. left. apply andb_true_iff in E1. destruct E1 as [E1 E2]. repeat split; auto.
    apply negb_true_iff in E2. intros Hs. apply scope_eqb_eq in Hs. congruence.
  - destruct (Nat.ltb_spec (scope_level (fx_scope dep)) (scope_level (fx_scope fx))); [|discriminate].
    intros H0. inversion H0. right. auto.
Qed.

Lemma check_direct_dependency_ok : forall fx dep, check_direct_dependency fx dep = Ok tt ->
  (fx_per_thread dep = true -> fx_scope fx = ScTest) /\ scope_level (fx_scope fx) <= scope_level (fx_scope dep).
Proof.
  intros fx dep. unfold check_direct_dependency.
  destruct (fx_per_thread dep && negb (scope_eqb (fx_scope fx) ScTest)) eqn:E1; [discriminate|].
  destruct (Nat.ltb_spec (scope_level (fx_scope dep)) (scope_level (fx_scope fx))); [discriminate|].
  intros _. split; [|lia]. intros Hp. rewrite Hp in E1. simpl in E1. apply negb_false_iff in E1. apply scope_eqb_eq. exact E1.
Qed.

Lemma clos_trans_first : forall {A} (R : relation A) a b, clos_trans A R a b -> exists c, R a c.
Proof. intros A R a b H. apply clos_trans_t1n in H. inversion H; subst; eauto. Qed.

Lemma check_dependencies_sound : forall reg e, reg_wf reg -> check_dependencies reg = Err e ->
  exists r, e = ValidationError r /\ FxInvalid (reg_find reg) r.
Proof.
  intros reg e Hwf. unfold check_dependencies.
  destruct (name_mem n_fixture_name (reg_names reg)) eqn:Hforb.
  - intros H. inversion H. exists RFxForbiddenName. split; [reflexivity|]. simpl.
    apply name_mem_In in Hforb. apply reg_find_names in Hforb. destruct Hforb as [fx Hfx]. congruence.
  - destruct (for_each _ (reg_names reg)) as [[]|e1] eqn:H2; simpl.
    + intros H3. destruct (for_each_err _ _ _ H3) as [fx [Hfx Hc]]. unfold check_direct_dependencies in Hc.
      apply in_map_iff in Hfx. destruct Hfx as [[a fx'] [Hk Hin]]. simpl in Hk. subst fx'.
      pose proof (reg_find_of_In _ _ _ Hwf Hin) as Hfa.
      destruct (lookup_all reg (fparams fx)) as [l|e2] eqn:Hl; simpl in Hc.
      * destruct (for_each_err _ _ _ Hc) as [dep [Hdep Hd]].
        apply (lookup_all_ok _ _ _ Hl) in Hdep. destruct Hdep as [b [Hb Hfb]].
        destruct (check_direct_dependency_err _ _ _ Hd) as [[He [Hp Hs]]|[He Hlt]]; subst e.
        -- exists RFxPerThreadParam. split; [reflexivity|]. exists a, fx, b, dep. auto.
        -- exists RFxScopeParam. split; [reflexivity|]. exists a, fx, b, dep. auto.
      * inversion Hc. subst e2. destruct (lookup_all_err _ _ _ Hl) as [He [b [Hb Hnone]]]. subst e.
        (* impossible: the second step found every parameter *)
        exfalso. assert (Ha : In a (reg_names reg)) by (apply reg_find_names; exists fx; exact Hfa).
        pose proof (proj1 (for_each_ok _ _) H2 a Ha) as Hk1. simpl in Hk1.
        destruct (fixture_deps reg a) as [r|] eqn:Hr; [|discriminate]. unfold fixture_deps in Hr.
        destruct (gfd_ok_inv _ _ _ _ _ Hr) as [fx' [deps [Hf' [_ [_ [_ Hparams]]]]]].
        rewrite Hfa in Hf'. inversion Hf'. subst fx'. destruct (Hparams b Hb) as [Hm _].
        apply reg_mem_true in Hm. destruct Hm as [fb Hfb]. congruence.
    + intros H. inversion H. subst e1. destruct (for_each_err _ _ _ H2) as [k [Hk Hd]]. simpl in Hd.
      destruct (fixture_deps reg k) as [r|e2] eqn:Hr; simpl in Hd; [discriminate|]. inversion Hd. subst e2.
      unfold fixture_deps in Hr. destruct (gfd_errors _ _ _ _ _ Hr) as [He|[He|[[He Hn]|He]]]; subst e.
      * exists RFxCircular. split; [reflexivity|]. simpl. apply (gfd_circular_sound _ _ _ _ Hr). intros r0 [].
      * exists RFxUnknownParam. split; [reflexivity|]. simpl. exact (gfd_unknown_sound _ _ _ _ Hr).
      * exfalso. apply reg_find_names in Hk. destruct Hk as [fx Hfx]. congruence.
      * exfalso. exact (fixture_deps_never_out_of_fuel reg k Hr).
Qed.

Lemma check_dependencies_complete : forall reg, check_dependencies reg = Ok tt ->
  forall r, ~ FxInvalid (reg_find reg) r.
Proof.
  intros reg. unfold check_dependencies.
  destruct (name_mem n_fixture_name (reg_names reg)) eqn:Hforb; [discriminate|].
  destruct (for_each _ (reg_names reg)) as [[]|e1] eqn:H2; simpl; [|discriminate].
  intros H3.
  assert (Hall : forall k fx, reg_find reg k = Some fx -> exists r, fixture_deps reg k = Ok r).
  { intros k fx Hk. assert (Hk0 : In k (reg_names reg)) by (apply reg_find_names; exists fx; exact Hk).
    pose proof (proj1 (for_each_ok _ _) H2 k Hk0) as Hk1. simpl in Hk1.
    destruct (fixture_deps reg k) as [r|]; [exists r; reflexivity | discriminate]. }
  assert (Hdirect : forall a fa b fb, reg_find reg a = Some fa -> In b (fparams fa) -> reg_find reg b = Some fb ->
            check_direct_dependency fa fb = Ok tt).
  { intros a fa b fb Ha Hb Hfb.
    assert (Hin : In fa (map snd reg)) by (apply in_map_iff; exists (a, fa); split; [reflexivity | apply reg_find_In; exact Ha]).
    pose proof (proj1 (for_each_ok _ _) H3 fa Hin) as Hc. unfold check_direct_dependencies in Hc.
    destruct (lookup_all reg (fparams fa)) as [l|e2] eqn:Hl; simpl in Hc; [|discriminate].
    apply (proj1 (for_each_ok _ _) Hc). apply (lookup_all_ok _ _ _ Hl). exists b. auto. }
  intros r. destruct r; simpl; try (intros HF; exact HF).
  - intros Hn. apply Hn. apply name_mem_false in Hforb. destruct (reg_find reg n_fixture_name) as [fx|] eqn:Hf; [|reflexivity].
    exfalso. apply Hforb. apply reg_find_names. exists fx. exact Hf.
  - intros [a Hcyc]. destruct (clos_trans_first _ _ _ Hcyc) as [c [fx [Hfa _]]].
    destruct (Hall a fx Hfa) as [r Hr]. exact (gfd_ok_acyclic _ _ _ Hr Hcyc).
  - intros [a [b [[fx [Hfa Hb]] Hnone]]]. destruct (Hall a fx Hfa) as [r Hr]. unfold fixture_deps in Hr.
    destruct (gfd_ok_inv _ _ _ _ _ Hr) as [fx' [deps [Hf' [_ [_ [_ Hparams]]]]]].
    rewrite Hfa in Hf'. inversion Hf'. subst fx'. destruct (Hparams b Hb) as [Hm _].
    apply reg_mem_true in Hm. destruct Hm as [fb Hfb]. congruence.
  - intros [a [fa [b [fb [Ha [Hb [Hfb [Hp Hs]]]]]]]].
    destruct (check_direct_dependency_ok _ _ (Hdirect _ _ _ _ Ha Hb Hfb)) as [H1 _]. exact (Hs (H1 Hp)).
  - intros [a [fa [b [fb [Ha [Hb [Hfb Hlt]]]]]]].
    destruct (check_direct_dependency_ok _ _ (Hdirect _ _ _ _ Ha Hb Hfb)) as [_ H1]. lia.
Qed.

(* ================================================================ induction over suite trees *)
Section SuiteInd.
  Variable P : suite -> Prop.
  Hypothesis Hstep : forall n d h i ts subs, (forall s, In s subs -> P s) -> P (Suite n d h i ts subs).
  Fixpoint suite_ind2 (s : suite) : P s :=
    match s with
    | Suite n d h i ts subs =>
        Hstep n d h i ts subs
          ((fix go (l : list suite) : forall s, In s l -> P s :=
              match l with
              | [] => fun s f => match f with end
              | x :: r => fun s f => match f with
                                     | or_introl e => eq_rect x P (suite_ind2 x) s e
                                     | or_intror i => go r s i
                                     end
              end) subs)
    end.
End SuiteInd.

Lemma flatten_suites_In : forall l s, In s (flatten_suites l) <-> exists top, In top l /\ In s (flatten_suite top).
Proof. intros l s. unfold flatten_suites. apply in_flat_map. Qed.

Lemma flatten_suite_self : forall s, In s (flatten_suite s).
Proof. intros []. simpl. left. reflexivity. Qed.

(* ================================================================ check_fixtures_in_suites *)
Definition suite_uses_ok (reg : registry) (s : suite) : Prop :=
  for_each (check_suite_fixture reg) (suite_fixtures s) = Ok tt /\
  for_each (check_fixtures_in_test reg) (su_tests s) = Ok tt.

Lemma check_fixtures_in_suite_ok : forall reg s, check_fixtures_in_suite reg s = Ok tt <->
  forall s', In s' (flatten_suite s) -> suite_uses_ok reg s'.
Proof.
  intros reg. induction s as [n d h i ts subs IH] using suite_ind2.
  change (check_fixtures_in_suite reg (Suite n d h i ts subs)) with
    (bind (for_each (check_suite_fixture reg) (suite_fixtures (Suite n d h i ts subs))) (fun _ =>
     bind (for_each (check_fixtures_in_test reg) ts) (fun _ => for_each (check_fixtures_in_suite reg) subs))).
  split.
  - intros H s' Hs'.
    destruct (for_each (check_suite_fixture reg) _) as [[]|] eqn:H1; simpl in H; [|discriminate].
    destruct (for_each (check_fixtures_in_test reg) ts) as [[]|] eqn:H2; simpl in H; [|discriminate].
    simpl in Hs'. destruct Hs' as [Hs'|Hs'].
    + subst s'. split; assumption.
    + apply in_flat_map in Hs'. destruct Hs' as [sub [Hsub Hin]].
      apply (proj1 (IH sub Hsub)); [|exact Hin]. exact (proj1 (for_each_ok _ _) H sub Hsub).
  - intros H. destruct (H _ (flatten_suite_self _)) as [H1 H2]. rewrite H1. simpl. simpl in H2. rewrite H2. simpl.
    apply for_each_ok. intros sub Hsub. apply (IH sub Hsub). intros s' Hs'. apply H. simpl. right.
    apply in_flat_map. exists sub. auto.
Qed.

Lemma check_fixtures_in_suite_err : forall reg s e, check_fixtures_in_suite reg s = Err e ->
  exists s', In s' (flatten_suite s) /\
    (for_each (check_suite_fixture reg) (suite_fixtures s') = Err e \/ for_each (check_fixtures_in_test reg) (su_tests s') = Err e).
Proof.
  intros reg. induction s as [n d h i ts subs IH] using suite_ind2. intros e.
  change (check_fixtures_in_suite reg (Suite n d h i ts subs)) with
    (bind (for_each (check_suite_fixture reg) (suite_fixtures (Suite n d h i ts subs))) (fun _ =>
     bind (for_each (check_fixtures_in_test reg) ts) (fun _ => for_each (check_fixtures_in_suite reg) subs))).
  destruct (for_each (check_suite_fixture reg) _) as [[]|e1] eqn:H1; simpl.
  - destruct (for_each (check_fixtures_in_test reg) ts) as [[]|e2] eqn:H2; simpl.
    + intros H. destruct (for_each_err _ _ _ H) as [sub [Hsub He]]. destruct (IH sub Hsub e He) as [s' [Hs' Hor]].
      exists s'. split; [|exact Hor]. simpl. right. apply in_flat_map. exists sub. auto.
    + intros H. inversion H. subst. exists (Suite n d h i ts subs). split; [left; reflexivity | right; exact H2].
  - intros H. inversion H. subst. exists (Suite n d h i ts subs). split; [left; reflexivity | left; exact H1].
Qed.

(* wrong uses of fixtures by the scheduled suites and tests, by kind *)
Definition UseInvalid (look : lookup) (suites : list suite) (r : reason) : Prop :=
  match r with
  | RSuiteUnknownFx => exists s f, In s (flatten_suites suites) /\ In f (suite_fixtures s) /\ look f = None
  | RSuitePerThreadFx => exists s f fx, In s (flatten_suites suites) /\ In f (suite_fixtures s) /\ look f = Some fx /\
                                        fx_per_thread fx = true
  | RSuiteScopeFx => exists s f fx, In s (flatten_suites suites) /\ In f (suite_fixtures s) /\ look f = Some fx /\
                                    scope_level (fx_scope fx) < scope_level ScSuite
  | RTestUnknownFx => exists s t f, In s (flatten_suites suites) /\ In t (su_tests s) /\ In f (test_fixtures t) /\ look f = None
  | _ => False
  end.

Lemma check_suite_fixture_err : forall reg f e, check_suite_fixture reg f = Err e ->
  (e = ValidationError RSuiteUnknownFx /\ reg_find reg f = None) \/
  (exists fx, reg_find reg f = Some fx /\
     ((e = ValidationError RSuitePerThreadFx /\ fx_per_thread fx = true) \/
      (e = ValidationError RSuiteScopeFx /\ scope_level (fx_scope fx) < scope_level ScSuite))).
Proof.
  intros reg f e. unfold check_suite_fixture. destruct (reg_find reg f) as [fx|]; [|intros H; inversion H; auto].
  destruct (fx_per_thread fx) eqn:Hp; [intros H; inversion H; right; exists fx; auto|].
  destruct (Nat.ltb_spec (scope_level (fx_scope fx)) (scope_level ScSuite)); [|discriminate].
  intros H0. inversion H0. right. exists fx. auto.
Qed.

Lemma check_suite_fixture_ok : forall reg f, check_suite_fixture reg f = Ok tt ->
  exists fx, reg_find reg f = Some fx /\ fx_per_thread fx = false /\ scope_level ScSuite <= scope_level (fx_scope fx).
Proof.
  intros reg f. unfold check_suite_fixture. destruct (reg_find reg f) as [fx|]; [|discriminate].
  destruct (fx_per_thread fx) eqn:Hp; [discriminate|].
  destruct (Nat.ltb_spec (scope_level (fx_scope fx)) (scope_level ScSuite)); [discriminate|].
  intros _. exists fx. auto.
Qed.

Lemma check_fixtures_in_test_ok : forall reg t, check_fixtures_in_test reg t = Ok tt <->
  forall f, In f (test_fixtures t) -> reg_mem reg f = true.
Proof.
  intros reg t. unfold check_fixtures_in_test. rewrite for_each_ok. split; intros H f Hf; specialize (H f Hf).
  - destruct (reg_mem reg f); [reflexivity | discriminate].
  - rewrite H. reflexivity.
Qed.

Lemma check_fixtures_in_suites_sound : forall reg suites e, check_fixtures_in_suites reg suites = Err e ->
  exists r, e = ValidationError r /\ UseInvalid (reg_find reg) suites r.
Proof.
  intros reg suites e H. unfold check_fixtures_in_suites in H.
  destruct (for_each_err _ _ _ H) as [top [Htop He]].
  destruct (check_fixtures_in_suite_err _ _ _ He) as [s [Hs Hor]].
  assert (Hfl : In s (flatten_suites suites)) by (apply flatten_suites_In; exists top; auto).
  destruct Hor as [H1|H1].
  - destruct (for_each_err _ _ _ H1) as [f [Hf Hc]].
    destruct (check_suite_fixture_err _ _ _ Hc) as [[He1 Hn]|[fx [Hfx [[He1 Hp]|[He1 Hl]]]]]; subst e.
    + exists RSuiteUnknownFx. split; [reflexivity|]. exists s, f. auto.
    + exists RSuitePerThreadFx. split; [reflexivity|]. exists s, f, fx. auto.
    + exists RSuiteScopeFx. split; [reflexivity|]. exists s, f, fx. auto.
  - destruct (for_each_err _ _ _ H1) as [t [Ht Hc]]. unfold check_fixtures_in_test in Hc.
    destruct (for_each_err _ _ _ Hc) as [f [Hf Hm]]. unfold reg_mem in Hm.
    destruct (reg_find reg f) eqn:Hfind; [discriminate|]. inversion Hm. subst e.
    exists RTestUnknownFx. split; [reflexivity|]. exists s, t, f. auto.
Qed.

Lemma check_fixtures_in_suites_ok : forall reg suites, check_fixtures_in_suites reg suites = Ok tt <->
  forall s, In s (flatten_suites suites) -> suite_uses_ok reg s.
Proof.
  intros reg suites. unfold check_fixtures_in_suites. rewrite for_each_ok. split.
  - intros H s Hs. apply flatten_suites_In in Hs. destruct Hs as [top [Htop Hs]].
    exact (proj1 (check_fixtures_in_suite_ok reg top) (H top Htop) s Hs).
  - intros H top Htop. apply check_fixtures_in_suite_ok. intros s Hs. apply H. apply flatten_suites_In. exists top. auto.
Qed.

Lemma check_fixtures_in_suites_complete : forall reg suites, check_fixtures_in_suites reg suites = Ok tt ->
  forall r, ~ UseInvalid (reg_find reg) suites r.
Proof.
  intros reg suites H. pose proof (proj1 (check_fixtures_in_suites_ok reg suites) H) as Hok.
  intros r. destruct r; simpl; try (intros HF; exact HF).
  - intros [s [f [Hs [Hf Hn]]]]. destruct (Hok s Hs) as [H1 _].
    destruct (check_suite_fixture_ok _ _ (proj1 (for_each_ok _ _) H1 f Hf)) as [fx [Hfx _]]. congruence.
  - intros [s [f [fx [Hs [Hf [Hfx Hp]]]]]]. destruct (Hok s Hs) as [H1 _].
    destruct (check_suite_fixture_ok _ _ (proj1 (for_each_ok _ _) H1 f Hf)) as [fx' [Hfx' [Hp' _]]]. congruence.
  - intros [s [f [fx [Hs [Hf [Hfx Hl]]]]]]. destruct (Hok s Hs) as [H1 _].
    destruct (check_suite_fixture_ok _ _ (proj1 (for_each_ok _ _) H1 f Hf)) as [fx' [Hfx' [_ Hl']]].
    rewrite Hfx in Hfx'. inversion Hfx'. subst fx'. simpl in Hl'. lia.
  - intros [s [t [f [Hs [Ht [Hf Hn]]]]]]. destruct (Hok s Hs) as [_ H2].
    pose proof (proj1 (check_fixtures_in_test_ok reg t) (proj1 (for_each_ok _ _) H2 t Ht) f Hf) as Hm.
    apply reg_mem_true in Hm. destruct Hm as [fx Hfx]. congruence.
Qed.

(* ================================================================ build_registry *)
(* the fixture a name denotes: the last definition wins (specification of the registry contents) *)
Fixpoint last_named (l : list fixture) (n : name) : option fixture :=
  match l with
  | [] => None
  | fx :: r => match last_named r n with
               | Some f => Some f
               | None => if Nat.eqb n (fx_name fx) then Some fx else None
               end
  end.
Definition fixture_table (fixtures : list fixture) : lookup :=
  last_named ([builtin_fixture n_cli_args; builtin_fixture n_project_dir] ++ fixtures).

Lemma last_named_app_single : forall l fx m,
  last_named (l ++ [fx]) m = if Nat.eqb m (fx_name fx) then Some fx else last_named l m.
Proof.
  induction l as [|a l IH]; intros fx m; simpl.
  - destruct (Nat.eqb m (fx_name fx)); reflexivity.
  - rewrite IH. destruct (Nat.eqb m (fx_name fx)); reflexivity.
Qed.

Lemma reg_set_find : forall reg n fx m, reg_find (reg_set reg n fx) m = if Nat.eqb m n then Some fx else reg_find reg m.
Proof.
  induction reg as [|[k old] r IH]; intros n fx m; simpl.
  - destruct (Nat.eqb m n); reflexivity.
  - destruct (Nat.eqb n k) eqn:E; simpl.
    + apply Nat.eqb_eq in E. subst k. destruct (Nat.eqb m n); reflexivity.
    + rewrite IH. destruct (Nat.eqb m k) eqn:E2; [|reflexivity].
      apply Nat.eqb_eq in E2. subst k. apply Nat.eqb_neq in E.
      destruct (Nat.eqb m n) eqn:E3; [apply Nat.eqb_eq in E3; congruence | reflexivity].
Qed.

Lemma reg_set_names : forall reg n fx,
  reg_names (reg_set reg n fx) = if reg_mem reg n then reg_names reg else reg_names reg ++ [n].
Proof.
  unfold reg_mem. induction reg as [|[k old] r IH]; intros n fx; simpl; [reflexivity|].
  destruct (Nat.eqb n k) eqn:E; simpl; [reflexivity|]. rewrite IH. destruct (reg_find r n); reflexivity.
Qed.

Lemma reg_set_wf : forall reg n fx, reg_wf reg -> reg_wf (reg_set reg n fx).
Proof.
  intros reg n fx H. unfold reg_wf. rewrite reg_set_names. destruct (reg_mem reg n) eqn:E; [exact H|].
  apply NoDup_app_single; [exact H|]. intros Hn. apply reg_find_names in Hn. apply reg_mem_true in Hn. congruence.
Qed.

Definition is_builtin_name (n : name) : Prop := n = n_cli_args \/ n = n_project_dir.

(* the registry holds exactly the last definitions of l0, and its builtin entries are the two builtin names *)
Definition reg_repr (reg : registry) (l0 : list fixture) : Prop :=
  reg_wf reg /\ (forall m, reg_find reg m = last_named l0 m) /\
  (forall m f, reg_find reg m = Some f -> (fx_builtin f = true <-> is_builtin_name m)) /\
  (forall m, is_builtin_name m -> reg_find reg m <> None).

Lemma reg_add_all_spec : forall l reg l0, reg_repr reg l0 -> (forall fx, In fx l -> fx_builtin fx = false) ->
  ((exists fx, In fx l /\ is_builtin_name (fx_name fx)) /\ reg_add_all reg l = Err (ValidationError RFxBuiltinClash)) \/
  ((forall fx, In fx l -> ~ is_builtin_name (fx_name fx)) /\ exists reg', reg_add_all reg l = Ok reg' /\ reg_repr reg' (l0 ++ l)).
Proof.
  induction l as [|fx l IH]; intros reg l0 Hrepr Hnb.
  - right. split; [intros fx []|]. exists reg. rewrite app_nil_r. auto.
  - destruct Hrepr as [Hwf [Hfind [Hbi Hpres]]]. simpl. unfold reg_add.
    assert (Hfxnb : fx_builtin fx = false) by (apply Hnb; left; reflexivity).
    assert (Hnext : ~ is_builtin_name (fx_name fx) -> reg_repr (reg_set reg (fx_name fx) fx) (l0 ++ [fx])).
    { intros Hnot. split; [apply reg_set_wf; exact Hwf|]. split; [|split].
      - intros m. rewrite reg_set_find, last_named_app_single, Hfind. reflexivity.
      - intros m f. rewrite reg_set_find. destruct (Nat.eqb m (fx_name fx)) eqn:E.
        + intros H. inversion H. subst f. apply Nat.eqb_eq in E. subst m. rewrite Hfxnb.
          split; [discriminate | intros H1; exfalso; exact (Hnot H1)].
        + apply Hbi.
      - intros m Hm. rewrite reg_set_find. destruct (Nat.eqb m (fx_name fx)); [discriminate | exact (Hpres m Hm)]. }
    assert (Hcont : ~ is_builtin_name (fx_name fx) ->
      ((exists fx0, In fx0 (fx :: l) /\ is_builtin_name (fx_name fx0)) /\
         reg_add_all (reg_set reg (fx_name fx) fx) l = Err (ValidationError RFxBuiltinClash)) \/
      ((forall fx0, In fx0 (fx :: l) -> ~ is_builtin_name (fx_name fx0)) /\
         exists reg', reg_add_all (reg_set reg (fx_name fx) fx) l = Ok reg' /\ reg_repr reg' (l0 ++ fx :: l))).
    { intros Hnot. destruct (IH _ _ (Hnext Hnot) (fun f Hf => Hnb f (or_intror Hf))) as [[[f [Hf Hb]] He]|[Hall [reg' [Hok Hr]]]].
      - left. split; [exists f; split; [right; exact Hf | exact Hb] | exact He].
      - right. split; [intros f [Hf|Hf]; [subst; exact Hnot | exact (Hall f Hf)]|].
        exists reg'. split; [exact Hok|]. rewrite <- app_assoc in Hr. exact Hr. }
    destruct (reg_find reg (fx_name fx)) as [old|] eqn:Hold.
    + destruct (fx_builtin old) eqn:Hob.
      * left. split; [|reflexivity]. exists fx. split; [left; reflexivity|]. apply (Hbi _ _ Hold). exact Hob.
      * apply Hcont. intros Hb. apply (Hbi _ _ Hold) in Hb. congruence.
    + apply Hcont. intros Hb. exact (Hpres _ Hb Hold).
Qed.

Lemma initial_registry_repr : reg_repr initial_registry [builtin_fixture n_cli_args; builtin_fixture n_project_dir].
Proof.
  split; [|split; [|split]].
  - unfold reg_wf. simpl. constructor; [intros [H|[]]; discriminate|]. constructor; [intros []|constructor].
  - intros m. simpl. unfold n_cli_args, n_project_dir.
    destruct m as [|[|[|m]]]; reflexivity.
  - intros m f. simpl. unfold is_builtin_name, n_cli_args, n_project_dir.
    destruct m as [|[|[|m]]]; simpl; intros H; inversion H; simpl; split; auto; try discriminate;
      intros [H1|H1]; discriminate.
  - intros m [Hm|Hm]; subst; simpl; discriminate.
Qed.

(* user fixtures are Fixture objects, not BuiltinFixture *)
Definition user_fixtures (fixtures : list fixture) : Prop := forall fx, In fx fixtures -> fx_builtin fx = false.

Theorem build_registry_spec : forall fixtures, user_fixtures fixtures ->
  ((exists fx, In fx fixtures /\ is_builtin_name (fx_name fx)) /\ build_registry fixtures = Err (ValidationError RFxBuiltinClash)) \/
  ((forall fx, In fx fixtures -> ~ is_builtin_name (fx_name fx)) /\
   exists reg, build_registry fixtures = Ok reg /\ reg_wf reg /\ forall m, reg_find reg m = fixture_table fixtures m).
Proof.
  intros fixtures Hu. unfold build_registry.
  destruct (reg_add_all_spec fixtures _ _ initial_registry_repr Hu) as [H|[Hall [reg [Hok [Hwf [Hfind _]]]]]]; [left; exact H|].
  right. split; [exact Hall|]. exists reg. auto.
Qed.

(* ================================================================ a validated registry *)
Lemma last_named_name : forall l n fx, last_named l n = Some fx -> fx_name fx = n.
Proof.
  induction l as [|a l IH]; intros n fx; simpl; [discriminate|].
  destruct (last_named l n) as [f|] eqn:E.
  - intros H. inversion H. subst. exact (IH _ _ E).
  - destruct (Nat.eqb n (fx_name a)) eqn:E2; [|discriminate]. intros H. inversion H. subst. apply Nat.eqb_eq in E2. auto.
Qed.

(* what the runner may rely on after PreparedProject.create *)
Definition registry_ok (reg : registry) : Prop :=
  reg_wf reg /\ (forall n fx, reg_find reg n = Some fx -> fx_name fx = n) /\ check_dependencies reg = Ok tt.

Lemma registry_ok_deps : forall reg, registry_ok reg -> forall n fx, reg_find reg n = Some fx -> exists r, fixture_deps reg n = Ok r.
Proof.
  intros reg [_ [_ Hc]] n fx Hn. unfold check_dependencies in Hc.
  destruct (name_mem n_fixture_name (reg_names reg)); [discriminate|].
  destruct (for_each _ (reg_names reg)) as [[]|e1] eqn:H2; simpl in Hc; [|discriminate].
  assert (Hk0 : In n (reg_names reg)) by (apply reg_find_names; exists fx; exact Hn).
  pose proof (proj1 (for_each_ok _ _) H2 n Hk0) as Hk1. simpl in Hk1.
  destruct (fixture_deps reg n) as [r|]; [exists r; reflexivity | discriminate].
Qed.

Lemma registry_ok_edge : forall reg, registry_ok reg -> forall a fa b, reg_find reg a = Some fa -> In b (fparams fa) ->
  exists fb, reg_find reg b = Some fb /\ scope_level (fx_scope fa) <= scope_level (fx_scope fb).
Proof.
  intros reg Hok a fa b Ha Hb. destruct Hok as [Hwf [Hn Hc]].
  pose proof (check_dependencies_complete _ Hc) as Hcomp.
  destruct (reg_find reg b) as [fb|] eqn:Hfb.
  - exists fb. split; [reflexivity|]. destruct (Nat.le_gt_cases (scope_level (fx_scope fa)) (scope_level (fx_scope fb))) as [H|H]; [exact H|].
    exfalso. apply (Hcomp RFxScopeParam). simpl. exists a, fa, b, fb. auto.
  - exfalso. apply (Hcomp RFxUnknownParam). simpl. exists a, b. split; [exists fa; auto | exact Hfb].
Qed.

(* scopes never decrease along dependencies *)
Lemma registry_ok_reach_scope : forall reg, registry_ok reg -> forall a b, clos_refl_trans name (Edge (reg_find reg)) a b ->
  forall fa, reg_find reg a = Some fa -> exists fb, reg_find reg b = Some fb /\ scope_level (fx_scope fa) <= scope_level (fx_scope fb).
Proof.
  intros reg Hok a b H. induction H as [a b [fx [H1 H2]]|a|a b c _ IH1 _ IH2]; intros fa Ha.
  - rewrite H1 in Ha. inversion Ha. subst fx. exact (registry_ok_edge _ Hok _ _ _ H1 H2).
  - exists fa. split; [exact Ha | lia].
  - destruct (IH1 fa Ha) as [fb [Hb Hl1]]. destruct (IH2 fb Hb) as [fc [Hc Hl2]]. exists fc. split; [exact Hc | lia].
Qed.

(* ================================================================ scheduled_names *)
Section ScheduledNames.
  Variable reg : registry.
  Variable D : name -> Prop.            (* the direct fixtures *)

  Definition sched_inv (acc : list name) : Prop :=
    dep_closed (reg_find reg) acc /\ NoDup acc /\
    (forall x, In x acc -> exists f, D f /\ clos_refl_trans name (Edge (reg_find reg)) f x) /\
    (forall x, In x acc -> reg_mem reg x = true).

  Lemma scheduled_names_inv : forall direct acc L, scheduled_names reg direct acc = Ok L ->
    sched_inv acc -> (forall f, In f direct -> D f) ->
    sched_inv L /\ (forall x, In x acc -> In x L) /\ (forall f, In f direct -> In f L).
  Proof.
    induction direct as [|f direct IH]; intros acc L; simpl.
    - intros H. inversion H. subst. intros Hacc _. split; [exact Hacc|]. split; [auto | intros f []].
    - destruct (fixture_deps reg f) as [d|e] eqn:Hd; [|discriminate]. intros HL [Ha1 [Ha2 [Ha3 Ha4]]] HD.
      unfold fixture_deps in Hd. destruct (gfd_ok_result _ _ _ _ _ Hd) as [Hd1 [Hd2 [Hd3 [Hd4 Hd5]]]].
      assert (Hf : D f) by (apply HD; left; reflexivity).
      assert (Hfm : reg_mem reg f = true).
      { destruct (S (length reg)) eqn:E; [discriminate|]. destruct (gfd_ok_inv _ _ _ _ _ Hd) as [fx [_ [Hfx _]]].
        apply reg_mem_true. exists fx. exact Hfx. }
      assert (Hinv' : sched_inv (oset_add f (oset_update acc d))).
      { repeat split.
        - apply oset_add_closed.
          + apply oset_update_closed; [exact Ha1|]. intros l1 x l2 Heq y Hxy. left. exact (Hd1 _ _ _ Heq y Hxy).
          + intros y Hy. apply oset_update_In. right. exact (Hd3 y Hy).
        - apply oset_add_NoDup. apply oset_update_NoDup. exact Ha2.
        - intros x Hx. apply oset_add_In in Hx. destruct Hx as [Hx|Hx].
          + apply oset_update_In in Hx. destruct Hx as [Hx|Hx]; [exact (Ha3 x Hx)|].
            exists f. split; [exact Hf | apply clos_t_in_rt; exact (Hd4 x Hx)].
          + subst x. exists f. split; [exact Hf | apply rt_refl].
        - intros x Hx. apply oset_add_In in Hx. destruct Hx as [Hx|Hx]; [|subst x; exact Hfm].
          apply oset_update_In in Hx. destruct Hx as [Hx|Hx]; [exact (Ha4 x Hx) | exact (Hd5 x Hx)]. }
      destruct (IH _ _ HL Hinv' (fun g Hg => HD g (or_intror Hg))) as [HL1 [HL2 HL3]].
      split; [exact HL1|]. split.
      + intros x Hx. apply HL2. apply oset_add_In. left. apply oset_update_In. left. exact Hx.
      + intros g [Hg|Hg]; [subst g; apply HL2; apply oset_add_In; right; reflexivity | exact (HL3 g Hg)].
  Qed.

  Lemma scheduled_names_total : forall direct acc, (forall f, In f direct -> exists d, fixture_deps reg f = Ok d) ->
    exists L, scheduled_names reg direct acc = Ok L.
  Proof.
    induction direct as [|f direct IH]; intros acc H; simpl; [exists acc; reflexivity|].
    destruct (H f (or_introl eq_refl)) as [d Hd]. rewrite Hd. apply IH. intros g Hg. apply H. right. exact Hg.
  Qed.
End ScheduledNames.

Lemma sched_inv_nil : forall reg D, sched_inv reg D [].
Proof. intros reg D. repeat split; [apply dep_closed_nil | constructor | intros x [] | intros x []]. Qed.

(* closure: everything reachable from a direct fixture is in the list *)
Lemma sched_closure : forall reg D L, sched_inv reg D L -> forall f y, In f L -> clos_refl_trans name (Edge (reg_find reg)) f y -> In y L.
Proof.
  intros reg D L [H1 _] f y Hf Hfy. induction Hfy as [a b Hab|a|a b c _ IH1 _ IH2]; auto.
  exact (dep_closed_step _ _ _ _ H1 Hf Hab).
Qed.

(* ================================================================ select_scope *)
Definition in_scope (reg : registry) (sc : scope) (n : name) : bool :=
  match reg_find reg n with Some fx => scope_eqb (fx_scope fx) sc | None => false end.

Lemma select_scope_spec : forall reg sc names, (forall n, In n names -> reg_mem reg n = true) ->
  (forall n fx, reg_find reg n = Some fx -> fx_name fx = n) ->
  exists fxs, select_scope reg sc names = Ok fxs /\ map fx_name fxs = filter (in_scope reg sc) names /\
              forall fx, In fx fxs -> reg_find reg (fx_name fx) = Some fx /\ fx_scope fx = sc.
Proof.
  intros reg sc names. induction names as [|n names IH]; intros Hm Hn; simpl.
  - exists []. split; [reflexivity|]. split; [reflexivity|]. intros fx [].
  - assert (Hmn : reg_mem reg n = true) by (apply Hm; left; reflexivity).
    apply reg_mem_true in Hmn. destruct Hmn as [fx Hfx]. rewrite Hfx.
    destruct (IH (fun m Hm' => Hm m (or_intror Hm')) Hn) as [fxs [H1 [H2 H3]]]. rewrite H1.
    unfold in_scope at 1. rewrite Hfx. destruct (scope_eqb (fx_scope fx) sc) eqn:E.
    + exists (fx :: fxs). split; [reflexivity|]. split; [simpl; rewrite H2, (Hn _ _ Hfx); reflexivity|].
      intros f0 [Hf|Hf]; [subst f0; rewrite (Hn _ _ Hfx); split; [exact Hfx | apply scope_eqb_eq; exact E] | exact (H3 f0 Hf)].
    + exists fxs. auto.
Qed.

Lemma filter_split : forall {A} (g : A -> bool) l a x b, filter g l = a ++ x :: b ->
  exists l1 l2, l = l1 ++ x :: l2 /\ filter g l1 = a /\ filter g l2 = b /\ g x = true.
Proof.
  intros A g. induction l as [|h l IH]; intros a x b; simpl.
  - intros H. destruct a; discriminate.
  - destruct (g h) eqn:E.
    + destruct a as [|a0 a]; simpl; intros H; injection H as H1 H2.
      * subst h. exists [], l. simpl. auto.
      * subst a0. destruct (IH _ _ _ H2) as [l1 [l2 [H3 [H4 [H5 H6]]]]]. exists (h :: l1), l2. simpl. rewrite E, H4. rewrite H3. auto.
    + intros H. destruct (IH _ _ _ H) as [l1 [l2 [H3 [H4 [H5 H6]]]]]. exists (h :: l1), l2. simpl. rewrite E. rewrite H3. auto.
Qed.

Lemma map_split : forall {A B} (f : A -> B) l a x b, map f l = a ++ x :: b ->
  exists l1 y l2, l = l1 ++ y :: l2 /\ map f l1 = a /\ f y = x /\ map f l2 = b.
Proof.
  intros A B f. induction l as [|h l IH]; intros a x b; simpl.
  - intros H. destruct a; discriminate.
  - destruct a as [|a0 a]; simpl; intros H; injection H as H1 H2.
    + exists [], h, l. auto.
    + destruct (IH _ _ _ H2) as [l1 [y [l2 [H3 [H4 [H5 H6]]]]]]. exists (h :: l1), y, l2. simpl. rewrite H3, H4, H1. auto.
Qed.

(* ================================================================ ScheduledFixtures: lookups and setups *)
Definition full_level (l : level name) : Prop := forall m, In m (sf_names l) -> results_find (snd l) m <> None.
Definition full (c : chain name) : Prop := forall l, In l c -> full_level l.
Definition chain_has (c : chain name) (y : name) : Prop := exists l, In l c /\ In y (sf_names l).

Lemma get_fixture_result_full : forall (c : chain name) y, full c -> chain_has c y -> exists v, get_fixture_result c y = Ok v.
Proof.
  induction c as [|l ps IH]; intros y Hfull [l0 [Hl0 Hy]]; [destruct Hl0|]. simpl.
  unfold sf_has_fixture. destruct (name_mem y (sf_names l)) eqn:E.
  - apply name_mem_In in E. pose proof (Hfull l (or_introl eq_refl) y E) as Hr.
    destruct (results_find (snd l) y) as [v|]; [exists v; reflexivity | congruence].
  - apply name_mem_false in E. apply IH.
    + intros l' Hl'. apply Hfull. right. exact Hl'.
    + destruct Hl0 as [Hl0|Hl0]; [subst l0; contradiction | exists l0; auto].
Qed.

Lemma get_fixture_results_ok : forall (c : chain name) names, (forall y, In y names -> exists v, get_fixture_result c y = Ok v) ->
  exists l, get_fixture_results c names = Ok l.
Proof.
  intros c names. induction names as [|n names IH]; intros H; simpl; [exists []; reflexivity|].
  destruct (H n (or_introl eq_refl)) as [v Hv]. rewrite Hv.
  destruct (IH (fun y Hy => H y (or_intror Hy))) as [l Hl]. rewrite Hl. exists ((n, v) :: l). reflexivity.
Qed.

Lemma params_loop_ok : forall (c : chain name) n params,
  (forall p, In p params -> p <> n_fixture_name -> exists v, get_fixture_result c p = Ok v) ->
  exists l, params_loop name c n params = Ok l.
Proof.
  intros c n params. induction params as [|p params IH]; intros H; simpl; [exists []; reflexivity|].
  destruct (IH (fun q Hq => H q (or_intror Hq))) as [l Hl]. rewrite Hl.
  destruct (Nat.eqb p n_fixture_name) eqn:E.
  - exists ((p, PName n) :: l). reflexivity.
  - apply Nat.eqb_neq in E. destruct (H p (or_introl eq_refl) E) as [v Hv]. rewrite Hv. exists ((p, PVal v) :: l). reflexivity.
Qed.

Lemma find_fixture_of_In : forall fxs fx, NoDup (map fx_name fxs) -> In fx fxs -> find_fixture fxs (fx_name fx) = Some fx.
Proof.
  induction fxs as [|a fxs IH]; intros fx Hnd; simpl; [intros []|].
  inversion Hnd as [|? ? Hnot Hnd']. subst. intros [H|H].
  - subst a. rewrite Nat.eqb_refl. reflexivity.
  - destruct (Nat.eqb (fx_name fx) (fx_name a)) eqn:E.
    + apply Nat.eqb_eq in E. exfalso. apply Hnot. rewrite <- E. apply in_map. exact H.
    + apply IH; assumption.
Qed.

Lemma results_remove_find : forall (rs : list (name * name)) n m, m <> n -> results_find (results_remove name rs n) m = results_find rs m.
Proof.
  induction rs as [|[k v] rs IH]; intros n m Hmn; simpl; [reflexivity|].
  destruct (Nat.eqb n k) eqn:E; simpl.
  - apply Nat.eqb_eq in E. subst k. destruct (Nat.eqb m n) eqn:E2; [apply Nat.eqb_eq in E2; congruence | apply IH; exact Hmn].
  - destruct (Nat.eqb m k); [reflexivity | apply IH; exact Hmn].
Qed.

Definition setup_step (acc : result (chain name)) (n : name) : result (chain name) :=
  bind acc (fun c' => bind (setup_fixture_begin c' n) (fun _ => Ok (setup_fixture_end c' n n))).

Lemma setup_all_unfold : forall l ps, setup_all (l :: ps) = fold_left setup_step (sf_names l) (Ok (l :: ps)).
Proof. reflexivity. Qed.

(* the parameters of every fixture of the level are set up earlier in the level, or live (with a result) in the parents *)
Definition params_resolvable (fxs : list fixture) (parents : chain name) : Prop :=
  forall d1 fx t1, fxs = d1 ++ fx :: t1 -> forall y, In y (fparams fx) ->
    In y (map fx_name d1) \/ (~ In y (map fx_name fxs) /\ exists v, get_fixture_result parents y = Ok v).

Lemma setup_loop_ok : forall todo done fxs rs parents,
  map fx_name fxs = done ++ todo -> NoDup (done ++ todo) ->
  (forall m, results_find rs m <> None <-> In m done) ->
  params_resolvable fxs parents ->
  exists rs', fold_left setup_step todo (Ok ((fxs, rs) :: parents)) = Ok ((fxs, rs') :: parents) /\
              forall m, results_find rs' m <> None <-> In m (done ++ todo).
Proof.
  induction todo as [|n todo IH]; intros done fxs rs parents Hnames Hnd Hrs Hpr.
  - exists rs. split; [reflexivity|]. rewrite app_nil_r. exact Hrs.
  - destruct (map_split _ _ _ _ _ Hnames) as [d1 [fx [t1 [Hfxs [Hd1 [Hfn Ht1]]]]]].
    assert (Hndn : NoDup (map fx_name fxs)) by (rewrite Hnames; exact Hnd).
    assert (Hfind : find_fixture fxs n = Some fx).
    { rewrite <- Hfn. apply find_fixture_of_In; [exact Hndn|]. rewrite Hfxs. apply in_or_app. right. left. reflexivity. }
    assert (Hn_not_done : ~ In n done).
    { intros Hin. apply NoDup_remove_2 in Hnd. apply Hnd. apply in_or_app. left. exact Hin. }
    assert (Hrsn : results_find rs n = None).
    { destruct (results_find rs n) eqn:E; [|reflexivity]. exfalso. apply Hn_not_done. apply Hrs. congruence. }
    assert (Hparams : exists ps, params_loop name ((fxs, rs) :: parents) n (fx_params fx) = Ok ps).
    { apply params_loop_ok. intros p Hp Hne.
      assert (Hfp : In p (fparams fx)).
      { unfold fparams. apply filter_In. split; [exact Hp|]. apply negb_true_iff. apply Nat.eqb_neq. exact Hne. }
      simpl. unfold sf_has_fixture, sf_names. simpl.
      destruct (Hpr _ _ _ Hfxs p Hfp) as [Hin|[Hnot [v Hv]]].
      - rewrite Hd1 in Hin. assert (Hpn : In p (map fx_name fxs)) by (rewrite Hnames; apply in_or_app; left; exact Hin).
        apply name_mem_In in Hpn. rewrite Hpn. apply Hrs in Hin. destruct (results_find rs p) as [v|]; [exists v; reflexivity | congruence].
      - apply name_mem_false in Hnot. rewrite Hnot. exists v. exact Hv. }
    destruct Hparams as [ps Hps].
    cbn [fold_left]. unfold setup_step at 2. cbn [bind]. unfold setup_fixture_begin. cbn [snd fst].
    rewrite Hrsn, Hfind. unfold get_fixture_params. cbn [fst]. rewrite Hfind, Hps. cbn [bind]. unfold setup_fixture_end. cbn [fst snd].
    destruct (IH (done ++ [n]) fxs ((n, n) :: results_remove name rs n) parents) as [rs' [Hfold Hrs']].
    + rewrite <- app_assoc. exact Hnames.
    + rewrite <- app_assoc. exact Hnd.
    + intros m. simpl. destruct (Nat.eqb m n) eqn:E.
      * apply Nat.eqb_eq in E. subst m. split; [intros _; apply in_or_app; right; left; reflexivity | discriminate].
      * apply Nat.eqb_neq in E. rewrite (results_remove_find _ _ _ E), Hrs, in_app_iff. simpl. split; [auto | intros [H|[H|[]]]; [exact H | congruence]].
    + exact Hpr.
    + exists rs'. split; [exact Hfold|]. intros m. rewrite Hrs'. rewrite <- app_assoc. reflexivity.
Qed.

Theorem setup_all_ok : forall fxs parents, NoDup (map fx_name fxs) -> params_resolvable fxs parents ->
  exists rs, setup_all (new_level fxs :: parents) = Ok ((fxs, rs) :: parents) /\ full_level (fxs, rs).
Proof.
  intros fxs parents Hnd Hpr. rewrite setup_all_unfold. unfold new_level, sf_names. cbn [fst].
  destruct (setup_loop_ok (map fx_name fxs) [] fxs [] parents eq_refl Hnd) as [rs [H1 H2]].
  - intros m. simpl. split; [congruence | intros []].
  - exact Hpr.
  - exists rs. split; [exact H1|]. intros m Hm. apply H2. exact Hm.
Qed.

Lemma bind_ok : forall {A B} (r : result A) (f : A -> result B) a, r = Ok a -> bind r f = f a.
Proof. intros A B r f a H. rewrite H. reflexivity. Qed.

Definition teardown_step (acc : result (chain name)) (n : name) : result (chain name) :=
  bind acc (fun c' => bind (teardown_fixture c' n) (fun vc => Ok (snd vc))).

Lemma teardown_loop_ok : forall todo fxs rs parents, NoDup todo -> (forall m, In m todo -> results_find rs m <> None) ->
  exists rs', fold_left teardown_step todo (Ok ((fxs, rs) :: parents)) = Ok ((fxs, rs') :: parents).
Proof.
  induction todo as [|n todo IH]; intros fxs rs parents Hnd Hrs; [exists rs; reflexivity|].
  inversion Hnd as [|? ? Hnot Hnd']. subst.
  cbn [fold_left]. unfold teardown_step at 2. cbn [bind]. unfold teardown_fixture. cbn [snd fst].
  destruct (results_find rs n) as [v|] eqn:E; [|exfalso; exact (Hrs n (or_introl eq_refl) E)].
  cbn [bind snd]. apply IH; [exact Hnd'|]. intros m Hm.
  assert (Hmn : m <> n) by (intros Heq; subst m; exact (Hnot Hm)).
  rewrite (results_remove_find _ _ _ Hmn). apply Hrs. right. exact Hm.
Qed.

(* no "has not been previously executed" assertion when a completely set up level is torn down in reverse order *)
Theorem teardown_all_ok : forall fxs rs parents, NoDup (map fx_name fxs) -> full_level (fxs, rs) ->
  exists c', teardown_all ((fxs, rs) :: parents) = Ok c'.
Proof.
  intros fxs rs parents Hnd Hfull.
  change (teardown_all ((fxs, rs) :: parents)) with (fold_left teardown_step (rev (sf_names (fxs, rs))) (Ok ((fxs, rs) :: parents))).
  destruct (teardown_loop_ok (rev (sf_names (fxs, rs))) fxs rs parents) as [rs' H].
  - apply NoDup_rev. exact Hnd.
  - intros m Hm. apply Hfull. apply in_rev. exact Hm.
  - exists ((fxs, rs') :: parents). exact H.
Qed.

(* ================================================================ one level of the schedule *)
Definition reach (reg : registry) (direct : list name) (y : name) : Prop :=
  exists f, In f direct /\ clos_refl_trans name (Edge (reg_find reg)) f y.
Definition scope_of (reg : registry) (y : name) (sc : scope) : Prop := exists fy, reg_find reg y = Some fy /\ fx_scope fy = sc.

Lemma scope_level_inj : forall a b, scope_level a = scope_level b -> a = b.
Proof. intros [] []; simpl; intros; try reflexivity; discriminate. Qed.

Lemma in_scope_true : forall reg sc y, in_scope reg sc y = true <-> scope_of reg y sc.
Proof.
  intros reg sc y. unfold in_scope, scope_of. destruct (reg_find reg y) as [fy|].
  - rewrite scope_eqb_eq. split; [intros H; exists fy; auto | intros [f [H1 H2]]; inversion H1; subst; reflexivity].
  - split; [discriminate | intros [f [H1 _]]; discriminate].
Qed.

(* what get_scheduled_fixtures_for_scope returns on a validated registry *)
Definition level_facts (reg : registry) (direct : list name) (sc : scope) (fxs : list fixture) : Prop :=
  NoDup (map fx_name fxs) /\
  (forall y, In y (map fx_name fxs) <-> reach reg direct y /\ scope_of reg y sc) /\
  (forall d1 fx t1, fxs = d1 ++ fx :: t1 -> reg_find reg (fx_name fx) = Some fx /\ fx_scope fx = sc /\
     forall y, In y (fparams fx) -> scope_of reg y sc -> In y (map fx_name d1)).

Theorem level_spec : forall reg direct sc, registry_ok reg -> (forall f, In f direct -> reg_mem reg f = true) ->
  exists fxs, get_scheduled_fixtures_for_scope reg direct sc = Ok fxs /\ level_facts reg direct sc fxs.
Proof.
  intros reg direct sc Hok Hdirect. unfold get_scheduled_fixtures_for_scope.
  destruct (scheduled_names_total reg direct []) as [L HL].
  { intros f Hf. apply Hdirect in Hf. apply reg_mem_true in Hf. destruct Hf as [fx Hfx]. exact (registry_ok_deps _ Hok _ _ Hfx). }
  rewrite HL. simpl.
  destruct (scheduled_names_inv reg (fun f => In f direct) direct [] L HL (sched_inv_nil _ _) (fun f Hf => Hf)) as [Hinv [_ HdL]].
  pose proof Hinv as [HL1 [HL2 [HL3 HL4]]].
  destruct Hok as [Hwf [Hname Hcheck]].
  destruct (select_scope_spec reg sc L HL4 Hname) as [fxs [Hsel [Hnames Hfx]]].
  exists fxs. split; [exact Hsel|]. split; [|split].
  - rewrite Hnames. apply NoDup_filter. exact HL2.
  - intros y. rewrite Hnames, filter_In, in_scope_true. split.
    + intros [HyL Hsc]. split; [exact (HL3 y HyL) | exact Hsc].
    + intros [[f [Hf Hfy]] Hsc]. split; [exact (sched_closure _ _ _ Hinv f y (HdL f Hf) Hfy) | exact Hsc].
  - intros d1 fx t1 Hsplit.
    assert (Hin : In fx fxs) by (rewrite Hsplit; apply in_or_app; right; left; reflexivity).
    destruct (Hfx fx Hin) as [Hfind Hscope]. split; [exact Hfind|]. split; [exact Hscope|].
    intros y Hy Hsc.
    assert (Hmap : map fx_name fxs = map fx_name d1 ++ fx_name fx :: map fx_name t1) by (rewrite Hsplit, map_app; reflexivity).
    rewrite Hnames in Hmap. destruct (filter_split _ _ _ _ _ Hmap) as [l1 [l2 [HLs [Hf1 _]]]].
    rewrite <- Hf1. apply filter_In. split; [|apply in_scope_true; exact Hsc].
    apply (HL1 _ _ _ HLs y). exists fx. auto.
Qed.

(* the parents hold (with a result) everything reachable from the direct fixtures that has a wider scope *)
Definition covers (reg : registry) (direct : list name) (sc : scope) (parents : chain name) : Prop :=
  forall y fy, reach reg direct y -> reg_find reg y = Some fy -> scope_level sc < scope_level (fx_scope fy) -> chain_has parents y.

Theorem level_setup_ok : forall reg direct sc fxs parents, registry_ok reg -> level_facts reg direct sc fxs ->
  full parents -> covers reg direct sc parents ->
  exists rs, setup_all (new_level fxs :: parents) = Ok ((fxs, rs) :: parents) /\ full ((fxs, rs) :: parents).
Proof.
  intros reg direct sc fxs parents Hok [Hnd [Hnames Horder]] Hfull Hcov.
  destruct (setup_all_ok fxs parents Hnd) as [rs [H1 H2]].
  - intros d1 fx t1 Hsplit y Hy. destruct (Horder _ _ _ Hsplit) as [Hfind [Hscope Hearlier]].
    destruct (registry_ok_edge _ Hok _ _ _ Hfind Hy) as [fy [Hfy Hle]].
    destruct (Nat.eq_dec (scope_level (fx_scope fy)) (scope_level sc)) as [Heq|Hne].
    + left. apply Hearlier; [exact Hy|]. exists fy. split; [exact Hfy | apply scope_level_inj; exact Heq].
    + right. split.
      * intros Hin. apply Hnames in Hin. destruct Hin as [_ [fy' [Hfy' Hs']]]. rewrite Hfy in Hfy'. inversion Hfy'. subst fy'.
        apply Hne. rewrite Hs'. reflexivity.
      * apply get_fixture_result_full; [exact Hfull|]. apply (Hcov y fy); [|exact Hfy | rewrite Hscope in Hle; lia].
        assert (Hin : In (fx_name fx) (map fx_name fxs)) by (rewrite Hsplit, map_app; apply in_or_app; right; left; reflexivity).
        apply Hnames in Hin. destruct Hin as [[f [Hf Hreach]] _]. exists f. split; [exact Hf|].
        apply rt_trans with (y := fx_name fx); [exact Hreach | apply rt_step; exists fx; auto].
  - exists rs. split; [exact H1|]. intros l [Hl|Hl]; [subst l; exact H2 | exact (Hfull l Hl)].
Qed.

(* a lookup made by user-facing code: the fixture is a direct one of the level, of this scope or wider *)
Lemma level_lookup_ok : forall reg direct sc fxs rs parents f ff, level_facts reg direct sc fxs ->
  full ((fxs, rs) :: parents) -> covers reg direct sc parents ->
  In f direct -> reg_find reg f = Some ff -> scope_level sc <= scope_level (fx_scope ff) ->
  exists v, get_fixture_result ((fxs, rs) :: parents) f = Ok v.
Proof.
  intros reg direct sc fxs rs parents f ff [_ [Hnames _]] Hfull Hcov Hf Hff Hle.
  apply get_fixture_result_full; [exact Hfull|].
  assert (Hreach : reach reg direct f) by (exists f; split; [exact Hf | apply rt_refl]).
  destruct (Nat.eq_dec (scope_level (fx_scope ff)) (scope_level sc)) as [Heq|Hne].
  - exists (fxs, rs). split; [left; reflexivity|]. unfold sf_names. simpl. apply Hnames. split; [exact Hreach|].
    exists ff. split; [exact Hff | apply scope_level_inj; exact Heq].
  - destruct (Hcov f ff Hreach Hff) as [l [Hl Hy]]; [lia|]. exists l. split; [right; exact Hl | exact Hy].
Qed.

(* ================================================================ fixtures used by suites *)
Lemma fold_oset_In : forall {A} (g : A -> list name) l a y,
  In y (fold_left (fun acc x => oset_update acc (g x)) l a) <-> In y a \/ exists x, In x l /\ In y (g x).
Proof.
  intros A g. induction l as [|x l IH]; intros a y; simpl.
  - split; [auto | intros [H|[x [[] _]]]; exact H].
  - rewrite IH, oset_update_In. split.
    + intros [[H|H]|[z [Hz Hy]]]; [left; exact H | right; exists x; auto | right; exists z; auto].
    + intros [H|[z [[Hz|Hz] Hy]]]; [left; left; exact H | subst z; left; right; exact Hy | right; exists z; auto].
Qed.

Lemma used_tests_fold_In : forall (c : test -> bool) ts a y,
  In y (fold_left (fun acc t => if c t then oset_update acc (test_fixtures t) else acc) ts a) <->
  In y a \/ exists t, In t ts /\ c t = true /\ In y (test_fixtures t).
Proof.
  intros c. induction ts as [|t ts IH]; intros a y; simpl.
  - split; [auto | intros [H|[t [[] _]]]; exact H].
  - rewrite IH. destruct (c t) eqn:E.
    + rewrite oset_update_In. split.
      * intros [[H|H]|[z [Hz Hy]]]; [left; exact H | right; exists t; auto | right; exists z; tauto].
      * intros [H|[z [[Hz|Hz] [Hc Hy]]]]; [left; left; exact H | subst z; left; right; exact Hy | right; exists z; auto].
    + split.
      * intros [H|[z [Hz Hy]]]; [left; exact H | right; exists z; tauto].
      * intros [H|[z [[Hz|Hz] [Hc Hy]]]]; [left; exact H | subst z; congruence | right; exists z; auto].
Qed.

Lemma used_in_suite_In : forall inh s incl y, In y (get_fixtures_used_in_suite inh s incl) <->
  (has_enabled_tests inh s || (incl && has_tests s) = true) /\
  (In y (suite_fixtures s) \/ exists t, In t (su_tests s) /\ (test_enabled (inh || su_disabled s) t || incl = true) /\ In y (test_fixtures t)).
Proof.
  intros inh s incl y. unfold get_fixtures_used_in_suite.
  destruct (has_enabled_tests inh s) eqn:E1; destruct (incl && has_tests s) eqn:E2; simpl;
    try (rewrite used_tests_fold_In; split; [intros H; split; [reflexivity | exact H] | intros [_ H]; exact H]).
  split; [intros [] | intros [H _]; discriminate].
Qed.

Lemma used_rec_unfold : forall inh n d h i ts subs incl,
  get_fixtures_used_in_suite_recursively inh (Suite n d h i ts subs) incl =
  fold_left (fun acc sub => oset_update acc (get_fixtures_used_in_suite_recursively (inh || d) sub incl)) subs
            (get_fixtures_used_in_suite inh (Suite n d h i ts subs) incl).
Proof. reflexivity. Qed.

Lemma used_rec_self : forall inh s incl y, In y (get_fixtures_used_in_suite inh s incl) -> In y (get_fixtures_used_in_suite_recursively inh s incl).
Proof. intros inh [n d h i ts subs] incl y H. rewrite used_rec_unfold. apply fold_oset_In. left. exact H. Qed.

Lemma used_rec_sub : forall inh s incl sub y, In sub (su_subs s) ->
  In y (get_fixtures_used_in_suite_recursively (inh || su_disabled s) sub incl) -> In y (get_fixtures_used_in_suite_recursively inh s incl).
Proof. intros inh [n d h i ts subs] incl sub y Hsub H. rewrite used_rec_unfold. apply fold_oset_In. right. exists sub. auto. Qed.

Lemma used_rec_upper : forall s inh incl y, In y (get_fixtures_used_in_suite_recursively inh s incl) ->
  exists s', In s' (flatten_suite s) /\ (In y (suite_fixtures s') \/ exists t, In t (su_tests s') /\ In y (test_fixtures t)).
Proof.
  induction s as [n d h i ts subs IH] using suite_ind2. intros inh incl y. rewrite used_rec_unfold. rewrite fold_oset_In.
  intros [H|[sub [Hsub H]]].
  - apply used_in_suite_In in H. destruct H as [_ [H|[t [Ht [_ Hy]]]]].
    + exists (Suite n d h i ts subs). split; [left; reflexivity | left; exact H].
    + exists (Suite n d h i ts subs). split; [left; reflexivity | right; exists t; auto].
  - destruct (IH sub Hsub _ _ _ H) as [s' [Hs' Hor]]. exists s'. split; [|exact Hor]. simpl. right. apply in_flat_map. exists sub. auto.
Qed.

Lemma used_suites_In : forall suites incl y, In y (fixtures_used_in_suites suites incl) <->
  exists s, In s suites /\ In y (get_fixtures_used_in_suite_recursively false s incl).
Proof.
  intros suites incl y. unfold fixtures_used_in_suites. rewrite fold_oset_In. split; [intros [[]|H]; exact H | intros H; right; exact H].
Qed.

(* every fixture used by scheduled suites and tests is registered once check_fixtures_in_suites passed *)
Lemma suite_uses_registered : forall reg s, suite_uses_ok reg s ->
  (forall f, In f (suite_fixtures s) -> exists fx, reg_find reg f = Some fx /\ scope_level ScSuite <= scope_level (fx_scope fx)) /\
  (forall t f, In t (su_tests s) -> In f (test_fixtures t) -> reg_mem reg f = true).
Proof.
  intros reg s [H1 H2]. split.
  - intros f Hf. destruct (check_suite_fixture_ok _ _ (proj1 (for_each_ok _ _) H1 f Hf)) as [fx [Hfx [_ Hl]]]. exists fx. auto.
  - intros t f Ht Hf. exact (proj1 (check_fixtures_in_test_ok reg t) (proj1 (for_each_ok _ _) H2 t Ht) f Hf).
Qed.

Lemma reach_incl : forall reg d1 d2 y, (forall f, In f d1 -> In f d2) -> reach reg d1 y -> reach reg d2 y.
Proof. intros reg d1 d2 y H [f [Hf Hr]]. exists f. auto. Qed.

(* ================================================================ the dry run never fails on a validated project *)
Section DryRun.
  Variable reg : registry.
  Variable fd : bool.                      (* force_disabled = include_disabled *)
  Variable D0 : list name.                 (* the direct fixtures of the pre_run and session schedules *)
  Variables pre ses : list fixture.
  Variables rs_pre rs_ses : list (name * name).
  Hypothesis Hok : registry_ok reg.
  Hypothesis Hpre : level_facts reg D0 ScPreRun pre.
  Hypothesis Hses : level_facts reg D0 ScSession ses.
  Hypothesis Hfull1 : full [(ses, rs_ses); (pre, rs_pre)].

  Let c1 : chain name := [(ses, rs_ses); (pre, rs_pre)].

  Lemma scope_cases : forall sc, sc = ScTest \/ sc = ScSuite \/ sc = ScSession \/ sc = ScPreRun.
  Proof. intros []; auto. Qed.

  Lemma covers_c1 : forall direct, (forall f, In f direct -> In f D0) -> covers reg direct ScSuite c1.
  Proof.
    intros direct Hsub y fy Hreach Hfy Hlt. apply (reach_incl _ _ _ _ Hsub) in Hreach.
    destruct (scope_cases (fx_scope fy)) as [Hs|[Hs|[Hs|Hs]]]; rewrite Hs in Hlt; simpl in Hlt; try lia.
    - exists (ses, rs_ses). split; [left; reflexivity|]. unfold sf_names. simpl. destruct Hses as [_ [Hn _]]. apply Hn.
      split; [exact Hreach | exists fy; auto].
    - exists (pre, rs_pre). split; [right; left; reflexivity|]. unfold sf_names. simpl. destruct Hpre as [_ [Hn _]]. apply Hn.
      split; [exact Hreach | exists fy; auto].
  Qed.

  Lemma dry_run_test_ok : forall direct_s fxs_s rs_s t,
    level_facts reg direct_s ScSuite fxs_s -> full ((fxs_s, rs_s) :: c1) ->
    (forall f, In f direct_s -> In f D0) ->
    (forall f, In f (test_fixtures t) -> In f direct_s) ->
    (forall f, In f (test_fixtures t) -> reg_mem reg f = true) ->
    dry_run_test reg ((fxs_s, rs_s) :: c1) t = Ok tt.
  Proof.
    intros direct_s fxs_s rs_s t Hs Hfull HsD Htd Htreg. unfold dry_run_test, get_fixtures_scheduled_for_test.
    destruct (level_spec reg (test_fixtures t) ScTest Hok Htreg) as [fxs [Hsched Hfacts]]. rewrite Hsched. cbn [bind].
    assert (Hcov : covers reg (test_fixtures t) ScTest ((fxs_s, rs_s) :: c1)).
    { intros y fy Hreach Hfy Hlt.
      destruct (scope_cases (fx_scope fy)) as [Hsc|[Hsc|Hsc]].
      - rewrite Hsc in Hlt. simpl in Hlt. lia.
      - exists (fxs_s, rs_s). split; [left; reflexivity|]. unfold sf_names. simpl. destruct Hs as [_ [Hn _]]. apply Hn.
        split; [exact (reach_incl _ _ _ _ Htd Hreach) | exists fy; auto].
      - assert (Hlt' : scope_level ScSuite < scope_level (fx_scope fy)) by (destruct Hsc as [Hsc|Hsc]; rewrite Hsc; simpl; lia).
        destruct (covers_c1 direct_s HsD y fy (reach_incl _ _ _ _ Htd Hreach) Hfy Hlt') as [l [Hl Hy]].
        exists l. split; [right; exact Hl | exact Hy]. }
    destruct (level_setup_ok _ _ _ _ _ Hok Hfacts Hfull Hcov) as [rs [Hsetup Hfull']]. rewrite Hsetup. cbn [bind].
    destruct (get_fixture_results_ok ((fxs, rs) :: (fxs_s, rs_s) :: c1) (test_fixtures t)) as [l Hl].
    - intros f Hf. pose proof (Htreg f Hf) as Hm. apply reg_mem_true in Hm. destruct Hm as [ff Hff].
      apply (level_lookup_ok reg (test_fixtures t) ScTest fxs rs _ f ff Hfacts Hfull' Hcov Hf Hff).
      destruct (fx_scope ff); simpl; lia.
    - rewrite Hl. cbn [bind].
      destruct (teardown_all_ok fxs rs ((fxs_s, rs_s) :: c1) (proj1 Hfacts) (Hfull' _ (or_introl eq_refl))) as [c' Hc'].
      rewrite (bind_ok _ _ _ Hc'). reflexivity.
  Qed.

  Lemma has_enabled_false : forall inh s t, has_enabled_tests inh s = false -> In t (su_tests s) -> test_enabled (inh || su_disabled s) t = false.
  Proof.
    intros inh s t H Ht. unfold has_enabled_tests in H. destruct (test_enabled (inh || su_disabled s) t) eqn:E; [|reflexivity].
    assert (existsb (test_enabled (inh || su_disabled s)) (su_tests s) = true) by (apply existsb_exists; exists t; auto). congruence.
  Qed.

  Lemma dry_run_suite_ok : forall s inh,
    (forall s', In s' (flatten_suite s) -> suite_uses_ok reg s') ->
    (forall f, In f (get_fixtures_used_in_suite_recursively inh s fd) -> In f D0) ->
    dry_run_suite reg fd c1 inh s = Ok tt.
  Proof.
    induction s as [n d hk inj ts subs IH] using suite_ind2. intros inh Huses HD0.
    set (s := Suite n d hk inj ts subs) in *.
    assert (Hself : suite_uses_ok reg s) by (apply Huses; left; reflexivity).
    destruct (suite_uses_registered _ _ Hself) as [Hsfx Htfx].
    set (direct_s := get_fixtures_used_in_suite inh s fd).
    assert (HsD : forall f, In f direct_s -> In f D0) by (intros f Hf; apply HD0; apply used_rec_self; exact Hf).
    assert (Hdreg : forall f, In f direct_s -> reg_mem reg f = true).
    { intros f Hf. apply used_in_suite_In in Hf. destruct Hf as [_ [Hf|[t [Ht [_ Hf]]]]].
      - destruct (Hsfx f Hf) as [fx [Hfx _]]. apply reg_mem_true. exists fx. exact Hfx.
      - exact (Htfx t f Ht Hf). }
    destruct (level_spec reg direct_s ScSuite Hok Hdreg) as [fxs [Hsched Hfacts]].
    change (dry_run_suite reg fd c1 inh s) with
      (bind (get_fixtures_scheduled_for_suite reg inh s fd) (fun fxs =>
       bind (if has_enabled_tests inh s || (fd && has_tests s) then
               bind (setup_all (new_level fxs :: c1)) (fun c =>
               bind (get_fixture_results c (oset_update [] inj)) (fun _ =>
               bind (get_fixture_results c (match h_setup_suite hk with Some (args, _) => args | None => [] end)) (fun _ =>
               Ok c)))
             else Ok (new_level fxs :: c1)) (fun c =>
       bind (for_each (fun t => if test_enabled (inh || d) t || fd then dry_run_test reg c t else Ok tt) ts) (fun _ =>
       bind (if has_enabled_tests inh s || (fd && has_tests s) then bind (teardown_all c) (fun _ => Ok tt) else Ok tt) (fun _ =>
       for_each (dry_run_suite reg fd c1 (inh || d)) subs))))).
    unfold get_fixtures_scheduled_for_suite. fold direct_s. rewrite Hsched. cbn [bind].
    assert (Hsubs : for_each (dry_run_suite reg fd c1 (inh || d)) subs = Ok tt).
    { apply for_each_ok. intros sub Hsub. apply (IH sub Hsub).
      - intros s' Hs'. apply Huses. simpl. right. apply in_flat_map. exists sub. auto.
      - intros f Hf. apply HD0. apply (used_rec_sub inh s fd sub f Hsub). exact Hf. }
    destruct (has_enabled_tests inh s || (fd && has_tests s)) eqn:Hen.
    - destruct (level_setup_ok _ _ _ _ _ Hok Hfacts Hfull1 (covers_c1 direct_s HsD)) as [rs [Hsetup Hfull']].
      fold c1 in Hsetup. rewrite Hsetup. cbn [bind].
      assert (Hlook : forall f, In f (suite_fixtures s) -> exists v, get_fixture_result ((fxs, rs) :: c1) f = Ok v).
      { intros f Hf. destruct (Hsfx f Hf) as [ff [Hff Hl]].
        apply (level_lookup_ok reg direct_s ScSuite fxs rs c1 f ff Hfacts Hfull' (covers_c1 direct_s HsD)); [|exact Hff | exact Hl].
        apply used_in_suite_In. split; [exact Hen | left; exact Hf]. }
      destruct (get_fixture_results_ok ((fxs, rs) :: c1) (oset_update [] inj)) as [l1 Hl1].
      { intros f Hf. apply Hlook. unfold suite_fixtures. simpl. apply oset_update_In. left. exact Hf. }
      rewrite Hl1. cbn [bind].
      destruct (get_fixture_results_ok ((fxs, rs) :: c1) (match h_setup_suite hk with Some (args, _) => args | None => [] end)) as [l2 Hl2].
      { intros f Hf. apply Hlook. unfold suite_fixtures. simpl. apply oset_update_In. right. exact Hf. }
      rewrite Hl2. cbn [bind].
      assert (Htests : for_each (fun t => if test_enabled (inh || d) t || fd then dry_run_test reg ((fxs, rs) :: c1) t else Ok tt) ts = Ok tt).
      { apply for_each_ok. intros t Ht. destruct (test_enabled (inh || d) t || fd) eqn:Het; [|reflexivity].
        apply (dry_run_test_ok direct_s fxs rs t Hfacts Hfull' HsD).
        - intros f Hf. apply used_in_suite_In. split; [exact Hen|]. right. exists t. auto.
        - intros f Hf. exact (Htfx t f Ht Hf). }
      rewrite Htests. cbn [bind].
      destruct (teardown_all_ok fxs rs c1 (proj1 Hfacts) (Hfull' _ (or_introl eq_refl))) as [c' Hc'].
      rewrite (bind_ok _ _ _ Hc'). cbn [bind]. exact Hsubs.
    - cbn [bind].
      assert (Htests : for_each (fun t => if test_enabled (inh || d) t || fd then dry_run_test reg (new_level fxs :: c1) t else Ok tt) ts = Ok tt).
      { apply for_each_ok. intros t Ht. apply orb_false_iff in Hen. destruct Hen as [Hen1 Hen2].
        pose proof (has_enabled_false inh s t Hen1 Ht) as Hdis. simpl in Hdis. rewrite Hdis.
        assert (Hht : has_tests s = true) by (unfold has_tests, s; simpl; destruct ts; [destruct Ht | reflexivity]).
        rewrite Hht, andb_true_r in Hen2. rewrite Hen2. reflexivity. }
      rewrite Htests. cbn [bind]. exact Hsubs.
  Qed.
End DryRun.

Theorem dry_run_ok : forall reg suites, registry_ok reg -> check_fixtures_in_suites reg suites = Ok tt ->
  forall fd, dry_run reg suites fd = Ok tt.
Proof.
  intros reg suites Hok Hcheck fd. pose proof (proj1 (check_fixtures_in_suites_ok reg suites) Hcheck) as Huses.
  set (D0 := fixtures_used_in_suites suites fd).
  assert (HD0reg : forall f, In f D0 -> reg_mem reg f = true).
  { intros f Hf. apply used_suites_In in Hf. destruct Hf as [s [Hs Hf]].
    destruct (used_rec_upper _ _ _ _ Hf) as [s' [Hs' Hor]].
    assert (Hfl : In s' (flatten_suites suites)) by (apply flatten_suites_In; exists s; auto).
    destruct (suite_uses_registered _ _ (Huses s' Hfl)) as [H1 H2].
    destruct Hor as [Hsf|[t [Ht Htf]]].
    - destruct (H1 f Hsf) as [fx [Hfx _]]. apply reg_mem_true. exists fx. exact Hfx.
    - exact (H2 t f Ht Htf). }
  unfold dry_run, get_fixtures_scheduled_for_pre_run, get_fixtures_scheduled_for_session. fold D0.
  destruct (level_spec reg D0 ScPreRun Hok HD0reg) as [pre [Hpre_s Hpre]]. rewrite Hpre_s. cbn [bind].
  destruct (level_setup_ok reg D0 ScPreRun pre [] Hok Hpre) as [rs_pre [Hsetup0 Hfull0]].
  { intros l []. }
  { intros y fy _ _ Hlt. destruct (fx_scope fy); simpl in Hlt; lia. }
  rewrite Hsetup0. cbn [bind].
  destruct (level_spec reg D0 ScSession Hok HD0reg) as [ses [Hses_s Hses]]. rewrite Hses_s. cbn [bind].
  destruct (level_setup_ok reg D0 ScSession ses [(pre, rs_pre)] Hok Hses Hfull0) as [rs_ses [Hsetup1 Hfull1]].
  { intros y fy Hreach Hfy Hlt. exists (pre, rs_pre). split; [left; reflexivity|]. unfold sf_names. simpl.
    destruct Hpre as [_ [Hn _]]. apply Hn. split; [exact Hreach|]. exists fy. split; [exact Hfy|].
    destruct (fx_scope fy); simpl in Hlt; try lia. reflexivity. }
  rewrite (bind_ok _ _ _ Hsetup1).
  assert (Hsuites : for_each (dry_run_suite reg fd [(ses, rs_ses); (pre, rs_pre)] false) suites = Ok tt).
  { apply for_each_ok. intros s Hs.
    apply (dry_run_suite_ok reg fd D0 pre ses rs_pre rs_ses Hok Hpre Hses Hfull1).
    - intros s' Hs'. apply Huses. apply flatten_suites_In. exists s. auto.
    - intros f Hf. apply used_suites_In. exists s. auto. }
  rewrite (bind_ok _ _ _ Hsuites).
  destruct (teardown_all_ok ses rs_ses [(pre, rs_pre)] (proj1 Hses) (Hfull1 _ (or_introl eq_refl))) as [c' Hc'].
  rewrite (bind_ok _ _ _ Hc').
  destruct (teardown_all_ok pre rs_pre [] (proj1 Hpre) (Hfull0 _ (or_introl eq_refl))) as [c'' Hc''].
  rewrite (bind_ok _ _ _ Hc''). reflexivity.
Qed.
