(* The hold / flush / discard protocol of session.py (Model/TaskSem.v), per thread:
   whatever the script, the events a thread puts on the queue form
        [result-level events] (StepStart d . log+ . StepEnd d)* ...
   every log-like event lies inside an open step bracket of its own thread, carries that step's description, the
   thread's own identifier and the location of the piece of code that runs; empty steps are elided start and end together.
   Used by C06 (no leak), C07 (well-formed stream), C02. *)
From Coq Require Import List Arith Bool Lia.
Import ListNotations.
From LCC Require Import Base.Util Model.Proj Model.Sched Model.Fixture Model.TaskSem Model.TaskSemEq.

(* ------------------------------------------------------------------ the per-thread grammar, as an automaton *)
Record pstate := mkP { p_open : option (option stepd); p_logs : nat }.
Definition p0 : pstate := mkP None 0.

Definition log_like (e : revt) : option (loc * option stepd * tpath) :=
  match e with
  | RLog l d th _ _ | RCheck l d th _ _ | RUrl l d th _ | RAttach l d th _ => Some (l, d, th)
  | _ => None
  end.

Definition pstep (l : loc) (th : tpath) (q : pstate) (e : revt) : option pstate :=
  match e with
  | RStepStart l' d th' =>
      if loc_eqb l' l && npath_eqb th' th then
        match p_open q with None => Some (mkP (Some d) 0) | Some _ => None end
      else None
  | RStepEnd l' d th' =>
      if loc_eqb l' l && npath_eqb th' th then
        match p_open q with
        | Some d' => if ostepd_eqb d d' && negb (Nat.eqb (p_logs q) 0) then Some (mkP None 0) else None
        | None => None
        end
      else None
  | RLog l' d th' _ _ | RCheck l' d th' _ _ | RUrl l' d th' _ | RAttach l' d th' _ =>
      if loc_eqb l' l && npath_eqb th' th then
        match p_open q with
        | Some d' => if ostepd_eqb d d' then Some (mkP (Some d') (S (p_logs q))) else None
        | None => None
        end
      else None
  | _ => match p_open q with None => Some q | Some _ => None end       (* result-level events: only between steps *)
  end.

Fixpoint paccepts (l : loc) (th : tpath) (q : pstate) (evs : list revt) : option pstate :=
  match evs with
  | [] => Some q
  | e :: r => match pstep l th q e with Some q' => paccepts l th q' r | None => None end
  end.

Definition events_of (out : list atom) : list revt :=
  flat_map (fun a => match a with AtFire e => [e] | _ => [] end) out.

Lemma events_of_app a b : events_of (a ++ b) = events_of a ++ events_of b.
Proof. unfold events_of. apply flat_map_app. Qed.

Lemma paccepts_app l th q e1 e2 :
  paccepts l th q (e1 ++ e2) = match paccepts l th q e1 with Some q' => paccepts l th q' e2 | None => None end.
Proof.
  revert q. induction e1 as [|e r IH]; simpl; intros q; auto.
  destruct (pstep l th q e); auto.
Qed.

(* ------------------------------------------------------------------ equalities are reflexive *)
Lemma npath_eqb_refl p : npath_eqb p p = true.
Proof. unfold npath_eqb. induction p; simpl; auto. rewrite Nat.eqb_refl. auto. Qed.
Lemma owner_eqb_refl o : owner_eqb o o = true.
Proof. destruct o; simpl; auto using npath_eqb_refl, Nat.eqb_refl. Qed.
Lemma loc_eqb_refl l : loc_eqb l l = true.
Proof. destruct l; simpl; auto using npath_eqb_refl. Qed.
Lemma stepd_eqb_refl d : stepd_eqb d d = true.
Proof. destruct d; simpl; auto using Nat.eqb_refl. rewrite owner_eqb_refl, npath_eqb_refl, Nat.eqb_refl. auto. Qed.
Lemma ostepd_eqb_refl d : ostepd_eqb d d = true.
Proof. destruct d; simpl; auto using stepd_eqb_refl. Qed.

(* ------------------------------------------------------------------ the invariant linking the cursor to the automaton *)
(* held result-start events: anything that is not a step / log event *)
Definition result_level (e : revt) : bool :=
  match e with
  | RStepStart _ _ _ | RStepEnd _ _ _ | RLog _ _ _ _ _ | RCheck _ _ _ _ _ | RUrl _ _ _ _ | RAttach _ _ _ _ => false
  | _ => true
  end.

Inductive shape (l : loc) (th : tpath) : tstate -> pstate -> Prop :=
| sh_nostep s q pre :            (* no current step; possibly a held result-start event *)
    ts_loc s = l -> ts_step s = None -> ts_pending s = pre -> (pre = [] \/ exists e, pre = [e] /\ result_level e = true) ->
    p_open q = None -> shape l th s q
| sh_held s q pre d :            (* current step d, its StepStart still held (nothing logged yet in it) *)
    ts_loc s = l -> ts_step s = Some d -> ts_pending s = pre ++ [RStepStart l (Some d) th] ->
    (pre = [] \/ exists e, pre = [e] /\ result_level e = true) ->
    p_open q = None -> shape l th s q
| sh_open s q d :                (* current step d, started on the queue, with at least one log *)
    ts_loc s = l -> ts_step s = Some d -> ts_pending s = [] ->
    p_open q = Some (Some d) -> p_logs q > 0 -> shape l th s q.

(* [good l th s]: the events emitted so far are accepted and the cursor is in one of the three shapes *)
Definition good (l : loc) (th : tpath) (s : tstate) : Prop :=
  exists q, paccepts l th p0 (events_of (ts_out s)) = Some q /\ shape l th s q.

Lemma result_level_pstep l th q e : result_level e = true -> p_open q = None -> pstep l th q e = Some q.
Proof. intros R O. destruct e; simpl in *; try discriminate; rewrite O; reflexivity. Qed.

Lemma good_emit_nonfire l th s a : (forall e, a <> AtFire e) -> good l th s -> good l th (emit a s).
Proof.
  intros Hn [q [A Sh]]. exists q. split.
  - unfold emit; simpl. rewrite events_of_app, paccepts_app, A. destruct a; simpl; auto. exfalso. eapply Hn; eauto.
  - inversion Sh; subst; [eapply sh_nostep|eapply sh_held|eapply sh_open]; eauto.
Qed.

(* flushing: the held events reach the queue in order *)
Lemma good_flush_then_log l th s (mk : option stepd -> revt) :
  (forall d, log_like (mk d) = Some (l, d, th)) ->
  good l th s -> (exists d, ts_step s = Some d) ->
  good l th (fire (mk (ts_step s)) (flush s)).
Proof.
  intros Hmk [q [A Sh]] [d Hd].
  assert (LL : forall q0 d0, p_open q0 = Some d0 ->
               pstep l th q0 (mk d0) = Some (mkP (Some d0) (S (p_logs q0)))).
  { intros q0 d0 O. specialize (Hmk d0). destruct (mk d0); simpl in Hmk; try discriminate;
      inversion Hmk; subst; simpl; rewrite loc_eqb_refl, npath_eqb_refl, O, ostepd_eqb_refl; reflexivity. }
  inversion Sh as [s0 q0 pre L St P Hpre O | s0 q0 pre d' L St P Hpre O | s0 q0 d' L St P O Lg]; subst; try congruence.
  - (* held *)
    rewrite St in *. inversion Hd; subst d'.
    exists (mkP (Some (Some d)) 1). split.
    + unfold fire, emit, flush; simpl. rewrite !events_of_app, !paccepts_app, A. rewrite P.
      assert (E : events_of (map AtFire (pre ++ [RStepStart (ts_loc s) (Some d) th])) = pre ++ [RStepStart (ts_loc s) (Some d) th]).
      { unfold events_of. rewrite flat_map_concat_map, map_map. simpl. clear.
        induction (pre ++ [RStepStart (ts_loc s) (Some d) th]); simpl; auto. f_equal; auto. }
      rewrite E, paccepts_app.
      assert (Apre : paccepts (ts_loc s) th q pre = Some q).
      { destruct Hpre as [->|[e [-> R]]]; simpl; auto. rewrite (result_level_pstep _ _ _ _ R O). auto. }
      rewrite Apre. simpl. rewrite loc_eqb_refl, npath_eqb_refl, O. simpl.
      rewrite (LL (mkP (Some (Some d)) 0) (Some d) eq_refl). simpl. reflexivity.
    + eapply sh_open; simpl; eauto.
  - (* open *)
    rewrite St in *. inversion Hd; subst d'.
    exists (mkP (Some (Some d)) (S (p_logs q))). split.
    + unfold fire, emit, flush; simpl. rewrite P. simpl. rewrite app_nil_r, events_of_app, paccepts_app, A. simpl.
      rewrite (LL q (Some d) O). reflexivity.
    + eapply sh_open; simpl; eauto; lia.
Qed.

Lemma good_end_step l th s : good l th s -> (exists d, ts_step s = Some d) ->
  exists q, paccepts l th p0 (events_of (ts_out (end_step th s))) = Some q /\
            ts_loc (end_step th s) = l /\ ts_step (end_step th s) = None /\ p_open q = None /\
            (ts_pending (end_step th s) = [] \/ exists e, ts_pending (end_step th s) = [e] /\ result_level e = true).
Proof.
  intros [q [A Sh]] [d Hd].
  inversion Sh as [s0 q0 pre L St P Hpre O | s0 q0 pre d' L St P Hpre O | s0 q0 d' L St P O Lg]; subst; try congruence.
  - (* held: the StepStart is dropped *)
    exists q. unfold end_step, discard_or_fire, set_step_field. rewrite P, rev_app_distr. simpl.
    rewrite rev_involutive. simpl. repeat split; auto.
  - (* open: StepEnd is fired *)
    rewrite St in *. inversion Hd; subst d'.
    exists (mkP None 0). unfold end_step, discard_or_fire, set_step_field. rewrite P. simpl.
    rewrite events_of_app, paccepts_app, A. simpl. rewrite loc_eqb_refl, npath_eqb_refl, O, St, ostepd_eqb_refl. simpl.
    destruct (p_logs q) eqn:E; [lia|]. simpl. repeat split; auto.
Qed.

Lemma good_end_step_if_any l th s : good l th s ->
  exists q, paccepts l th p0 (events_of (ts_out (end_step_if_any th s))) = Some q /\
            ts_loc (end_step_if_any th s) = l /\ ts_step (end_step_if_any th s) = None /\ p_open q = None /\
            (ts_pending (end_step_if_any th s) = [] \/
             exists e, ts_pending (end_step_if_any th s) = [e] /\ result_level e = true).
Proof.
  intros G. unfold end_step_if_any. destruct (ts_step s) as [d|] eqn:E.
  - apply good_end_step; eauto.
  - destruct G as [q [A Sh]]. exists q.
    inversion Sh as [s0 q0 pre L St P Hpre O | s0 q0 pre d' L St P Hpre O | s0 q0 d' L St P O Lg]; subst; try congruence.
    repeat split; auto.
Qed.

Lemma good_set_step l th s d : good l th s -> good l th (set_step d th s).
Proof.
  intros G. destruct (good_end_step_if_any l th s G) as [q [A [L [St [O Hp]]]]].
  exists q. unfold set_step. split.
  - unfold hold, set_step_field. simpl. exact A.
  - eapply sh_held; unfold hold, set_step_field; simpl; eauto. rewrite L. reflexivity.
Qed.

(* ------------------------------------------------------------------ one action keeps a thread good *)
Definition has_step (s : tstate) : Prop := exists d, ts_step s = Some d.

Lemma has_step_emit a s : has_step s -> has_step (emit a s).
Proof. intros [d H]. exists d. exact H. Qed.

Lemma set_step_has_step d th s : has_step (set_step d th s).
Proof. exists d. unfold set_step, hold, set_step_field. reflexivity. Qed.

Lemma flush_fire_has_step e s : has_step s -> has_step (fire e (flush s)).
Proof. intros [d H]. exists d. exact H. Qed.

Lemma do_log_good l th lvl m s : good l th s -> has_step s -> ts_loc s = l ->
  good l th (fst (do_log th lvl m s)) /\ has_step (fst (do_log th lvl m s)).
Proof.
  intros G H L. unfold do_log. simpl. split.
  - destruct (Nat.eqb lvl 3).
    + pose proof (good_flush_then_log l th s (fun d => RLog (ts_loc s) d th lvl m)) as K.
      assert (G' : good l th (fire (RLog (ts_loc s) (ts_step s) th lvl m) (flush s))).
      { apply K; auto. intros d. simpl. rewrite L. reflexivity. }
      (* the flag atom sits between the flushed events and the log: it is not an event *)
      destruct G' as [q [A Sh]]. exists q. split.
      * unfold fire, emit, mark_failed, flush in *. simpl in *.
        rewrite !events_of_app in *. simpl in *. rewrite app_nil_r. exact A.
      * inversion Sh; subst; [eapply sh_nostep|eapply sh_held|eapply sh_open]; eauto.
    + apply (good_flush_then_log l th s (fun d => RLog (ts_loc s) d th lvl m)); auto.
      intros d. simpl. rewrite L. reflexivity.
  - destruct (Nat.eqb lvl 3); destruct H as [d H]; exists d; exact H.
Qed.

Lemma do_check_good l th ok m s : good l th s -> has_step s -> ts_loc s = l ->
  good l th (fst (do_check th ok m s)) /\ has_step (fst (do_check th ok m s)).
Proof.
  intros G H L. unfold do_check. simpl. split.
  - destruct ok.
    + apply (good_flush_then_log l th s (fun d => RCheck (ts_loc s) d th true m)); auto.
      intros d. simpl. rewrite L. reflexivity.
    + pose proof (good_flush_then_log l th s (fun d => RCheck (ts_loc s) d th false m)) as K.
      assert (G' : good l th (fire (RCheck (ts_loc s) (ts_step s) th false m) (flush s))).
      { apply K; auto. intros d. simpl. rewrite L. reflexivity. }
      destruct G' as [q [A Sh]]. exists q. split.
      * unfold fire, emit, mark_failed, flush in *. simpl in *.
        rewrite !events_of_app in *. simpl in *. rewrite app_nil_r. exact A.
      * inversion Sh; subst; [eapply sh_nostep|eapply sh_held|eapply sh_open]; eauto.
  - destruct ok; destruct H as [d H]; exists d; exact H.
Qed.

Lemma good_loc l th s : good l th s -> ts_loc s = l.
Proof. intros [q [_ Sh]]. inversion Sh; auto. Qed.

(* ------------------------------------------------------------------ scripts keep every thread well-formed *)
Definition thread_done (l : loc) (th : tpath) (out : list atom) : Prop :=
  exists q, paccepts l th p0 (events_of out) = Some q /\ p_open q = None.
Definition children_ok (l : loc) (cs : list (owner * tpath * list atom)) : Prop :=
  Forall (fun c => thread_done l (snd (fst c)) (snd c)) cs.

Fixpoint action_size (a : action) : nat :=
  match a with
  | ASpawn body => S (fold_right (fun b acc => action_size b + acc) 0 body)
  | _ => 1
  end.
Definition script_size (sc : list action) : nat := fold_right (fun b acc => action_size b + acc) 0 sc.

Lemma join_all_good l th cs s : good l th s -> good l th (join_all cs s).
Proof.
  unfold join_all. revert s. induction cs as [|c r IH]; simpl; intros s G; auto.
  apply IH. apply good_emit_nonfire; auto. intros e; discriminate.
Qed.
Lemma join_all_has_step cs s : has_step s -> has_step (join_all cs s).
Proof. unfold join_all. revert s. induction cs as [|c r IH]; simpl; intros s H; auto. Qed.

Lemma spawn_creator_good l th s : good l th s -> has_step s ->
  good l th (spawn_creator s) /\ has_step (spawn_creator s) /\ ts_step (spawn_creator s) = ts_step s.
Proof.
  intros [q [A Sh]] [d Hd]. unfold spawn_creator.
  inversion Sh as [s0 q0 pre L St P Hpre O | s0 q0 pre d' L St P Hpre O | s0 q0 d' L St P O Lg]; subst; try congruence.
  - rewrite P. destruct Hpre as [->|[e [-> R]]]; simpl.
    + repeat split; [exists q; split; auto|exists d; auto].
    + assert (is_step_start e = false) as -> by (destruct e; simpl in *; auto; discriminate).
      repeat split; [|exists d; auto].
      exists q. split.
      * simpl. rewrite events_of_app, paccepts_app, A. simpl. rewrite (result_level_pstep _ _ _ _ R O). reflexivity.
      * eapply sh_held with (pre := []); simpl; eauto.
  - rewrite P. repeat split; [exists q; split; auto|exists d; auto].
Qed.

(* the statement proved by induction on the size of the action *)
Definition action_good (a : action) : Prop :=
  forall o env tp x l,
    good l tp (sr_state x) -> has_step (sr_state x) -> children_ok l (sr_children x) ->
    good l tp (sr_state (step_action o env tp a x)) /\ has_step (sr_state (step_action o env tp a x)) /\
    children_ok l (sr_children (step_action o env tp a x)).

Lemma run_list_good (body : list action) :
  Forall action_good body ->
  forall o env tp x l,
    good l tp (sr_state x) -> has_step (sr_state x) -> children_ok l (sr_children x) ->
    let y := (fix run_list (l0 : list action) (y : sres) : sres :=
                match l0 with [] => y | b :: r => run_list r (step_action o env tp b y) end) body x in
    good l tp (sr_state y) /\ has_step (sr_state y) /\ children_ok l (sr_children y).
Proof.
  induction 1 as [|b r Hb Hr IH]; intros o env tp x l G H C; simpl; auto.
  destruct (Hb o env tp x l G H C) as [G1 [H1 C1]]. apply IH; auto.
Qed.

Lemma fold_left_good (sc : list action) :
  Forall action_good sc ->
  forall o env tp x l,
    good l tp (sr_state x) -> has_step (sr_state x) -> children_ok l (sr_children x) ->
    let y := fold_left (fun y a => step_action o env tp a y) sc x in
    good l tp (sr_state y) /\ has_step (sr_state y) /\ children_ok l (sr_children y).
Proof.
  induction 1 as [|b r Hb Hr IH]; intros o env tp x l G H C; simpl; auto.
  destruct (Hb o env tp x l G H C) as [G1 [H1 C1]]. apply IH; auto.
Qed.

Arguments do_log : simpl never.
Arguments do_check : simpl never.
Arguments do_url : simpl never.
Arguments do_attach : simpl never.
Arguments set_step : simpl never.
Arguments join_all : simpl never.
Arguments spawn_creator : simpl never.
Arguments emit : simpl never.
Arguments end_step : simpl never.
Arguments close_script : simpl never.

Lemma action_good_all : forall n a, action_size a <= n -> action_good a.
Proof.
  induction n as [|n IH]; intros a Hs.
  - destruct a; simpl in Hs; lia.
  - unfold action_good. intros o env tp x l G H C.
    pose proof (good_loc _ _ _ G) as L.
    destruct (sr_raised x) eqn:Er.
    { destruct a; cbn [step_action]; rewrite Er; auto. }
    destruct a; cbn [step_action]; rewrite Er.
    + (* ALog *)
      destruct (do_log_good l tp level (MUser o tp payload) (sr_state x) G H L) as [G1 H1].
      destruct (do_log tp level (MUser o tp payload) (sr_state x)) as [s' f] eqn:E. cbn [fst sr_state sr_children] in *. auto.
    + (* ACheck *)
      destruct (do_check_good l tp ok (MUser o tp payload) (sr_state x) G H L) as [G1 H1].
      destruct (do_check tp ok (MUser o tp payload) (sr_state x)) as [s' f] eqn:E. cbn [fst sr_state sr_children] in *. auto.
    + (* AUrl *)
      cbn [sr_state sr_children]. split; [|split]; [| |exact C].
      * unfold do_url. apply (good_flush_then_log l tp (sr_state x) (fun d => RUrl (ts_loc (sr_state x)) d tp (MUser o tp payload))); auto.
        intros d. simpl. rewrite L. reflexivity.
      * unfold do_url. apply flush_fire_has_step; auto.
    + (* AAttach *)
      cbn [sr_state sr_children]. split; [|split]; [| |exact C].
      * unfold do_attach. apply (good_flush_then_log l tp (sr_state x) (fun d => RAttach (ts_loc (sr_state x)) d tp (MUser o tp payload))); auto.
        intros d. simpl. rewrite L. reflexivity.
      * unfold do_attach. apply flush_fire_has_step; auto.
    + (* ASetStep *)
      cbn [sr_state sr_children]. split; [|split]; [apply good_set_step; auto|apply set_step_has_step|exact C].
    + (* AMark *)
      cbn [sr_state sr_children]. split; [|split]; [apply good_emit_nonfire; auto; intros e; discriminate|apply has_step_emit; auto|exact C].
    + (* AUse *)
      cbn [sr_state sr_children]. split; [|split]; [apply good_emit_nonfire; auto; intros e; discriminate|apply has_step_emit; auto|exact C].
    + (* ASpawn *)
      destruct (spawn_creator_good l tp (sr_state x) G H) as [G1 [H1 E1]].
      set (s1 := spawn_creator (sr_state x)) in *.
      set (ctp := tp ++ [sr_nchild x]).
      destruct H1 as [d Hd].
      pose proof (good_loc _ _ _ G1) as L1.
      set (c0 := hold (RStepStart (ts_loc s1) (ts_step s1) ctp) (mkTs (ts_loc s1) (ts_step s1) [] [])).
      assert (Gc0 : good l ctp c0).
      { exists p0. split; [reflexivity|].
        eapply sh_held with (pre := []) (d := d); unfold c0, hold; simpl; auto. rewrite Hd, L1. reflexivity. }
      assert (Hc0 : has_step c0) by (exists d; unfold c0, hold; simpl; auto).
      assert (Fb : Forall action_good body).
      { apply Forall_forall. intros b Hb. apply IH. simpl in Hs.
        assert (action_size b <= fold_right (fun b0 acc => action_size b0 + acc) 0 body).
        { clear -Hb. induction body as [|b0 r IHr]; simpl in *; [tauto|]. destruct Hb as [->|Hb]; [lia|]. specialize (IHr Hb). lia. }
        lia. }
      pose proof (run_list_good body Fb o env ctp (mkSres c0 false [] None [] 0) l Gc0 Hc0 (Forall_nil _)) as R.
      set (y := (fix run_list (l0 : list action) (y : sres) : sres :=
                   match l0 with [] => y | b :: r => run_list r (step_action o env ctp b y) end)
                  body (mkSres c0 false [] None [] 0)) in *.
      destruct R as [Gy [Hy Cy]].
      set (cr := close_script y).
      assert (Gcr : good l ctp (sr_state cr)) by (unfold cr, close_script; simpl; apply join_all_good; auto).
      assert (Hcr : has_step (sr_state cr)) by (unfold cr, close_script; simpl; apply join_all_has_step; auto).
      assert (Ccr : children_ok l (sr_children cr)) by (unfold cr, close_script; simpl; auto).
      set (c1 := match sr_raised cr with
                 | Some k => if is_exception k then fst (do_log ctp 3 MUnexpected (sr_state cr)) else sr_state cr
                 | None => sr_state cr
                 end).
      assert (Gc1 : good l ctp c1 /\ has_step c1).
      { unfold c1. destruct (sr_raised cr) as [k|]; auto. destruct (is_exception k); auto.
        apply do_log_good; auto. apply (good_loc _ _ _ Gcr). }
      destruct Gc1 as [Gc1 Hc1].
      destruct (good_end_step l ctp c1 Gc1 Hc1) as [q [A [_ [_ [O _]]]]].
      cbn [sr_state sr_children]. split; [|split].
      * apply good_emit_nonfire; auto. intros e; discriminate.
      * apply has_step_emit. exists d. auto.
      * unfold children_ok. rewrite !Forall_app. split; [exact C|]. split; [|exact Ccr].
        constructor; [|constructor]. simpl. exists q. split; auto.
    + (* AJoin *)
      cbn [sr_state sr_children]. split; [|split]; [apply join_all_good; auto|apply join_all_has_step; auto|exact C].
    + (* ARaise *)
      cbn [sr_state sr_children]. split; [|split]; [apply good_emit_nonfire; auto; intros e; discriminate|apply has_step_emit; auto|exact C].
Qed.

Theorem every_action_good a : action_good a.
Proof. apply (action_good_all (action_size a)). lia. Qed.

(* a whole script run by one thread *)
Theorem interp_good o tp env sc x l :
  good l tp (sr_state x) -> has_step (sr_state x) -> children_ok l (sr_children x) ->
  good l tp (sr_state (interp o tp env sc x)) /\ has_step (sr_state (interp o tp env sc x)) /\
  children_ok l (sr_children (interp o tp env sc x)).
Proof.
  intros G H C. unfold interp, close_script. simpl.
  assert (F : Forall action_good sc) by (apply Forall_forall; intros a _; apply every_action_good).
  destruct (fold_left_good sc F o env tp x l G H C) as [G1 [H1 C1]].
  split; [apply join_all_good; auto|split; auto]. apply join_all_has_step; auto.
Qed.

(* ------------------------------------------------------------------ the runner's code around the scripts *)
Definition rgood (l : loc) (r : rstate) : Prop :=
  good l [] (rs_t r) /\ has_step (rs_t r) /\ children_ok l (rs_children r).

Lemma run_script_good o env sc s failed children l :
  good l [] s -> has_step s -> children_ok l children ->
  let x := run_script o env sc s failed children in
  good l [] (sr_state x) /\ has_step (sr_state x) /\ children_ok l (sr_children x).
Proof.
  intros G H C. unfold run_script.
  assert (G0 : good l [] (emit (AtBegin o) s)) by (apply good_emit_nonfire; auto; intros e; discriminate).
  assert (H0 : has_step (emit (AtBegin o) s)) by (apply has_step_emit; auto).
  destruct (interp_good o [] env sc (mkSres (emit (AtBegin o) s) failed children None [] 0) l G0 H0 C) as [G1 [H1 C1]].
  cbv zeta. destruct (sr_raised (interp o [] env sc _)); cbn [sr_state sr_children]; auto.
  split; [|split]; [apply good_emit_nonfire; auto; intros e; discriminate|apply has_step_emit; auto|exact C1].
Qed.

Lemma call_sfun_good env f r l : rgood l r -> rgood l (fst (call_sfun env f r)).
Proof.
  intros [G [H C]]. destruct f; simpl; unfold rgood; cbn [rs_t rs_children]; auto;
    apply run_script_good; auto.
Qed.

Lemma call_tfun_good env f r l : rgood l r -> rgood l (fst (call_tfun env f r)).
Proof.
  intros [G [H C]]. destruct f; simpl; unfold rgood.
  - destruct (fx_generator f); cbn [fst rs_t rs_children]; auto. apply run_script_good; auto.
  - cbn [rs_t rs_children]. apply run_script_good; auto.
  - cbn [rs_t rs_children]. apply run_script_good; auto;
      try (apply good_emit_nonfire; auto; intros e; discriminate); try (apply has_step_emit; auto).
Qed.

Lemma handle_exception_good k suite s l : good l [] s -> has_step s ->
  good l [] (handle_exception k suite s) /\ has_step (handle_exception k suite s).
Proof.
  intros G H. pose proof (good_loc _ _ _ G) as L.
  unfold handle_exception. destruct k; try (apply do_log_good; auto).
  - destruct (do_log_good l [] 3 MAbortSuite s G H L) as [G1 H1]. destruct suite; auto.
    split; [apply good_emit_nonfire; auto; intros e; discriminate|apply has_step_emit; auto].
  - destruct (do_log_good l [] 3 MAbortAll s G H L) as [G1 H1].
    split; [apply good_emit_nonfire; auto; intros e; discriminate|apply has_step_emit; auto].
Qed.

Lemma after_exception_good k suite r l : rgood l r -> rgood l (after_exception k suite r).
Proof.
  intros [G [H C]]. unfold after_exception, rgood. destruct (is_exception k); cbn [rs_t rs_children]; auto.
  destruct (handle_exception_good k suite (rs_t r) l G H); auto.
Qed.

Lemma run_setup_funcs_good env suite pairs : forall r kept l, rgood l r -> rgood l (fst (run_setup_funcs env suite pairs r kept)).
Proof.
  induction pairs as [|[[f|] td] rest IH]; intros r kept l R; simpl; auto.
  pose proof (call_sfun_good env f r l R) as R1.
  destruct (call_sfun env f r) as [r1 [k|]]; simpl in *.
  - apply after_exception_good; auto.
  - destruct (rs_failed r1); simpl; auto.
Qed.

Lemma run_teardown_list_good env suite tds : forall r l, rgood l r -> rgood l (run_teardown_list env suite tds r).
Proof.
  induction tds as [|[f|] rest IH]; intros r l R; simpl; auto.
  destruct (rs_died r); auto.
  pose proof (call_tfun_good env f r l R) as R1.
  destruct (call_tfun env f r) as [r1 [k|]]; simpl in *; apply IH; auto.
  apply after_exception_good; auto.
Qed.

Lemma close_result l s e : good l [] s -> result_level e = true ->
  thread_done l [] (ts_out (fire e (end_step_if_any [] s))).
Proof.
  intros G R. destruct (good_end_step_if_any l [] s G) as [q [A [_ [_ [O _]]]]].
  exists q. unfold fire, emit. simpl. rewrite events_of_app, paccepts_app, A. simpl.
  rewrite (result_level_pstep _ _ _ _ R O). auto.
Qed.

Lemma close_phase l s is_start e : good l [] s -> result_level e = true ->
  thread_done l [] (ts_out (discard_or_fire is_start e (end_step_if_any [] s))).
Proof.
  intros G R. destruct (good_end_step_if_any l [] s G) as [q [A [_ [_ [O _]]]]].
  unfold discard_or_fire. destruct (rev (ts_pending (end_step_if_any [] s))) as [|last before].
  - exists q. unfold fire, emit. simpl. rewrite events_of_app, paccepts_app, A. simpl.
    rewrite (result_level_pstep _ _ _ _ R O). auto.
  - destruct (is_start last).
    + exists q. simpl. auto.
    + exists q. unfold fire, emit. simpl. rewrite events_of_app, paccepts_app, A. simpl.
      rewrite (result_level_pstep _ _ _ _ R O). auto.
Qed.

Lemma rgood_died_out l r : rgood l r -> exists q, paccepts l [] p0 (events_of (ts_out (rs_t r))) = Some q.
Proof. intros [[q [A _]] _]. eauto. Qed.

(* what is proved of every task: each thread's events follow the grammar; when the task ends normally every step bracket
   is closed *)
Record threads_ok (l : loc) (o : tout) : Prop := {
  tk_main : to_res o <> TkDied -> thread_done l [] (to_main o);
  tk_main_prefix : exists q, paccepts l [] p0 (events_of (to_main o)) = Some q;
  tk_children : children_ok l (to_children o) }.

Lemma thread_done_prefix l th out : thread_done l th out -> exists q, paccepts l th p0 (events_of out) = Some q.
Proof. intros [q [A _]]. eauto. Qed.

Lemma finish_died l r kept : rgood l r -> rs_died r = true -> threads_ok l (finish r kept).
Proof.
  intros R D. destruct R as [[q [A Sh]] [H C]]. constructor; unfold finish; simpl; rewrite ?D; simpl; auto.
  - congruence.
  - eauto.
Qed.

Lemma threads_ok_simple l out res kept :
  (forall a, In a out -> match a with AtFire e => result_level e = true | _ => True end) ->
  threads_ok l (mkTout out [] res kept).
Proof.
  intros Hall.
  assert (A : paccepts l [] p0 (events_of out) = Some p0).
  { induction out as [|a r IH]; simpl; auto.
    assert (Hr : forall a0, In a0 r -> match a0 with AtFire e => result_level e = true | _ => True end)
      by (intros a0 Ha; apply Hall; right; auto).
    specialize (Hall a (or_introl eq_refl)). destruct a; simpl; auto.
    rewrite (result_level_pstep l [] p0 e Hall eq_refl). auto. }
  constructor; simpl.
  - intros _. exists p0. split; auto.
  - eauto.
  - constructor.
Qed.

Theorem test_run_threads_ok env p suite t hk fxs : threads_ok (LTest p) (test_run env p suite t hk fxs).
Proof.
  unfold test_run. set (l := LTest p).
  set (pairs := (_, _) :: fixture_pairs fxs).
  assert (R0 : rgood l (mkRs (set_step SdSetupTest [] (fresh_cursor l [AtFire (RTestStart p)])) false [] false)).
  { unfold rgood; cbn [rs_t rs_children]. split; [|split; [apply set_step_has_step|constructor]].
    apply good_set_step. exists p0. split; [reflexivity|]. eapply sh_nostep; simpl; eauto. }
  set (r0 := mkRs (set_step SdSetupTest [] (fresh_cursor l [AtFire (RTestStart p)])) false [] false) in *.
  assert (R1 : rgood l (fst (if any_setup pairs then run_setup_funcs env (Some suite) pairs r0 [] else (r0, only_teardowns pairs)))).
  { destruct (any_setup pairs); [apply run_setup_funcs_good; exact R0|exact R0]. }
  destruct (if any_setup pairs then run_setup_funcs env (Some suite) pairs r0 [] else (r0, only_teardowns pairs)) as [r1 kept] eqn:E1.
  simpl in R1.
  destruct (rs_died r1) eqn:D1; [apply finish_died; auto|].
  set (r2 := if rs_failed r1 then r1 else _).
  assert (R2 : rgood l r2).
  { unfold r2. destruct (rs_failed r1); auto.
    destruct R1 as [G1 [H1 C1]].
    pose proof (run_script_good (OBody p) env (tt_body t) (set_step (SdTest (tt_name t)) [] (rs_t r1)) false (rs_children r1) l
                                (good_set_step _ _ _ _ G1) (set_step_has_step _ _ _) C1) as [G2 [H2 C2]].
    destruct (sr_raised (run_script (OBody p) env (tt_body t) (set_step (SdTest (tt_name t)) [] (rs_t r1)) false (rs_children r1))).
    - apply after_exception_good. unfold rgood; cbn [rs_t rs_children]; auto.
    - unfold rgood; cbn [rs_t rs_children]; auto. }
  destruct (rs_died r2) eqn:D2; [apply finish_died; auto|].
  set (r3 := if any_teardown kept then _ else r2).
  assert (R3 : rgood l r3).
  { unfold r3. destruct (any_teardown kept); auto. unfold run_teardown_funcs. apply run_teardown_list_good.
    destruct R2 as [G2 [H2 C2]]. unfold rgood; cbn [rs_t rs_children].
    split; [apply good_set_step; auto|split; auto]. apply set_step_has_step. }
  destruct (rs_died r3) eqn:D3; [apply finish_died; auto|].
  destruct R3 as [G3 [H3 C3]].
  pose proof (close_result l (rs_t r3) (RTestEnd p) G3 eq_refl) as Dn.
  constructor; unfold finish; cbn [to_main to_children to_res rs_t rs_children rs_died]; auto.
  apply (thread_done_prefix _ _ _ Dn).
Qed.

Theorem setup_phase_threads_ok env l start end_ is_start d pairs :
  result_level start = true -> result_level end_ = true ->
  threads_ok l (setup_phase env l start end_ is_start d pairs).
Proof.
  intros Rs Re. unfold setup_phase. destruct (any_setup pairs).
  2:{ apply threads_ok_simple. intros a []. }
  set (r0 := mkRs (set_step d [] (hold start (fresh_cursor l []))) false [] false).
  assert (R0 : rgood l r0).
  { unfold rgood, r0; cbn [rs_t rs_children]. split; [|split; [apply set_step_has_step|constructor]].
    apply good_set_step. exists p0. split; [reflexivity|].
    eapply sh_nostep with (pre := [start]); simpl; eauto. }
  pose proof (run_setup_funcs_good env None pairs r0 [] l R0) as R1.
  destruct (run_setup_funcs env None pairs r0 []) as [r kept]. simpl in R1.
  destruct (rs_died r) eqn:D; [apply finish_died; auto|].
  destruct R1 as [G1 [H1 C1]].
  pose proof (close_phase l (rs_t r) is_start end_ G1 Re) as Dn.
  constructor; unfold finish; cbn [to_main to_children to_res rs_t rs_children rs_died]; auto.
  apply (thread_done_prefix _ _ _ Dn).
Qed.

Theorem teardown_phase_threads_ok env l start end_ is_start d kept :
  result_level start = true -> result_level end_ = true ->
  threads_ok l (teardown_phase env l start end_ is_start d kept).
Proof.
  intros Rs Re. unfold teardown_phase. destruct (any_teardown kept).
  2:{ apply threads_ok_simple. intros a []. }
  set (r0 := mkRs (set_step d [] (hold start (fresh_cursor l []))) false [] false).
  assert (R0 : rgood l r0).
  { unfold rgood, r0; cbn [rs_t rs_children]. split; [|split; [apply set_step_has_step|constructor]].
    apply good_set_step. exists p0. split; [reflexivity|].
    eapply sh_nostep with (pre := [start]); simpl; eauto. }
  pose proof (run_teardown_list_good env None (rev kept) r0 l R0) as R1.
  unfold run_teardown_funcs. destruct (rs_died (run_teardown_list env None (rev kept) r0)) eqn:D; [apply finish_died; auto|].
  destruct R1 as [G1 [H1 C1]].
  pose proof (close_phase l (rs_t (run_teardown_list env None (rev kept) r0)) is_start end_ G1 Re) as Dn.
  constructor; cbn [to_main to_children to_res]; auto.
  apply (thread_done_prefix _ _ _ Dn).
Qed.

(* the location whose events a task emits *)
Definition task_loc (t : task) : loc :=
  match t_kind t with
  | KSessionSetup => LSessionSetup
  | KSessionTeardown => LSessionTeardown
  | KSuiteInit => LSuiteSetup (t_path t)
  | KSuiteTeardown => LSuiteTeardown (t_path t)
  | _ => LTest (t_path t)             (* KTest; Begin / End tasks emit a single suite-level event, no step, no log *)
  end.

Theorem task_sem_threads_ok pr reg force t md setup_md o :
  task_sem pr reg force t md setup_md = Some o -> threads_ok (task_loc t) o.
Proof.
  unfold task_sem, task_loc. destruct (t_kind t).
  - destruct md; intros H; inversion H; subst; clear H.
    + apply setup_phase_threads_ok; reflexivity.
    + apply threads_ok_simple. intros a [].
  - intros H; inversion H; subst. apply threads_ok_simple. simpl. intros a [<-|[]]; auto.
  - destruct (find_suite_in (p_suites pr) (t_path t) false) as [[s inh]|]; [|discriminate].
    destruct md; intros H; inversion H; subst; clear H.
    + apply setup_phase_threads_ok; reflexivity.
    + apply threads_ok_simple. intros a [].
  - destruct (find_test_in (p_suites pr) (t_path t)) as [[[s inh] tst]|]; [|discriminate].
    destruct ((inh || su_disabled s || tt_disabled tst) && negb force).
    + intros H; inversion H; subst. apply threads_ok_simple. simpl. intros a [<-|[]]; auto.
    + destruct md; intros H; inversion H; subst; clear H.
      * apply test_run_threads_ok.
      * apply threads_ok_simple. simpl. intros a [<-|[<-|[]]]; auto.
  - destruct (find_suite_in (p_suites pr) (t_path t) false) as [[s inh]|]; [|discriminate].
    intros H; inversion H; subst; clear H. apply teardown_phase_threads_ok; reflexivity.
  - intros H; inversion H; subst. apply threads_ok_simple. simpl. intros a [<-|[]]; auto.
  - intros H; inversion H; subst; clear H. apply teardown_phase_threads_ok; reflexivity.
Qed.

(* ------------------------------------------------------------------ consequences read off the grammar (C06) *)
Lemma npath_eqb_eq p q : npath_eqb p q = true -> p = q.
Proof.
  unfold npath_eqb. revert q. induction p as [|a p IH]; intros [|b q] H; simpl in H; try discriminate; auto.
  apply andb_prop in H as [E1 E2]. apply Nat.eqb_eq in E1. subst. f_equal. auto.
Qed.
Lemma loc_eqb_eq a b : loc_eqb a b = true -> a = b.
Proof. destruct a, b; simpl; intros H; try discriminate; auto; f_equal; apply npath_eqb_eq; auto. Qed.

Lemma pstep_log_like l th q e q' l' d th' : pstep l th q e = Some q' -> log_like e = Some (l', d, th') -> l' = l /\ th' = th.
Proof.
  intros E Hl.
  destruct e; simpl in Hl; try discriminate; inversion Hl; subst; simpl in E;
    destruct (loc_eqb l' l) eqn:El; simpl in E; try discriminate;
    destruct (npath_eqb th' th) eqn:Et; simpl in E; try discriminate;
    (split; [apply loc_eqb_eq; auto|apply npath_eqb_eq; auto]).
Qed.

Lemma paccepts_log_like l th : forall evs q q', paccepts l th q evs = Some q' ->
  forall e l' d th', In e evs -> log_like e = Some (l', d, th') -> l' = l /\ th' = th.
Proof.
  induction evs as [|e0 r IH]; simpl; intros q q' H e l' d th' Hin Hl; [tauto|].
  destruct (pstep l th q e0) as [q1|] eqn:E; [|discriminate].
  destruct Hin as [<-|Hin]; [eapply pstep_log_like; eauto|eapply IH; eauto].
Qed.

(* every log, check, url and attachment event that a task emits carries the task's own location and the identifier of the
   thread that emitted it (and, by the grammar, the description of the step currently open in that thread) *)
Theorem task_events_stay_home pr reg force t md setup_md o :
  task_sem pr reg force t md setup_md = Some o ->
  (forall e l' d th', In e (events_of (to_main o)) -> log_like e = Some (l', d, th') -> l' = task_loc t /\ th' = []) /\
  (forall c e l' d th', In c (to_children o) -> In e (events_of (snd c)) -> log_like e = Some (l', d, th') ->
      l' = task_loc t /\ th' = snd (fst c)).
Proof.
  intros H. pose proof (task_sem_threads_ok pr reg force t md setup_md o H) as [_ [q A] C]. split.
  - intros e l' d th' Hin Hl. eapply paccepts_log_like; eauto.
  - intros c e l' d th' Hc Hin Hl. unfold children_ok in C. rewrite Forall_forall in C.
    destruct (C c Hc) as [q' [A' _]]. eapply paccepts_log_like; eauto.
Qed.
