(* The BRACKET DISCIPLINE of an event stream (Saving.all_admissible: nothing after SessionEnd, nothing inside an ended suite,
   no End / step for a finished result, no log / StepEnd for an ended step) is invariant under reordering of independent
   events.  It is therefore enough to establish it for ONE linearization (e.g. the sequential run) to have it for every
   parallel run that orders the dependent events the same way.

   The independence relation.  WriterOrderP.indep is the right relation for the REPORT the writer builds; for admissibility
   it is too generous in two respects, so the relation used here is the stronger

       indep_adm e1 e2 = indep e1 e2  &&  neither is ESessionStart / ESessionEnd  &&  end_ok e1 e2  &&  end_ok e2 e1

   (a) session events.  indep makes KSess events independent of everything else; but nothing is admissible after
       ESessionEnd (`is_none (w_end w)`: forced, Cex.session_end_vs_suite_end) and ESessionStart requires `w_start` empty.
       (Excluding ESessionStart is the conservative choice of the specification, not something a proof obligation
       forces: no other event reads or writes w_start.  It costs nothing: SessionStart is the first event of every run.)
   (b) end_ok: ESuiteEnd of the suite q is DEPENDENT on every event whose admissibility reads the end time of q, i.e. every
       event whose suite path (adm_spath: the suite that holds the result / the parent of the new test or suite / the suite
       itself for SuiteEnd, SuiteSetupStart, SuiteTeardownStart) has q as a prefix.  indep calls
           KRes _ _ / KSuiteEnd _          always independent,
           KSuiteEnd q / KSuiteEnd q'      independent when q <> q',
           KSuiteEnd q / KNewSuite p       independent when p is not a prefix of q,
       which is right for the writer (SuiteEnd only stores the end time) and wrong for admissibility: the event that comes
       AFTER the SuiteEnd of an enclosing suite is inside an ended suite.  This strengthening is FORCED: without it
       admissible_swap is false (counter-examples evaluated below: Cex.test_vs_suite_end, Cex.nested_suite_ends,
       Cex.child_suite_vs_suite_end).  (ESessionEnd is the same phenomenon at the root: it is the "SuiteEnd" of the path [].)
   Nothing else had to be excluded: an event other than SuiteEnd / SessionEnd never changes what `admissible` reads for an
   event that indep calls independent (a new suite is open and empty, exactly what path_open / get_result answer for a
   suite that does not exist).

   Results
     admissible_wequiv            admissible does not see the insertion order of the children (names_distinct: the
                                  invariant of WriterOrderP, names_distinct_init / names_distinct_step)
     admissible_frame             an independent event does not change the admissibility of the other one
     admissible_swap              two adjacent independent admissible events are admissible in the other order
     all_admissible_teq           all_admissible is invariant under teq indep_adm
     all_admissible_linearizations   same tagged events + same order of the dependent ones => all_admissible carries over
     coverage_admb(_sound)        executable H3 (LinearizeP.linearize_tasks) for indep_adm
     AdmEx                        non-vacuity on LinearizeP.LinEx.ts1 / ts2

   Method: as in WriterOrderP the state is ONE tree (root_of); what `admissible` reads is
     topen p s      no end time on the path p below s (s included)        = is_none (w_end w) && path_open p (w_suites w)
     tget p sl s    the Result in slot sl of the node at p                = get_result (rslot)
     lookup_active th
   (admissible_nf), and every event is one `upd_at p (run_lop o)`: topen_upd_at / tget_upd_at say which observations an
   update leaves alone, run_lop_topen / run_lop_tget what each local operation touches.

   Only stdlib. *)
From Coq Require Import List NArith ZArith Bool Lia Arith Permutation.
Import ListNotations.
From LCC Require Import Base.Util Model.Report Model.Events Model.Writer Proofs.WriterP Proofs.WriterFilingP
  Proofs.WriterOrderP Proofs.LinearizeP.
From LCC Require Model.Saving.

Notation admissible := Saving.admissible.
Notation all_admissible := Saving.all_admissible.
Notation is_none := Saving.is_none.

(* ====================================================================================================================== *)
(* 1. what admissible reads, on the tree                                                                                   *)
(* ====================================================================================================================== *)
(* no end time on s nor on the suites found along p below s (a suite that is not there counts as open: Saving.path_open) *)
Fixpoint topen (p : path) (s : lsuite) : bool :=
  is_none (WriterOrderP.ls_end s) &&
  match p with
  | [] => true
  | n :: rest => match find_first n (ls_subs s) with Some c => topen rest c | None => true end
  end.

(* the Result in slot sl of the node at p below s *)
Fixpoint tget (p : path) (sl : slot) (s : lsuite) : option result :=
  match p with
  | [] => slot_get sl s
  | n :: rest => match find_first n (ls_subs s) with Some c => tget rest sl c | None => None end
  end.

Lemma ff_eq : forall n l, find_first n l = Saving.find_first n l.
Proof. reflexivity. Qed.

Lemma path_open_topen : forall p l,
  Saving.path_open p l = match p with
                         | [] => true
                         | n :: rest => match find_first n l with Some c => topen rest c | None => true end
                         end.
Proof.
  induction p as [|n rest IH]; intros l; [reflexivity|].
  cbn [Saving.path_open]. rewrite <- ff_eq. destruct (find_first n l) as [c|]; [|reflexivity].
  destruct rest as [|m r].
  - cbn [topen]. destruct c; reflexivity.
  - rewrite (IH (ls_subs c)). cbn [topen]. destruct c; reflexivity.
Qed.

Lemma topen_root : forall p w, topen p (root_of w) = is_none (w_end w) && Saving.path_open p (w_suites w).
Proof. intros p w. rewrite path_open_topen. destruct p; reflexivity. Qed.

Lemma sget_tget : forall sl r n l, sget (n :: r) sl l = match find_first n l with Some c => tget r sl c | None => None end.
Proof.
  induction r as [|m r IH]; intros n l; unfold sget; rewrite get_suite_cons; destruct (find_first n l) as [c|]; try reflexivity.
  fold (sget (m :: r) sl (ls_subs c)). rewrite IH. reflexivity.
Qed.

Lemma get_result_tree : forall loc w,
  Saving.get_result loc w = match rslot loc with Some (p, sl) => tget p sl (root_of w) | None => None end.
Proof.
  intros loc w. rewrite <- get_result_saving. destruct (rslot loc) as [[p sl]|] eqn:R.
  - destruct (rslot_loc_slot _ _ _ R) as [[Ep [[El Es]|[El Es]]]|[Np Ls]].
    + subst. reflexivity.
    + subst. reflexivity.
    + rewrite (get_result_slot _ _ _ _ Ls). destruct p as [|n r]; [contradiction|]. rewrite sget_tget. reflexivity.
  - destruct loc as [| |p|p|p]; cbn [rslot] in R; try discriminate.
    + destruct p; [reflexivity|discriminate].
    + destruct p; [reflexivity|discriminate].
    + cbn [get_result]. destruct (split_last p) as [[[|n0 q] n]|]; try discriminate; reflexivity.
Qed.

(* ---------------- which observations an update of the node at q leaves alone ---------------- *)
Lemma ls_end_set_subs : forall s u, WriterOrderP.ls_end (set_ls_subs s u) = WriterOrderP.ls_end s.
Proof. destruct s; reflexivity. Qed.

Lemma topen_upd_at : forall X (f : lsuite -> res (lsuite * X)) (R : path -> Prop), pres_name f ->
  (forall c c' x, f c = Ok (c', x) -> forall p, R p -> topen p c' = topen p c) ->
  forall q s s' x, upd_at q f s = Ok (s', x) -> forall p, (forall r, p = q ++ r -> R r) -> topen p s' = topen p s.
Proof.
  intros X f R Hf HR. induction q as [|n r IH]; intros s s' x H p Hp.
  - cbn [upd_at] in H. eapply HR; [exact H|]. apply Hp. reflexivity.
  - cbn [upd_at] in H. apply put_ok in H. destruct H as (u & Hu & E). subst s'.
    destruct (upd_first_names _ _ _ _ _ _ Hu) as (pre & c & post & c' & E1 & E2 & E3 & E4 & E5).
    assert (Hc' : ls_name c' = n) by (rewrite (upd_at_pres_name _ f r Hf _ _ _ E2); exact E5).
    destruct p as [|m rest]; cbn [topen]; rewrite ls_end_set_subs; [reflexivity|].
    rewrite ls_subs_set_subs. f_equal. rewrite E1, E3.
    destruct (str_eqb n m) eqn:Em.
    + apply str_eqb_eq in Em. subst m. rewrite !find_first_mid by auto.
      apply (IH _ _ _ E2). intros r' Er. apply Hp. subst rest. reflexivity.
    + rewrite (find_first_other m pre c c' post); [reflexivity|congruence|rewrite E5; exact Em].
Qed.

Lemma tget_upd_at : forall X (f : lsuite -> res (lsuite * X)) (R : path -> slot -> Prop), pres_name f ->
  (forall c c' x, f c = Ok (c', x) -> forall p sl, R p sl -> tget p sl c' = tget p sl c) ->
  forall q s s' x, upd_at q f s = Ok (s', x) -> forall p sl, (forall r, p = q ++ r -> R r sl) -> tget p sl s' = tget p sl s.
Proof.
  intros X f R Hf HR. induction q as [|n r IH]; intros s s' x H p sl Hp.
  - cbn [upd_at] in H. eapply HR; [exact H|]. apply Hp. reflexivity.
  - cbn [upd_at] in H. apply put_ok in H. destruct H as (u & Hu & E). subst s'.
    destruct (upd_first_names _ _ _ _ _ _ Hu) as (pre & c & post & c' & E1 & E2 & E3 & E4 & E5).
    assert (Hc' : ls_name c' = n) by (rewrite (upd_at_pres_name _ f r Hf _ _ _ E2); exact E5).
    destruct p as [|m rest]; cbn [tget]; [apply slot_get_set_subs|].
    rewrite ls_subs_set_subs. rewrite E1, E3.
    destruct (str_eqb n m) eqn:Em.
    + apply str_eqb_eq in Em. subst m. rewrite !find_first_mid by auto.
      apply (IH _ _ _ E2). intros r' Er. apply Hp. subst rest. reflexivity.
    + rewrite (find_first_other m pre c c' post); [reflexivity|congruence|rewrite E5; exact Em].
Qed.

Lemma topen_ext : forall p s s', WriterOrderP.ls_end s' = WriterOrderP.ls_end s -> ls_subs s' = ls_subs s -> topen p s' = topen p s.
Proof. intros p s s' E1 E2. destruct p; cbn [topen]; rewrite E1; [reflexivity|rewrite E2; reflexivity]. Qed.

Lemma tget_ext : forall p sl s s', ls_subs s' = ls_subs s -> (p = [] -> slot_get sl s' = slot_get sl s) -> tget p sl s' = tget p sl s.
Proof. intros p sl s s' E1 E2. destruct p; cbn [tget]; [apply E2; reflexivity|rewrite E1; reflexivity]. Qed.

(* ---------------- what each local operation touches ---------------- *)
Lemma new_suite_topen : forall m rk t p, topen p (new_suite m rk t) = true.
Proof. intros. destruct p; reflexivity. Qed.
Lemma new_suite_tget : forall m rk t p sl, tget p sl (new_suite m rk t) = None.
Proof. intros. destruct p; [destruct sl; reflexivity|reflexivity]. Qed.

(* only OEnd (component 1) changes an end time; a new sub-suite is open, as a missing one is *)
Lemma run_lop_topen : forall o c c' x, run_lop o c = Ok (c', x) -> comp o <> 1 -> forall p, topen p c' = topen p c.
Proof.
  intros o c c' x H Hc p. pose proof (proj2 (agn_end o Hc) _ _ _ H) as Ee. cbn [lget Lend] in Ee.
  destruct (Nat.eq_dec (comp o) 5) as [E5|E5].
  - destruct o as [t|t|[|] t|nd r|m rk t|[| |n] ne fr]; try discriminate.
    rewrite (subs_local _ E5) in H. apply put_ok in H. destruct H as (u & Hu & E). subst c'.
    apply subs_fn_ok in Hu. destruct Hu as (T & Eu & _). subst u.
    destruct p as [|n rest]; cbn [topen]; rewrite ls_end_set_subs; [reflexivity|].
    rewrite ls_subs_set_subs, find_first_app. destruct (find_first n (ls_subs c)); [reflexivity|].
    destruct (str_eqb _ n); [rewrite new_suite_topen|]; reflexivity.
  - pose proof (proj2 (agn_subs o E5) _ _ _ H) as Es. cbn [lget Lsubs] in Es. apply topen_ext; assumption.
Qed.

(* an operation touches the Result of its own slot (lop_slot) of its own node, nothing else *)
Lemma run_lop_tget : forall o c c' x, run_lop o c = Ok (c', x) ->
  forall p sl, (p = [] -> lop_slot o <> Some sl) -> tget p sl c' = tget p sl c.
Proof.
  intros o c c' x H p sl Hp.
  destruct o as [t|t|[|] t|nd r|m rk t|sl0 ne fr]; cbn [lop_slot] in Hp.
  - cbn [run_lop] in H. inversion H; subst. apply tget_ext; [destruct c; reflexivity|intros _; destruct sl, c; reflexivity].
  - cbn [run_lop] in H. inversion H; subst. apply tget_ext; [destruct c; reflexivity|intros _; destruct sl, c; reflexivity].
  - destruct c as [m0 rk0 a e su td ts us]. run_inv H. inversion H; subst. apply tget_ext; [reflexivity|].
    intros Ep. specialize (Hp Ep). destruct sl; try reflexivity. exfalso. apply Hp. reflexivity.
  - destruct c as [m0 rk0 a e su td ts us]. run_inv H. inversion H; subst. apply tget_ext; [reflexivity|].
    intros Ep. specialize (Hp Ep). destruct sl; try reflexivity. exfalso. apply Hp. reflexivity.
  - destruct c as [m0 rk0 a e su td ts us]. run_inv H. inversion H; subst. apply tget_ext; [reflexivity|].
    intros Ep. specialize (Hp Ep). destruct sl as [| |n]; try reflexivity. cbn [slot_get ls_tests set_ls_tests].
    rewrite get_test_app. destruct (get_test n ts); [reflexivity|].
    destruct (str_eqb (m_name (n_meta nd)) n) eqn:En; [|reflexivity].
    exfalso. apply Hp. apply str_eqb_eq in En. rewrite En. reflexivity.
  - assert (E5 : comp (OAddSub m rk t) = 5) by reflexivity.
    rewrite (subs_local _ E5) in H. apply put_ok in H. destruct H as (u & Hu & E). subst c'.
    apply subs_fn_ok in Hu. destruct Hu as (T & Eu & _). subst u.
    destruct p as [|n rest]; cbn [tget]; [apply slot_get_set_subs|].
    rewrite ls_subs_set_subs, find_first_app. destruct (find_first n (ls_subs c)); [reflexivity|].
    destruct (str_eqb _ n); [rewrite new_suite_tget|]; reflexivity.
  - cbn [run_lop] in H. destruct (slot_upd_spec _ _ _ _ _ _ _ H) as (_ & Es & r & r' & _ & _ & _ & Ho).
    apply tget_ext; [exact Es|]. intros Ep. apply Ho. intro E. apply (Hp Ep). rewrite E. reflexivity.
Qed.

(* ====================================================================================================================== *)
(* 2. the observations do not see the insertion order of the children                                                      *)
(* ====================================================================================================================== *)
Lemma find_first_In : forall n l c, find_first n l = Some c -> In c l.
Proof.
  induction l as [|s r IH]; simpl; intros c H; [discriminate|]. destruct (str_eqb (ls_name s) n).
  - inversion H; subst. left. reflexivity.
  - right. apply IH. exact H.
Qed.

Definition ff_rel (a b : option lsuite) : Prop :=
  match a, b with Some c, Some c' => sequiv c c' | None, None => True | _, _ => False end.

Lemma ff_rel_refl : forall a, ff_rel a a.
Proof. destruct a; simpl; auto using sequiv_refl. Qed.

Lemma find_first_lequiv : forall l l', lequiv l l' -> NoDup (map ls_name l) ->
  forall n, ff_rel (find_first n l) (find_first n l').
Proof.
  intros l l' H. induction H as [|s s' l l' Hs Hl IH|a b l|l1 l2 l3 H1 IH1 H2 IH2]; intros Hnd n.
  - exact I.
  - cbn [find_first]. rewrite <- (sequiv_name _ _ Hs). destruct (str_eqb (ls_name s) n); [exact Hs|].
    apply IH. inversion Hnd; assumption.
  - assert (Hab : ls_name a <> ls_name b).
    { inversion Hnd; subst. intro E. apply H1. left. symmetry. exact E. }
    cbn [find_first]. destruct (str_eqb (ls_name a) n) eqn:Ea; destruct (str_eqb (ls_name b) n) eqn:Eb; try apply ff_rel_refl.
    apply str_eqb_eq in Ea. apply str_eqb_eq in Eb. exfalso. apply Hab. congruence.
  - assert (Hnd2 : NoDup (map ls_name l2)) by (eapply Permutation_NoDup; [apply lequiv_names_perm; exact H1|exact Hnd]).
    specialize (IH1 Hnd n). specialize (IH2 Hnd2 n).
    destruct (find_first n l1), (find_first n l2), (find_first n l3); simpl in *; try contradiction; auto.
    eapply sequiv_trans; eassumption.
Qed.

Lemma get_test_perm : forall n l l', Permutation l l' -> NoDup (map tname l) -> get_test n l = get_test n l'.
Proof.
  intros n l l' H. induction H as [|a l l' H IH|a b l|l1 l2 l3 H1 IH1 H2 IH2]; intros Hnd.
  - reflexivity.
  - cbn [get_test]. rewrite IH by (inversion Hnd; assumption). reflexivity.
  - assert (Hab : tname b <> tname a).
    { inversion Hnd; subst. intro E. apply H1. left. symmetry. exact E. }
    unfold tname in Hab. cbn [get_test].
    destruct (str_eqb (m_name (t_meta (snd b))) n) eqn:Eb; destruct (str_eqb (m_name (t_meta (snd a))) n) eqn:Ea; try reflexivity.
    apply str_eqb_eq in Ea. apply str_eqb_eq in Eb. exfalso. apply Hab. congruence.
  - rewrite IH1 by assumption. apply IH2. eapply Permutation_NoDup; [apply Permutation_map; exact H1|exact Hnd].
Qed.

Lemma obs_sequiv : forall p s s', sequiv s s' -> deep node_names s ->
  topen p s = topen p s' /\ forall sl, tget p sl s = tget p sl s'.
Proof.
  induction p as [|n rest IH]; intros s s' Hs Hd; inversion Hs as [m rk a e x y ts ts' us us' Hp Hl]; subst;
    apply deep_unfold in Hd; destruct Hd as [[Hnt Hns] HF]; cbn [ls_tests ls_subs] in *.
  - split; [reflexivity|]. intros [| |k]; cbn [tget slot_get ls_setup ls_teardown ls_tests]; try reflexivity.
    apply get_test_perm; assumption.
  - pose proof (find_first_lequiv _ _ Hl Hns n) as Hff. cbn [topen tget ls_subs].
    change (WriterOrderP.ls_end (LSuite m rk a e x y ts us)) with e. change (WriterOrderP.ls_end (LSuite m rk a e x y ts' us')) with e.
    destruct (find_first n us) as [c|] eqn:Ec; destruct (find_first n us') as [c'|]; simpl in Hff; try contradiction.
    + assert (Hdc : deep node_names c).
      { apply find_first_In in Ec. rewrite Forall_forall in HF. apply HF. exact Ec. }
      destruct (IH c c' Hff Hdc) as [A B]. rewrite A. split; [reflexivity|exact B].
    + split; reflexivity.
Qed.

Lemma topen_wequiv : forall w w' p, wequiv w w' -> names_distinct w -> topen p (root_of w) = topen p (root_of w').
Proof. intros w w' p Hq Hn. apply (obs_sequiv p _ _ (wequiv_roots _ _ Hq) (proj1 (names_root w) Hn)). Qed.

Lemma get_result_wequiv : forall w w' loc, wequiv w w' -> names_distinct w -> Saving.get_result loc w = Saving.get_result loc w'.
Proof.
  intros w w' loc Hq Hn. rewrite !get_result_tree. destruct (rslot loc) as [[p sl]|]; [|reflexivity].
  apply (obs_sequiv p _ _ (wequiv_roots _ _ Hq) (proj1 (names_root w) Hn)).
Qed.

(* ====================================================================================================================== *)
(* 3. admissible in terms of the observations                                                                              *)
(* ====================================================================================================================== *)
(* the location whose Result admissible reads (for a StepEnd / log-like event: the owner of the thread's open step) *)
Definition adm_loc (w : wstate) (e : event) : option location :=
  match e with
  | ESessionSetupEnd _ => Some LocSessionSetup
  | ESessionTeardownEnd _ => Some LocSessionTeardown
  | ESuiteSetupEnd n _ => Some (LocSuiteSetup (node_path n))
  | ESuiteTeardownEnd n _ => Some (LocSuiteTeardown (node_path n))
  | ETestEnd n _ => Some (LocTest (node_path n))
  | EStepStart loc _ _ _ => Some loc
  | EStepEnd _ _ th _ | ELog _ _ th _ _ _ | ECheck _ _ th _ _ _ _ | ELogAttachment _ _ th _ _ _ _ | ELogUrl _ _ th _ _ _ =>
      match lookup_active th (w_active w) with Some ref => Some (fst ref) | None => None end
  | _ => None
  end.

(* the suite that must be open, with all its ancestors *)
Definition adm_path (w : wstate) (e : event) : path :=
  match e with
  | ESuiteStart n _ | ETestStart n _ | ETestSkipped n _ _ | ETestDisabled n _ _ => n_parent n
  | ESuiteEnd n _ | ESuiteSetupStart n _ | ESuiteTeardownStart n _ => node_path n
  | _ => match adm_loc w e with Some loc => Saving.loc_path loc | None => [] end
  end.

Definition ropen (o : option result) : bool := match o with Some r => is_none (r_end r) | None => true end.
Definition sopen (o : option result) (i : nat) : bool :=
  match o with
  | Some r => match nth_error (r_steps r) i with Some st => is_none (st_end st) | None => true end
  | None => true
  end.

Definition adm_rest (w : wstate) (e : event) : bool :=
  match e with
  | ESessionStart _ => is_none (w_start w)
  | EStepEnd _ _ th _ | ELog _ _ th _ _ _ | ECheck _ _ th _ _ _ _ | ELogAttachment _ _ th _ _ _ _ | ELogUrl _ _ th _ _ _ =>
      match lookup_active th (w_active w) with
      | Some ref => ropen (Saving.get_result (fst ref) w) && sopen (Saving.get_result (fst ref) w) (snd ref)
      | None => true
      end
  | _ => match adm_loc w e with Some loc => ropen (Saving.get_result loc w) | None => true end
  end.

Lemma admissible_nf : forall w e, admissible w e = topen (adm_path w e) (root_of w) && adm_rest w e.
Proof.
  intros w e. rewrite topen_root.
  destruct e; unfold Saving.admissible, Saving.result_open, Saving.active_open, Saving.step_open, Saving.result_open,
    adm_path, adm_rest, adm_loc, ropen, sopen;
    try (destruct (lookup_active thread (w_active w)) as [ref|]);
    cbn [Saving.loc_path Saving.path_open fst snd];
    destruct (is_none (w_end w)); cbn [andb]; rewrite ?andb_true_r, ?andb_assoc; reflexivity.
Qed.

Lemma admissible_agree : forall w w' e,
  (forall th, thread_of e = Some th -> lookup_active th (w_active w') = lookup_active th (w_active w)) ->
  (forall t, e = ESessionStart t -> w_start w' = w_start w) ->
  topen (adm_path w e) (root_of w') = topen (adm_path w e) (root_of w) ->
  (forall loc, adm_loc w e = Some loc -> Saving.get_result loc w' = Saving.get_result loc w) ->
  admissible w' e = admissible w e.
Proof.
  intros w w' e Hth Hst Hto Hget. rewrite !admissible_nf.
  assert (El : adm_loc w' e = adm_loc w e).
  { destruct e; cbn [adm_loc]; try reflexivity; rewrite (Hth thread eq_refl); reflexivity. }
  assert (Ep : adm_path w' e = adm_path w e) by (destruct e; cbn [adm_path]; try reflexivity; rewrite El; reflexivity).
  rewrite Ep, Hto. f_equal.
  clear El Ep Hto.
  destruct e; cbn [adm_rest adm_loc] in *; try reflexivity;
    try (rewrite (Hst _ eq_refl); reflexivity);
    try (rewrite (Hget _ eq_refl); reflexivity);
    try (rewrite (Hth thread eq_refl);
         destruct (lookup_active thread (w_active w)) as [ref|]; [rewrite (Hget _ eq_refl)|]; reflexivity).
Qed.

(* item 1 *)
Theorem admissible_wequiv : forall w w' e, wequiv w w' -> names_distinct w -> admissible w e = admissible w' e.
Proof.
  intros w w' e Hq Hn. symmetry. apply admissible_agree.
  - intros th _. symmetry. apply Hq.
  - intros t _. symmetry. apply Hq.
  - symmetry. apply topen_wequiv; assumption.
  - intros loc _. symmetry. apply get_result_wequiv; assumption.
Qed.

(* ====================================================================================================================== *)
(* 4. what one event changes                                                                                               *)
(* ====================================================================================================================== *)
Lemma apply_root : forall w e w1, apply w e = Ok w1 -> aligned w e ->
  exists p o x, desc (WriterOrderP.kind_of e) p o /\ upd_at p (run_lop o) (root_of w) = Ok (root_of w1, x) /\
                w_active w1 = post_active e x (w_active w).
Proof.
  intros w e w1 H Ha. apply apply_tree in H. destruct (tree_apply_ok _ _ _ H) as (c & p & o & s' & x & _ & S1 & U & E).
  pose proof (sem_desc _ _ _ _ Ha S1) as D.
  assert (R : rootlike s') by (eapply upd_rootlike; [exact D|apply rootlike_root|exact U]).
  exists p, o, x. split; [exact D|]. subst w1. rewrite root_post, (root_with_root _ _ R), post_active_eq. split; [exact U|reflexivity].
Qed.

Lemma is_prefix_app : forall p r, is_prefix p (p ++ r) = true.
Proof. intros. apply is_prefix_spec. eauto. Qed.

(* the end times: only SessionEnd and SuiteEnd change one, and SuiteEnd only for the paths through its suite *)
Lemma apply_topen_frame : forall w e w1, apply w e = Ok w1 -> aligned w e -> forall p,
  (forall t, e <> ESessionEnd t) -> (forall n t, e = ESuiteEnd n t -> is_prefix (node_path n) p = false) ->
  topen p (root_of w1) = topen p (root_of w).
Proof.
  intros w e w1 H Ha p Hse Hsu. destruct (apply_root _ _ _ H Ha) as (q & o & x & D & U & _).
  apply (topen_upd_at _ (run_lop o) (fun _ => comp o <> 1) (run_lop_pres_name o)) with (q := q) (x := x); [|exact U|].
  - intros c c' y Hc p' Hne. eapply run_lop_topen; eassumption.
  - intros r Er Hc.
    destruct e; cbn [WriterOrderP.kind_of desc] in D;
      try (destruct D as (sl & _ & Sl); destruct (lop_slot_comp _ _ Sl) as [Cc _]; rewrite Cc in Hc; destruct sl; discriminate Hc);
      try (destruct D as (_ & Cc & _); rewrite Cc in Hc; discriminate Hc);
      try (destruct D as (_ & Cc); rewrite Cc in Hc; discriminate Hc).
    + exact (Hse _ eq_refl).
    + destruct D as (Eq & _ & _). subst q p.
      pose proof (is_prefix_app (node_path suite) r) as Hp. rewrite (Hsu _ _ eq_refl) in Hp. discriminate Hp.
Qed.

(* the Results: only the one the event is about (its kind is KRes loc _) *)
Lemma apply_get_frame : forall w e w1, apply w e = Ok w1 -> aligned w e -> forall loc,
  (forall th, WriterOrderP.kind_of e <> KRes loc th) -> Saving.get_result loc w1 = Saving.get_result loc w.
Proof.
  intros w e w1 H Ha loc Hk. rewrite !get_result_tree. destruct (rslot loc) as [[p sl]|] eqn:R; [|reflexivity].
  destruct (apply_root _ _ _ H Ha) as (q & o & x & D & U & _).
  apply (tget_upd_at _ (run_lop o) (fun r sl' => r = [] -> lop_slot o <> Some sl') (run_lop_pres_name o)) with (q := q) (x := x);
    [|exact U|].
  - intros c c' y Hc p' sl' Hne. eapply run_lop_tget; eassumption.
  - intros r Er En Hsl. subst r. rewrite app_nil_r in Er. subst q.
    destruct (lop_slot_comp _ _ Hsl) as [Cc _].
    destruct (WriterOrderP.kind_of e) as [i|l t|k|k] eqn:K; cbn [desc] in D.
    + destruct D as (_ & Ci & Hi). destruct sl; cbn in Cc; lia.
    + destruct D as (sl1 & R1 & S1). rewrite Hsl in S1. inversion S1; subst sl1.
      apply (Hk t). rewrite (rslot_inj _ _ _ _ R R1). reflexivity.
    + destruct D as (_ & C1 & _). destruct sl; cbn in Cc; lia.
    + destruct D as (_ & C5). destruct sl; cbn in Cc; lia.
Qed.

Lemma apply_active_frame : forall w e w1 th, apply w e = Ok w1 -> aligned w e ->
  (forall th', thread_of e = Some th' -> th' <> th) -> lookup_active th (w_active w1) = lookup_active th (w_active w).
Proof.
  intros w e w1 th H Ha Hth. destruct (apply_root _ _ _ H Ha) as (q & o & x & _ & _ & A). rewrite A.
  apply post_lookup_other. exact Hth.
Qed.

(* ====================================================================================================================== *)
(* 5. the independence relation for admissibility                                                                          *)
(* ====================================================================================================================== *)
(* adm_path, read off the event (what it is when the event is aligned and its thread has an open step) *)
Definition adm_spath (e : event) : path :=
  match e with
  | ESuiteStart n _ | ETestStart n _ | ETestSkipped n _ _ | ETestDisabled n _ _ => n_parent n
  | ESuiteEnd n _ | ESuiteSetupStart n _ | ESuiteTeardownStart n _ | ESuiteSetupEnd n _ | ESuiteTeardownEnd n _ => node_path n
  | ETestEnd n _ => Saving.loc_path (LocTest (node_path n))       (* = n_parent n: adm_spath_test_end *)
  | EStepStart loc _ _ _ | EStepEnd loc _ _ _ | ELog loc _ _ _ _ _ | ECheck loc _ _ _ _ _ _
  | ELogAttachment loc _ _ _ _ _ _ | ELogUrl loc _ _ _ _ _ => Saving.loc_path loc
  | _ => []
  end.

Lemma adm_spath_test_end : forall n t, adm_spath (ETestEnd n t) = n_parent n.
Proof. intros. cbn [adm_spath Saving.loc_path]. unfold node_path. rewrite split_last_app. reflexivity. Qed.

Definition no_sess (e : event) : bool := match e with ESessionStart _ | ESessionEnd _ => false | _ => true end.

(* e1 is not the end of a suite that must be open for e2 *)
Definition end_ok (e1 e2 : event) : bool :=
  match e1 with ESuiteEnd n _ => negb (is_prefix (node_path n) (adm_spath e2)) | _ => true end.

Definition indep_adm (e1 e2 : event) : bool :=
  indep e1 e2 && (no_sess e1 && no_sess e2) && (end_ok e1 e2 && end_ok e2 e1).

Theorem indep_adm_sym : forall e1 e2, indep_adm e1 e2 = indep_adm e2 e1.
Proof.
  intros. unfold indep_adm. rewrite (indep_sym e1 e2), (andb_comm (no_sess e1)), (andb_comm (end_ok e1 e2)). reflexivity.
Qed.

Lemma indep_adm_inv : forall e1 e2, indep_adm e1 e2 = true ->
  indep e1 e2 = true /\ no_sess e1 = true /\ no_sess e2 = true /\ end_ok e1 e2 = true /\ end_ok e2 e1 = true.
Proof.
  intros e1 e2 H. unfold indep_adm in H. apply andb_true_iff in H. destruct H as [H H3]. apply andb_true_iff in H. destruct H as [H1 H2].
  apply andb_true_iff in H2. apply andb_true_iff in H3. tauto.
Qed.

Lemma indep_adm_indep : forall e1 e2, indep_adm e1 e2 = true -> indep e1 e2 = true.
Proof. intros e1 e2 H. apply indep_adm_inv in H. tauto. Qed.

Lemma adm_path_static : forall w e, aligned w e -> adm_path w e = adm_spath e \/ adm_path w e = [].
Proof.
  intros w e Ha. destruct e; cbn [adm_path adm_spath adm_loc]; auto;
    (destruct (lookup_active thread (w_active w)) as [[loc' i]|] eqn:El; [|right; reflexivity]);
    left; rewrite (Ha _ _ _ _ eq_refl El); reflexivity.
Qed.

Lemma adm_loc_kind : forall w e loc, aligned w e -> adm_loc w e = Some loc -> exists th, WriterOrderP.kind_of e = KRes loc th.
Proof.
  intros w e loc Ha H. destruct e; cbn [adm_loc WriterOrderP.kind_of] in *; try discriminate;
    try (inversion H; subst; eexists; reflexivity);
    (destruct (lookup_active thread (w_active w)) as [[loc' i]|] eqn:El; [|discriminate]);
    inversion H; subst; rewrite (Ha _ _ _ _ eq_refl El); eexists; reflexivity.
Qed.

(* an independent event does not change the admissibility of the other one *)
Theorem admissible_frame : forall w e1 e2 w1, indep_adm e1 e2 = true -> aligned w e1 -> aligned w e2 ->
  apply w e1 = Ok w1 -> admissible w1 e2 = admissible w e2.
Proof.
  intros w e1 e2 w1 Hi A1 A2 H1. destruct (indep_adm_inv _ _ Hi) as (I & N1 & N2 & K1 & _).
  apply admissible_agree.
  - intros th Hth. apply (apply_active_frame _ _ _ _ H1 A1). intros th' Hth'. eapply indep_threads; eassumption.
  - intros t E. subst e2. discriminate N2.
  - apply (apply_topen_frame _ _ _ H1 A1).
    + intros t E. subst e1. discriminate N1.
    + intros n t E. subst e1. cbn [end_ok] in K1. apply negb_true in K1.
      destruct (adm_path_static _ _ A2) as [Ep|Ep]; rewrite Ep; [exact K1|].
      destruct (node_path n) eqn:En; [apply node_path_ne in En; contradiction|reflexivity].
  - intros loc Hl. apply (apply_get_frame _ _ _ H1 A1). intros th K.
    destruct (adm_loc_kind _ _ _ A2 Hl) as [th2 K2]. unfold indep in I. rewrite K, K2 in I. cbn [indep_kind] in I.
    rewrite location_eqb_refl in I. discriminate I.
Qed.

(* item 2, with everything apply_swap gives *)
Theorem admissible_swap_full : forall w e1 e2 w1 w12,
  indep_adm e1 e2 = true -> aligned w e1 -> aligned w1 e2 -> apply w e1 = Ok w1 -> apply w1 e2 = Ok w12 ->
  admissible w e1 = true -> admissible w1 e2 = true ->
  exists w2 w21, apply w e2 = Ok w2 /\ apply w2 e1 = Ok w21 /\ wequiv w12 w21 /\ aligned w e2 /\ aligned w2 e1 /\
                 admissible w e2 = true /\ admissible w2 e1 = true.
Proof.
  intros w e1 e2 w1 w12 Hi A1 A2 H1 H2 Ad1 Ad2.
  destruct (apply_swap _ _ _ _ _ (indep_adm_indep _ _ Hi) A1 A2 H1 H2) as (w2 & w21 & G2 & G1 & Q & B2 & B1).
  exists w2, w21. repeat (split; [assumption|]). split.
  - rewrite <- (admissible_frame _ _ _ _ Hi A1 B2 H1). exact Ad2.
  - rewrite indep_adm_sym in Hi. rewrite (admissible_frame _ _ _ _ Hi B2 A1 G2). exact Ad1.
Qed.

Theorem admissible_swap : forall w e1 e2 w1 w12,
  indep_adm e1 e2 = true -> aligned w e1 -> aligned w1 e2 -> apply w e1 = Ok w1 -> apply w1 e2 = Ok w12 ->
  admissible w e1 = true -> admissible w1 e2 = true ->
  exists w2, apply w e2 = Ok w2 /\ admissible w e2 = true /\ admissible w2 e1 = true.
Proof.
  intros w e1 e2 w1 w12 Hi A1 A2 H1 H2 Ad1 Ad2.
  destruct (admissible_swap_full _ _ _ _ _ Hi A1 A2 H1 H2 Ad1 Ad2) as (w2 & w21 & G2 & _ & _ & _ & _ & B2 & B1).
  exists w2. auto.
Qed.

(* ====================================================================================================================== *)
(* 6. streams                                                                                                              *)
(* ====================================================================================================================== *)
Lemma all_admissible_wequiv : forall s w w', wequiv w w' -> names_distinct w -> all_admissible w s = all_admissible w' s.
Proof.
  induction s as [|e s IH]; intros w w' Hq Hn; [reflexivity|]. cbn [Saving.all_admissible].
  rewrite (admissible_wequiv _ _ e Hq Hn). f_equal.
  destruct (apply w e) as [w1|err] eqn:E1.
  - destruct (apply_wequiv _ _ _ _ Hq Hn E1) as (w1' & E1' & Q1). rewrite E1'.
    apply IH; [exact Q1|]. eapply names_distinct_step; eassumption.
  - destruct (apply w' e) as [w1'|err'] eqn:E2; [|reflexivity].
    destruct (apply_wequiv _ _ _ _ (wequiv_sym _ _ Hq) (names_distinct_wequiv _ _ Hq Hn) E2) as (w1 & E1' & _).
    rewrite E1' in E1. discriminate E1.
Qed.

Lemma all_admissible_split : forall a b w wa, apply_all w a = Ok wa ->
  all_admissible w (a ++ b) = all_admissible w a && all_admissible wa b.
Proof.
  induction a as [|e a IH]; intros b w wa H; cbn [app Saving.all_admissible apply_all] in *.
  - inversion H; subst. reflexivity.
  - apply bind_ok_inv in H. destruct H as (w' & H1 & H2). rewrite H1. rewrite (IH b w' wa H2). apply andb_assoc.
Qed.

Lemma teq_adm_trace_equiv : forall s1 s2, teq indep_adm s1 s2 -> trace_equiv s1 s2.
Proof.
  intros s1 s2 H. induction H as [s|a e1 e2 b Hi|s1 s2 s3 H12 IH12 H23 IH23].
  - apply TE_refl.
  - apply TE_swap. apply indep_adm_indep. exact Hi.
  - eapply TE_trans; eassumption.
Qed.

(* from an arbitrary state with pairwise distinct sibling names *)
Lemma all_admissible_teq_from : forall s1 s2, teq indep_adm s1 s2 ->
  forall w w1, names_distinct w -> apply_all w s1 = Ok w1 -> all_aligned w s1 -> all_admissible w s1 = true ->
  all_admissible w s2 = true.
Proof.
  intros s1 s2 H. induction H as [s|a e1 e2 b Hi|s1 s2 s3 H12 IH12 H23 IH23]; intros w w1 Hn Hs Ha Had.
  - exact Had.
  - rewrite apply_all_app in Hs. apply bind_ok_inv in Hs. destruct Hs as (wa & Hwa & Hs).
    apply (all_aligned_app a _ _ _ Hwa) in Ha. destruct Ha as [Aa Ab].
    rewrite (all_admissible_split a _ _ _ Hwa) in Had. apply andb_true_iff in Had. destruct Had as [Da Db].
    cbn [apply_all] in Hs. apply bind_ok_inv in Hs. destruct Hs as (wb & Hb1 & Hs). apply bind_ok_inv in Hs. destruct Hs as (w12 & Hb2 & Hs).
    cbn [all_aligned] in Ab. rewrite Hb1 in Ab. destruct Ab as (A1 & A2 & Ab). rewrite Hb2 in Ab.
    cbn [Saving.all_admissible] in Db. rewrite Hb1, Hb2 in Db.
    apply andb_true_iff in Db. destruct Db as [D1 Db]. apply andb_true_iff in Db. destruct Db as [D2 Db].
    destruct (admissible_swap_full _ _ _ _ _ Hi A1 A2 Hb1 Hb2 D1 D2) as (w2 & w21 & G2 & G1 & Q & _ & _ & B2 & B1).
    assert (Hna : names_distinct wa) by (eapply names_distinct_all; eassumption).
    assert (Hn12 : names_distinct w12) by (eapply names_distinct_step; [eapply names_distinct_step; [exact Hna|exact Hb1]|exact Hb2]).
    rewrite (all_admissible_split a _ _ _ Hwa), Da. cbn [andb Saving.all_admissible]. rewrite G2, G1, B2, B1. cbn [andb].
    rewrite <- (all_admissible_wequiv b _ _ Q Hn12). exact Db.
  - pose proof (IH12 _ _ Hn Hs Ha Had) as Had2.
    destruct (trace_equiv_states _ _ (teq_adm_trace_equiv _ _ H12) _ _ Hn Hs Ha) as (w2 & Hs2 & _ & Ha2).
    exact (IH23 _ _ Hn Hs2 Ha2 Had2).
Qed.

(* item 3 *)
Theorem all_admissible_teq : forall s1 s2, teq indep_adm s1 s2 ->
  forall w1, apply_all init_wstate s1 = Ok w1 -> all_aligned init_wstate s1 -> all_admissible init_wstate s1 = true ->
  all_admissible init_wstate s2 = true.
Proof. intros s1 s2 H w1. exact (all_admissible_teq_from s1 s2 H init_wstate w1 names_distinct_init). Qed.

(* the other stream is applied successfully too, stays aligned, and ends in an equivalent state *)
Corollary all_admissible_teq_states : forall s1 s2, teq indep_adm s1 s2 ->
  forall w1, apply_all init_wstate s1 = Ok w1 -> all_aligned init_wstate s1 -> all_admissible init_wstate s1 = true ->
  exists w2, apply_all init_wstate s2 = Ok w2 /\ wequiv w1 w2 /\ all_aligned init_wstate s2 /\ all_admissible init_wstate s2 = true.
Proof.
  intros s1 s2 H w1 Hs Ha Had.
  destruct (trace_equiv_states _ _ (teq_adm_trace_equiv _ _ H) _ _ names_distinct_init Hs Ha) as (w2 & Hs2 & Q & Ha2).
  exists w2. repeat (split; [assumption|]). exact (all_admissible_teq s1 s2 H w1 Hs Ha Had).
Qed.

(* ====================================================================================================================== *)
(* 7. linearizations                                                                                                       *)
(* ====================================================================================================================== *)
(* item 4: same tagged events, dependent (for indep_adm) events in the same order *)
Theorem all_admissible_linearizations : forall (s1 s2 : list (nat * event)) w1,
  NoDup (map fst s1) -> Permutation s1 s2 ->
  (forall x y, indep_adm (snd x) (snd y) = false -> before x y s1 -> before x y s2) ->
  apply_all init_wstate (map snd s1) = Ok w1 -> all_aligned init_wstate (map snd s1) ->
  all_admissible init_wstate (map snd s1) = true ->
  all_admissible init_wstate (map snd s2) = true.
Proof.
  intros s1 s2 w1 Hnd Hp Hord Hs Ha Had.
  exact (all_admissible_teq _ _ (linearize_tagged event indep_adm indep_adm_sym s1 s2 Hnd Hp Hord) w1 Hs Ha Had).
Qed.

(* the form a scheduler argument can feed (H1-H3 of LinearizeP.linearize_tasks, for indep_adm) *)
Theorem all_admissible_task_linearizations :
  forall (task_of : nat -> nat) (ordered : nat -> nat -> Prop) (s1 s2 : list (nat * event)) w1,
  NoDup (map fst s1) -> Permutation s1 s2 ->
  (* H1 *) (forall x y, task_of (fst x) = task_of (fst y) -> before x y s1 -> before x y s2) ->
  (* H2 *) (forall x y, In x s1 -> In y s1 -> ordered (task_of (fst x)) (task_of (fst y)) -> before x y s1) ->
           (forall x y, In x s2 -> In y s2 -> ordered (task_of (fst x)) (task_of (fst y)) -> before x y s2) ->
  (* H3 *) (forall x y, In x s1 -> In y s1 -> indep_adm (snd x) (snd y) = false -> x <> y ->
              task_of (fst x) = task_of (fst y) \/ ordered (task_of (fst x)) (task_of (fst y)) \/
              ordered (task_of (fst y)) (task_of (fst x))) ->
  apply_all init_wstate (map snd s1) = Ok w1 -> all_aligned init_wstate (map snd s1) ->
  all_admissible init_wstate (map snd s1) = true ->
  all_admissible init_wstate (map snd s2) = true.
Proof.
  intros task_of ordered s1 s2 w1 Hnd Hp H1 H2a H2b H3 Hs Ha Had.
  exact (all_admissible_teq _ _ (linearize_tasks event indep_adm indep_adm_sym task_of ordered s1 s2 Hnd Hp H1 H2a H2b H3) w1 Hs Ha Had).
Qed.

(* item 5: executable H3 for indep_adm *)
Definition coverage_admb (task_of : nat -> nat) (orderedb : nat -> nat -> bool) (s : list (nat * event)) : bool :=
  tcoverageb indep_adm task_of orderedb s.

Lemma coverage_admb_sound : forall task_of orderedb s, coverage_admb task_of orderedb s = true ->
  forall x y, In x s -> In y s -> indep_adm (snd x) (snd y) = false -> x <> y ->
    task_of (fst x) = task_of (fst y) \/ orderedb (task_of (fst x)) (task_of (fst y)) = true \/
    orderedb (task_of (fst y)) (task_of (fst x)) = true.
Proof. intros task_of orderedb s H. exact (tcoverageb_sound event indep_adm task_of orderedb s H). Qed.

(* coverage for indep_adm is the stronger check: it implies coverage for indep *)
Lemma coverage_admb_coverageb : forall task_of orderedb s, coverage_admb task_of orderedb s = true -> coverageb task_of orderedb s = true.
Proof.
  intros task_of orderedb s H. unfold coverage_admb, coverageb, tcoverageb in *.
  apply forallb_forall. intros x Hx. apply forallb_forall. intros y Hy.
  pose proof (proj1 (forallb_forall _ _) (proj1 (forallb_forall _ _) H x Hx) y Hy) as Hc. cbn beta in Hc.
  destruct (indep_adm (snd x) (snd y)) eqn:E; [rewrite (indep_adm_indep _ _ E); reflexivity|].
  cbn [orb] in Hc. destruct (indep (snd x) (snd y)); [reflexivity|exact Hc].
Qed.

(* the fully executable form *)
Corollary all_admissible_task_linearizations_b :
  forall (task_of : nat -> nat) (orderedb : nat -> nat -> bool) (s1 s2 : list (nat * event)) w1,
  NoDup (map fst s1) -> Permutation s1 s2 ->
  preservedb (fun x y => Nat.eqb (task_of (fst x)) (task_of (fst y))) s1 s2 = true ->
  startafterb task_of orderedb s1 = true -> startafterb task_of orderedb s2 = true ->
  coverage_admb task_of orderedb s1 = true ->
  apply_all init_wstate (map snd s1) = Ok w1 -> all_aligned init_wstate (map snd s1) ->
  all_admissible init_wstate (map snd s1) = true ->
  all_admissible init_wstate (map snd s2) = true.
Proof.
  intros task_of orderedb s1 s2 w1 Hnd Hp C1 C2a C2b C3 Hs Ha Had.
  assert (Hnd2 : NoDup (map fst s2)) by (exact (Permutation_NoDup (Permutation_map fst Hp) Hnd)).
  apply (all_admissible_task_linearizations task_of (fun t t' => orderedb t t' = true) s1 s2 w1 Hnd Hp);
    [| | | |exact Hs|exact Ha|exact Had].
  - intros x y E B. apply (preservedb_sound _ _ s1 s2 Hnd2 (fun z Hz => Permutation_in z Hp Hz) C1 x y); [|exact B].
    cbn beta. apply Nat.eqb_eq. exact E.
  - exact (startafterb_sound _ task_of orderedb s1 Hnd C2a).
  - exact (startafterb_sound _ task_of orderedb s2 Hnd2 C2b).
  - exact (coverage_admb_sound task_of orderedb s1 C3).
Qed.

(* ====================================================================================================================== *)
(* 8. why indep is not enough (counter-examples), and non-vacuity                                                          *)
(* ====================================================================================================================== *)
Module Cex.
  Import Ex.
  Local Open Scope Z_scope.
  Definition nC : node := mkNode [[115%N]] (mk 99) 0.          (* a sub-suite c of the suite s *)

  Definition is_ok {A} (x : res A) : bool := match x with Ok _ => true | Err _ => false end.

  (* after the prefix pre (applied from the initial state), e1 then e2 are applied successfully, aligned and admissible;
     indep calls them independent; in the other order they are applied successfully and aligned too, but NOT admissible *)
  Definition swap_flips (pre : list event) (e1 e2 : event) : bool :=
    indep e1 e2 &&
    is_ok (apply_all init_wstate (pre ++ [e1; e2])) && all_alignedb init_wstate (pre ++ [e1; e2]) &&
    all_admissible init_wstate (pre ++ [e1; e2]) &&
    is_ok (apply_all init_wstate (pre ++ [e2; e1])) && all_alignedb init_wstate (pre ++ [e2; e1]) &&
    negb (all_admissible init_wstate (pre ++ [e2; e1])).

  (* (b) of the header: a test started before / after the end of its suite *)
  Example test_vs_suite_end :
    swap_flips [ESessionStart 1; ESuiteStart nS 2] (ETestStart nA 3) (ESuiteEnd nS 4) = true /\
    indep_adm (ETestStart nA 3) (ESuiteEnd nS 4) = false.
  Proof. vm_compute. split; reflexivity. Qed.

  (* the same for every other event about a result of the suite, e.g. the end of its teardown *)
  Example teardown_end_vs_suite_end :
    swap_flips [ESessionStart 1; ESuiteStart nS 2; ESuiteTeardownStart nS 3] (ESuiteTeardownEnd nS 4) (ESuiteEnd nS 5) = true /\
    indep_adm (ESuiteTeardownEnd nS 4) (ESuiteEnd nS 5) = false.
  Proof. vm_compute. split; reflexivity. Qed.

  (* the end of a sub-suite before / after the end of its parent *)
  Example nested_suite_ends :
    swap_flips [ESessionStart 1; ESuiteStart nS 2; ESuiteStart nC 3] (ESuiteEnd nC 4) (ESuiteEnd nS 5) = true /\
    indep_adm (ESuiteEnd nC 4) (ESuiteEnd nS 5) = false.
  Proof. vm_compute. split; reflexivity. Qed.

  (* a sub-suite started before / after the end of its parent *)
  Example child_suite_vs_suite_end :
    swap_flips [ESessionStart 1; ESuiteStart nS 2] (ESuiteStart nC 3) (ESuiteEnd nS 4) = true /\
    indep_adm (ESuiteStart nC 3) (ESuiteEnd nS 4) = false.
  Proof. vm_compute. split; reflexivity. Qed.

  (* (a) of the header: the session events *)
  Example session_end_vs_suite_end :
    swap_flips [ESessionStart 1; ESuiteStart nS 2] (ESuiteEnd nS 3) (ESessionEnd 4) = true /\
    indep_adm (ESuiteEnd nS 3) (ESessionEnd 4) = false.
  Proof. vm_compute. split; reflexivity. Qed.

  (* hence: all_admissible_teq is FALSE for WriterOrderP.indep *)
  Example indep_not_enough : exists s1 s2 w1,
    teq indep s1 s2 /\ apply_all init_wstate s1 = Ok w1 /\ all_aligned init_wstate s1 /\
    all_admissible init_wstate s1 = true /\ all_admissible init_wstate s2 = false.
  Proof.
    exists ([ESessionStart 1; ESuiteStart nS 2] ++ [ETestStart nA 3; ESuiteEnd nS 4]),
           ([ESessionStart 1; ESuiteStart nS 2] ++ [ESuiteEnd nS 4; ETestStart nA 3]).
    eexists. split; [apply teq_swap; vm_compute; reflexivity|]. split; [vm_compute; reflexivity|].
    split; [apply all_alignedb_sound; vm_compute; reflexivity|]. split; vm_compute; reflexivity.
  Qed.

  (* and so is admissible_swap *)
  Example indep_swap_false :
    ~ (forall w e1 e2 w1 w12, indep e1 e2 = true -> aligned w e1 -> aligned w1 e2 -> apply w e1 = Ok w1 -> apply w1 e2 = Ok w12 ->
         admissible w e1 = true -> admissible w1 e2 = true ->
         exists w2, apply w e2 = Ok w2 /\ admissible w e2 = true /\ admissible w2 e1 = true).
  Proof.
    intros H.
    destruct (apply_all init_wstate [ESessionStart 1; ESuiteStart nS 2]) as [w|] eqn:Ew; [|vm_compute in Ew; discriminate Ew].
    destruct (apply w (ETestStart nA 3)) as [w1|] eqn:E1; [|vm_compute in Ew; inversion Ew; subst w; vm_compute in E1; discriminate E1].
    destruct (apply w1 (ESuiteEnd nS 4)) as [w12|] eqn:E2;
      [|vm_compute in Ew; inversion Ew; subst w; vm_compute in E1; inversion E1; subst w1; vm_compute in E2; discriminate E2].
    destruct (H w (ETestStart nA 3) (ESuiteEnd nS 4) w1 w12) as (w2 & G & _ & B); auto.
    - intros loc th loc' i Hf. discriminate Hf.
    - intros loc th loc' i Hf. discriminate Hf.
    - vm_compute in Ew. inversion Ew; subst w. vm_compute. reflexivity.
    - vm_compute in Ew. inversion Ew; subst w. vm_compute in E1. inversion E1; subst w1. vm_compute. reflexivity.
    - vm_compute in Ew. inversion Ew; subst w. vm_compute in G. inversion G; subst w2. vm_compute in B. discriminate B.
  Qed.
End Cex.

(* non-vacuity: LinearizeP.LinEx.ts1 / ts2 (sequential order vs overlapping order of two tests of one suite) *)
Module AdmEx.
  Import Ex LinEx.

  (* dependent (for indep_adm) events are ordered the same way in both streams *)
  Example ts_order_adm : forall x y, indep_adm (snd x) (snd y) = false -> before x y ts1 -> before x y ts2.
  Proof.
    intros x y H B.
    apply (preservedb_sound _ (fun x y => negb (indep_adm (snd x) (snd y))) ts1 ts2 ts2_nodup
             (fun z Hz => Permutation_in z ts_perm Hz)); [vm_compute; reflexivity| |exact B].
    cbn beta. rewrite H. reflexivity.
  Qed.

  (* the relation is not trivial on this run: some pairs are independent and reordered, and the two strengthenings bite *)
  Example ts_some_indep : indep_adm e6 e7 = true /\ indep_adm e3 e8 = true /\ indep_adm e4 e9 = true.
  Proof. vm_compute. repeat split. Qed.
  Example ts_strengthened : indep e2 e12 = true /\ indep_adm e2 e12 = false /\ indep e0 e2 = true /\ indep_adm e0 e2 = false /\
                            indep e11 e13 = true /\ indep_adm e11 e13 = false.
  Proof. vm_compute. repeat split. Qed.

  Example ts1_admissible : all_admissible init_wstate (map snd ts1) = true.
  Proof. vm_compute. reflexivity. Qed.

  (* item 6: every hypothesis of all_admissible_linearizations holds, the conclusion comes from the theorem *)
  Example ts2_admissible_by_theorem : all_admissible init_wstate (map snd ts2) = true.
  Proof.
    destruct ts1_hyps as (w1 & Hs & Ha & _).
    exact (all_admissible_linearizations ts1 ts2 w1 ts1_nodup ts_perm ts_order_adm Hs Ha ts1_admissible).
  Qed.

  (* ... and agrees with the direct evaluation *)
  Example ts2_admissible_direct : all_admissible init_wstate (map snd ts2) = true.
  Proof. vm_compute. reflexivity. Qed.

  (* the task form: LinEx.task_of / LinEx.orderedb also cover the dependencies of indep_adm *)
  Example ts_task_checks_adm :
    preservedb (fun x y => Nat.eqb (task_of (fst x)) (task_of (fst y))) ts1 ts2 = true /\
    startafterb task_of orderedb ts1 = true /\ startafterb task_of orderedb ts2 = true /\
    coverage_admb task_of orderedb ts1 = true.
  Proof. vm_compute. repeat split. Qed.

  Example ts2_admissible_by_tasks : all_admissible init_wstate (map snd ts2) = true.
  Proof.
    destruct ts1_hyps as (w1 & Hs & Ha & _). destruct ts_task_checks_adm as (C1 & C2a & C2b & C3).
    exact (all_admissible_task_linearizations_b task_of orderedb ts1 ts2 w1 ts1_nodup ts_perm C1 C2a C2b C3 Hs Ha ts1_admissible).
  Qed.

  (* a task structure that leaves the suite end unordered w.r.t. the tests is rejected by the checker for indep_adm
     although the checker for indep accepts it *)
  Definition orderedb_loose (t t' : nat) : bool := orderedb t t' && negb (Nat.eqb t' 3) || (Nat.eqb t 0 && Nat.eqb t' 3).
  Example loose_rejected : coverageb task_of orderedb_loose ts1 = true /\ coverage_admb task_of orderedb_loose ts1 = false.
  Proof. vm_compute. split; reflexivity. Qed.
End AdmEx.

Check indep_adm.
Check admissible_wequiv.
Check admissible_swap.
Check all_admissible_teq.
Check all_admissible_linearizations.
Print Assumptions admissible_wequiv.
Print Assumptions indep_adm_sym.
Print Assumptions admissible_swap.
Print Assumptions all_admissible_teq.
Print Assumptions all_admissible_linearizations.
Print Assumptions all_admissible_task_linearizations_b.
Print Assumptions coverage_admb_sound.
Print Assumptions Cex.indep_not_enough.
Print Assumptions Cex.indep_swap_false.
Print Assumptions AdmEx.ts2_admissible_by_theorem.
Print Assumptions AdmEx.ts2_admissible_by_tasks.
