(* Shape of the task graph of EVERY project (Model/Graph.v): inside the block of tasks of a suite, the suite's Begin task is a
   (transitive) dependency of every other task of the block — tests, setup, teardown, every task of every sub-suite, End —
   and the suite's End task (transitively) depends on every other task of the block; setup is a dependency of every test and
   of the teardown, and the teardown depends on every test.  With the order theorem of the dispatch loop (SchedP) this gives
   the suite brackets of C07 and the setup/teardown ordering of C03 for all projects, all thread counts, all schedules. *)
From Coq Require Import List Arith Bool Lia.
Import ListNotations.
From LCC Require Import Base.Util Model.Proj Model.Sched Model.Graph Proofs.SchedP Proofs.GraphP.

Lemma dep_path_trans g a b c : dep_path g a b -> dep_path g b c -> dep_path g a c.
Proof. induction 1 as [t d Hd|t d e Hd Hp IH]; intros H; [eapply dp_step; eassumption|eapply dp_step; [exact Hd|apply IH; exact H]]. Qed.

(* the tasks [T] sit at indexes base.. of g, possibly with more dependencies there (second pass of build_tasks) *)
Definition embeds (g : graph) (base : nat) (T : list task) : Prop :=
  forall k t, nth_error T k = Some t -> forall d, In d (all_deps t) -> In d (all_deps (get_task g (base + k))).

Lemma embeds_app_l g base A B : embeds g base (A ++ B) -> embeds g base A.
Proof. intros H k t Hk. apply H. rewrite nth_error_app1; [exact Hk|]. apply nth_error_Some. congruence. Qed.

Lemma embeds_app_r g base A B : embeds g base (A ++ B) -> embeds g (base + length A) B.
Proof.
  intros H k t Hk d Hd. replace (base + length A + k) with (base + (length A + k)) by lia. apply (H (length A + k) t); [|exact Hd].
  rewrite nth_error_app2 by lia. replace (length A + k - length A) with k by lia. exact Hk.
Qed.

Definition range (P : nat -> Prop) (b n : nat) : Prop := forall k, k < n -> P (b + k).

Lemma range_app (P : nat -> Prop) b n1 n2 : range P b n1 -> range P (b + n1) n2 -> range P b (n1 + n2).
Proof.
  intros H1 H2 k Hk. destruct (Nat.lt_ge_cases k n1) as [Hlt|Hge]; [apply H1; exact Hlt|].
  replace (b + k) with (b + n1 + (k - n1)) by lia. apply H2. lia.
Qed.

Lemma range_nil (P : nat -> Prop) b : range P b 0.
Proof. intros k Hk. lia. Qed.

Lemma range_one (P : nat -> Prop) b : P b -> range P b 1.
Proof. intros H k Hk. replace (b + k) with b by lia. exact H. Qed.

Lemma range_weaken (P Q : nat -> Prop) b n : (forall i, P i -> Q i) -> range P b n -> range Q b n.
Proof. intros H HP k Hk. apply H. apply HP. exact Hk. Qed.

(* what is proved of one suite block at [base] (n tasks, Begin first, End last) *)
Record block_shape (g : graph) (pb : option nat) (base n : nat) : Prop := {
  bs_len : 2 <= n;
  bs_parent : forall x, pb = Some x -> In x (all_deps (get_task g base));
  bs_down : range (fun i => dep_path g i base) (S base) (n - 1);
  bs_up : range (fun i => dep_path g (base + n - 1) i) base (n - 1) }.

(* all blocks of a list of sub-suites: every task depends on [parent]; [e] depends on every task *)
Lemma blocks_shape g f parent e l :
  (forall x b, In x l -> embeds g b (f b x) -> block_shape g (Some parent) b (length (f b x))) ->
  forall b, embeds g b (concat (blocks f l b)) ->
  (forall x, In x (block_ends (blocks f l b) b) -> In x (all_deps (get_task g e))) ->
  range (fun i => dep_path g i parent) b (length (concat (blocks f l b))) /\
  range (fun i => dep_path g e i) b (length (concat (blocks f l b))).
Proof.
  intros Hf. induction l as [|x r IH]; intros b He Hends; simpl; [split; apply range_nil|].
  simpl in He, Hends. rewrite app_length.
  pose proof (Hf x b (or_introl eq_refl) (embeds_app_l _ _ _ _ He)) as Sh.
  destruct (IH (fun y b' Hy => Hf y b' (or_intror Hy)) (b + length (f b x)) (embeds_app_r _ _ _ _ He)
               (fun y Hy => Hends y (or_intror Hy))) as [IHd IHu].
  set (n := length (f b x)) in *. pose proof (bs_len _ _ _ _ Sh) as Hn.
  assert (Hpar : dep_path g b parent) by (apply dp_one; apply (bs_parent _ _ _ _ Sh); reflexivity).
  assert (Hend : dep_path g e (b + n - 1)) by (apply dp_one; apply Hends; left; reflexivity).
  split; apply range_app; try assumption.
  - intros k Hk. destruct k as [|k]; [rewrite Nat.add_0_r; exact Hpar|].
    apply dep_path_trans with b; [|exact Hpar]. replace (b + S k) with (S b + k) by lia. apply (bs_down _ _ _ _ Sh). lia.
  - intros k Hk. destruct (Nat.eq_dec k (n - 1)) as [E|NE]; [subst k; replace (b + (n - 1)) with (b + n - 1) by lia; exact Hend|].
    apply dep_path_trans with (b + n - 1); [exact Hend|]. apply (bs_up _ _ _ _ Sh). lia.
Qed.

Lemma embeds_single g b t : embeds g b [t] -> forall d, In d (all_deps t) -> In d (all_deps (get_task g b)).
Proof. intros H d Hd. specialize (H 0 t eq_refl d Hd). rewrite Nat.add_0_r in H. exact H. Qed.

Lemma embeds_map {A} g b (f : A -> task) l : embeds g b (map f l) ->
  forall k x, nth_error l k = Some x -> forall d, In d (all_deps (f x)) -> In d (all_deps (get_task g (b + k))).
Proof. intros H k x Hk d Hd. apply (H k (f x)); [|exact Hd]. rewrite nth_error_map, Hk. reflexivity. Qed.

Lemma suite_shape : forall s si force ss pb prefix inh base g,
  embeds g base (suite_tasks si force ss pb prefix inh base s) ->
  block_shape g pb base (length (suite_tasks si force ss pb prefix inh base s)).
Proof.
  induction s as [n d h inj ts subs IH] using suite_ind3.
  intros si force ss pb prefix inh base g.
  rewrite suite_tasks_eq. cbv zeta. set (p := prefix ++ [n]).
  destruct (needs_init si force inh p (Suite n d h inj ts subs)) eqn:Hinit.
  - (* Begin, Init, tests, Teardown, sub-suites, End *)
    set (f := suite_tasks si force ss (Some base) p (inh || d)).
    set (sb := S (S (S base) + length ts)).
    set (bl := blocks f subs sb).
    set (TB := mkTask KSuiteBegin p (opt_to_list ss ++ opt_to_list pb) []).
    set (TI := mkTask KSuiteInit p [base] []).
    set (TT := map (fun t => mkTask KTest (p ++ [tt_name t]) [S base] []) ts).
    set (TD := mkTask KSuiteTeardown p [] (S base :: seq (S (S base)) (length ts))).
    set (TE := mkTask KSuiteEnd p (base :: seq (S (S base)) (length ts) ++ [S (S base) + length ts] ++ block_ends bl sb) []).
    intros He.
    pose proof (embeds_app_l _ _ _ _ He) as EB. apply embeds_app_r in He. simpl length in He.
    pose proof (embeds_app_l _ _ _ _ He) as EI. apply embeds_app_r in He. simpl length in He.
    pose proof (embeds_app_l _ _ _ _ He) as ET. apply embeds_app_r in He. unfold TT in He at 1. rewrite map_length in He.
    pose proof (embeds_app_l _ _ _ _ He) as ED. apply embeds_app_r in He. simpl length in He.
    pose proof (embeds_app_l _ _ _ _ He) as EC. apply embeds_app_r in He.
    set (m := length ts) in *. set (c := length (concat bl)) in *.
    replace (base + 1 + 1 + m + 1) with sb in EC, He by (unfold sb; lia).
    replace (base + 1 + 1 + m) with (S (S base) + m) in ED by lia.
    replace (base + 1 + 1) with (S (S base)) in ET by lia. replace (base + 1) with (S base) in EI by lia.
    assert (HI : dep_path g (S base) base) by (apply dp_one; apply (embeds_single _ _ _ EI); left; reflexivity).
    assert (Hlen : length ([TB] ++ [TI] ++ TT ++ [TD] ++ concat bl ++ [TE]) = 4 + m + c).
    { rewrite !app_length. unfold TT. rewrite map_length. simpl. fold m c. lia. }
    rewrite Hlen.
    assert (HE : forall x, In x (all_deps TE) -> In x (all_deps (get_task g (base + (4 + m + c) - 1)))).
    { intros x Hx. replace (base + (4 + m + c) - 1) with (sb + c) by (unfold sb; lia). apply (embeds_single _ _ _ He). exact Hx. }
    assert (Hsub : forall x b, In x subs -> embeds g b (f b x) -> block_shape g (Some base) b (length (f b x))).
    { intros x b Hx Hb. apply (IH x Hx). exact Hb. }
    destruct (blocks_shape g f base (base + (4 + m + c) - 1) subs Hsub sb EC) as [Cd Cu].
    { intros x Hx. apply HE. unfold all_deps, TE. simpl. right. apply in_app_iff. right. right. exact Hx. }
    fold bl in Cd, Cu. fold c in Cd, Cu.
    constructor.
    + lia.
    + intros x Hx. apply (embeds_single _ _ _ EB). unfold all_deps, TB. simpl. apply in_app_iff. right. subst pb. left. reflexivity.
    + replace (4 + m + c - 1) with (1 + (m + (1 + (c + 1)))) by lia.
      apply range_app; [apply range_one; exact HI|].
      apply range_app.
      * intros k Hk. apply dep_path_trans with (S base); [|exact HI]. apply dp_one.
        destruct (nth_error ts k) as [t|] eqn:Hts; [|apply nth_error_None in Hts; fold m in Hts; lia].
        replace (S base + 1 + k) with (S (S base) + k) by lia.
        apply (embeds_map _ _ _ _ ET k t Hts). left. reflexivity.
      * apply range_app.
        -- apply range_one. apply dep_path_trans with (S base); [|exact HI]. apply dp_one.
           replace (S base + 1 + m) with (S (S base) + m) by lia. apply (embeds_single _ _ _ ED). left. reflexivity.
        -- apply range_app.
           ++ replace (S base + 1 + m + 1) with sb by (unfold sb; lia). exact Cd.
           ++ apply range_one. apply dp_one. replace (S base + 1 + m + 1 + c) with (sb + c) by (unfold sb; lia).
              apply (embeds_single _ _ _ He). left. reflexivity.
    + set (e := base + (4 + m + c) - 1) in *.
      assert (HTD : dep_path g e (S (S base) + m)).
      { apply dp_one. apply HE. unfold all_deps, TE. simpl. right. apply in_app_iff. right. left. reflexivity. }
      replace (4 + m + c - 1) with (1 + (1 + (m + (1 + c)))) by lia.
      apply range_app; [apply range_one; apply dp_one; apply HE; left; reflexivity|].
      apply range_app.
      * apply range_one. apply dep_path_trans with (S (S base) + m); [exact HTD|]. apply dp_one.
        replace (base + 1) with (S base) by lia. apply (embeds_single _ _ _ ED). left. reflexivity.
      * apply range_app.
        -- intros k Hk. apply dp_one. apply HE. unfold all_deps, TE. simpl. right. apply in_app_iff. left.
           apply in_seq. fold m. lia.
        -- apply range_app.
           ++ apply range_one. replace (base + 1 + 1 + m) with (S (S base) + m) by lia. exact HTD.
           ++ replace (base + 1 + 1 + m + 1) with sb by (unfold sb; lia). exact Cu.
  - (* Begin, tests, sub-suites, End *)
    set (f := suite_tasks si force ss (Some base) p (inh || d)).
    set (sb := S base + length ts).
    set (bl := blocks f subs sb).
    set (TB := mkTask KSuiteBegin p (opt_to_list ss ++ opt_to_list pb) []).
    set (TT := map (fun t => mkTask KTest (p ++ [tt_name t]) [base] []) ts).
    set (TE := mkTask KSuiteEnd p (base :: seq (S base) (length ts) ++ [] ++ block_ends bl sb) []).
    change ([TB] ++ [] ++ TT ++ [] ++ concat bl ++ [TE]) with ([TB] ++ TT ++ concat bl ++ [TE]).
    intros He.
    pose proof (embeds_app_l _ _ _ _ He) as EB. apply embeds_app_r in He. simpl length in He.
    pose proof (embeds_app_l _ _ _ _ He) as ET. apply embeds_app_r in He. unfold TT in He at 1. rewrite map_length in He.
    pose proof (embeds_app_l _ _ _ _ He) as EC. apply embeds_app_r in He.
    set (m := length ts) in *. set (c := length (concat bl)) in *.
    replace (base + 1 + m) with sb in EC, He by (unfold sb; lia).
    replace (base + 1) with (S base) in ET by lia.
    assert (Hlen : length ([TB] ++ TT ++ concat bl ++ [TE]) = 2 + m + c).
    { rewrite !app_length. unfold TT. rewrite map_length. simpl. fold m c. lia. }
    rewrite Hlen.
    assert (HE : forall x, In x (all_deps TE) -> In x (all_deps (get_task g (base + (2 + m + c) - 1)))).
    { intros x Hx. replace (base + (2 + m + c) - 1) with (sb + c) by (unfold sb; lia). apply (embeds_single _ _ _ He). exact Hx. }
    assert (Hsub : forall x b, In x subs -> embeds g b (f b x) -> block_shape g (Some base) b (length (f b x))).
    { intros x b Hx Hb. apply (IH x Hx). exact Hb. }
    destruct (blocks_shape g f base (base + (2 + m + c) - 1) subs Hsub sb EC) as [Cd Cu].
    { intros x Hx. apply HE. unfold all_deps, TE. simpl. right. apply in_app_iff. right. exact Hx. }
    fold bl in Cd, Cu. fold c in Cd, Cu.
    constructor.
    + lia.
    + intros x Hx. apply (embeds_single _ _ _ EB). unfold all_deps, TB. simpl. apply in_app_iff. right. subst pb. left. reflexivity.
    + replace (2 + m + c - 1) with (m + (c + 1)) by lia.
      apply range_app.
      * intros k Hk. apply dp_one.
        destruct (nth_error ts k) as [t|] eqn:Hts; [|apply nth_error_None in Hts; fold m in Hts; lia].
        apply (embeds_map _ _ _ _ ET k t Hts). left. reflexivity.
      * apply range_app.
        -- replace (S base + m) with sb by (unfold sb; lia). exact Cd.
        -- apply range_one. apply dp_one. replace (S base + m + c) with (sb + c) by (unfold sb; lia).
           apply (embeds_single _ _ _ He). left. reflexivity.
    + set (e := base + (2 + m + c) - 1) in *.
      replace (2 + m + c - 1) with (1 + (m + c)) by lia.
      apply range_app; [apply range_one; apply dp_one; apply HE; left; reflexivity|].
      apply range_app.
      * intros k Hk. apply dp_one. apply HE. unfold all_deps, TE. simpl. right. apply in_app_iff. left.
        apply in_seq. fold m. lia.
      * replace (base + 1 + m) with sb by (unfold sb; lia). exact Cu.
Qed.

(* ------------------------------------------------------------------ the second pass only adds dependencies *)
Lemma map_opt_nth_fwd {A B} (f : A -> option B) l l' :
  map_opt f l = Some l' -> forall i x, nth_error l i = Some x -> exists y, nth_error l' i = Some y /\ f x = Some y.
Proof.
  revert l'. induction l as [|a l IH]; intros l' H i x Hx; [destruct i; discriminate|]. simpl in H.
  destruct (f a) as [b|] eqn:Hfa; [|discriminate]. destruct (map_opt f l) as [ys|] eqn:Hm; [|discriminate].
  inversion H. subst l'. destruct i as [|i]; simpl in Hx.
  - inversion Hx. subst x. exists b. split; [reflexivity|exact Hfa].
  - destruct (IH ys eq_refl i x Hx) as [y [Hy Hf]]. exists y. split; assumption.
Qed.

Lemma add_test_deps_embeds deps_of g0 g : add_test_deps deps_of g0 = Some g -> embeds g 0 g0.
Proof.
  unfold add_test_deps. intros H k t Hk d Hd. simpl.
  destruct (map_opt_nth_fwd _ _ _ H k t Hk) as [t' [Ht' Hf]]. rewrite (get_task_nth _ _ _ Ht').
  destruct (t_kind t); try (inversion Hf; subst t'; exact Hd).
  destruct (map_opt _ (deps_of (t_path t))) as [ids|]; [|discriminate]. inversion Hf. subst t'.
  unfold all_deps in *. simpl. apply in_app_iff in Hd as [Hd|Hd]; apply in_app_iff; [left; exact Hd|right; apply in_app_iff; left; exact Hd].
Qed.

Lemma embeds_segment g pre T post : embeds g 0 (pre ++ T ++ post) -> embeds g (length pre) T.
Proof. intros H. apply embeds_app_r in H. simpl in H. apply embeds_app_l in H. exact H. Qed.

(* ------------------------------------------------------------------ every nested suite has its block *)
Fixpoint subsuites (s : suite) : list suite := s :: flat_map subsuites (su_subs s).

Lemma blocks_split f l x : In x l -> forall b, exists L R, concat (blocks f l b) = L ++ f (b + length L) x ++ R.
Proof.
  induction l as [|y r IH]; intros Hx b; [destruct Hx|]. simpl. destruct Hx as [Hx|Hx].
  - subst y. exists [], (concat (blocks f r (b + length (f b x)))). simpl. rewrite Nat.add_0_r. reflexivity.
  - destruct (IH Hx (b + length (f b y))) as [L [R E]]. exists (f b y ++ L), R. rewrite E, app_length.
    rewrite <- app_assoc. replace (b + (length (f b y) + length L)) with (b + length (f b y) + length L) by lia. reflexivity.
Qed.

Lemma suite_tasks_occurs : forall s s', In s' (subsuites s) -> forall si force ss pb prefix inh base,
  exists pre post pb' prefix' inh',
    suite_tasks si force ss pb prefix inh base s = pre ++ suite_tasks si force ss pb' prefix' inh' (base + length pre) s' ++ post.
Proof.
  induction s as [n d h inj ts subs IH] using suite_ind3. intros s' Hs' si force ss pb prefix inh base.
  simpl in Hs'. destruct Hs' as [Hs'|Hs'].
  - subst s'. exists [], [], pb, prefix, inh. simpl app. rewrite Nat.add_0_r, app_nil_r. reflexivity.
  - apply in_flat_map in Hs' as [x [Hx Hs']].
    rewrite suite_tasks_eq. cbv zeta.
    match goal with |- context [blocks ?f subs ?b0] => destruct (blocks_split f subs x Hx b0) as [L [R E]]; rewrite E;
      destruct (IH x Hx s' Hs' si force ss (Some base) (prefix ++ [n]) (inh || d) (b0 + length L)) as [pre [post [pb' [prefix' [inh' E']]]]];
      rewrite E'; set (B0 := b0) in * end.
    match goal with |- exists pre0 post0 pb0 prefix0 inh0, ?A1 ++ ?A2 ++ ?A3 ++ ?A4 ++ (L ++ (pre ++ ?X ++ post) ++ R) ++ ?A6 = _ =>
      exists (A1 ++ A2 ++ A3 ++ A4 ++ L ++ pre), (post ++ R ++ A6), pb', prefix', inh';
      assert (Hl : base + length (A1 ++ A2 ++ A3 ++ A4 ++ L ++ pre) = B0 + length L + length pre) end.
    { rewrite !app_length, map_length. unfold B0. simpl.
      destruct (needs_init si force inh (prefix ++ [n]) (Suite n d h inj ts subs)); simpl; lia. }
    rewrite Hl. rewrite <- !app_assoc. reflexivity.
Qed.

Definition all_subsuites (l : list suite) : list suite := flat_map subsuites l.

Lemma structural_occurs si force suites s' : In s' (all_subsuites suites) ->
  exists pre post ss pb' prefix' inh',
    build_tasks_structural si force suites = pre ++ suite_tasks si force ss pb' prefix' inh' (length pre) s' ++ post.
Proof.
  intros H. apply in_flat_map in H as [x [Hx Hs']]. unfold build_tasks_structural. rewrite suites_tasks_eq.
  set (ss := if si_session si then Some 0 else None). set (b0 := if si_session si then 1 else 0).
  destruct (blocks_split (suite_tasks si force ss None [] false) suites x Hx b0) as [L [R E]]. rewrite E.
  destruct (suite_tasks_occurs x s' Hs' si force ss None [] false (b0 + length L)) as [pre [post [pb' [prefix' [inh' E']]]]].
  rewrite E'.
  exists ((if si_session si then [mkTask KSessionSetup [] [] []] else []) ++ L ++ pre),
         (post ++ R ++ (if si_session si then [mkTask KSessionTeardown [] [] (block_ends (blocks (suite_tasks si force ss None [] false) suites b0) b0)] else [])),
         ss, pb', prefix', inh'.
  assert (Hl : length ((if si_session si then [mkTask KSessionSetup [] [] []] else []) ++ L ++ pre) = b0 + length L + length pre).
  { rewrite !app_length. unfold b0. destruct (si_session si); simpl; lia. }
  rewrite Hl. rewrite <- !app_assoc. reflexivity.
Qed.

(* ------------------------------------------------------------------ the theorem *)
Theorem every_suite_block_shape si force suites g s' :
  build_tasks si force suites = Some g -> In s' (all_subsuites suites) ->
  exists pre post ss pb prefix inh,
    let T := suite_tasks si force ss pb prefix inh (length pre) s' in
    build_tasks_structural si force suites = pre ++ T ++ post /\
    block_shape g pb (length pre) (length T).
Proof.
  intros Hg Hs'. destruct (structural_occurs si force suites s' Hs') as [pre [post [ss [pb [prefix [inh E]]]]]].
  exists pre, post, ss, pb, prefix, inh. cbv zeta. split; [exact E|].
  apply suite_shape. apply (embeds_segment g pre _ post). rewrite <- E.
  unfold build_tasks in Hg. eapply add_test_deps_embeds. exact Hg.
Qed.

Lemma nth_error_last_snoc {A} (X : list A) (x : A) : nth_error (X ++ [x]) (length (X ++ [x]) - 1) = Some x.
Proof. rewrite app_length. simpl. rewrite nth_error_app2 by lia. replace (length X + 1 - 1 - length X) with 0 by lia. reflexivity. Qed.

(* with the order theorem of the dispatch loop: for every project, thread count, results and interleaving, no task of a
   suite's block is taken before the suite's Begin task has finished, and the suite's End task is not taken before every
   other task of the block has finished *)
Theorem suite_brackets_run si force suites g s' :
  build_tasks si force suites = Some g -> In s' (all_subsuites suites) ->
  exists pre post ss pb prefix inh,
    let T := suite_tasks si force ss pb prefix inh (length pre) s' in
    let b := length pre in let e := length pre + length T - 1 in
    build_tasks_structural si force suites = pre ++ T ++ post /\
    t_kind (get_task g b) = KSuiteBegin /\ t_kind (get_task g e) = KSuiteEnd /\
    forall n sof ms1 md ms2 st, 1 <= n ->
      (forall i, b < i <= e -> run g n sof (init g n) (ms1 ++ MTake i md :: ms2) = Some st ->
         occurs (is_take b) ms1 /\ occurs (is_finish b) ms1 /\ occurs (is_main b) ms1) /\
      (forall i, b <= i < e -> run g n sof (init g n) (ms1 ++ MTake e md :: ms2) = Some st ->
         occurs (is_take i) ms1 /\ occurs (is_finish i) ms1 /\ occurs (is_main i) ms1).
Proof.
  intros Hg Hs'. destruct (every_suite_block_shape si force suites g s' Hg Hs') as [pre [post [ss [pb [prefix [inh [E Sh]]]]]]].
  exists pre, post, ss, pb, prefix, inh. cbv zeta. split; [exact E|].
  set (T := suite_tasks si force ss pb prefix inh (length pre) s') in *.
  pose proof (bs_len _ _ _ _ Sh) as Hn.
  assert (Hk : forall k t, nth_error T k = Some t -> t_kind (get_task g (length pre + k)) = t_kind t).
  { intros k t Hk. unfold build_tasks in Hg. destruct (add_test_deps_nth _ _ _ Hg) as [Hlen Hnth].
    assert (H0 : nth_error (build_tasks_structural si force suites) (length pre + k) = Some t).
    { rewrite E. rewrite nth_error_app2 by lia. replace (length pre + k - length pre) with k by lia.
      rewrite nth_error_app1; [exact Hk|]. apply nth_error_Some. congruence. }
    assert (Hlt : length pre + k < length g) by (rewrite Hlen; apply nth_error_Some; congruence).
    destruct (nth_error g (length pre + k)) as [t'|] eqn:Ht'; [|apply nth_error_None in Ht'; lia].
    destruct (Hnth _ _ Ht') as [t0 [Ht0 [Hkind _]]]. rewrite H0 in Ht0. inversion Ht0. subst t0.
    rewrite (get_task_nth _ _ _ Ht'). exact Hkind. }
  split; [|split].
  - replace (length pre) with (length pre + 0) at 1 by lia. destruct s' as [n0 d0 h0 inj0 ts0 subs0].
    erewrite Hk; [|unfold T; rewrite suite_tasks_eq; reflexivity]. reflexivity.
  - replace (length pre + length T - 1) with (length pre + (length T - 1)) by lia.
    destruct s' as [n0 d0 h0 inj0 ts0 subs0].
    assert (Hlast : exists t, nth_error T (length T - 1) = Some t /\ t_kind t = KSuiteEnd).
    { unfold T. rewrite suite_tasks_eq. cbv zeta.
      match goal with |- context [?A1 ++ ?A2 ++ ?A3 ++ ?A4 ++ ?A5 ++ [?te]] =>
        exists te; split; [|reflexivity];
        replace (A1 ++ A2 ++ A3 ++ A4 ++ A5 ++ [te]) with ((A1 ++ A2 ++ A3 ++ A4 ++ A5) ++ [te]) by (rewrite <- !app_assoc; reflexivity);
        apply nth_error_last_snoc end. }
    destruct Hlast as [t [Ht Hkt]]. rewrite (Hk _ _ Ht). exact Hkt.
  - intros n sof ms1 md ms2 st Hn1. split.
    + intros i Hi Hrun. apply (take_after_transitive_dependencies g n sof i (length pre)) with (md := md) (ms2 := ms2) (s := st); try assumption.
      replace i with (S (length pre) + (i - S (length pre))) by lia. apply (bs_down _ _ _ _ Sh). lia.
    + intros i Hi Hrun. apply (take_after_transitive_dependencies g n sof (length pre + length T - 1) i) with (md := md) (ms2 := ms2) (s := st); try assumption.
      replace i with (length pre + (i - length pre)) by lia. apply (bs_up _ _ _ _ Sh). lia.
Qed.

(* ------------------------------------------------------------------ setup and teardown of a suite (C03) *)
Lemma add_test_deps_sc deps_of g0 g : add_test_deps deps_of g0 = Some g ->
  forall i t, nth_error g0 i = Some t ->
    t_kind (get_task g i) = t_kind t /\ t_compl (get_task g i) = t_compl t /\
    (forall d, In d (t_succ t) -> In d (t_succ (get_task g i))).
Proof.
  unfold add_test_deps. intros H i t Hi. destruct (map_opt_nth_fwd _ _ _ H i t Hi) as [t' [Ht' Hf]].
  rewrite (get_task_nth _ _ _ Ht').
  destruct (t_kind t) eqn:Hk; try (inversion Hf; subst t'; rewrite Hk; repeat split; auto).
  destruct (map_opt _ (deps_of (t_path t))) as [ids|]; [|discriminate]. inversion Hf. subst t'. simpl.
  repeat split; auto. intros d Hd. apply in_app_iff. left. exact Hd.
Qed.

(* For every project and every suite that has a setup task: the setup task is an on-success dependency of every test of the
   suite; the teardown task depends on the completion (whatever the outcome) of the setup task and of every test. *)
Theorem suite_phases si force suites g s' :
  build_tasks si force suites = Some g -> In s' (all_subsuites suites) ->
  exists pre post ss pb prefix inh,
    let T := suite_tasks si force ss pb prefix inh (length pre) s' in
    let b := length pre in let m := length (su_tests s') in
    build_tasks_structural si force suites = pre ++ T ++ post /\
    (needs_init si force inh (prefix ++ [su_name s']) s' = true ->
       t_kind (get_task g (b + 1)) = KSuiteInit /\ t_kind (get_task g (b + 2 + m)) = KSuiteTeardown /\
       In (b + 1) (t_compl (get_task g (b + 2 + m))) /\ t_succ (get_task g (b + 2 + m)) = [] /\
       forall k, k < m ->
         t_kind (get_task g (b + 2 + k)) = KTest /\
         In (b + 1) (t_succ (get_task g (b + 2 + k))) /\
         In (b + 2 + k) (t_compl (get_task g (b + 2 + m)))).
Proof.
  intros Hg Hs'. destruct (structural_occurs si force suites s' Hs') as [pre [post [ss [pb [prefix [inh E]]]]]].
  exists pre, post, ss, pb, prefix, inh. cbv zeta. split; [exact E|]. intros Hinit.
  unfold build_tasks in Hg. pose proof (add_test_deps_sc _ _ _ Hg) as Hsc.
  set (b := length pre).
  assert (Hseg : forall k t, nth_error (suite_tasks si force ss pb prefix inh b s') k = Some t ->
            nth_error (build_tasks_structural si force suites) (b + k) = Some t).
  { intros k t Hk. rewrite E. rewrite nth_error_app2 by (unfold b; lia). replace (b + k - length pre) with k by (unfold b; lia).
    rewrite nth_error_app1; [exact Hk|]. apply nth_error_Some. fold b. congruence. }
  destruct s' as [n0 d0 h0 inj0 ts0 subs0]. simpl su_tests. simpl su_name in Hinit.
  rewrite suite_tasks_eq in Hseg. cbv zeta in Hseg. rewrite Hinit in Hseg.
  set (m := length ts0).
  assert (H1 : forall t, nth_error ([mkTask KSuiteInit (prefix ++ [n0]) [b] []] : list task) 0 = Some t -> True) by auto.
  (* positions: 0 Begin, 1 Init, 2.. tests, 2+m Teardown *)
  match type of Hseg with forall k t, nth_error (?A1 ++ ?A2 ++ ?A3 ++ ?A4 ++ ?R) k = Some t -> _ =>
    assert (HI : nth_error (A1 ++ A2 ++ A3 ++ A4 ++ R) 1 = Some (mkTask KSuiteInit (prefix ++ [n0]) [b] [])) by reflexivity;
    assert (HT : forall k t0, nth_error ts0 k = Some t0 ->
              nth_error (A1 ++ A2 ++ A3 ++ A4 ++ R) (2 + k) = Some (mkTask KTest ((prefix ++ [n0]) ++ [tt_name t0]) [S b] []));
    [|assert (HD : nth_error (A1 ++ A2 ++ A3 ++ A4 ++ R) (2 + m) = Some (mkTask KSuiteTeardown (prefix ++ [n0]) [] (S b :: seq (S (S b)) m)))]
  end.
  { intros k t0 Hk. simpl. rewrite nth_error_app1 by (rewrite map_length; apply nth_error_Some; congruence).
    rewrite nth_error_map, Hk. reflexivity. }
  { simpl. rewrite nth_error_app2 by (rewrite map_length; fold m; lia). rewrite map_length. fold m.
    replace (m - m) with 0 by lia. reflexivity. }
  destruct (Hsc _ _ (Hseg _ _ HI)) as [KI _].
  destruct (Hsc _ _ (Hseg _ _ HD)) as [KD [CD SD]].
  replace (b + 1) with (b + 1) in * by reflexivity.
  split; [exact KI|]. split; [replace (b + 2 + m) with (b + (2 + m)) by lia; exact KD|].
  replace (b + 2 + m) with (b + (2 + m)) by lia. rewrite CD. simpl t_compl.
  split; [left; lia|]. split.
  { destruct (t_succ (get_task g (b + (2 + m)))) as [|x r] eqn:Es; [reflexivity|].
    (* the teardown task is not a test: the second pass leaves it unchanged *)
    exfalso. unfold add_test_deps in Hg. destruct (map_opt_nth_fwd _ _ _ Hg _ _ (Hseg _ _ HD)) as [t' [Ht' Hf]].
    simpl in Hf. inversion Hf. subst t'. rewrite (get_task_nth _ _ _ Ht') in Es. discriminate. }
  intros k Hk. destruct (nth_error ts0 k) as [t0|] eqn:Ht0; [|apply nth_error_None in Ht0; fold m in Ht0; lia].
  destruct (Hsc _ _ (Hseg _ _ (HT k t0 Ht0))) as [KT [_ ST]].
  replace (b + 2 + k) with (b + (2 + k)) by lia.
  split; [exact KT|]. split; [apply ST; left; lia|]. right. apply in_seq. lia.
Qed.

(* ------------------------------------------------------------------ depends_on edges (C04) *)
Lemma map_opt_In_fwd {A B} (f : A -> option B) l l' x : map_opt f l = Some l' -> In x l -> exists y, f x = Some y /\ In y l'.
Proof.
  intros H Hx. apply In_nth_error in Hx as [i Hi]. destruct (map_opt_nth_fwd f l l' H i x Hi) as [y [Hy Hf]].
  exists y. split; [exact Hf|eapply nth_error_In; exact Hy].
Qed.

(* For every project: the task of a test that declares depends_on d has, among its on-success dependencies, the task of the
   first test with path d (and that task is a test task with exactly that path). *)
Theorem depends_on_edges si force suites g i t :
  build_tasks si force suites = Some g ->
  nth_error (build_tasks_structural si force suites) i = Some t -> t_kind t = KTest ->
  forall d, In d (deps_lookup (deps_table suites) (t_path t)) ->
    exists j td, lookup_test_task (build_tasks_structural si force suites) d 0 = Some j /\
                 In j (t_succ (get_task g i)) /\
                 nth_error (build_tasks_structural si force suites) j = Some td /\ t_kind td = KTest /\ t_path td = d /\
                 t_kind (get_task g j) = KTest /\ t_path (get_task g j) = d.
Proof.
  intros Hg Hi Hk d Hd. unfold build_tasks, add_test_deps in Hg.
  destruct (map_opt_nth_fwd _ _ _ Hg i t Hi) as [t' [Ht' Hf]]. rewrite Hk in Hf.
  destruct (map_opt (fun p => lookup_test_task (build_tasks_structural si force suites) p 0)
                    (deps_lookup (deps_table suites) (t_path t))) as [ids|] eqn:Hids; [|discriminate].
  inversion Hf. subst t'. destruct (map_opt_In_fwd _ _ _ d Hids Hd) as [j [Hj Hin]].
  destruct (lookup_test_task_spec _ _ _ _ Hj) as [_ [td [Htd [Hkd Hpd]]]]. rewrite Nat.sub_0_r in Htd.
  exists j, td. split; [exact Hj|]. split; [rewrite (get_task_nth _ _ _ Ht'); simpl; apply in_app_iff; right; exact Hin|].
  split; [exact Htd|]. split; [exact Hkd|]. split; [exact Hpd|].
  destruct (add_test_deps_sc _ _ _ Hg j td Htd) as [K _].
  destruct (map_opt_nth_fwd _ _ _ Hg j td Htd) as [tj [Htj Hfj]]. rewrite (get_task_nth _ _ _ Htj).
  rewrite Hkd in Hfj. destruct (map_opt _ (deps_lookup (deps_table suites) (t_path td))) as [ids'|]; [|discriminate].
  inversion Hfj. simpl. split; [reflexivity|exact Hpd].
Qed.

(* ------------------------------------------------------------------ the session tasks *)
Lemma blocks_shape_gen g f pb0 parent e l :
  (forall x b, In x l -> embeds g b (f b x) ->
     block_shape g pb0 b (length (f b x)) /\ In parent (all_deps (get_task g b))) ->
  forall b, embeds g b (concat (blocks f l b)) ->
  (forall x, In x (block_ends (blocks f l b) b) -> In x (all_deps (get_task g e))) ->
  range (fun i => dep_path g i parent) b (length (concat (blocks f l b))) /\
  range (fun i => dep_path g e i) b (length (concat (blocks f l b))).
Proof.
  intros Hf. induction l as [|x r IH]; intros b He Hends; simpl; [split; apply range_nil|].
  simpl in He, Hends. rewrite app_length.
  destruct (Hf x b (or_introl eq_refl) (embeds_app_l _ _ _ _ He)) as [Sh Hp].
  destruct (IH (fun y b' Hy => Hf y b' (or_intror Hy)) (b + length (f b x)) (embeds_app_r _ _ _ _ He)
               (fun y Hy => Hends y (or_intror Hy))) as [IHd IHu].
  set (n := length (f b x)) in *. pose proof (bs_len _ _ _ _ Sh) as Hn.
  assert (Hpar : dep_path g b parent) by (apply dp_one; exact Hp).
  assert (Hend : dep_path g e (b + n - 1)) by (apply dp_one; apply Hends; left; reflexivity).
  split; apply range_app; try assumption.
  - intros k Hk. destruct k as [|k]; [rewrite Nat.add_0_r; exact Hpar|].
    apply dep_path_trans with b; [|exact Hpar]. replace (b + S k) with (S b + k) by lia. apply (bs_down _ _ _ _ Sh). lia.
  - intros k Hk. destruct (Nat.eq_dec k (n - 1)) as [E|NE]; [subst k; replace (b + (n - 1)) with (b + n - 1) by lia; exact Hend|].
    apply dep_path_trans with (b + n - 1); [exact Hend|]. apply (bs_up _ _ _ _ Sh). lia.
Qed.

Lemma suite_begin_session si force ss pb prefix inh base s g x :
  embeds g base (suite_tasks si force ss pb prefix inh base s) -> ss = Some x -> In x (all_deps (get_task g base)).
Proof.
  intros He Hx. destruct s as [n d h inj ts subs]. rewrite suite_tasks_eq in He. cbv zeta in He.
  apply embeds_app_l in He. apply (embeds_single _ _ _ He). unfold all_deps. simpl. subst ss. apply in_app_iff. left. left. reflexivity.
Qed.

(* With session-scoped fixtures scheduled: the session setup task is a transitive dependency of every other task and the
   session teardown task transitively depends on every other task, for every project (with at least one suite). *)
Theorem session_brackets si force suites g :
  si_session si = true -> suites <> [] -> build_tasks si force suites = Some g ->
  t_kind (get_task g 0) = KSessionSetup /\ t_kind (get_task g (length g - 1)) = KSessionTeardown /\ 2 <= length g /\
  (forall i, 0 < i < length g -> dep_path g i 0) /\
  (forall i, i < length g - 1 -> dep_path g (length g - 1) i).
Proof.
  intros Hs Hne Hg. unfold build_tasks in Hg.
  pose proof (add_test_deps_embeds _ _ _ Hg) as He. pose proof (add_test_deps_sc _ _ _ Hg) as Hsc.
  destruct (add_test_deps_nth _ _ _ Hg) as [Hlen _].
  unfold build_tasks_structural in *. rewrite suites_tasks_eq in *. rewrite Hs in *.
  set (f := suite_tasks si force (Some 0) None [] false) in *.
  set (bl := blocks f suites 1) in *.
  set (TS := mkTask KSessionSetup [] [] []) in *. set (TT := mkTask KSessionTeardown [] [] (block_ends bl 1)) in *.
  set (c := length (concat bl)) in *.
  assert (Hl : length g = 2 + c) by (rewrite Hlen, !app_length; simpl; fold c; lia).
  pose proof (embeds_app_r _ _ _ _ He) as He1. simpl in He1.
  pose proof (embeds_app_l _ _ _ _ He1) as EC. apply embeds_app_r in He1. fold c in He1.
  assert (K0 : t_kind (get_task g 0) = KSessionSetup) by (destruct (Hsc 0 TS eq_refl) as [K _]; exact K).
  assert (HT : nth_error ([TS] ++ concat bl ++ [TT]) (1 + c) = Some TT).
  { simpl. rewrite nth_error_app2 by (fold c; lia). fold c. replace (c - c) with 0 by lia. reflexivity. }
  assert (KT : t_kind (get_task g (1 + c)) = KSessionTeardown) by (destruct (Hsc _ _ HT) as [K _]; exact K).
  assert (HE : forall x, In x (block_ends bl 1) -> In x (all_deps (get_task g (1 + c)))).
  { intros x Hx. apply (embeds_single _ _ _ He1). unfold all_deps, TT. simpl. rewrite app_nil_r. exact Hx. }
  destruct (blocks_shape_gen g f None 0 (1 + c) suites) with (b := 1) as [Cd Cu].
  - intros x b Hx Hb. split; [apply suite_shape; exact Hb|eapply suite_begin_session; [exact Hb|reflexivity]].
  - exact EC.
  - exact HE.
  - fold bl in Cd, Cu. fold c in Cd, Cu. replace (length g - 1) with (1 + c) by lia.
    (* the teardown reaches the setup through the end of the first suite *)
    assert (H0 : dep_path g (1 + c) 0).
    { destruct suites as [|s0 rest]; [congruence|]. simpl in bl.
      assert (Hn : 1 <= length (f 1 s0)) by apply suite_tasks_nonempty.
      assert (Hc : length (f 1 s0) <= c) by (unfold c, bl; simpl; rewrite app_length; lia).
      apply dep_path_trans with (1 + length (f 1 s0) - 1).
      - apply dp_one. apply HE. unfold bl. simpl. left. reflexivity.
      - replace (1 + length (f 1 s0) - 1) with (1 + (length (f 1 s0) - 1)) by lia. apply Cd. lia. }
    split; [exact K0|]. split; [exact KT|]. split; [lia|]. split.
    + intros i Hi. destruct (Nat.eq_dec i (1 + c)) as [E|NE]; [subst i; exact H0|].
      replace i with (1 + (i - 1)) by lia. apply Cd. lia.
    + intros i Hi. destruct i as [|i]; [exact H0|]. replace (S i) with (1 + i) by lia. apply Cu. lia.
Qed.
