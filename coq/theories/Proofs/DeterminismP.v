(* Schedule independence of decisions and results (C05), over the dispatch-loop model:
   in the fragment without interrupt, without killed worker and where the only context flag raised is "something failed"
   with --stop-on-failure off, if the result a task ends with is a function [sem] of the task and of the decision taken for
   it (which is what Model/TaskSem.v gives, and what the per-task correspondence checks on every run), then the decision
   and the result of every task are the same in all runs: whatever the number of threads and the interleaving. *)
From Coq Require Import List Arith Bool Lia.
Import ListNotations.
From LCC Require Import Base.Util Model.Proj Model.Sched Proofs.SchedP.

Section Determinism.
Variable g : graph.
Variable rk : nat -> nat.
Hypothesis W : wf g rk.
Variable sem : nat -> mode -> tres.      (* result of task t when handle_task decided md *)

(* handle_task's decision from the results of the on-success dependencies alone (no context flag) *)
Fixpoint mode_of (rs : list tres) : mode :=
  match rs with
  | [] => Run
  | ResSuccess :: r => mode_of r
  | x :: _ => Skip (skip_reason_of x)
  end.

(* the canonical decision and result of a task: determined along the dependency graph *)
Inductive canon : nat -> mode -> tres -> Prop :=
| canon_intro t (rf : nat -> tres) md :
    (forall d, In d (t_succ (get_task g t)) -> exists mdd, canon d mdd (rf d)) ->
    md = mode_of (map rf (t_succ (get_task g t))) -> canon t md (sem t md).

Lemma canon_unique : forall k t, rk t < k -> t < length g ->
  forall md r md' r', canon t md r -> canon t md' r' -> md = md' /\ r = r'.
Proof.
  induction k as [|k IH]; intros t Hk Ht md r md' r' C1 C2; [lia|].
  inversion C1 as [t1 rf1 md1 D1 E1]; subst. inversion C2 as [t2 rf2 md2 D2 E2]; subst.
  assert (M : map rf1 (t_succ (get_task g t)) = map rf2 (t_succ (get_task g t))).
  { apply map_ext_in. intros d Hd. destruct (D1 d Hd) as [m1 X1]. destruct (D2 d Hd) as [m2 X2].
    assert (Hdeps : In d (all_deps (get_task g t))) by (unfold all_deps; apply in_or_app; right; auto).
    pose proof (wf_rank _ _ W t d Ht Hdeps). pose proof (wf_closed _ _ W t d Ht Hdeps).
    assert (Hk' : rk d < k) by lia.
    destruct (IH d Hk' H0 _ _ _ _ X1 X2) as [_ E]. exact E. }
  rewrite M. split; reflexivity.
Qed.

(* the fragment *)
Definition quiet_move (m : move) : bool :=
  match m with
  | MInterrupt | MDie _ => false
  | MFlag FFailure => true
  | MFlag _ => false
  | _ => true
  end.
Definition quiet (ms : list move) : Prop := forallb quiet_move ms = true.

Definition calm (c : ctx) : Prop :=
  c_tasks_aborted c = false /\ c_pending c = None /\ c_aborted_session c = false /\ c_aborted_suites c = [].

Record DInv (s : st) : Prop := {
  d_calm : calm (cx s);
  d_results : forall t r, result_of s t = Some r -> exists md, canon t md r;
  d_running : forall t md, In (t, md) (running s) -> canon t md (sem t md);
  d_done : forall t, In t (complq s ++ completed s) -> result_of s t <> None;
  d_pool : forall t j, In (t, j) (poolq s) -> j = JHandle;
  d_pc : pc s <> PDrain }.

Lemma dep_skip_mode_of s deps (rf : nat -> tres) :
  (forall d, In d deps -> result_of s d = Some (rf d)) ->
  match dep_skip s deps with Some r => Skip r | None => Run end = mode_of (map rf deps).
Proof.
  induction deps as [|d r IH]; simpl; intros H; auto.
  rewrite (H d (or_introl eq_refl)). destruct (rf d); simpl; auto.
Qed.

Lemma calm_decide s t (rf : nat -> tres) : calm (cx s) ->
  (forall d, In d (t_succ (get_task g t)) -> result_of s d = Some (rf d)) ->
  decide g false s t JHandle = mode_of (map rf (t_succ (get_task g t))).
Proof.
  intros [A [B [C D]]] H. unfold decide. rewrite <- (dep_skip_mode_of s _ rf H).
  destruct (dep_skip s (t_succ (get_task g t))); auto.
  unfold ctx_skip. rewrite A, B, C, D. simpl. rewrite andb_false_r. reflexivity.
Qed.

Lemma reason_eqb_eq a b : reason_eqb a b = true -> a = b.
Proof.
  destruct a, b; simpl; intros H; try discriminate; auto.
  - apply Nat.eqb_eq in H. subst; auto.
  - destruct empty, empty0; simpl in H; try discriminate; auto.
Qed.
Lemma mode_eqb_eq a b : mode_eqb a b = true -> a = b.
Proof.
  destruct a as [|[x|]], b as [|[y|]]; simpl; intros H; try discriminate; auto.
  apply reason_eqb_eq in H. subst; auto.
Qed.

Lemma pc_after_not_drain done o : o <> PDrain -> pc_after g done o <> PDrain.
Proof. unfold pc_after. destruct (Nat.eqb _ _); auto. discriminate. Qed.

Lemma step_DInv n s m s' : 1 <= n -> deps_done g s -> DInv s -> quiet_move m = true ->
  (match m with MFinish t res => forall md, running_mode s t = Some md -> res = sem t md | _ => True end) ->
  step g n false s m = Some s' -> DInv s'.
Proof.
  intros Hn DD [Hc Hr Hrun Hd Hp Hpc] Q Cons Hs.
  destruct m as [t|t md|t r|f| |t]; simpl in Q; try discriminate; simpl in Hs.
  - (* MMain *)
    destruct (pc s) eqn:Epc; try discriminate; [|congruence]. destruct (complq s) as [|t' q] eqn:Ec; try discriminate.
    destruct (Nat.eqb_spec t t') as [<-|]; try discriminate. inversion Hs; subst s'; clear Hs.
    constructor; simpl; auto.
    + intros x Hx. apply Hd. simpl in *. rewrite ?in_app_iff in *. simpl in *. tauto.
    + intros x j Hx. apply in_app_or in Hx as [Hx|Hx]; [eauto|].
      apply in_map_iff in Hx as [y [E _]]. inversion E; auto.
    + apply pc_after_not_drain. discriminate.
  - (* MTake *)
    destruct (poolq s) as [|[t' j] q] eqn:Ep; try discriminate.
    destruct (Nat.eqb_spec t t') as [<-|]; simpl in Hs; try discriminate.
    destruct (Nat.ltb (length (running s)) n); simpl in Hs; try discriminate.
    destruct (mode_eqb md (decide g false s t j)) eqn:Em; try discriminate. inversion Hs; subst s'; clear Hs.
    assert (Hj : j = JHandle) by (apply (Hp t j); left; auto). subst j.
    constructor; simpl; auto.
    + intros x mdx [E|Hx]; [|apply Hrun; auto]. inversion E; subst x mdx.
      assert (Hdeps : forall d, In d (t_succ (get_task g t)) -> exists r, result_of s d = Some r).
      { intros d Hdd. assert (In d (completed s)).
        { apply (DD t d). unfold dispatched. rewrite Ep. simpl. auto. unfold all_deps. apply in_or_app. right. auto. }
        destruct (result_of s d) eqn:Eres; eauto. exfalso. apply (Hd d); auto. apply in_or_app. right. auto. }
      set (rf := fun d => match result_of s d with Some r => r | None => ResSuccess end).
      assert (Hrf : forall d, In d (t_succ (get_task g t)) -> result_of s d = Some (rf d)).
      { intros d Hdd. destruct (Hdeps d Hdd) as [r Er]. unfold rf. rewrite Er. reflexivity. }
      assert (Emd : md = mode_of (map rf (t_succ (get_task g t)))).
      { rewrite <- (calm_decide s t rf Hc Hrf). apply mode_eqb_eq. exact Em. }
      apply (canon_intro t rf md); [|exact Emd].
      intros d Hdd. destruct (Hr d (rf d) (Hrf d Hdd)) as [mdd Cd]. eauto.
    + intros x j Hx. apply (Hp x j). right. auto.
  - (* MFinish *)
    destruct (running_mode s t) as [md|] eqn:Er; try discriminate.
    destruct (result_allowed g t md r); try discriminate. inversion Hs; subst s'; clear Hs.
    specialize (Cons md eq_refl). subst r.
    apply find_running_In in Er.
    constructor; simpl; auto.
    + intros x rx Hx. unfold result_of in Hx. simpl in Hx. destruct (Nat.eqb_spec t x) as [<-|Hne].
      * inversion Hx; subst. exists md. apply Hrun. auto.
      * apply Hr. exact Hx.
    + intros x mdx Hx. apply Hrun. unfold remove_running in Hx. apply filter_In in Hx. tauto.
    + intros x Hx. unfold result_of. simpl. destruct (Nat.eqb_spec t x) as [<-|Hne]; [discriminate|].
      apply Hd. rewrite ?in_app_iff in *. simpl in *. intuition congruence.
  - (* MFlag FFailure *)
    destruct f; try discriminate. inversion Hs; subst s'; clear Hs. constructor; simpl; auto.
Qed.

Fixpoint consistent_from (n : nat) (s : st) (ms : list move) : Prop :=
  match ms with
  | [] => True
  | m :: r =>
      (match m with
       | MFinish t res => forall md, running_mode s t = Some md -> res = sem t md
       | _ => True
       end) /\
      match step g n false s m with Some s' => consistent_from n s' r | None => True end
  end.

Lemma init_DInv n : DInv (init g n).
Proof.
  constructor; unfold init; simpl.
  - repeat split; reflexivity.
  - intros t r H. unfold result_of in H. simpl in H. discriminate.
  - intros t md [].
  - intros t [].
  - intros t j Hx. apply in_map_iff in Hx as [y [E _]]. inversion E; auto.
  - unfold pc_after. destruct (Nat.eqb _ _); discriminate.
Qed.

Lemma run_DInv n ms : forall s s', 1 <= n -> Inv g n s -> deps_done g s -> DInv s -> quiet ms -> consistent_from n s ms ->
  run g n false s ms = Some s' -> DInv s'.
Proof.
  induction ms as [|m ms IH]; simpl; intros s s' Hn I DD D Q C H.
  - inversion H; subst; auto.
  - destruct (step g n false s m) as [s1|] eqn:E; [|discriminate].
    unfold quiet in Q. simpl in Q. apply andb_prop in Q as [Q1 Q2]. destruct C as [C1 C2].
    apply (IH s1 s' Hn); auto.
    + eapply step_Inv; eauto.
    + eapply step_deps_done; eauto.
    + eapply step_DInv; eauto.
Qed.

(* Two runs of the same graph — different thread counts, different interleavings — give every task the same result. *)
Theorem results_schedule_independent n1 n2 ms1 ms2 s1 s2 :
  1 <= n1 -> 1 <= n2 -> quiet ms1 -> quiet ms2 ->
  run g n1 false (init g n1) ms1 = Some s1 -> consistent_from n1 (init g n1) ms1 ->
  run g n2 false (init g n2) ms2 = Some s2 -> consistent_from n2 (init g n2) ms2 ->
  forall t r1 r2, t < length g -> result_of s1 t = Some r1 -> result_of s2 t = Some r2 -> r1 = r2.
Proof.
  intros H1 H2 Q1 Q2 R1 C1 R2 C2 t r1 r2 Ht E1 E2.
  pose proof (run_DInv n1 ms1 _ _ H1 (init_Inv g n1 H1) (init_deps_done g n1) (init_DInv n1) Q1 C1 R1) as D1.
  pose proof (run_DInv n2 ms2 _ _ H2 (init_Inv g n2 H2) (init_deps_done g n2) (init_DInv n2) Q2 C2 R2) as D2.
  destruct (d_results _ D1 t r1 E1) as [m1 X1]. destruct (d_results _ D2 t r2 E2) as [m2 X2].
  destruct (canon_unique (S (rk t)) t ltac:(lia) Ht _ _ _ _ X1 X2) as [_ E]. exact E.
Qed.

(* ... and the same decision: a task that is running in both runs was taken with the same mode *)
Theorem decisions_schedule_independent n1 n2 ms1 ms2 s1 s2 :
  1 <= n1 -> 1 <= n2 -> quiet ms1 -> quiet ms2 ->
  run g n1 false (init g n1) ms1 = Some s1 -> consistent_from n1 (init g n1) ms1 ->
  run g n2 false (init g n2) ms2 = Some s2 -> consistent_from n2 (init g n2) ms2 ->
  forall t md1 md2, t < length g -> In (t, md1) (running s1) -> In (t, md2) (running s2) -> md1 = md2.
Proof.
  intros H1 H2 Q1 Q2 R1 C1 R2 C2 t md1 md2 Ht E1 E2.
  pose proof (run_DInv n1 ms1 _ _ H1 (init_Inv g n1 H1) (init_deps_done g n1) (init_DInv n1) Q1 C1 R1) as D1.
  pose proof (run_DInv n2 ms2 _ _ H2 (init_Inv g n2 H2) (init_deps_done g n2) (init_DInv n2) Q2 C2 R2) as D2.
  pose proof (d_running _ D1 t md1 E1) as X1. pose proof (d_running _ D2 t md2 E2) as X2.
  destruct (canon_unique (S (rk t)) t ltac:(lia) Ht _ _ _ _ X1 X2) as [E _]. exact E.
Qed.
End Determinism.
