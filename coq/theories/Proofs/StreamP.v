(* C18: the replay of a replayable report satisfies the stream grammar (Model/StreamOk.v, replay mode) and is contiguous. *)
From Coq Require Import List NArith ZArith Bool Lia.
Import ListNotations.
From LCC Require Import Base.Util Model.Report Model.Events Model.Replay Model.StreamOk Proofs.WriterP Proofs.ReplayP.

(* ---------------- paths ---------------- *)
Lemma path_eqb_refl : forall p, path_eqb p p = true.
Proof. intro. apply list_eqb_refl. apply str_eqb_refl. Qed.

Lemma path_eqb_eq : forall p q, path_eqb p q = true -> p = q.
Proof. apply list_eqb_eq. apply str_eqb_eq. Qed.

Lemma path_eqb_false_len : forall p q, length p <> length q -> path_eqb p q = false.
Proof.
  intros. destruct (path_eqb p q) eqn:E; auto. apply path_eqb_eq in E. subst. contradiction.
Qed.

Lemma location_eqb_refl : forall l, location_eqb l l = true.
Proof. destruct l; simpl; auto using path_eqb_refl. Qed.

Lemma key_eqb_refl : forall k, key_eqb k k = true.
Proof. intros [l t]. unfold key_eqb. simpl. rewrite location_eqb_refl, Z.eqb_refl. reflexivity. Qed.

Lemma has_prefix_refl : forall p, has_prefix p p = true.
Proof. induction p; simpl; auto. rewrite str_eqb_refl. assumption. Qed.

Lemma has_prefix_app : forall p r, has_prefix p (p ++ r) = true.
Proof. induction p; simpl; auto. intro. rewrite str_eqb_refl. auto. Qed.

Lemma has_prefix_len : forall p q, has_prefix p q = true -> length p <= length q.
Proof.
  induction p; destruct q; simpl; intros; try lia; try discriminate.
  apply andb_true_iff in H. destruct H. apply IHp in H0. lia.
Qed.

Lemma has_prefix_trans : forall p q r, has_prefix p q = true -> has_prefix q r = true -> has_prefix p r = true.
Proof.
  induction p; destruct q, r; simpl; intros; try discriminate; auto.
  apply andb_true_iff in H. destruct H. apply andb_true_iff in H0. destruct H0.
  apply str_eqb_eq in H. apply str_eqb_eq in H0. subst. rewrite str_eqb_refl. simpl. eauto.
Qed.

(* two children of the same node with different names have disjoint subtrees *)
Lemma has_prefix_diverge : forall q a b k, str_eqb a b = false ->
  has_prefix (q ++ [b]) k = true -> has_prefix (q ++ [a]) k = false.
Proof.
  induction q; simpl; intros a b k Hab Hk.
  - destruct k; [discriminate|]. rewrite andb_true_r in Hk. apply str_eqb_eq in Hk. subst. rewrite Hab. reflexivity.
  - destruct k; [discriminate|]. apply andb_true_iff in Hk. destruct Hk as [H1 H2].
    rewrite H1. simpl. eauto.
Qed.

Definition below (u k : path) : bool := has_prefix u k && negb (path_eqb u k).

Lemma below_len : forall u k, below u k = true -> length u < length k.
Proof.
  unfold below. intros. apply andb_true_iff in H. destruct H as [H1 H2].
  apply has_prefix_len in H1. apply negb_true_iff in H2.
  destruct (Nat.eq_dec (length u) (length k)); [|lia].
  exfalso. clear H1. revert k H2 e. induction u; destruct k; simpl; intros; try discriminate.
  (* same length and prefix => equal: but we only know they are not path_eqb; use has_prefix? *)
  all: try lia.
Abort.

Lemma has_prefix_same_len : forall u k, has_prefix u k = true -> length u = length k -> path_eqb u k = true.
Proof.
  induction u; destruct k; simpl; intros; try discriminate; auto.
  apply andb_true_iff in H. destruct H. unfold path_eqb in *. simpl. rewrite H. simpl. apply IHu; auto.
Qed.

Lemma below_len : forall u k, below u k = true -> length u < length k.
Proof.
  unfold below. intros. apply andb_true_iff in H. destruct H as [H1 H2].
  pose proof (has_prefix_len _ _ H1). apply negb_true_iff in H2.
  destruct (Nat.eq_dec (length u) (length k)); [|lia].
  rewrite (has_prefix_same_len _ _ H1 e) in H2. discriminate.
Qed.

Lemma below_child : forall u x, below u (u ++ [x]) = true.
Proof.
  intros. unfold below. rewrite has_prefix_app. simpl.
  rewrite path_eqb_false_len; auto. rewrite app_length. simpl. lia.
Qed.

Lemma below_short : forall u k, length k <= length u -> below u k = false.
Proof. intros. destruct (below u k) eqn:E; auto. apply below_len in E. lia. Qed.

Lemma below_trans_child : forall u x k, below (u ++ [x]) k = true -> below u k = true.
Proof.
  intros. pose proof (below_len _ _ H). unfold below in *. apply andb_true_iff in H. destruct H as [H1 _].
  rewrite (has_prefix_trans u (u ++ [x]) k); auto using has_prefix_app. simpl.
  rewrite path_eqb_false_len; auto. rewrite app_length in H0. simpl in H0. lia.
Qed.

Lemma below_diverge : forall q a b k, str_eqb a b = false -> below (q ++ [b]) k = true -> below (q ++ [a]) k = false.
Proof.
  intros. unfold below in *. apply andb_true_iff in H0. destruct H0.
  rewrite (has_prefix_diverge q a b k); auto.
Qed.

Lemma parent_of_child : forall q x, parent_of (q ++ [x]) = q.
Proof.
  induction q; simpl; intros; auto. rewrite IHq. destruct (q ++ [x]) eqn:E; auto.
  destruct q; discriminate.
Qed.

Lemma parent_below : forall k q, q <> [] -> parent_of k = q -> below q k = true.
Proof.
  intros k q Hq Hk. subst q.
  assert (exists x, k = parent_of k ++ [x]).
  { clear Hq. induction k; simpl. - exists []. simpl in *. (* parent_of [] = [] *) Abort.

Lemma parent_split : forall k, k <> [] -> exists x, k = parent_of k ++ [x].
Proof.
  induction k; intros; [contradiction|].
  destruct k as [|b k'].
  - exists a. reflexivity.
  - destruct IHk as [x Hx]; [discriminate|]. exists x.
    change (parent_of (a :: b :: k')) with (a :: parent_of (b :: k')). simpl app. rewrite <- Hx. reflexivity.
Qed.

Lemma parent_below : forall k q, q <> [] -> parent_of k = q -> below q k = true.
Proof.
  intros k q Hq Hk. destruct k as [|a k]; [simpl in Hk; congruence|].
  destruct (parent_split (a :: k)) as [x Hx]; [discriminate|].
  rewrite Hk in Hx. rewrite Hx. apply below_child.
Qed.

(* ---------------- lookups ---------------- *)
Lemma lookup_app_none : forall K V (eqb : K -> K -> bool) k (d l : list (K * V)),
  Forall (fun kv => eqb (fst kv) k = false) d -> lookup eqb k (d ++ l) = lookup eqb k l.
Proof.
  induction d as [|[k' v] d]; simpl; intros; auto.
  inversion H; subst. simpl in H2. rewrite H2. auto.
Qed.

Lemma lookup_none_forall : forall K V (eqb : K -> K -> bool) k (l : list (K * V)),
  Forall (fun kv => eqb (fst kv) k = false) l -> lookup eqb k l = None.
Proof. induction l as [|[k' v] l]; simpl; intros; auto. inversion H; subst. simpl in H2. rewrite H2. auto. Qed.

(* prefixes_open only looks at keys that are prefixes of the path *)
Lemma prefixes_open_cons_other : forall sm k v p done,
  has_prefix k (done ++ p) = false ->
  prefixes_open ((k, v) :: sm) done p = prefixes_open sm done p.
Proof.
  intros sm k v. induction p as [|a r IH]; intros done Hk; simpl; auto.
  assert (E : path_eqb k (done ++ [a]) = false).
  { destruct (path_eqb k (done ++ [a])) eqn:E; auto. apply path_eqb_eq in E. subst k.
    rewrite <- app_assoc in Hk. simpl in Hk. rewrite has_prefix_app in Hk. discriminate. }
  rewrite E. destruct (lookup path_eqb (done ++ [a]) sm); auto.
  rewrite IH; auto. rewrite <- app_assoc. assumption.
Qed.

Lemma prefixes_open_app_other : forall sm d p done,
  Forall (fun kv => has_prefix (fst kv) (done ++ p) = false) d ->
  prefixes_open (d ++ sm) done p = prefixes_open sm done p.
Proof.
  induction d as [|[k v] d]; simpl; intros; auto.
  inversion H; subst. rewrite prefixes_open_cons_other; auto.
Qed.

Lemma prefixes_open_cons_self : forall sm v p done,
  p <> [] -> ss_ended v = false ->
  prefixes_open sm done p = true -> prefixes_open ((done ++ p, v) :: sm) done p = true.
Proof.
  intros sm v. induction p as [|a r IH]; intros done Hp Hv H; [contradiction|].
  simpl in *. destruct r as [|b r'].
  - rewrite path_eqb_refl. rewrite Hv. reflexivity.
  - rewrite path_eqb_false_len. 2: rewrite !app_length; simpl; lia.
    destruct (lookup path_eqb (done ++ [a]) sm); [|discriminate].
    apply andb_true_iff in H. destruct H as [H1 H2]. rewrite H1. simpl.
    replace (done ++ a :: b :: r') with ((done ++ [a]) ++ b :: r') by (rewrite <- app_assoc; reflexivity).
    apply IH; auto. discriminate.
Qed.

(* a prefix of an open path is open *)
Lemma prefixes_open_prefix : forall sm p r done, prefixes_open sm done (p ++ r) = true -> prefixes_open sm done p = true.
Proof.
  intros sm. induction p as [|a p IH]; intros r done H; simpl in *; auto.
  destruct (lookup path_eqb (done ++ [a]) sm); [|discriminate].
  apply andb_true_iff in H. destruct H as [H1 H2]. rewrite H1. simpl. eauto.
Qed.
