(* C18: the replay of a replayable report satisfies the stream grammar (Model/StreamOk.v, replay mode) and is contiguous. *)
From Coq Require Import List NArith ZArith Bool Lia Setoid.
Import ListNotations.
From LCC Require Import Base.Util Model.Report Model.Events Model.Replay Model.StreamOk Proofs.WriterP Proofs.ReplayP.

(* ---------------- paths ---------------- *)
Lemma path_eqb_refl : forall p, path_eqb p p = true.
Proof. intro. apply list_eqb_refl. apply str_eqb_refl. Qed.

Lemma path_eqb_eq : forall p q, path_eqb p q = true -> p = q.
Proof. apply list_eqb_eq. apply str_eqb_eq. Qed.

Lemma path_eqb_false_len : forall p q, length p <> length q -> path_eqb p q = false.
Proof.
  intros. destruct (path_eqb p q) eqn:E; auto. apply path_eqb_eq in E. subst. contradiction.
Qed.

Lemma location_eqb_refl : forall l, location_eqb l l = true.
Proof. destruct l; simpl; auto using path_eqb_refl. Qed.

Lemma key_eqb_refl : forall k, key_eqb k k = true.
Proof. intros [l t]. unfold key_eqb. simpl. rewrite location_eqb_refl, Z.eqb_refl. reflexivity. Qed.

Lemma has_prefix_refl : forall p, has_prefix p p = true.
Proof. induction p; simpl; auto. rewrite str_eqb_refl. simpl. assumption. Qed.

Lemma has_prefix_app : forall p r, has_prefix p (p ++ r) = true.
Proof. induction p; simpl; auto. intro. rewrite str_eqb_refl. simpl. auto. Qed.

Lemma has_prefix_len : forall p q, has_prefix p q = true -> length p <= length q.
Proof.
  induction p; destruct q; simpl; intros; try lia; try discriminate.
  apply andb_true_iff in H. destruct H. apply IHp in H0. lia.
Qed.

Lemma has_prefix_trans : forall p q r, has_prefix p q = true -> has_prefix q r = true -> has_prefix p r = true.
Proof.
  induction p; destruct q, r; simpl; intros; try discriminate; auto.
  apply andb_true_iff in H. destruct H. apply andb_true_iff in H0. destruct H0.
  apply str_eqb_eq in H. apply str_eqb_eq in H0. subst. rewrite str_eqb_refl. simpl. eauto.
Qed.

(* two children of the same node with different names have disjoint subtrees *)
Lemma has_prefix_diverge : forall q a b k, str_eqb a b = false ->
  has_prefix (q ++ [b]) k = true -> has_prefix (q ++ [a]) k = false.
Proof.
  induction q as [|x q IH]; simpl; intros a b k Hab Hk.
  - destruct k as [|y k]; [discriminate|]. rewrite andb_true_r in Hk. apply str_eqb_eq in Hk. subst. rewrite Hab. reflexivity.
  - destruct k as [|y k]; [discriminate|]. apply andb_true_iff in Hk. destruct Hk as [H1 H2].
    rewrite H1. simpl. eauto.
Qed.

Definition below (u k : path) : bool := has_prefix u k && negb (path_eqb u k).

Lemma has_prefix_same_len : forall u k, has_prefix u k = true -> length u = length k -> path_eqb u k = true.
Proof.
  induction u; destruct k; simpl; intros; try discriminate; auto.
  apply andb_true_iff in H. destruct H. unfold path_eqb in *. simpl. rewrite H. simpl. apply IHu; auto.
Qed.

Lemma below_len : forall u k, below u k = true -> length u < length k.
Proof.
  unfold below. intros. apply andb_true_iff in H. destruct H as [H1 H2].
  pose proof (has_prefix_len _ _ H1). apply negb_true_iff in H2.
  destruct (Nat.eq_dec (length u) (length k)); [|lia].
  rewrite (has_prefix_same_len _ _ H1 e) in H2. discriminate.
Qed.

Lemma below_child : forall u x, below u (u ++ [x]) = true.
Proof.
  intros. unfold below. rewrite has_prefix_app. simpl.
  rewrite path_eqb_false_len; auto. rewrite app_length. simpl. lia.
Qed.

Lemma below_short : forall u k, length k <= length u -> below u k = false.
Proof. intros. destruct (below u k) eqn:E; auto. apply below_len in E. lia. Qed.

Lemma below_trans_child : forall u x k, below (u ++ [x]) k = true -> below u k = true.
Proof.
  intros. pose proof (below_len _ _ H). unfold below in *. apply andb_true_iff in H. destruct H as [H1 _].
  rewrite (has_prefix_trans u (u ++ [x]) k); auto using has_prefix_app. simpl.
  rewrite path_eqb_false_len; auto. rewrite app_length in H0. simpl in H0. lia.
Qed.

Lemma below_diverge : forall q a b k, str_eqb a b = false -> below (q ++ [b]) k = true -> below (q ++ [a]) k = false.
Proof.
  intros. unfold below in *. apply andb_true_iff in H0. destruct H0.
  rewrite (has_prefix_diverge q a b k); auto.
Qed.

Lemma parent_of_child : forall q x, parent_of (q ++ [x]) = q.
Proof.
  induction q; simpl; intros; auto. rewrite IHq. destruct (q ++ [x]) eqn:E; auto.
  destruct q; discriminate.
Qed.

Lemma parent_split : forall k, k <> [] -> exists x, k = parent_of k ++ [x].
Proof.
  induction k; intros; [contradiction|].
  destruct k as [|b k'].
  - exists a. reflexivity.
  - destruct IHk as [x Hx]; [discriminate|]. exists x.
    change (parent_of (a :: b :: k')) with (a :: parent_of (b :: k')). rewrite <- app_comm_cons. rewrite <- Hx. reflexivity.
Qed.

Lemma parent_below : forall k q, q <> [] -> parent_of k = q -> below q k = true.
Proof.
  intros k q Hq Hk. destruct k as [|a k]; [simpl in Hk; congruence|].
  destruct (parent_split (a :: k)) as [x Hx]; [discriminate|].
  rewrite Hk in Hx. rewrite Hx. apply below_child.
Qed.

(* ---------------- lookups ---------------- *)
Lemma lookup_app_none : forall K V (eqb : K -> K -> bool) k (d l : list (K * V)),
  Forall (fun kv => eqb (fst kv) k = false) d -> lookup eqb k (d ++ l) = lookup eqb k l.
Proof.
  induction d as [|[k' v] d]; simpl; intros; auto.
  inversion H; subst. simpl in H2. rewrite H2. auto.
Qed.

Lemma lookup_none_forall : forall K V (eqb : K -> K -> bool) k (l : list (K * V)),
  Forall (fun kv => eqb (fst kv) k = false) l -> lookup eqb k l = None.
Proof. induction l as [|[k' v] l]; simpl; intros; auto. inversion H; subst. simpl in H2. rewrite H2. auto. Qed.

(* prefixes_open only looks at keys that are prefixes of the path *)
Lemma prefixes_open_cons_other : forall sm k v p done,
  has_prefix k (done ++ p) = false ->
  prefixes_open ((k, v) :: sm) done p = prefixes_open sm done p.
Proof.
  intros sm k v. induction p as [|a r IH]; intros done Hk; simpl; auto.
  assert (E : path_eqb k (done ++ [a]) = false).
  { destruct (path_eqb k (done ++ [a])) eqn:E; auto. apply path_eqb_eq in E. subst k.
    replace (done ++ a :: r) with ((done ++ [a]) ++ r) in Hk by (rewrite <- app_assoc; reflexivity).
    rewrite has_prefix_app in Hk. discriminate. }
  rewrite E. destruct (lookup path_eqb (done ++ [a]) sm); auto.
  rewrite IH; auto. rewrite <- app_assoc. assumption.
Qed.

Lemma prefixes_open_app_other : forall sm d p done,
  Forall (fun kv => has_prefix (fst kv) (done ++ p) = false) d ->
  prefixes_open (d ++ sm) done p = prefixes_open sm done p.
Proof.
  induction d as [|[k v] d]; simpl; intros; auto.
  inversion H; subst. rewrite prefixes_open_cons_other; auto.
Qed.

Lemma prefixes_open_cons_self : forall sm v p done,
  p <> [] -> ss_ended v = false ->
  prefixes_open sm done p = true -> prefixes_open ((done ++ p, v) :: sm) done p = true.
Proof.
  intros sm v. induction p as [|a r IH]; intros done Hp Hv H; [contradiction|].
  simpl in *. destruct r as [|b r'].
  - rewrite path_eqb_refl. rewrite Hv. reflexivity.
  - rewrite path_eqb_false_len. 2: rewrite !app_length; simpl; lia.
    destruct (lookup path_eqb (done ++ [a]) sm); [|discriminate].
    apply andb_true_iff in H. destruct H as [H1 H2]. rewrite H1. simpl.
    replace (done ++ a :: b :: r') with ((done ++ [a]) ++ b :: r') by (rewrite <- app_assoc; reflexivity).
    apply IH; auto. discriminate.
Qed.

(* a prefix of an open path is open *)
Lemma prefixes_open_prefix : forall sm p r done, prefixes_open sm done (p ++ r) = true -> prefixes_open sm done p = true.
Proof.
  intros sm. induction p as [|a p IH]; intros r done H; simpl in *; auto.
  destruct (lookup path_eqb (done ++ [a]) sm); [|discriminate].
  apply andb_true_iff in H. destruct H as [H1 H2]. rewrite H1. simpl. eauto.
Qed.

Lemma str_eqb_sym_false : forall a b, str_eqb a b = false -> str_eqb b a = false.
Proof.
  intros. destruct (str_eqb b a) eqn:E; auto. apply str_eqb_eq in E. subst. rewrite str_eqb_refl in H. discriminate.
Qed.

Lemma path_eqb_child : forall u a b, str_eqb a b = false -> path_eqb (u ++ [a]) (u ++ [b]) = false.
Proof.
  intros. destruct (path_eqb (u ++ [a]) (u ++ [b])) eqn:E; auto.
  apply path_eqb_eq in E. apply app_inv_head in E. inversion E. subst. rewrite str_eqb_refl in H. discriminate.
Qed.

Lemma prefixes_open_new_child : forall sm v n pp done,
  ss_ended v = false -> prefixes_open sm done pp = true ->
  prefixes_open ((done ++ pp ++ [n], v) :: sm) done (pp ++ [n]) = true.
Proof.
  intros sm v n. induction pp as [|a r IH]; intros done Hv H.
  - simpl. rewrite path_eqb_refl. rewrite Hv. reflexivity.
  - simpl in *. rewrite path_eqb_false_len. 2: rewrite !app_length; simpl; rewrite app_length; simpl; lia.
    destruct (lookup path_eqb (done ++ [a]) sm); [|discriminate].
    apply andb_true_iff in H. destruct H as [H1 H2]. rewrite H1. simpl.
    replace (done ++ a :: r ++ [n]) with ((done ++ [a]) ++ r ++ [n]) by (rewrite <- app_assoc; reflexivity).
    apply IH; auto.
Qed.

(* ---------------- the checker in replay mode ---------------- *)
Definition with_steps (c : cstate) S := mkC (c_phase c) (c_setup c) (c_teardown c) (c_suites c) (c_tests c) S.

Lemma result_open_with_steps : forall m c S loc, result_open m (with_steps c S) loc = result_open m c loc.
Proof. intros. destruct loc; reflexivity. Qed.

Lemma check_all_app : forall m l1 l2 c,
  check_all m c (l1 ++ l2) = match check_all m c l1 with Some c' => check_all m c' l2 | None => None end.
Proof. induction l1; simpl; intros; auto. destruct (check_event m c a); auto. Qed.

Definition Open (u : path) (c : cstate) (st : sstate) : Prop :=
  c_phase c = PRunning /\ c_teardown c = RNone /\ prefixes_open (c_suites c) [] u = true /\
  lookup path_eqb u (c_suites c) = Some st /\ ss_ended st = false /\ u <> [].

Lemma open_suite_Open : forall u c st, Open u c st -> open_suite c u = Some st.
Proof.
  intros u c st (H1 & H2 & H3 & H4 & H5 & H6). unfold open_suite, suite_open.
  destruct u; [contradiction|]. rewrite H3, H2. simpl. assumption.
Qed.

Lemma Open_put_suite : forall u c st st', Open u c st -> ss_ended st' = false -> Open u (put_suite c u st') st'.
Proof.
  intros u c st st' (H1 & H2 & H3 & H4 & H5 & H6) Hs. unfold Open. cbn [put_suite c_phase c_teardown c_suites].
  repeat split; auto.
  - apply (prefixes_open_cons_self (c_suites c) st' u []); auto.
  - simpl. rewrite path_eqb_refl. reflexivity.
Qed.

Lemma Open_put_test : forall u c st k x, Open u c st -> Open u (put_test c k x) st.
Proof. intros u c st k x H. exact H. Qed.

Lemma Open_with_steps : forall u c st S, Open u c st -> Open u (with_steps c S) st.
Proof. intros u c st S H. exact H. Qed.

(* extension of the maps by bindings below u *)
Definition Ext (u : path) (c c' : cstate) : Prop :=
  (exists ds, c_suites c' = ds ++ c_suites c /\ Forall (fun kv => has_prefix u (fst kv) = true) ds) /\
  (exists dt, c_tests c' = dt ++ c_tests c /\ Forall (fun kv => below u (fst kv) = true) dt).

Lemma Ext_refl : forall u c c', c_suites c' = c_suites c -> c_tests c' = c_tests c -> Ext u c c'.
Proof. intros. split; exists []; split; auto. Qed.

Lemma Ext_trans : forall u c1 c2 c3, Ext u c1 c2 -> Ext u c2 c3 -> Ext u c1 c3.
Proof.
  intros u c1 c2 c3 [[ds1 [E1 F1]] [dt1 [E2 F2]]] [[ds2 [E3 F3]] [dt2 [E4 F4]]].
  split; [exists (ds2 ++ ds1)|exists (dt2 ++ dt1)]; split; try (apply Forall_app; auto).
  - rewrite E3, E1, app_assoc. reflexivity.
  - rewrite E4, E2, app_assoc. reflexivity.
Qed.

Lemma Ext_put_suite : forall u c st, Ext u c (put_suite c u st).
Proof.
  intros. split; [exists [(u, st)]|exists []]; split; auto. constructor; auto. simpl. apply has_prefix_refl.
Qed.

Lemma Ext_put_test : forall u c x st, Ext u c (put_test c (u ++ [x]) st).
Proof.
  intros. split; [exists []|exists [(u ++ [x], st)]]; split; auto. constructor; auto. simpl. apply below_child.
Qed.

Definition ExtSelf (u : path) (c c' : cstate) : Prop :=
  c_tests c' = c_tests c /\ exists ds, c_suites c' = ds ++ c_suites c /\ Forall (fun kv => fst kv = u) ds.

Lemma ExtSelf_refl : forall u c c', c_suites c' = c_suites c -> c_tests c' = c_tests c -> ExtSelf u c c'.
Proof. intros. split; auto. exists []. split; auto. Qed.

Lemma ExtSelf_put_suite : forall u c st, ExtSelf u c (put_suite c u st).
Proof. intros. split; auto. exists [(u, st)]. split; auto. Qed.

Lemma ExtSelf_trans : forall u c1 c2 c3, ExtSelf u c1 c2 -> ExtSelf u c2 c3 -> ExtSelf u c1 c3.
Proof.
  intros u c1 c2 c3 [T1 [ds1 [E1 F1]]] [T2 [ds2 [E2 F2]]]. split; [congruence|].
  exists (ds2 ++ ds1). split; [rewrite E2, E1, app_assoc; reflexivity|apply Forall_app; auto].
Qed.

Lemma ExtSelf_Ext : forall u c c', ExtSelf u c c' -> Ext u c c'.
Proof.
  intros u c c' [T [ds [E F]]]. split; [exists ds|exists []]; split; auto.
  eapply Forall_impl; [|exact F]. intros [k v] H. simpl in *. subst. apply has_prefix_refl.
Qed.

Lemma Ext_child : forall u x c c', Ext (u ++ [x]) c c' -> Ext u c c'.
Proof.
  intros u x c c' [[ds [E1 F1]] [dt [E2 F2]]]. split; [exists ds|exists dt]; split; auto.
  - eapply Forall_impl; [|exact F1]. intros kv H. eapply has_prefix_trans; [apply has_prefix_app|exact H].
  - eapply Forall_impl; [|exact F2]. intros kv H. eapply below_trans_child. exact H.
Qed.

Section Stream.
  Variable now : Z.
  Variable th : tid.
  Let m := replay_mode.

  (* ---------------- steps ---------------- *)
  Lemma log_event_check : forall loc d lg c,
    check_event m c (replay_log now th loc d lg)
    = match c_phase c with PRunning => step_event m c loc d th 2 | _ => None end.
  Proof. intros. destruct lg; reflexivity. Qed.

  Lemma chk_logs : forall loc d logs c b,
    c_phase c = PRunning -> result_open m c loc = true ->
    lookup key_eqb (loc, th) (c_steps c) = Some (Some (d, b)) ->
    exists S' b', check_all m c (map (replay_log now th loc d) logs) = Some (with_steps c S') /\
                  lookup key_eqb (loc, th) S' = Some (Some (d, b')).
  Proof.
    intros loc d. induction logs as [|lg logs IH]; intros c b Hp Ho Hl.
    - exists (c_steps c), b. split; auto. destruct c; reflexivity.
    - cbn [map check_all]. rewrite log_event_check, Hp. unfold step_event. rewrite Ho. cbn [negb].
      rewrite Hl. rewrite str_eqb_refl. cbn [guard].
      destruct (IH (put_step c (loc, th) (Some (d, true))) true) as [S' [b' [E1 E2]]]; auto.
      { cbn [put_step c_steps lookup]. rewrite key_eqb_refl. reflexivity. }
      exists S', b'. split; auto.
  Qed.

  Lemma chk_step : forall loc st c, c_phase c = PRunning -> result_open m c loc = true ->
    exists S', check_all m c (replay_step now th loc st) = Some (with_steps c S').
  Proof.
    intros loc st c Hp Ho. unfold replay_step. cbn [check_all check_event]. rewrite Hp.
    unfold step_event at 1. rewrite Ho. cbn [negb].
    set (c1 := put_step c (loc, th) (Some (st_description st, false))).
    assert (E0 : match match lookup key_eqb (loc, th) (c_steps c) with Some (Some x) => Some x | _ => None end with
                 | Some _ => guard (m_unfinished m) c1
                 | None => Some c1 end = Some c1).
    { destruct (lookup key_eqb (loc, th) (c_steps c)) as [[x|]|]; reflexivity. }
    rewrite E0. rewrite check_all_app.
    destruct (chk_logs loc (st_description st) (st_logs st) c1 false) as [S' [b' [E1 E2]]]; auto.
    { unfold c1. cbn [put_step c_steps lookup]. rewrite key_eqb_refl. reflexivity. }
    rewrite E1. destruct (truthy_time (st_end st)).
    - cbn [check_all check_event c_phase with_steps]. unfold c1 at 1. cbn [put_step c_phase]. rewrite Hp.
      unfold step_event. rewrite result_open_with_steps. change (result_open m c1 loc) with (result_open m c loc).
      rewrite Ho. cbn [negb with_steps c_steps]. rewrite E2. rewrite str_eqb_refl. cbn [m m_empty_steps replay_mode orb andb guard].
      eexists. reflexivity.
    - cbn [check_all]. exists S'. reflexivity.
  Qed.

  Lemma chk_steps : forall loc steps c, c_phase c = PRunning -> result_open m c loc = true ->
    exists S', check_all m c (replay_steps replay_step now th loc steps) = Some (with_steps c S').
  Proof.
    intros loc. induction steps as [|st steps IH]; intros c Hp Ho.
    - exists (c_steps c). destruct c; reflexivity.
    - unfold replay_steps. cbn [flat_map]. rewrite check_all_app.
      destruct (chk_step loc st c Hp Ho) as [S1 E1]. rewrite E1.
      destruct (IH (with_steps c S1)) as [S2 E2]; auto.
      exists S2. unfold replay_steps in E2. rewrite E2. reflexivity.
  Qed.
End Stream.

Section Stream2.
  Variable now : Z.
  Variable th : tid.
  Let m := replay_mode.

  (* ---------------- setup / teardown of a suite ---------------- *)
  Lemma no_test_of_fresh : forall c u, u <> [] ->
    Forall (fun kv => below u (fst kv) = false) (c_tests c) -> no_test_of c u = true.
  Proof.
    intros c u Hu H. unfold no_test_of. apply forallb_forall. intros kv Hin.
    rewrite Forall_forall in H. specialize (H kv Hin).
    destruct (path_eqb (parent_of (fst kv)) u) eqn:E; auto.
    apply path_eqb_eq in E. rewrite (parent_below _ _ Hu E) in H. discriminate.
  Qed.

  Lemma chk_suite_setup : forall pp mt u o c,
    u = pp ++ [m_name mt] ->
    Open u c (mkS false RNone RNone) -> no_test_of c u = true -> opt_result_ok o = true ->
    exists c' x, check_all m c (replay_phase replay_step now th (LocSuiteSetup u)
                                  (ESuiteSetupStart (mkNode pp mt 0)) (ESuiteSetupEnd (mkNode pp mt 0)) o) = Some c' /\
      Open u c' (mkS false x RNone) /\ ExtSelf u c c'.
  Proof.
    intros pp mt u o c Hu Hopen Hnt Hok.
    destruct o as [r|]; [|exists c, RNone; split; [reflexivity|]; split; [exact Hopen|]; apply ExtSelf_refl; auto].
    unfold replay_phase. cbn [check_all check_event]. unfold node_path. cbn [n_parent n_meta]. rewrite <- Hu.
    pose proof Hopen as (Hp & _). rewrite Hp. rewrite (open_suite_Open _ _ _ Hopen). cbn [ss_setup ss_teardown rstate_eqb andb].
    rewrite Hnt. cbn [guard].
    set (c1 := put_suite c u (mkS false ROpen RNone)).
    assert (Ho1 : Open u c1 (mkS false ROpen RNone)) by (apply (Open_put_suite u c _ _ Hopen); reflexivity).
    rewrite check_all_app.
    destruct (chk_steps now th (LocSuiteSetup u) (r_steps r) c1) as [S1 E1]; [exact Hp| |].
    { cbn [result_open]. rewrite (open_suite_Open _ _ _ Ho1). cbn. exact Hnt. }
    unfold m. setoid_rewrite E1.
    destruct (truthy_time (r_end r)).
    - cbn [check_all check_event c_phase with_steps]. change (c_phase c1) with (c_phase c). rewrite Hp.
      unfold node_path. cbn [n_parent n_meta]. rewrite <- Hu.
      rewrite (open_suite_Open u _ _ (Open_with_steps _ _ _ S1 Ho1)). cbn [ss_setup rstate_eqb andb m m_unfinished replay_mode orb guard ss_teardown].
      eexists. exists RClosed. split; [reflexivity|]. split.
      + apply (Open_put_suite u _ _ _ (Open_with_steps _ _ _ S1 Ho1)). reflexivity.
      + eapply ExtSelf_trans; [apply (ExtSelf_put_suite u c (mkS false ROpen RNone))|].
        apply (ExtSelf_put_suite u (with_steps c1 S1)).
    - cbn [check_all]. eexists. exists ROpen. split; [reflexivity|]. split.
      + apply Open_with_steps. exact Ho1.
      + apply (ExtSelf_put_suite u c (mkS false ROpen RNone)).
  Qed.

  Lemma chk_suite_teardown : forall pp mt u o c su,
    u = pp ++ [m_name mt] ->
    Open u c (mkS false su RNone) -> opt_result_ok o = true ->
    exists c' y, check_all m c (replay_phase replay_step now th (LocSuiteTeardown u)
                                  (ESuiteTeardownStart (mkNode pp mt 0)) (ESuiteTeardownEnd (mkNode pp mt 0)) o) = Some c' /\
      Open u c' (mkS false su y) /\ ExtSelf u c c'.
  Proof.
    intros pp mt u o c su Hu Hopen Hok.
    destruct o as [r|]; [|exists c, RNone; split; [reflexivity|]; split; [exact Hopen|]; apply ExtSelf_refl; auto].
    unfold replay_phase. cbn [check_all check_event]. unfold node_path. cbn [n_parent n_meta]. rewrite <- Hu.
    pose proof Hopen as (Hp & _). rewrite Hp. rewrite (open_suite_Open _ _ _ Hopen).
    cbn [ss_setup ss_teardown rstate_eqb andb m m_unfinished replay_mode orb guard].
    set (c1 := put_suite c u (mkS false su ROpen)).
    assert (Ho1 : Open u c1 (mkS false su ROpen)) by (apply (Open_put_suite u c _ _ Hopen); reflexivity).
    rewrite check_all_app.
    destruct (chk_steps now th (LocSuiteTeardown u) (r_steps r) c1) as [S1 E1]; [exact Hp| |].
    { cbn [result_open]. rewrite (open_suite_Open _ _ _ Ho1). reflexivity. }
    unfold m. setoid_rewrite E1.
    destruct (truthy_time (r_end r)).
    - cbn [check_all check_event c_phase with_steps]. change (c_phase c1) with (c_phase c). rewrite Hp.
      unfold node_path. cbn [n_parent n_meta]. rewrite <- Hu.
      rewrite (open_suite_Open u _ _ (Open_with_steps _ _ _ S1 Ho1)). cbn [ss_setup rstate_eqb andb m m_unfinished replay_mode orb guard ss_teardown].
      eexists. exists RClosed. split; [reflexivity|]. split.
      + apply (Open_put_suite u _ _ _ (Open_with_steps _ _ _ S1 Ho1)). reflexivity.
      + eapply ExtSelf_trans; [apply (ExtSelf_put_suite u c (mkS false su ROpen))|].
        apply (ExtSelf_put_suite u (with_steps c1 S1)).
    - cbn [check_all]. eexists. exists ROpen. split; [reflexivity|]. split.
      + apply Open_with_steps. exact Ho1.
      + apply (ExtSelf_put_suite u c (mkS false su ROpen)).
  Qed.

  (* ---------------- tests ---------------- *)
  Lemma chk_test : forall u pos t c st,
    Open u c st -> ss_teardown st = RNone ->
    lookup path_eqb (u ++ [m_name (t_meta t)]) (c_tests c) = None -> test_ok t = true ->
    exists es c', replay_test replay_step now th u pos t = (es, None) /\ check_all m c es = Some c' /\
      Open u c' st /\ c_suites c' = c_suites c /\
      exists dt, c_tests c' = dt ++ c_tests c /\ Forall (fun kv => fst kv = u ++ [m_name (t_meta t)]) dt.
  Proof.
    intros u pos t c st Hopen Htd Hfresh Hok.
    destruct t as [tm r]. cbn [t_meta t_result] in *.
    pose proof Hopen as (Hp & _).
    set (nd := mkNode u tm (test_key 0 pos)). set (p := u ++ [m_name tm]).
    assert (Hnew : forall x, new_test m c nd x = Some (put_test c p x)).
    { intro. unfold new_test. cbn [n_parent nd]. rewrite (open_suite_Open _ _ _ Hopen). rewrite Htd.
      unfold node_path. cbn [n_parent n_meta nd]. rewrite Hfresh. reflexivity. }
    unfold test_ok in Hok. cbn [t_result] in Hok. unfold replay_test. cbn [t_result t_meta]. fold nd.
    destruct (bypassed r) eqn:Hb.
    - unfold bypassed in Hb. destruct (r_status r) as [stt|] eqn:Es; [|discriminate].
      apply orb_true_iff in Hb.
      assert (Hpf : str_eqb stt s_passed || str_eqb stt s_failed = false).
      { destruct Hb as [Hb|Hb]; apply str_eqb_eq in Hb; subst; reflexivity. }
      rewrite Hpf.
      assert (Hone : forall e, (e = ETestSkipped nd (r_status_details r) (event_time now (r_start r)) \/
                                e = ETestDisabled nd (r_status_details r) (event_time now (r_start r))) ->
                exists c', check_all m c [e] = Some c' /\ Open u c' st /\ c_suites c' = c_suites c /\
                  exists dt, c_tests c' = dt ++ c_tests c /\ Forall (fun kv => fst kv = p) dt).
      { intros e He. exists (put_test c p TBypassed). split.
        - destruct He; subst e; cbn [check_all check_event]; rewrite Hp, Hnew; reflexivity.
        - split; [exact Hopen|]. split; [reflexivity|]. exists [(p, TBypassed)]. split; auto. }
      destruct (str_eqb stt s_skipped) eqn:Hsk.
      + destruct (Hone _ (or_introl eq_refl)) as [c' [E1 E2]]. eexists. exists c'. split; [reflexivity|]. split; assumption.
      + destruct Hb as [Hb|Hb]; [congruence|]. rewrite Hb.
        destruct (Hone _ (or_intror eq_refl)) as [c' [E1 E2]]. eexists. exists c'. split; [reflexivity|]. split; assumption.
    - assert (Hst : match r_status r with
                    | None => True
                    | Some stt => str_eqb stt s_passed || str_eqb stt s_failed = true end).
      { pose proof Hok as Hok'. unfold result_ok in Hok'. repeat (apply andb_true_iff in Hok'; destruct Hok' as [Hok' ?]).
        apply option_eqb_str_eq in H. rewrite H. unfold computed_status.
        destruct (r_end r); auto. destruct (forallb step_successful (r_steps r)); reflexivity. }
      set (started := fire (ETestStart nd (event_time now (r_start r))
             :: replay_steps replay_step now th (LocTest (node_path nd)) (r_steps r)
             ++ (if truthy_time (r_end r) then [ETestEnd nd (event_time now (r_end r))] else []))).
      assert (Hsame : match r_status r with
                      | None => started
                      | Some st0 => if str_eqb st0 s_passed || str_eqb st0 s_failed then started
                                    else if str_eqb st0 s_skipped then fire [ETestSkipped nd (r_status_details r) (event_time now (r_start r))]
                                    else if str_eqb st0 s_disabled then fire [ETestDisabled nd (r_status_details r) (event_time now (r_start r))]
                                    else ([], Some ValueError)
                      end = started).
      { destruct (r_status r); auto. rewrite Hst. reflexivity. }
      rewrite Hsame. unfold started, fire.
      set (c1 := put_test c p TStarted).
      assert (Hro : result_open m c1 (LocTest p) = true).
      { cbn [result_open]. unfold p. rewrite parent_of_child. fold p.
        rewrite (open_suite_Open u c1 st Hopen). rewrite Htd.
        cbn [c1 put_test c_tests lookup]. rewrite path_eqb_refl. reflexivity. }
      destruct (chk_steps now th (LocTest p) (r_steps r) c1) as [S1 E1]; [exact Hp|exact Hro|].
      destruct (truthy_time (r_end r)) eqn:Et.
      + eexists. eexists. split; [reflexivity|].
        cbn [check_all check_event]. rewrite Hp, Hnew. fold c1.
        unfold node_path. cbn [n_parent n_meta nd]. fold p.
        rewrite check_all_app. unfold m. rewrite E1.
        cbn [check_all check_event c_phase with_steps]. change (c_phase c1) with (c_phase c). rewrite Hp.
        unfold node_path. cbn [n_parent n_meta nd]. fold p.
        unfold m in Hro. rewrite result_open_with_steps, Hro. cbn [andb m_unfinished replay_mode orb guard].
        split; [reflexivity|]. split; [exact Hopen|]. split; [reflexivity|].
        exists [(p, TEnded); (p, TStarted)]. split; auto.
      + eexists. eexists. split; [reflexivity|].
        cbn [check_all check_event]. rewrite Hp, Hnew. fold c1.
        unfold node_path. cbn [n_parent n_meta nd]. fold p.
        rewrite check_all_app. unfold m. rewrite E1.
        cbn [check_all]. split; [reflexivity|]. split; [exact Hopen|]. split; [reflexivity|].
        exists [(p, TStarted)]. split; auto.
  Qed.

  Lemma chk_tests : forall u st tests c pos,
    Open u c st -> ss_teardown st = RNone ->
    (forall t, In t tests -> lookup path_eqb (u ++ [m_name (t_meta t)]) (c_tests c) = None) ->
    distinct (map (fun t => m_name (t_meta t)) tests) = true -> forallb test_ok tests = true ->
    exists es c', seq_all_from (replay_test replay_step now th u) pos tests = (es, None) /\ check_all m c es = Some c' /\
      Open u c' st /\ c_suites c' = c_suites c /\
      exists dt, c_tests c' = dt ++ c_tests c /\ Forall (fun kv => exists x, fst kv = u ++ [x]) dt.
  Proof.
    intros u st. induction tests as [|t tests IH]; intros c pos Hopen Htd Hfresh Hd Hok.
    - exists [], c. split; [reflexivity|]. split; [reflexivity|]. split; [exact Hopen|]. split; [reflexivity|]. exists []. split; [reflexivity|constructor].
    - simpl in Hd, Hok. apply andb_true_iff in Hd. destruct Hd as [Hd1 Hd2].
      apply andb_true_iff in Hok. destruct Hok as [Hok1 Hok2]. apply negb_true_iff in Hd1.
      destruct (chk_test u pos t c st Hopen Htd (Hfresh t (or_introl eq_refl)) Hok1)
        as [es1 [c1 [R1 [E1 [O1 [S1 [dt1 [T1 F1]]]]]]]].
      destruct (IH c1 (Z.succ pos) O1 Htd) as [es2 [c2 [R2 [E2 [O2 [S2 [dt2 [T2 F2]]]]]]]]; auto.
      { intros t' Ht'. rewrite T1. rewrite lookup_app_none; [apply Hfresh; right; assumption|].
        eapply Forall_impl; [|exact F1]. intros [k v] Hkv. simpl in Hkv. simpl. subst k.
        apply path_eqb_child.
        apply (existsb_false_in _ _ _ (m_name (t_meta t')) Hd1). apply in_map_iff. eauto. }
      exists (es1 ++ es2), c2. split; [|split; [|split; [|split]]]; auto.
      + cbn [seq_all_from]. rewrite R1, R2. reflexivity.
      + rewrite check_all_app. rewrite E1. exact E2.
      + congruence.
      + exists (dt2 ++ dt1). split; [rewrite T2, T1, app_assoc; reflexivity|].
        apply Forall_app. split; auto. eapply Forall_impl; [|exact F1]. intros kv Hkv. exists (m_name (t_meta t)). exact Hkv.
  Qed.
End Stream2.

(* ---------------- suites ---------------- *)
Lemma prefix_child_below : forall pp x k, has_prefix (pp ++ [x]) k = true -> below pp k = true.
Proof.
  intros. unfold below. rewrite (has_prefix_trans pp (pp ++ [x]) k); auto using has_prefix_app. simpl.
  rewrite path_eqb_false_len; auto. apply has_prefix_len in H. rewrite app_length in H. simpl in H. lia.
Qed.

Lemma below_not_prefix_of : forall u k, below u k = true -> has_prefix k u = false.
Proof.
  intros. destruct (has_prefix k u) eqn:E; auto. apply has_prefix_len in E. apply below_len in H. lia.
Qed.

Lemma below_has_prefix : forall u k, below u k = true -> has_prefix u k = true.
Proof. unfold below. intros. apply andb_true_iff in H. tauto. Qed.

Section Stream3.
  Variable now : Z.
  Variable th : tid.
  Let m := replay_mode.

  Definition FS (u : path) (sm : list (path * sstate)) := Forall (fun kv => has_prefix u (fst kv) = false) sm.
  Definition FT (u : path) (tm : list (path * tstate)) := Forall (fun kv => below u (fst kv) = false) tm.
  Definition LoopInv (pp : path) (c : cstate) :=
    c_phase c = PRunning /\ c_teardown c = RNone /\ prefixes_open (c_suites c) [] pp = true.

  Definition suite_chk (s : suite_result) : Prop :=
    suite_ok s = true -> forall pp c, LoopInv pp c ->
      FS (pp ++ [m_name (s_meta_of s)]) (c_suites c) -> FT (pp ++ [m_name (s_meta_of s)]) (c_tests c) ->
      exists es c', replay_suite replay_step now th pp s = (es, None) /\ check_all m c es = Some c' /\
        c_phase c' = PRunning /\ c_teardown c' = RNone /\ Ext (pp ++ [m_name (s_meta_of s)]) c c'.

  Lemma FS_child : forall u x sm, FS u sm -> FS (u ++ [x]) sm.
  Proof.
    intros u x sm H. eapply Forall_impl; [|exact H]. intros kv Hk. cbv beta in *.
    destruct (has_prefix (u ++ [x]) (fst kv)) eqn:E; auto.
    rewrite (has_prefix_trans u (u ++ [x]) (fst kv)) in Hk; auto using has_prefix_app.
  Qed.

  Lemma FT_child : forall u x tm, FT u tm -> FT (u ++ [x]) tm.
  Proof.
    intros u x tm H. eapply Forall_impl; [|exact H]. intros kv Hk. cbv beta in *.
    destruct (below (u ++ [x]) (fst kv)) eqn:E; auto.
    rewrite (below_trans_child _ _ _ E) in Hk. discriminate.
  Qed.

  Lemma chk_suites_loop : forall pp subs, Forall suite_chk subs -> forallb suite_ok subs = true ->
    forall c, LoopInv pp c ->
    (forall s', In s' subs -> FS (pp ++ [m_name (s_meta_of s')]) (c_suites c) /\ FT (pp ++ [m_name (s_meta_of s')]) (c_tests c)) ->
    distinct (map (fun u => m_name (s_meta_of u)) subs) = true ->
    exists es c', seq_all (replay_suite replay_step now th pp) subs = (es, None) /\ check_all m c es = Some c' /\
      LoopInv pp c' /\
      (exists ds, c_suites c' = ds ++ c_suites c /\ Forall (fun kv => below pp (fst kv) = true) ds) /\
      (exists dt, c_tests c' = dt ++ c_tests c /\ Forall (fun kv => below pp (fst kv) = true) dt).
  Proof.
    intros pp. induction subs as [|s1 subs IH]; intros HP Hok c Hinv Hfresh Hd.
    - exists [], c. split; [reflexivity|]. split; [reflexivity|]. split; [exact Hinv|].
      split; exists []; split; auto.
    - inversion HP as [|? ? P1 P2]; subst. simpl in Hok, Hd.
      apply andb_true_iff in Hok. destruct Hok as [Hok1 Hok2].
      apply andb_true_iff in Hd. destruct Hd as [Hd1 Hd2]. apply negb_true_iff in Hd1.
      destruct (Hfresh s1 (or_introl eq_refl)) as [F1 F2].
      destruct (P1 Hok1 pp c Hinv F1 F2) as [es1 [c1 [R1 [E1 [Hp1 [Ht1 [[ds1 [S1 G1]] [dt1 [T1 G2]]]]]]]]].
      assert (Hinv1 : LoopInv pp c1).
      { destruct Hinv as (_ & _ & Ha). split; [exact Hp1|]. split; [exact Ht1|].
        rewrite S1. rewrite (prefixes_open_app_other (c_suites c) ds1 pp []); auto.
        eapply Forall_impl; [|exact G1]. intros kv Hk. cbv beta in *. simpl.
        apply below_not_prefix_of. eapply prefix_child_below. exact Hk. }
      destruct (IH P2 Hok2 c1 Hinv1) as [es2 [c2 [R2 [E2 [Hinv2 [[ds2 [S2 G3]] [dt2 [T2 G4]]]]]]]]; auto.
      { intros s' Hs'. destruct (Hfresh s' (or_intror Hs')) as [F3 F4].
        assert (Hne : str_eqb (m_name (s_meta_of s')) (m_name (s_meta_of s1)) = false).
        { apply str_eqb_sym_false. apply (existsb_false_in _ _ _ (m_name (s_meta_of s')) Hd1). apply in_map_iff. eauto. }
        split.
        - unfold FS. rewrite S1. apply Forall_app. split; [|exact F3].
          eapply Forall_impl; [|exact G1]. intros kv Hk. cbv beta in *. eapply has_prefix_diverge; eauto.
        - unfold FT. rewrite T1. apply Forall_app. split; [|exact F4].
          eapply Forall_impl; [|exact G2]. intros kv Hk. cbv beta in *. eapply below_diverge; eauto. }
      exists (es1 ++ es2), c2. split; [|split; [|split; [exact Hinv2|split]]].
      + cbn [seq_all]. rewrite R1, R2. reflexivity.
      + rewrite check_all_app. rewrite E1. exact E2.
      + exists (ds2 ++ ds1). split; [rewrite S2, S1, app_assoc; reflexivity|].
        apply Forall_app. split; auto. eapply Forall_impl; [|exact G1]. intros kv Hk. eapply prefix_child_below. exact Hk.
      + exists (dt2 ++ dt1). split; [rewrite T2, T1, app_assoc; reflexivity|].
        apply Forall_app. split; auto. eapply Forall_impl; [|exact G2]. intros kv Hk. eapply below_trans_child. exact Hk.
  Qed.

  Lemma replay_suite_chk : forall s, suite_chk s.
  Proof.
    induction s using suite_ind'. rename H into HP, m0 into mt.
    unfold suite_chk. intros Hok pp c (Hp & Htd & Hanc) HFS HFT. cbn [s_meta_of] in *.
    cbn [suite_ok] in Hok. repeat (apply andb_true_iff in Hok; destruct Hok as [Hok ?]).
    rename H into Hsubs, H0 into Hdsubs, H1 into Hdtests, H2 into Htests, H3 into Htdok, H4 into Hsuok, H5 into Hen.
    set (u := pp ++ [m_name mt]) in *.
    assert (Hu : u <> []) by (unfold u; destruct pp; discriminate).
    cbn [replay_suite]. rewrite go_seq_all. unfold node_path. cbn [n_parent n_meta]. fold u.
    set (nd := mkNode pp mt 0).
    set (st0 := mkS false RNone RNone).
    (* 1. SuiteStart *)
    set (c1 := put_suite c u st0).
    assert (E0 : forall t, check_event m c (ESuiteStart nd t) = Some c1).
    { intro t. cbn [check_event]. rewrite Hp, Htd. unfold node_path. cbn [n_parent n_meta nd]. fold u.
      cbn [rstate_eqb m m_unfinished replay_mode orb andb].
      assert (E : match pp with [] => true | _ :: _ => suite_open c pp end = true).
      { destruct pp; auto. }
      rewrite E. rewrite (lookup_none_forall _ _ path_eqb u (c_suites c)). reflexivity.
      eapply Forall_impl; [|exact HFS]. intros kv Hk. cbv beta in *.
      destruct (path_eqb (fst kv) u) eqn:E2; auto. apply path_eqb_eq in E2. rewrite E2, has_prefix_refl in Hk. discriminate. }
    assert (O1 : Open u c1 st0).
    { unfold Open. cbn [c1 put_suite c_phase c_teardown c_suites]. repeat split; auto.
      - apply (prefixes_open_new_child (c_suites c) st0 (m_name mt) pp []); auto.
      - simpl. rewrite path_eqb_refl. reflexivity. }
    (* 2. setup *)
    destruct (chk_suite_setup now th pp mt u x c1 eq_refl O1) as [c2 [xs [E2 [O2 X2]]]]; auto.
    { apply no_test_of_fresh; auto. }
    (* 3. tests *)
    destruct X2 as [T2 [ds2 [S2 G2]]].
    destruct (chk_tests now th u (mkS false xs RNone) tests c2 0%Z O2 eq_refl) as [es3 [c3 [R3 [E3 [O3 [S3 [dt3 [T3 G3]]]]]]]]; auto.
    { intros t Ht. rewrite T2. cbn [c1 put_suite c_tests]. apply lookup_none_forall.
      eapply Forall_impl; [|exact HFT]. intros kv Hk. cbv beta in *.
      destruct (path_eqb (fst kv) (u ++ [m_name (t_meta t)])) eqn:E; auto.
      apply path_eqb_eq in E. rewrite E, below_child in Hk. discriminate. }
    (* 4. sub-suites *)
    destruct (chk_suites_loop u subs HP Hsubs c3) as [es4 [c4 [R4 [E4 [I4 [[ds4 [S4 G4]] [dt4 [T4 G5]]]]]]]]; auto.
    { destruct O3 as (A1 & A2 & A3 & _). split; auto. }
    { intros s' Hs'. split.
      - unfold FS. rewrite S3, S2. cbn [c1 put_suite c_suites]. apply Forall_app. split.
        + eapply Forall_impl; [|exact G2]. intros [k v] Hk. simpl in *. subst k.
          destruct (has_prefix (u ++ [m_name (s_meta_of s')]) u) eqn:E; auto.
          apply has_prefix_len in E. rewrite app_length in E. simpl in E. lia.
        + constructor; [|apply FS_child; exact HFS]. simpl.
          destruct (has_prefix (u ++ [m_name (s_meta_of s')]) u) eqn:E; auto.
          apply has_prefix_len in E. rewrite app_length in E. simpl in E. lia.
      - unfold FT. rewrite T3, T2. cbn [c1 put_suite c_tests]. apply Forall_app. split.
        + eapply Forall_impl; [|exact G3]. intros [k v] [x0 Hk]. simpl in *. subst k.
          apply below_short. rewrite !app_length. simpl. lia.
        + apply FT_child. exact HFT. }
    assert (O4 : Open u c4 (mkS false xs RNone)).
    { destruct I4 as (A1 & A2 & A3). destruct O3 as (_ & _ & _ & B4 & B5 & B6).
      unfold Open. repeat split; auto.
      rewrite S4. rewrite lookup_app_none; auto.
      eapply Forall_impl; [|exact G4]. intros kv Hk. cbv beta in *.
      apply path_eqb_false_len. apply below_len in Hk. lia. }
    (* 5. teardown *)
    destruct (chk_suite_teardown now th pp mt u y c4 xs eq_refl O4) as [c5 [ys [E5 [O5 X5]]]]; auto.
    (* assemble *)
    rewrite R3, R4. unfold seq, fire. cbn [fst snd].
    assert (Hext : Ext u c c5).
    { eapply Ext_trans; [apply (Ext_put_suite u c st0)|]. fold c1.
      eapply Ext_trans; [apply ExtSelf_Ext; split; [exact T2|exists ds2; auto]|].
      eapply Ext_trans.
      { split; [exists []; split; [exact S3|constructor]|exists dt3; split; [exact T3|]].
        eapply Forall_impl; [|exact G3]. intros [k v] [x0 Hk]. simpl in *. subst k. apply below_child. }
      eapply Ext_trans.
      { split; [exists ds4; split; [exact S4|]|exists dt4; split; [exact T4|exact G5]].
        eapply Forall_impl; [|exact G4]. intros kv Hk. apply below_has_prefix. exact Hk. }
      apply ExtSelf_Ext. exact X5. }
    destruct (truthy_time e) eqn:Ee.
    - eexists. exists (put_suite c5 u (mkS true xs ys)). split; [reflexivity|].
      split; [|split; [|split]].
      + rewrite <- app_comm_cons. cbn [check_all]. rewrite E0.
        rewrite check_all_app. unfold nd, m in *. rewrite E2.
        rewrite check_all_app. rewrite E3. rewrite check_all_app. rewrite E4.
        rewrite check_all_app. rewrite E5.
        cbn [check_all check_event]. destruct O5 as (A1 & A2 & A3 & A4 & A5 & A6).
        rewrite A1. unfold node_path. cbn [n_parent n_meta nd]. fold u.
        rewrite (open_suite_Open u c5 _ (conj A1 (conj A2 (conj A3 (conj A4 (conj A5 A6)))))).
        reflexivity.
      + destruct O5 as (A1 & _). exact A1.
      + destruct O5 as (_ & A2 & _). exact A2.
      + eapply Ext_trans; [exact Hext|]. apply Ext_put_suite.
    - eexists. exists c5. split; [reflexivity|].
      split; [|split; [|split]].
      + rewrite <- app_comm_cons. cbn [check_all]. rewrite E0.
        rewrite check_all_app. unfold nd, m in *. rewrite E2.
        rewrite check_all_app. rewrite E3. rewrite check_all_app. rewrite E4.
        rewrite check_all_app. rewrite E5. reflexivity.
      + destruct O5 as (A1 & _). exact A1.
      + destruct O5 as (_ & A2 & _). exact A2.
      + exact Hext.
  Qed.

  (* ---------------- session setup / teardown, the report ---------------- *)
  Lemma chk_session_setup : forall o c,
    c_phase c = PRunning -> c_setup c = RNone -> c_teardown c = RNone -> c_suites c = [] -> opt_result_ok o = true ->
    exists c', check_all m c (replay_phase replay_step now th LocSessionSetup ESessionSetupStart ESessionSetupEnd o) = Some c' /\
      c_phase c' = PRunning /\ c_teardown c' = RNone /\ c_suites c' = [] /\ c_tests c' = c_tests c.
  Proof.
    intros o c Hp Hs Ht Hsu Hok. destruct o as [r|]; [|exists c; auto].
    unfold replay_phase. cbn [check_all check_event]. rewrite Hp, Hs, Ht, Hsu. cbn [rstate_eqb andb guard].
    set (c1 := set_setup c ROpen).
    rewrite check_all_app.
    destruct (chk_steps now th LocSessionSetup (r_steps r) c1) as [S1 E1]; [exact Hp| |].
    { cbn [result_open c1 set_setup c_setup c_suites rstate_eqb]. rewrite Hsu. reflexivity. }
    unfold m. rewrite E1. destruct (truthy_time (r_end r)).
    - cbn [check_all check_event c_phase with_steps c1 set_setup c_setup]. rewrite Hp.
      cbn [rstate_eqb andb m_unfinished replay_mode orb guard].
      eexists. split; [reflexivity|]. cbn. auto.
    - cbn [check_all]. eexists. split; [reflexivity|]. cbn. auto.
  Qed.

  Lemma chk_session_teardown : forall o c,
    c_phase c = PRunning -> c_teardown c = RNone -> opt_result_ok o = true ->
    exists c', check_all m c (replay_phase replay_step now th LocSessionTeardown ESessionTeardownStart ESessionTeardownEnd o) = Some c' /\
      c_phase c' = PRunning.
  Proof.
    intros o c Hp Ht Hok. destruct o as [r|]; [|exists c; auto].
    unfold replay_phase. cbn [check_all check_event]. rewrite Hp, Ht. cbn [rstate_eqb andb m m_unfinished replay_mode orb guard].
    set (c1 := set_teardown c ROpen).
    rewrite check_all_app.
    destruct (chk_steps now th LocSessionTeardown (r_steps r) c1) as [S1 E1]; [exact Hp|reflexivity|].
    unfold m. rewrite E1. destruct (truthy_time (r_end r)).
    - cbn [check_all check_event c_phase with_steps c1 set_teardown c_teardown]. rewrite Hp.
      cbn [rstate_eqb andb m_unfinished replay_mode orb guard].
      eexists. split; [reflexivity|]. exact Hp.
    - cbn [check_all]. eexists. split; [reflexivity|]. exact Hp.
  Qed.

  Theorem replay_stream_ok : forall r, replayable r = true ->
    stream_ok replay_mode (fst (replay_report_events now th r)) = true.
  Proof.
    intros r Hok. unfold replayable in Hok. repeat (apply andb_true_iff in Hok; destruct Hok as [Hok ?]).
    rename H into Hsuites, H0 into Hd, H1 into Htd, H2 into Hsu, H3 into Hen.
    unfold replay_report_events, replay.
    set (c0 := set_phase init_cstate PRunning).
    destruct (chk_session_setup (rp_session_setup r) c0) as [c1 [E1 [P1 [T1 [S1 X1]]]]]; auto.
    destruct (chk_suites_loop [] (rp_suites r)) with (c := c1) as [es2 [c2 [R2 [E2 [[P2 [T2 _]] _]]]]]; auto.
    { apply Forall_forall. intros. apply replay_suite_chk. }
    { split; auto. }
    { intros s' _. rewrite S1, X1. split; constructor. }
    destruct (chk_session_teardown (rp_session_teardown r) c2) as [c3 [E3 P3]]; auto.
    rewrite R2. unfold seq, fire. cbn [fst snd]. unfold stream_ok.
    rewrite <- app_comm_cons. cbn [check_all check_event init_cstate c_phase]. fold c0.
    rewrite check_all_app. unfold m in *. rewrite E1.
    rewrite check_all_app. rewrite E2.
    rewrite check_all_app. rewrite E3.
    destruct (truthy_time (rp_end r)).
    - cbn [check_all check_event]. rewrite P3. cbn [m_unfinished replay_mode orb guard set_phase c_phase]. reflexivity.
    - cbn [check_all]. rewrite P3. reflexivity.
  Qed.
End Stream3.

(* ---------------- contiguity ---------------- *)
Lemma location_eqb_eq : forall a b, location_eqb a b = true -> a = b.
Proof. destruct a, b; simpl; intros; try discriminate; auto; f_equal; apply path_eqb_eq; assumption. Qed.

Definition notin (l : location) (seen : list location) : Prop := existsb (location_eqb l) seen = false.
Definition cur_ok (cur : option location) (seen : list location) : Prop :=
  match cur with Some x => existsb (location_eqb x) seen = true | None => True end.
Definition loc_under (u : path) (l : location) : bool :=
  match l with
  | LocSuiteSetup p | LocSuiteTeardown p => has_prefix u p
  | LocTest p => below u p
  | _ => false
  end.
Definition Fresh (u : path) (seen : list location) : Prop := Forall (fun l => loc_under u l = false) seen.

Lemma notin_cons : forall l x seen, location_eqb l x = false -> notin l seen -> notin l (x :: seen).
Proof. unfold notin. intros. simpl. rewrite H, H0. reflexivity. Qed.

Lemma notin_app : forall l d seen, notin l d -> notin l seen -> notin l (d ++ seen).
Proof. unfold notin. intros. rewrite existsb_app, H, H0. reflexivity. Qed.

Lemma notin_fresh : forall u l seen, Fresh u seen -> loc_under u l = true -> notin l seen.
Proof.
  unfold notin, Fresh. intros u l seen H Hl. induction H; simpl; auto.
  rewrite IHForall, orb_false_r. destruct (location_eqb l x) eqn:E; auto.
  apply location_eqb_eq in E. subst. congruence.
Qed.

Lemma notin_under : forall u l d, Forall (fun x => loc_under u x = true) d -> loc_under u l = false -> notin l d.
Proof.
  unfold notin. intros u l d H Hl. induction H; simpl; auto.
  rewrite IHForall, orb_false_r. destruct (location_eqb l x) eqn:E; auto.
  apply location_eqb_eq in E. subst. congruence.
Qed.

Lemma notin_forall : forall l d, Forall (fun x => location_eqb l x = false) d -> notin l d.
Proof. unfold notin. induction 1; simpl; auto. rewrite H, IHForall. reflexivity. Qed.

Lemma cur_ok_app : forall cur d seen, cur_ok cur seen -> cur_ok cur (d ++ seen).
Proof. unfold cur_ok. destruct cur; auto. intros. rewrite existsb_app, H. apply orb_true_r. Qed.

Lemma cf_none : forall e cur seen rest, event_result e = None ->
  contiguous_from cur seen (e :: rest) = contiguous_from None seen rest.
Proof. intros. cbn [contiguous_from]. rewrite H. reflexivity. Qed.

Lemma cf_block : forall loc seen block rest, Forall (fun e => event_result e = Some loc) block ->
  contiguous_from (Some loc) seen (block ++ rest) = contiguous_from (Some loc) seen rest.
Proof.
  induction block; simpl; intros; auto. inversion H; subst. rewrite H2, location_eqb_refl. auto.
Qed.

Lemma cf_enter : forall e loc cur seen rest, event_result e = Some loc -> notin loc seen -> cur_ok cur seen ->
  contiguous_from cur seen (e :: rest) = contiguous_from (Some loc) (loc :: seen) rest.
Proof.
  intros e loc cur seen rest He Hn Hc. cbn [contiguous_from]. rewrite He.
  assert (E : match cur with Some x => location_eqb x loc | None => false end = false).
  { destruct cur as [x|]; auto. destruct (location_eqb x loc) eqn:E; auto.
    apply location_eqb_eq in E. subst. unfold cur_ok, notin in *. congruence. }
  rewrite E. unfold notin in Hn. rewrite Hn. reflexivity.
Qed.

Lemma cur_ok_enter : forall loc seen, cur_ok (Some loc) (loc :: seen).
Proof. intros. unfold cur_ok. simpl. rewrite location_eqb_refl. reflexivity. Qed.

Section Contig.
  Variable now : Z.
  Variable th : tid.

  Lemma steps_result : forall loc steps,
    Forall (fun e => event_result e = Some loc) (replay_steps replay_step now th loc steps).
  Proof.
    intros loc. induction steps as [|st steps IH]; [constructor|].
    unfold replay_steps. cbn [flat_map]. apply Forall_app. split; [|exact IH].
    unfold replay_step. constructor; [reflexivity|]. apply Forall_app. split.
    - apply Forall_forall. intros e He. apply in_map_iff in He. destruct He as [lg [E _]]. subst e. destruct lg; reflexivity.
    - destruct (truthy_time (st_end st)); repeat constructor.
  Qed.

  (* a block of events of one result *)
  Lemma cf_result_block : forall loc e block cur seen, event_result e = Some loc ->
    Forall (fun x => event_result x = Some loc) block -> notin loc seen -> cur_ok cur seen ->
    forall rest, contiguous_from cur seen ((e :: block) ++ rest) = contiguous_from (Some loc) (loc :: seen) rest.
  Proof.
    intros. rewrite <- app_comm_cons. rewrite (cf_enter e loc); auto. apply cf_block. assumption.
  Qed.

  Lemma cf_phase : forall loc start_ev end_ev o cur seen,
    (forall t, event_result (start_ev t) = Some loc) -> (forall t, event_result (end_ev t) = Some loc) ->
    notin loc seen -> cur_ok cur seen ->
    exists cur' d, (forall rest, contiguous_from cur seen (replay_phase replay_step now th loc start_ev end_ev o ++ rest)
                                 = contiguous_from cur' (d ++ seen) rest) /\
      cur_ok cur' (d ++ seen) /\ (d = [] \/ d = [loc]).
  Proof.
    intros loc start_ev end_ev o cur seen Hs He Hn Hc. destruct o as [r|].
    - exists (Some loc), [loc]. split; [|split; [apply cur_ok_enter|auto]].
      intro rest. unfold replay_phase. apply cf_result_block; auto.
      apply Forall_app. split; [apply steps_result|]. destruct (truthy_time (r_end r)); repeat constructor. apply He.
    - exists cur, []. split; [|split; auto]. reflexivity.
  Qed.

  Lemma cf_test : forall u pos t cur seen, test_ok t = true ->
    notin (LocTest (u ++ [m_name (t_meta t)])) seen -> cur_ok cur seen ->
    exists es, replay_test replay_step now th u pos t = (es, None) /\
      forall rest, contiguous_from cur seen (es ++ rest)
                   = contiguous_from (Some (LocTest (u ++ [m_name (t_meta t)]))) (LocTest (u ++ [m_name (t_meta t)]) :: seen) rest.
  Proof.
    intros u pos t cur seen Hok Hn Hc. destruct t as [tm r]. cbn [t_meta t_result] in *.
    set (nd := mkNode u tm (test_key 0 pos)). set (loc := LocTest (u ++ [m_name tm])) in *.
    unfold test_ok in Hok. cbn [t_result] in Hok. unfold replay_test. cbn [t_result t_meta]. fold nd.
    assert (Hstarted : forall l, l = ETestStart nd (event_time now (r_start r))
              :: replay_steps replay_step now th (LocTest (node_path nd)) (r_steps r)
                 ++ (if truthy_time (r_end r) then [ETestEnd nd (event_time now (r_end r))] else []) ->
              forall rest, contiguous_from cur seen (l ++ rest) = contiguous_from (Some loc) (loc :: seen) rest).
    { intros l El rest. subst l. apply cf_result_block; auto.
      apply Forall_app. split; [apply (steps_result loc)|]. destruct (truthy_time (r_end r)); repeat constructor. }
    destruct (bypassed r) eqn:Hb.
    - unfold bypassed in Hb. destruct (r_status r) as [stt|] eqn:Es; [|discriminate].
      apply orb_true_iff in Hb.
      assert (Hpf : str_eqb stt s_passed || str_eqb stt s_failed = false).
      { destruct Hb as [Hb|Hb]; apply str_eqb_eq in Hb; subst; reflexivity. }
      rewrite Hpf.
      destruct (str_eqb stt s_skipped) eqn:Hsk.
      + eexists. split; [reflexivity|]. intro rest. apply (cf_result_block loc _ []); auto.
      + destruct Hb as [Hb|Hb]; [congruence|]. rewrite Hb.
        eexists. split; [reflexivity|]. intro rest. apply (cf_result_block loc _ []); auto.
    - assert (Hst : match r_status r with
                    | None => True
                    | Some stt => str_eqb stt s_passed || str_eqb stt s_failed = true end).
      { pose proof Hok as Hok'. unfold result_ok in Hok'. repeat (apply andb_true_iff in Hok'; destruct Hok' as [Hok' ?]).
        apply option_eqb_str_eq in H. rewrite H. unfold computed_status.
        destruct (r_end r); auto. destruct (forallb step_successful (r_steps r)); reflexivity. }
      destruct (r_status r) as [stt|].
      + rewrite Hst. eexists. split; [reflexivity|]. apply Hstarted. reflexivity.
      + eexists. split; [reflexivity|]. apply Hstarted. reflexivity.
  Qed.

  Lemma cf_tests : forall u tests pos cur seen,
    forallb test_ok tests = true -> distinct (map (fun t => m_name (t_meta t)) tests) = true ->
    (forall t, In t tests -> notin (LocTest (u ++ [m_name (t_meta t)])) seen) -> cur_ok cur seen ->
    exists es cur' d, seq_all_from (replay_test replay_step now th u) pos tests = (es, None) /\
      (forall rest, contiguous_from cur seen (es ++ rest) = contiguous_from cur' (d ++ seen) rest) /\
      cur_ok cur' (d ++ seen) /\ Forall (fun l => exists x, l = LocTest (u ++ [x])) d.
  Proof.
    intros u. induction tests as [|t tests IH]; intros pos cur seen Hok Hd Hfresh Hc.
    - exists [], cur, []. repeat split; auto.
    - simpl in Hok, Hd. apply andb_true_iff in Hok. destruct Hok as [Hok1 Hok2].
      apply andb_true_iff in Hd. destruct Hd as [Hd1 Hd2]. apply negb_true_iff in Hd1.
      destruct (cf_test u pos t cur seen Hok1 (Hfresh t (or_introl eq_refl)) Hc) as [es1 [R1 C1]].
      set (loc := LocTest (u ++ [m_name (t_meta t)])) in *.
      destruct (IH (Z.succ pos) (Some loc) (loc :: seen) Hok2 Hd2) as [es2 [cur' [d [R2 [C2 [K2 F2]]]]]].
      { intros t' Ht'. apply notin_cons; [|apply Hfresh; right; assumption].
        unfold loc. simpl. rewrite path_eqb_child; auto.
        apply str_eqb_sym_false. apply (existsb_false_in _ _ _ (m_name (t_meta t')) Hd1). apply in_map_iff. eauto. }
      { apply cur_ok_enter. }
      exists (es1 ++ es2), cur', (d ++ [loc]). split; [|split; [|split]].
      + cbn [seq_all_from]. rewrite R1, R2. reflexivity.
      + intro rest. rewrite <- app_assoc. rewrite C1, C2. rewrite <- app_assoc. reflexivity.
      + rewrite <- app_assoc. exact K2.
      + apply Forall_app. split; auto. constructor; [|constructor]. exists (m_name (t_meta t)). reflexivity.
  Qed.

  Definition suite_cf (s : suite_result) : Prop :=
    suite_ok s = true -> forall pp cur seen, Fresh (pp ++ [m_name (s_meta_of s)]) seen -> cur_ok cur seen ->
    exists es cur' d, replay_suite replay_step now th pp s = (es, None) /\
      (forall rest, contiguous_from cur seen (es ++ rest) = contiguous_from cur' (d ++ seen) rest) /\
      cur_ok cur' (d ++ seen) /\ Forall (fun l => loc_under (pp ++ [m_name (s_meta_of s)]) l = true) d.

  Lemma Fresh_child : forall u x seen, Fresh u seen -> Fresh (u ++ [x]) seen.
  Proof.
    intros u x seen H. eapply Forall_impl; [|exact H]. intros l Hl. cbv beta in *.
    destruct l; simpl in *; auto.
    - destruct (has_prefix (u ++ [x]) p) eqn:E; auto.
      rewrite (has_prefix_trans u (u ++ [x]) p) in Hl; auto using has_prefix_app.
    - destruct (has_prefix (u ++ [x]) p) eqn:E; auto.
      rewrite (has_prefix_trans u (u ++ [x]) p) in Hl; auto using has_prefix_app.
    - destruct (below (u ++ [x]) p) eqn:E; auto. rewrite (below_trans_child _ _ _ E) in Hl. discriminate.
  Qed.

  Lemma under_child : forall u x l, loc_under (u ++ [x]) l = true -> loc_under u l = true.
  Proof.
    intros u x l H. destruct l; simpl in *; auto.
    - eapply has_prefix_trans; [apply has_prefix_app|exact H].
    - eapply has_prefix_trans; [apply has_prefix_app|exact H].
    - eapply below_trans_child. exact H.
  Qed.

  Lemma under_diverge : forall u a b l, str_eqb a b = false -> loc_under (u ++ [b]) l = true -> loc_under (u ++ [a]) l = false.
  Proof.
    intros u a b l Hab H. destruct l; simpl in *; auto.
    - eapply has_prefix_diverge; eauto.
    - eapply has_prefix_diverge; eauto.
    - eapply below_diverge; eauto.
  Qed.

  Lemma cf_suites_loop : forall pp subs, Forall suite_cf subs -> forallb suite_ok subs = true ->
    forall cur seen, (forall s', In s' subs -> Fresh (pp ++ [m_name (s_meta_of s')]) seen) ->
    distinct (map (fun u => m_name (s_meta_of u)) subs) = true -> cur_ok cur seen ->
    exists es cur' d, seq_all (replay_suite replay_step now th pp) subs = (es, None) /\
      (forall rest, contiguous_from cur seen (es ++ rest) = contiguous_from cur' (d ++ seen) rest) /\
      cur_ok cur' (d ++ seen) /\ Forall (fun l => exists x, loc_under (pp ++ [x]) l = true) d.
  Proof.
    intros pp. induction subs as [|s1 subs IH]; intros HP Hok cur seen Hfresh Hd Hc.
    - exists [], cur, []. repeat split; auto.
    - inversion HP as [|? ? P1 P2]; subst. simpl in Hok, Hd.
      apply andb_true_iff in Hok. destruct Hok as [Hok1 Hok2].
      apply andb_true_iff in Hd. destruct Hd as [Hd1 Hd2]. apply negb_true_iff in Hd1.
      destruct (P1 Hok1 pp cur seen (Hfresh s1 (or_introl eq_refl)) Hc) as [es1 [cur1 [d1 [R1 [C1 [K1 F1]]]]]].
      destruct (IH P2 Hok2 cur1 (d1 ++ seen)) as [es2 [cur2 [d2 [R2 [C2 [K2 F2]]]]]]; auto.
      { intros s' Hs'. unfold Fresh. apply Forall_app. split; [|apply Hfresh; right; assumption].
        eapply Forall_impl; [|exact F1]. intros l Hl. cbv beta in *. eapply under_diverge; [|exact Hl].
        apply str_eqb_sym_false. apply (existsb_false_in _ _ _ (m_name (s_meta_of s')) Hd1). apply in_map_iff. eauto. }
      exists (es1 ++ es2), cur2, (d2 ++ d1). split; [|split; [|split]].
      + cbn [seq_all]. rewrite R1, R2. reflexivity.
      + intro rest. rewrite <- app_assoc. rewrite C1, C2. rewrite <- app_assoc. reflexivity.
      + rewrite <- app_assoc. exact K2.
      + apply Forall_app. split; auto. eapply Forall_impl; [|exact F1]. intros l Hl. exists (m_name (s_meta_of s1)). exact Hl.
  Qed.

  Lemma replay_suite_cf : forall s, suite_cf s.
  Proof.
    induction s using suite_ind'. rename H into HP, m into mt.
    unfold suite_cf. intros Hok pp cur seen HF Hc. cbn [s_meta_of] in *.
    cbn [suite_ok] in Hok. repeat (apply andb_true_iff in Hok; destruct Hok as [Hok ?]).
    rename H into Hsubs, H0 into Hdsubs, H1 into Hdtests, H2 into Htests, H3 into Htdok, H4 into Hsuok, H5 into Hen.
    set (u := pp ++ [m_name mt]) in *.
    cbn [replay_suite]. rewrite go_seq_all. unfold node_path. cbn [n_parent n_meta]. fold u.
    set (nd := mkNode pp mt 0).
    assert (Hlen : forall x, has_prefix (u ++ [x]) u = false).
    { intro. destruct (has_prefix (u ++ [x0]) u) eqn:E; auto. apply has_prefix_len in E. rewrite app_length in E. simpl in E. lia. }
    (* setup *)
    destruct (cf_phase (LocSuiteSetup u) (ESuiteSetupStart nd) (ESuiteSetupEnd nd) x None seen) as [cur1 [d1 [C1 [K1 D1]]]];
      try (intro; reflexivity); [| exact I |].
    { apply (notin_fresh u); auto. simpl. apply has_prefix_refl. }
    assert (F1 : Forall (fun l => l = LocSuiteSetup u) d1) by (destruct D1; subst; repeat constructor).
    (* tests *)
    destruct (cf_tests u tests 0%Z cur1 (d1 ++ seen) Htests Hdtests) as [es2 [cur2 [d2 [R2 [C2 [K2 F2]]]]]]; auto.
    { intros t Ht. apply notin_app.
      - destruct D1; subst; [reflexivity|]. reflexivity.
      - apply (notin_fresh u); auto. simpl. apply below_child. }
    (* sub-suites *)
    destruct (cf_suites_loop u subs HP Hsubs cur2 (d2 ++ d1 ++ seen)) as [es3 [cur3 [d3 [R3 [C3 [K3 F3]]]]]]; auto.
    { intros s' Hs'. unfold Fresh. apply Forall_app. split; [|apply Forall_app; split].
      - eapply Forall_impl; [|exact F2]. intros l [x0 Hl]. subst l. simpl. apply below_short. rewrite !app_length. simpl. lia.
      - eapply Forall_impl; [|exact F1]. intros l Hl. cbv beta in Hl. subst l. simpl. apply Hlen.
      - apply Fresh_child. exact HF. }
    (* teardown *)
    destruct (cf_phase (LocSuiteTeardown u) (ESuiteTeardownStart nd) (ESuiteTeardownEnd nd) y cur3 (d3 ++ d2 ++ d1 ++ seen))
      as [cur4 [d4 [C4 [K4 D4]]]]; try (intro; reflexivity); auto.
    { apply notin_app; [|apply notin_app; [|apply notin_app]].
      - apply notin_forall. eapply Forall_impl; [|exact F3]. intros l [x1 Hx1]. destruct l; simpl in *; auto.
        destruct (path_eqb u p) eqn:E; auto. apply path_eqb_eq in E. subst p. rewrite Hlen in Hx1. discriminate.
      - apply notin_forall. eapply Forall_impl; [|exact F2]. intros l [x1 Hx1]. subst. reflexivity.
      - destruct D1; subst; reflexivity.
      - apply (notin_fresh u); auto. simpl. apply has_prefix_refl. }
    rewrite R2, R3. unfold seq, fire. cbn [fst snd].
    eexists. exists (if truthy_time e then None else cur4), (d4 ++ d3 ++ d2 ++ d1). split; [reflexivity|]. split; [|split].
    - intro rest. rewrite <- !app_assoc. rewrite <- app_comm_cons. rewrite cf_none by reflexivity.
      rewrite C1, C2, C3, C4.
      destruct (truthy_time e).
      + cbn [app]. rewrite cf_none by reflexivity. reflexivity.
      + reflexivity.
    - rewrite <- !app_assoc. destruct (truthy_time e); [exact I|exact K4].
    - apply Forall_app. split; [|apply Forall_app; split; [|apply Forall_app; split]].
      + destruct D4; subst; repeat constructor. simpl. apply has_prefix_refl.
      + eapply Forall_impl; [|exact F3]. intros l [x0 Hl]. eapply under_child. exact Hl.
      + eapply Forall_impl; [|exact F2]. intros l [x0 Hl]. subst l. simpl. apply below_child.
      + eapply Forall_impl; [|exact F1]. intros l Hl. cbv beta in Hl. subst l. simpl. apply has_prefix_refl.
  Qed.

  Theorem replay_contiguous : forall r, replayable r = true ->
    contiguous (fst (replay_report_events now th r)) = true.
  Proof.
    intros r Hok. unfold replayable in Hok. repeat (apply andb_true_iff in Hok; destruct Hok as [Hok ?]).
    rename H into Hsuites, H0 into Hd, H1 into Htd, H2 into Hsu, H3 into Hen.
    unfold replay_report_events, replay, contiguous.
    destruct (cf_phase LocSessionSetup ESessionSetupStart ESessionSetupEnd (rp_session_setup r) None [])
      as [cur1 [d1 [C1 [K1 D1]]]]; try (intro; reflexivity); [reflexivity|exact I|].
    destruct (cf_suites_loop [] (rp_suites r)) with (cur := cur1) (seen := d1 ++ []) as [es2 [cur2 [d2 [R2 [C2 [K2 F2]]]]]]; auto.
    { apply Forall_forall. intros. apply replay_suite_cf. }
    { intros s' _. unfold Fresh. rewrite app_nil_r. destruct D1; subst; repeat constructor. }
    destruct (cf_phase LocSessionTeardown ESessionTeardownStart ESessionTeardownEnd (rp_session_teardown r) cur2 (d2 ++ d1 ++ []))
      as [cur3 [d3 [C3 [K3 D3]]]]; try (intro; reflexivity); auto.
    { apply notin_app; [|apply notin_app; [|reflexivity]].
      - apply notin_forall. eapply Forall_impl; [|exact F2]. intros l [x1 Hx1]. destruct l; simpl in *; auto; discriminate.
      - destruct D1; subst; reflexivity. }
    rewrite R2. unfold seq, fire. cbn [fst snd].
    rewrite <- app_comm_cons. rewrite cf_none by reflexivity.
    rewrite C1, C2, C3.
    destruct (truthy_time (rp_end r)); reflexivity.
  Qed.
End Contig.

Theorem replay_sequential : forall now th r, replayable r = true ->
  sequential_ok replay_mode (fst (replay_report_events now th r)) = true.
Proof.
  intros. unfold sequential_ok. rewrite replay_stream_ok, replay_contiguous; auto.
Qed.
