(* Proofs about Model/Matcher.v (C16): matches computes the reference semantics for every expression and value,
   the connectives are exact, the operations keep their contract. *)
From Coq Require Import List Bool NArith ZArith Lia.
Import ListNotations.
From LCC Require Import Base.Util Model.PyVal Model.Matcher.

(* ------------------------------------------------------------------ induction principle for the nested type *)
Section MatcherInd.
  Variable P : matcher -> Prop.
  Hypothesis H_EqualTo : forall e, P (EqualTo e).
  Hypothesis H_Comparator : forall c e, P (Comparator c e).
  Hypothesis H_IsBetween : forall lo hi, P (IsBetween lo hi).
  Hypothesis H_IsNone : P IsNone.
  Hypothesis H_HasLength : forall m, P m -> P (HasLength m).
  Hypothesis H_StartsWith : forall s, P (StartsWith s).
  Hypothesis H_EndsWith : forall s, P (EndsWith s).
  Hypothesis H_ContainsString : forall s, P (ContainsString s).
  Hypothesis H_HasItem : forall m, P m -> P (HasItem m).
  Hypothesis H_HasItems : forall l, P (HasItems l).
  Hypothesis H_HasOnlyItems : forall l, P (HasOnlyItems l).
  Hypothesis H_HasAllItems : forall m, P m -> P (HasAllItems m).
  Hypothesis H_IsIn : forall l, P (IsIn l).
  Hypothesis H_HasEntry : forall path vm, (forall m, vm = Some m -> P m) -> P (HasEntry path vm).
  Hypothesis H_IsValueOfType : forall t vm, (forall m, vm = Some m -> P m) -> P (IsValueOfType t vm).
  Hypothesis H_AllOf : forall ms, Forall P ms -> P (AllOf ms).
  Hypothesis H_AnyOf : forall ms, Forall P ms -> P (AnyOf ms).
  Hypothesis H_Anything : forall w, P (Anything w).
  Hypothesis H_Not : forall m, P m -> P (Not m).
  Hypothesis H_Wrapper : forall m d h, P m -> P (Wrapper m d h).

  Fixpoint matcher_ind' (m : matcher) : P m :=
    match m with
    | EqualTo e => H_EqualTo e
    | Comparator c e => H_Comparator c e
    | IsBetween lo hi => H_IsBetween lo hi
    | IsNone => H_IsNone
    | HasLength m' => H_HasLength m' (matcher_ind' m')
    | StartsWith s => H_StartsWith s
    | EndsWith s => H_EndsWith s
    | ContainsString s => H_ContainsString s
    | HasItem m' => H_HasItem m' (matcher_ind' m')
    | HasItems l => H_HasItems l
    | HasOnlyItems l => H_HasOnlyItems l
    | HasAllItems m' => H_HasAllItems m' (matcher_ind' m')
    | IsIn l => H_IsIn l
    | HasEntry path vm =>
        H_HasEntry path vm
          (match vm as o return forall m', o = Some m' -> P m' with
           | Some m0 => fun m' (E : Some m0 = Some m') =>
                          match E in _ = y return match y with Some z => P z | None => True end with
                          | eq_refl => matcher_ind' m0
                          end
           | None => fun m' E => match E in _ = y return match y with Some z => P m' | None => True end with
                                  | eq_refl => I
                                  end
           end)
    | IsValueOfType t vm =>
        H_IsValueOfType t vm
          (match vm as o return forall m', o = Some m' -> P m' with
           | Some m0 => fun m' (E : Some m0 = Some m') =>
                          match E in _ = y return match y with Some z => P z | None => True end with
                          | eq_refl => matcher_ind' m0
                          end
           | None => fun m' E => match E in _ = y return match y with Some z => P m' | None => True end with
                                  | eq_refl => I
                                  end
           end)
    | AllOf ms => H_AllOf ms ((fix go (l : list matcher) : Forall P l :=
                                 match l with [] => Forall_nil P | x :: r => Forall_cons x (matcher_ind' x) (go r) end) ms)
    | AnyOf ms => H_AnyOf ms ((fix go (l : list matcher) : Forall P l :=
                                 match l with [] => Forall_nil P | x :: r => Forall_cons x (matcher_ind' x) (go r) end) ms)
    | Anything w => H_Anything w
    | Not m' => H_Not m' (matcher_ind' m')
    | Wrapper m' d h => H_Wrapper m' d h (matcher_ind' m')
    end.
End MatcherInd.

(* ------------------------------------------------------------------ the connectives *)
Lemma and_sc_true_iff : forall l, and_sc l = Ok true <-> Forall (fun r => r = Ok true) l.
Proof.
  induction l as [|r l IH]; simpl.
  - split; auto.
  - destruct r as [[|]|e].
    + rewrite IH. split; intro H. constructor; auto. inversion H; auto.
    + split; intro H. discriminate. inversion H; discriminate.
    + split; intro H. discriminate. inversion H; discriminate.
Qed.

Lemma or_sc_false_iff : forall l, or_sc l = Ok false <-> Forall (fun r => r = Ok false) l.
Proof.
  induction l as [|r l IH]; simpl.
  - split; auto.
  - destruct r as [[|]|e].
    + split; intro H. discriminate. inversion H; discriminate.
    + rewrite IH. split; intro H. constructor; auto. inversion H; auto.
    + split; intro H. discriminate. inversion H; discriminate.
Qed.

Lemma and_sc_total : forall bs, and_sc (map Ok bs) = Ok (forallb (fun b => b) bs).
Proof. induction bs as [|[|] bs IH]; simpl; auto. Qed.

Lemma or_sc_total : forall bs, or_sc (map Ok bs) = Ok (existsb (fun b => b) bs).
Proof. induction bs as [|[|] bs IH]; simpl; auto. Qed.

(* De Morgan, including evaluation order and exceptions *)
Lemma and_sc_neg : forall l, rmap negb (and_sc l) = or_sc (map (rmap negb) l).
Proof. induction l as [|[[|]|e] l IH]; simpl; auto. Qed.

Lemma or_sc_neg : forall l, rmap negb (or_sc l) = and_sc (map (rmap negb) l).
Proof. induction l as [|[[|]|e] l IH]; simpl; auto. Qed.

(* ------------------------------------------------------------------ loops of matches *)
Definition all_of_loop (v : pyval) :=
  fix go (ms : list matcher) : mres :=
    match ms with
    | [] => Ok (true, DText)
    | m' :: r => match matches m' v with
                 | Err e => Err e
                 | Ok (false, _) => Ok (false, DText)
                 | Ok (true, _) => go r
                 end
    end.

Definition any_of_loop (v : pyval) :=
  fix go (ms : list matcher) (some_details : bool) : mres :=
    match ms with
    | [] => Ok (false, if some_details then DText else DEmpty)
    | m' :: r => match matches m' v with
                 | Err e => Err e
                 | Ok (true, d) => Ok (true, d)
                 | Ok (false, d) => go r (some_details || details_truthy d)
                 end
    end.

Lemma matches_all_of : forall ms v, matches (AllOf ms) v = all_of_loop v ms.
Proof. reflexivity. Qed.

Lemma matches_any_of : forall ms v, matches (AnyOf ms) v = any_of_loop v ms false.
Proof. reflexivity. Qed.

Lemma all_of_loop_truth : forall v ms,
  truth (all_of_loop v ms) = and_sc (map (fun m => truth (matches m v)) ms).
Proof.
  induction ms as [|m ms IH]; simpl; auto.
  destruct (matches m v) as [[[|] d]|e]; simpl; auto.
Qed.

Lemma any_of_loop_truth : forall v ms acc,
  truth (any_of_loop v ms acc) = or_sc (map (fun m => truth (matches m v)) ms).
Proof.
  induction ms as [|m ms IH]; intro acc; simpl; auto.
  destruct (matches m v) as [[[|] d]|e]; simpl; auto.
Qed.

(* not_ is exact negation; details pass through *)
Lemma not_exact : forall m v, truth (matches (Not m) v) = rmap negb (truth (matches m v)).
Proof. intros. simpl. destruct (matches m v) as [[b d]|e]; reflexivity. Qed.

Lemma all_of_exact : forall ms v,
  truth (matches (AllOf ms) v) = and_sc (map (fun m => truth (matches m v)) ms).
Proof. intros. rewrite matches_all_of. apply all_of_loop_truth. Qed.

Lemma any_of_exact : forall ms v,
  truth (matches (AnyOf ms) v) = or_sc (map (fun m => truth (matches m v)) ms).
Proof. intros. rewrite matches_any_of. apply any_of_loop_truth. Qed.

Lemma all_of_true_iff : forall ms v,
  truth (matches (AllOf ms) v) = Ok true <-> forall m, In m ms -> truth (matches m v) = Ok true.
Proof.
  intros. rewrite all_of_exact, and_sc_true_iff, Forall_map, Forall_forall. reflexivity.
Qed.

Lemma any_of_false_iff : forall ms v,
  truth (matches (AnyOf ms) v) = Ok false <-> forall m, In m ms -> truth (matches m v) = Ok false.
Proof.
  intros. rewrite any_of_exact, or_sc_false_iff, Forall_map, Forall_forall. reflexivity.
Qed.

(* when no operand raises, all_of / any_of are forallb / existsb of the operands' truth values *)
Lemma all_of_total : forall ms v bs,
  map (fun m => truth (matches m v)) ms = map Ok bs ->
  truth (matches (AllOf ms) v) = Ok (forallb (fun b => b) bs).
Proof. intros ms v bs H. rewrite all_of_exact, H. apply and_sc_total. Qed.

Lemma any_of_total : forall ms v bs,
  map (fun m => truth (matches m v)) ms = map Ok bs ->
  truth (matches (AnyOf ms) v) = Ok (existsb (fun b => b) bs).
Proof. intros ms v bs H. rewrite any_of_exact, H. apply or_sc_total. Qed.

Lemma de_morgan_all : forall ms v,
  truth (matches (Not (AllOf ms)) v) = truth (matches (AnyOf (map Not ms)) v).
Proof.
  intros. rewrite not_exact, all_of_exact, any_of_exact, and_sc_neg, !map_map.
  f_equal. apply map_ext. intro m. symmetry. apply not_exact.
Qed.

Lemma de_morgan_any : forall ms v,
  truth (matches (Not (AnyOf ms)) v) = truth (matches (AllOf (map Not ms)) v).
Proof.
  intros. rewrite not_exact, all_of_exact, any_of_exact, or_sc_neg, !map_map.
  f_equal. apply map_ext. intro m. symmetry. apply not_exact.
Qed.

Lemma double_negation : forall m v, truth (matches (Not (Not m)) v) = truth (matches m v).
Proof.
  intros. rewrite !not_exact. destruct (truth (matches m v)) as [b|e]; simpl; auto. rewrite negb_involutive. auto.
Qed.

Lemma is_exact : forall x m v,
  matches (is_ (AVal x)) v = matches (equal_to x) v /\ is_ (AMat m) = m.
Proof. intros. split; reflexivity. Qed.

Lemma wrapper_truth : forall m d h v, truth (matches (Wrapper m d h) v) = truth (matches m v).
Proof. intros. simpl. destruct (matches m v) as [[b dd]|e]; reflexivity. Qed.

(* ------------------------------------------------------------------ matches computes the reference semantics *)
Lemma truth_bind : forall {A} (r : result A) (f : A -> mres),
  truth (bind r f) = bind r (fun a => truth (f a)).
Proof. intros A [a|e] f; reflexivity. Qed.

Definition has_item_loop (m' : matcher) :=
  fix go (items : list pyval) : mres :=
    match items with
    | [] => Ok (false, DText)
    | x :: r => match matches m' x with
                | Err e => Err e
                | Ok (true, _) => Ok (true, DText)
                | Ok (false, _) => go r
                end
    end.

Definition has_all_items_loop (m' : matcher) :=
  fix go (items : list pyval) (failed : bool) : mres :=
    match items with
    | [] => if failed then Ok (false, DText) else Ok (true, DNone)
    | x :: r => match matches m' x with
                | Err e => Err e
                | Ok (b, _) => go r (failed || negb b)
                end
    end.

Lemma has_item_loop_truth : forall m', (forall v, truth (matches m' v) = sem m' v) ->
  forall items, truth (has_item_loop m' items) = or_sc (map (sem m') items).
Proof.
  intros m' IH. induction items as [|x items IHi]; simpl; auto.
  rewrite <- IH. destruct (matches m' x) as [[[|] d]|e]; simpl; auto.
Qed.

Lemma has_all_items_loop_truth : forall m', (forall v, truth (matches m' v) = sem m' v) ->
  forall items failed,
    truth (has_all_items_loop m' items failed) = rmap (andb (negb failed)) (and_all (map (sem m') items)).
Proof.
  intros m' IH. induction items as [|x items IHi]; intro failed; simpl.
  - destruct failed; reflexivity.
  - rewrite <- IH. destruct (matches m' x) as [[b d]|e]; simpl; auto.
    rewrite IHi. destruct (and_all (map (sem m') items)) as [b'|e']; simpl; auto.
    destruct failed, b, b'; reflexivity.
Qed.

Lemma matches_is_sem : forall m v, truth (matches m v) = sem m v.
Proof.
  induction m using matcher_ind'; intro v.
  - reflexivity.
  - destruct c as [|op]; cbn -[py_cmp]; auto. destruct (py_cmp op v e); reflexivity.
  - cbn -[py_cmp]. destruct (py_cmp Le (VInt lo) v) as [[|]|e]; cbn -[py_cmp]; auto.
    destruct (py_cmp Le v (VInt hi)) as [[|]|e]; reflexivity.
  - reflexivity.
  - simpl. destruct (py_len v) as [n|e]; simpl; auto.
  - reflexivity.
  - reflexivity.
  - reflexivity.
  - simpl. destruct (py_iter v) as [items|e]; simpl; auto.
    apply (has_item_loop_truth m IHm).
  - simpl. destruct (map_result (fun e => py_in e v) l); reflexivity.
  - simpl. destruct (py_iter v) as [items|e]; simpl; auto.
    destruct (only_items_loop items l false) as [rest extra]. reflexivity.
  - simpl. destruct (py_iter v) as [items|e]; simpl; auto.
    change (truth (has_all_items_loop m items false) = and_all (map (sem m) items)).
    rewrite (has_all_items_loop_truth m IHm). simpl.
    destruct (and_all (map (sem m) items)) as [b|e]; reflexivity.
  - reflexivity.
  - simpl. destruct (get_entry path v) as [value|]; auto.
    destruct vm as [m'|]; auto.
  - simpl. destruct (has_type t v); auto. destruct vm as [m'|]; auto.
  - rewrite all_of_exact. simpl. f_equal.
    induction H as [|m ms Hm Hms IH]; simpl; auto. rewrite Hm, IH. reflexivity.
  - rewrite any_of_exact. simpl. f_equal.
    induction H as [|m ms Hm Hms IH]; simpl; auto. rewrite Hm, IH. reflexivity.
  - reflexivity.
  - rewrite not_exact, IHm. reflexivity.
  - rewrite wrapper_truth. apply IHm.
Qed.

(* verdicts do not depend on hide_result_details / override_description, at any depth *)
Fixpoint strip (m : matcher) : matcher :=
  match m with
  | HasLength m' => HasLength (strip m')
  | HasItem m' => HasItem (strip m')
  | HasAllItems m' => HasAllItems (strip m')
  | HasEntry p vm => HasEntry p (option_map strip vm)
  | IsValueOfType t vm => IsValueOfType t (option_map strip vm)
  | AllOf ms => AllOf (map strip ms)
  | AnyOf ms => AnyOf (map strip ms)
  | Not m' => Not (strip m')
  | Wrapper m' _ _ => strip m'
  | _ => m
  end.

Lemma sem_strip : forall m v, sem (strip m) v = sem m v.
Proof.
  induction m using matcher_ind'; intro v; simpl; auto.
  - destruct (py_len v); simpl; auto.
  - destruct (py_iter v) as [items|e]; simpl; auto. f_equal. apply map_ext. auto.
  - destruct (py_iter v) as [items|e]; simpl; auto. f_equal. apply map_ext. auto.
  - destruct (get_entry path v); auto. destruct vm as [m'|]; simpl; auto.
  - destruct (has_type t v); auto. destruct vm as [m'|]; simpl; auto.
  - f_equal. rewrite map_map. induction H as [|m ms Hm Hms IH]; simpl; auto. rewrite Hm, IH. reflexivity.
  - f_equal. rewrite map_map. induction H as [|m ms Hm Hms IH]; simpl; auto. rewrite Hm, IH. reflexivity.
  - rewrite IHm. reflexivity.
Qed.

Lemma wrappers_transparent : forall m v, truth (matches (strip m) v) = truth (matches m v).
Proof. intros. rewrite !matches_is_sem. apply sem_strip. Qed.

(* ------------------------------------------------------------------ operations contract *)
Lemma log_match_result_slice : forall ok d quiet,
  log_match_result FrdSlice ok d quiet = Ok {| ck_ok := ok; ck_details := if quiet then DNone else d |}.
Proof. intros ok d [|]; destruct d; reflexivity. Qed.

(* check_that: one check carrying the verdict and the verdict returned; the only exception is the one matches() raised *)
Lemma check_that_contract : forall v m quiet,
  match matches m v with
  | Ok (ok, d) => check_that FrdSlice v m quiet = ([{| ck_ok := ok; ck_details := if quiet then DNone else d |}], Returns ok)
  | Err e => check_that FrdSlice v m quiet = ([], Raises e)
  end.
Proof.
  intros. unfold check_that. destruct (matches m v) as [[ok d]|e]; auto.
  rewrite log_match_result_slice. reflexivity.
Qed.

Lemma require_that_contract : forall v m quiet,
  match matches m v with
  | Ok (ok, d) => require_that FrdSlice v m quiet =
                    ([{| ck_ok := ok; ck_details := if quiet then DNone else d |}], if ok then Returns true else Raises AbortTest)
  | Err e => require_that FrdSlice v m quiet = ([], Raises e)
  end.
Proof.
  intros. unfold require_that. destruct (matches m v) as [[ok d]|e]; auto.
  rewrite log_match_result_slice. reflexivity.
Qed.

Lemma assert_that_contract : forall v m quiet,
  match matches m v with
  | Ok (true, _) => assert_that FrdSlice v m quiet = ([], Returns true)
  | Ok (false, d) => assert_that FrdSlice v m quiet =
                       ([{| ck_ok := false; ck_details := if quiet then DNone else d |}], Raises AbortTest)
  | Err e => assert_that FrdSlice v m quiet = ([], Raises e)
  end.
Proof.
  intros. unfold assert_that. destruct (matches m v) as [[[|] d]|e]; auto.
  rewrite log_match_result_slice. reflexivity.
Qed.

(* abstract form: number of checks, verdicts and raising, in terms of the truth value only *)
Lemma operations_summary : forall v m quiet b,
  truth (matches m v) = Ok b ->
  (exists c, check_that FrdSlice v m quiet = ([c], Returns b) /\ ck_ok c = b) /\
  (exists c, require_that FrdSlice v m quiet = ([c], if b then Returns true else Raises AbortTest) /\ ck_ok c = b) /\
  (if b then assert_that FrdSlice v m quiet = ([], Returns true)
   else exists c, assert_that FrdSlice v m quiet = ([c], Raises AbortTest) /\ ck_ok c = false).
Proof.
  intros v m quiet b H.
  pose proof (check_that_contract v m quiet) as Hc.
  pose proof (require_that_contract v m quiet) as Hr.
  pose proof (assert_that_contract v m quiet) as Ha.
  destruct (matches m v) as [[ok d]|e]; simpl in H; try discriminate.
  injection H as ->.
  split; [|split].
  - eexists; split; [exact Hc|reflexivity].
  - eexists; split; [exact Hr|reflexivity].
  - destruct b; [exact Ha|]. eexists; split; [exact Ha|reflexivity].
Qed.

Lemma operations_raise_only_matches_errors : forall v m quiet e,
  truth (matches m v) = Err e ->
  check_that FrdSlice v m quiet = ([], Raises e) /\
  require_that FrdSlice v m quiet = ([], Raises e) /\
  assert_that FrdSlice v m quiet = ([], Raises e).
Proof.
  intros v m quiet e H. unfold check_that, require_that, assert_that.
  destruct (matches m v) as [[ok d]|e']; simpl in H; try discriminate.
  injection H as ->. auto.
Qed.

(* the pre-fix capitalisation details[0]: check_that raises IndexError on a failed any_of whose operands hide their details *)
Lemma check_that_contract_index0_refuted : exists v m,
  truth (matches m v) = Ok false /\ check_that FrdIndex0 v m false = ([], Raises IndexError).
Proof.
  exists (VInt 3), (any_of [AMat (hide_result_details (equal_to (VInt 1))); AMat (hide_result_details (equal_to (VInt 2)))]).
  split; vm_compute; reflexivity.
Qed.

(* ------------------------------------------------------------------ leaf matchers are the PyVal operators *)
Lemma leaf_value_operators : forall v e lo hi,
  truth (matches (equal_to e) v) = Ok (py_eq v e) /\
  truth (matches (not_equal_to e) v) = Ok (negb (py_eq v e)) /\
  truth (matches (greater_than e) v) = py_cmp Gt v e /\
  truth (matches (greater_than_or_equal_to e) v) = py_cmp Ge v e /\
  truth (matches (less_than e) v) = py_cmp Lt v e /\
  truth (matches (less_than_or_equal_to e) v) = py_cmp Le v e /\
  truth (matches (is_between lo hi) v) = and_sc [py_cmp Le (VInt lo) v; py_cmp Le v (VInt hi)] /\
  truth (matches is_none v) = Ok (match v with VNone => true | _ => false end) /\
  truth (matches is_not_none v) = Ok (match v with VNone => false | _ => true end).
Proof.
  intros. rewrite !matches_is_sem. repeat split; try reflexivity.
  destruct v; reflexivity.
Qed.

Lemma leaf_string_operators : forall v s,
  truth (matches (starts_with s) v) = Ok (match v with VStr a => str_prefix s a | _ => false end) /\
  truth (matches (ends_with s) v) = Ok (match v with VStr a => str_suffix s a | _ => false end) /\
  truth (matches (contains_string s) v) = Ok (match v with VStr a => str_contains s a | _ => false end).
Proof. intros. repeat split; reflexivity. Qed.

Lemma leaf_collection_operators : forall v l a,
  truth (matches (is_in l) v) = py_in v (VList l) /\
  truth (matches (has_items l) v) = rmap (forallb (fun b => b)) (map_result (fun e => py_in e v) l) /\
  truth (matches (has_item a) v) = bind (py_iter v) (fun items => or_sc (map (fun x => truth (matches (is_ a) x)) items)) /\
  truth (matches (has_all_items a) v) = bind (py_iter v) (fun items => and_all (map (fun x => truth (matches (is_ a) x)) items)) /\
  truth (matches (has_length a) v) = bind (py_len v) (fun n => truth (matches (is_ a) (VInt n))).
Proof.
  intros. rewrite !matches_is_sem. repeat split; try reflexivity.
  - simpl. destruct (py_iter v); simpl; auto. f_equal. apply map_ext. intro x. symmetry. apply matches_is_sem.
  - simpl. destruct (py_iter v); simpl; auto. f_equal. apply map_ext. intro x. symmetry. apply matches_is_sem.
  - simpl. destruct (py_len v); simpl; auto. symmetry. apply matches_is_sem.
Qed.

Lemma leaf_type_operators : forall v t,
  truth (matches (is_type t None) v) = Ok (has_type t v) /\
  truth (matches is_true v) = Ok (match v with VBool true => true | _ => false end) /\
  truth (matches is_false v) = Ok (match v with VBool false => true | _ => false end).
Proof.
  intros. repeat split.
  - simpl. destruct (has_type t v); reflexivity.
  - destruct v as [| [|] | | | |]; reflexivity.
  - destruct v as [| [|] | | | |]; reflexivity.
Qed.
