(* A finite acyclic relation has a rank function (longest descending chain), constructively: used to turn "the depends_on
   relation of a validated project has no cycle" (C04) into the rank function the well-formedness of the task graph needs
   (Proofs/GraphP.v).  Generic in the node type; no axioms. *)
From Coq Require Import List Arith Bool Lia Relations.
Import ListNotations.

Section Acyclic.
  Variable A : Type.
  Hypothesis A_dec : forall x y : A, {x = y} + {x <> y}.
  Variable deps : A -> list A.
  Variable nodes : list A.
  Definition edge (a b : A) : Prop := In b (deps a).
  Hypothesis support : forall p d, In d (deps p) -> In p nodes /\ In d nodes.
  Hypothesis acyclic : forall p, ~ clos_trans A edge p p.

  (* height, truncated at n *)
  Fixpoint ht (n : nat) (p : A) : nat :=
    match n with 0 => 0 | S m => S (list_max (map (ht m) (deps p))) end.

  Lemma ht_le n : forall p, ht n p <= n.
  Proof.
    induction n as [|n IH]; intros p; simpl; [lia|]. apply le_n_S. apply list_max_le. apply Forall_forall.
    intros x Hx. apply in_map_iff in Hx as [d [Hd _]]. subst x. apply IH.
  Qed.

  Lemma list_max_attained l k : list_max l = S k -> In (S k) l.
  Proof.
    induction l as [|a l IH]; simpl; intros H; [discriminate|].
    destruct (Nat.max_spec a (list_max l)) as [[_ Hm]|[_ Hm]]; rewrite Hm in H; [right; apply IH; exact H|left; exact H].
  Qed.

  Fixpoint chain (l : list A) : Prop :=
    match l with
    | x :: (y :: _) as r => edge x y /\ chain r
    | _ => True
    end.

  Lemma ht_chain n : forall p, ht (S n) p = S n -> exists l, length l = n /\ chain (p :: l).
  Proof.
    induction n as [|n IH]; intros p H; [exists []; split; [reflexivity|exact I]|].
    change (S (list_max (map (ht (S n)) (deps p))) = S (S n)) in H. injection H as H.
    apply list_max_attained in H. apply in_map_iff in H as [d [Hd Hin]].
    destruct (IH d Hd) as [l [Hl Hc]]. exists (d :: l). split; [simpl; f_equal; exact Hl|]. split; [exact Hin|exact Hc].
  Qed.

  Lemma chain_incl : forall l p, l <> [] -> chain (p :: l) -> incl (p :: l) nodes.
  Proof.
    induction l as [|d l IH]; intros p Hne Hc; [congruence|]. destruct Hc as [He Hc].
    destruct (support p d He) as [Hp Hd]. intros x [Hx|Hx]; [subst x; exact Hp|].
    destruct l as [|e l]; [destruct Hx as [Hx|[]]; subst x; exact Hd|].
    apply (IH d); [discriminate|exact Hc|exact Hx].
  Qed.

  Lemma chain_app_r : forall l1 l2, chain (l1 ++ l2) -> chain l2.
  Proof.
    induction l1 as [|x l1 IH]; intros l2 H; [exact H|]. apply IH. simpl in H. destruct (l1 ++ l2) eqn:E; [|destruct H as [_ H]; exact H].
    destruct l1; [simpl in E; subst l2; exact I|discriminate].
  Qed.

  Lemma chain_app_l : forall l1 l2, chain (l1 ++ l2) -> chain l1.
  Proof.
    induction l1 as [|x l1 IH]; intros l2 H; [exact I|]. destruct l1 as [|y l1]; [exact I|].
    simpl in H. destruct H as [He H]. split; [exact He|]. apply (IH l2). exact H.
  Qed.

  Lemma chain_tc : forall l x y, chain (x :: l ++ [y]) -> clos_trans A edge x y.
  Proof.
    induction l as [|a l IH]; intros x y H.
    - destruct H as [He _]. apply t_step. exact He.
    - destruct H as [He H]. apply t_trans with a; [apply t_step; exact He|apply IH; exact H].
  Qed.

  Lemma dup_or_nodup : forall l : list A, NoDup l \/ exists x l1 l2 l3, l = l1 ++ x :: l2 ++ x :: l3.
  Proof.
    induction l as [|a l IH]; [left; constructor|].
    destruct IH as [Hnd|[x [l1 [l2 [l3 E]]]]].
    - destruct (in_dec A_dec a l) as [Hin|Hnin].
      + right. apply in_split in Hin as [l2 [l3 E]]. exists a, [], l2, l3. simpl. f_equal. exact E.
      + left. constructor; assumption.
    - right. exists x, (a :: l1), l2, l3. simpl. f_equal. exact E.
  Qed.

  Lemma no_long_chain l : chain l -> 2 <= length l -> length nodes < length l -> False.
  Proof.
    intros Hc H2 Hlen. destruct l as [|p l]; [simpl in H2; lia|].
    assert (Hne : l <> []) by (destruct l; [simpl in H2; lia|discriminate]).
    pose proof (chain_incl l p Hne Hc) as Hincl.
    destruct (dup_or_nodup (p :: l)) as [Hnd|[x [l1 [l2 [l3 E]]]]].
    - pose proof (NoDup_incl_length Hnd Hincl). lia.
    - rewrite E in Hc. apply chain_app_r in Hc.
      change (x :: l2 ++ x :: l3) with ((x :: l2) ++ [x] ++ l3) in Hc. rewrite app_assoc in Hc. apply chain_app_l in Hc.
      apply (acyclic x). apply (chain_tc l2). exact Hc.
  Qed.

  Lemma ht_lt m p : length nodes + 2 <= m -> ht m p < m.
  Proof.
    intros Hm. destruct m as [|n]; [lia|]. pose proof (ht_le (S n) p) as Hle.
    destruct (Nat.eq_dec (ht (S n) p) (S n)) as [E|NE]; [|lia]. exfalso.
    destruct (ht_chain n p E) as [l [Hl Hc]]. apply (no_long_chain (p :: l) Hc); simpl; lia.
  Qed.

  Lemma ht_stable n : forall p, ht n p < n -> ht (S n) p = ht n p.
  Proof.
    induction n as [|n IH]; intros p H; [simpl in H; lia|].
    change (ht (S (S n)) p) with (S (list_max (map (ht (S n)) (deps p)))).
    change (ht (S n) p) with (S (list_max (map (ht n) (deps p)))) in *.
    f_equal. f_equal. apply map_ext_in. intros d Hd. apply IH.
    assert (Hall : Forall (fun k => k <= list_max (map (ht n) (deps p))) (map (ht n) (deps p))) by (apply list_max_le; lia).
    rewrite Forall_forall in Hall. specialize (Hall (ht n d) (in_map _ _ _ Hd)). lia.
  Qed.

  Definition rank : A -> nat := ht (length nodes + 3).

  Theorem rank_decreases : forall p d, In d (deps p) -> rank d < rank p.
  Proof.
    intros p d Hd. unfold rank. replace (length nodes + 3) with (S (length nodes + 2)) by lia.
    rewrite (ht_stable (length nodes + 2) d) by (apply ht_lt; lia).
    change (ht (S (length nodes + 2)) p) with (S (list_max (map (ht (length nodes + 2)) (deps p)))).
    assert (Hall : Forall (fun k => k <= list_max (map (ht (length nodes + 2)) (deps p))) (map (ht (length nodes + 2)) (deps p)))
      by (apply list_max_le; lia).
    rewrite Forall_forall in Hall. specialize (Hall _ (in_map _ _ _ Hd)). lia.
  Qed.
End Acyclic.
