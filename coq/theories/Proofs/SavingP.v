(* Proofs for C10: every event handled by the writer only extends the report (le_report, Model/Prefix.v); the file session
   (Model/Saving.v) saves whole-event snapshots at the promised points; the atomic save sequence (Model/CrashFS.v) never exposes
   anything but a complete earlier snapshot. *)
From Coq Require Import List NArith ZArith Bool Lia Sorted Arith.
Import ListNotations.
From LCC Require Import Base.Util Model.Report Model.Events Model.Writer Model.Prefix Model.Saving Model.CrashFS Proofs.PrefixP.
From LCC Require gen.TablesSaving Proofs.WriterP.

(* ====================================================================================================================== *)
(* 1. sorting by rank: appending to the insertion-order list embeds the old sorted list in the new one                     *)
(* ====================================================================================================================== *)
Section Sort.
  Variable A : Type.
  Variable key : A -> Z.
  Definition kle (a b : A) : Prop := (key a <= key b)%Z.
  Definition sorted := StronglySorted kle.

  Lemma insert_by_in : forall x l y, In y (insert_by key x l) <-> y = x \/ In y l.
  Proof.
    induction l as [|z r IH]; simpl; intros y.
    - intuition.
    - destruct (key x <=? key z)%Z; simpl.
      + intuition.
      + rewrite IH. intuition.
  Qed.

  Lemma insert_sorted : forall x l, sorted l -> sorted (insert_by key x l).
  Proof.
    induction l as [|z r IH]; simpl; intros H.
    - constructor; constructor.
    - destruct (StronglySorted_inv H) as [Hr Hz]. destruct (Z.leb_spec (key x) (key z)).
      + constructor; auto. constructor; auto.
        rewrite Forall_forall in *. intros y Hy. unfold kle in *. specialize (Hz y Hy). lia.
      + constructor; [apply IH; exact Hr|]. rewrite Forall_forall in *. intros y Hy. destruct (proj1 (insert_by_in _ _ _) Hy) as [Hy'|Hy'].
        * subst. unfold kle. lia.
        * auto.
  Qed.

  Lemma fold_insert_sorted : forall l s, sorted s -> sorted (fold_right (insert_by key) s l).
  Proof. induction l; simpl; intros; auto using insert_sorted. Qed.

  Lemma sort_sorted : forall l, sorted (sort_by key l).
  Proof. intros. apply fold_insert_sorted. constructor. Qed.

  Lemma insert_le_all : forall a s, Forall (fun y => (key a <= key y)%Z) s -> insert_by key a s = a :: s.
  Proof.
    intros a [|y r] H; simpl; auto. inversion H; subst. destruct (Z.leb_spec (key a) (key y)); auto. lia.
  Qed.

  Lemma emb_eq_in : forall (s s' : list A), emb eq s s' -> forall x, In x s -> In x s'.
  Proof.
    induction 1; intros x Hx.
    - inversion Hx.
    - destruct Hx; subst; [left; reflexivity | right; auto].
    - right. auto.
  Qed.

  Lemma emb_eq_single : forall (a : A) l, In a l -> emb eq [a] l.
  Proof.
    induction l; intros H; inversion H; subst.
    - constructor; auto. constructor.
    - apply emb_skip. auto.
  Qed.

  Lemma sublist_insert : forall a s s', sorted s' -> emb eq s s' -> emb eq (insert_by key a s) (insert_by key a s').
  Proof.
    intros a s s' Hs H. induction H.
    - simpl. apply emb_eq_single. apply insert_by_in. auto.
    - subst b. destruct (StronglySorted_inv Hs) as [Hr Hz]. simpl. destruct (key a <=? key a0)%Z.
      + constructor; auto. constructor; auto.
      + constructor; auto.
    - destruct (StronglySorted_inv Hs) as [Hr Hz]. simpl. destruct (Z.leb_spec (key a) (key b)).
      + rewrite insert_le_all.
        * constructor; auto. apply emb_skip. assumption.
        * rewrite Forall_forall in *. intros y Hy. apply (emb_eq_in _ _ H) in Hy. specialize (Hz y Hy). unfold kle in Hz. lia.
      + apply emb_skip. auto.
  Qed.

  Lemma fold_insert_sub : forall l s s', sorted s' -> emb eq s s' ->
    emb eq (fold_right (insert_by key) s l) (fold_right (insert_by key) s' l).
  Proof.
    induction l; simpl; intros; auto. apply sublist_insert; auto using fold_insert_sorted.
  Qed.

  Lemma sort_app_sub : forall l1 l2, emb eq (sort_by key l1) (sort_by key (l1 ++ l2)).
  Proof.
    intros. unfold sort_by. rewrite fold_right_app. apply fold_insert_sub.
    - apply sort_sorted.
    - constructor.
  Qed.

  Variable R : A -> A -> Prop.
  Hypothesis R_key : forall a a', R a a' -> key a = key a'.

  Lemma insert_Forall2 : forall a a' s s', R a a' -> Forall2 R s s' -> Forall2 R (insert_by key a s) (insert_by key a' s').
  Proof.
    intros a a' s s' Ha H. induction H; simpl.
    - constructor; auto.
    - rewrite <- (R_key _ _ Ha), <- (R_key _ _ H). destruct (key a <=? key x)%Z; constructor; auto.
  Qed.

  Lemma sort_Forall2 : forall l l', Forall2 R l l' -> Forall2 R (sort_by key l) (sort_by key l').
  Proof. induction 1; simpl; auto. apply insert_Forall2; auto. Qed.

  Lemma lep_split : forall l l', lep R l l' -> exists l1 l2, l' = l1 ++ l2 /\ Forall2 R l l1.
  Proof.
    induction 1.
    - exists [], l'. auto.
    - destruct IHlep as (l1 & l2 & E & F). subst. exists (b :: l1), l2. split; auto.
  Qed.

  Lemma Forall2_emb : forall y z, emb eq y z -> forall x, Forall2 R x y -> emb R x z.
  Proof.
    induction 1; intros x F.
    - inversion F; subst. constructor.
    - subst b. inversion F; subst. constructor; auto.
    - apply emb_skip. auto.
  Qed.

  Theorem sort_emb : forall l l', lep R l l' -> emb R (sort_by key l) (sort_by key l').
  Proof.
    intros l l' H. destruct (lep_split _ _ H) as (l1 & l2 & E & F). subst l'.
    eapply Forall2_emb.
    - apply sort_app_sub.
    - apply sort_Forall2. assumption.
  Qed.
End Sort.

Lemma emb_map : forall A B (f : A -> B) (R : B -> B -> Prop) l l',
  emb (fun p q => R (f p) (f q)) l l' -> emb R (map f l) (map f l').
Proof. induction 1; simpl; constructor; auto. Qed.

Lemma lep_map_in : forall A B (g : A -> B) (R : A -> A -> Prop) (R' : B -> B -> Prop) l l',
  (forall x, In x l -> forall y, R x y -> R' (g x) (g y)) -> lep R l l' -> lep R' (map g l) (map g l').
Proof.
  intros A B g R R' l l' H E. induction E; simpl; constructor; auto with datatypes.
Qed.

(* ====================================================================================================================== *)
(* 2. the order on the live report (insertion order, ranks kept), and its image under `normalize`                            *)
(* ====================================================================================================================== *)
Definition le_rt (a b : Z * test_result) : Prop := fst a = fst b /\ le_test (snd a) (snd b).

Inductive le_ls : lsuite -> lsuite -> Prop :=
| LeLs : forall m rk st e e' su su' td td' ts ts' us us',
    le_oresult su su' -> le_oresult td td' -> lep le_rt ts ts' -> lep le_ls us us' ->
    (e <> None -> LSuite m rk st e su td ts us = LSuite m rk st e' su' td' ts' us') ->
    le_ls (LSuite m rk st e su td ts us) (LSuite m rk st e' su' td' ts' us').

Fixpoint lsuite_ind2 (P : lsuite -> Prop)
  (H : forall m rk st e su td ts us, Forall P us -> P (LSuite m rk st e su td ts us)) (s : lsuite) : P s :=
  match s with
  | LSuite m rk st e su td ts us =>
      H m rk st e su td ts us
        ((fix go (l : list lsuite) : Forall P l :=
            match l with
            | [] => Forall_nil P
            | x :: r => Forall_cons x (lsuite_ind2 P H x) (go r)
            end) us)
  end.

Lemma le_rt_refl : forall a, le_rt a a.
Proof. split; auto using le_test_refl. Qed.

Lemma le_ls_refl : forall s, le_ls s s.
Proof.
  induction s as [m rk st e su td ts us IH] using lsuite_ind2. constructor; auto using le_oresult_refl.
  - apply lep_refl_in. intros. apply le_rt_refl.
  - apply lep_refl_in. rewrite Forall_forall in IH. auto.
Qed.

Lemma le_ls_rank : forall s s', le_ls s s' -> ls_rank s = ls_rank s'.
Proof. intros s s' H. inversion H; reflexivity. Qed.

Lemma le_ls_norm : forall s s', le_ls s s' -> le_suite (norm_suite s) (norm_suite s').
Proof.
  induction s as [m rk st e su td ts us IH] using lsuite_ind2. intros s' H. inversion H; subst.
  cbn [norm_suite]. constructor; auto.
  - apply emb_map. eapply emb_mono; [|apply (sort_emb _ fst le_rt)]; auto.
    + intros x y _ [_ Hl]. exact Hl.
    + intros a a' [Hk _]. exact Hk.
  - apply emb_map.
    eapply emb_mono; [|apply (sort_emb _ fst (fun p q : Z * suite_result => fst p = fst q /\ le_suite (snd p) (snd q)))].
    + intros x y _ [_ Hl]. exact Hl.
    + intros a a' [Hk _]. exact Hk.
    + eapply lep_map_in; [|eassumption]. intros x Hx y Hxy. simpl. split.
      * apply le_ls_rank. assumption.
      * rewrite Forall_forall in IH. apply IH; assumption.
  - intros He.
    match goal with Hf : e <> None -> LSuite _ _ _ _ _ _ _ _ = _ |- _ => pose proof (Hf He) as E1 end.
    inversion E1; subst. reflexivity.
Qed.

(* the part of the live state an event can change, field by field *)
Definition le_wb (w w' : wstate) : Prop :=
  le_otime (w_start w) (w_start w') /\ le_oresult (w_setup w) (w_setup w') /\ le_oresult (w_teardown w) (w_teardown w')
  /\ lep le_ls (w_suites w) (w_suites w').

Definition le_w (w w' : wstate) : Prop :=
  le_wb w w' /\ (w_end w <> None ->
                 w_start w = w_start w' /\ w_end w = w_end w' /\ w_setup w = w_setup w' /\ w_teardown w = w_teardown w'
                 /\ w_suites w = w_suites w').

Lemma le_w_norm : forall w w', le_w w w' -> le_report (normalize w) (normalize w').
Proof.
  intros w w' [(S & SU & TD & U) F]. unfold le_report, normalize. cbn.
  repeat split; auto.
  - apply emb_map.
    eapply emb_mono; [|apply (sort_emb _ fst (fun p q : Z * suite_result => fst p = fst q /\ le_suite (snd p) (snd q)))].
    + intros x y _ [_ Hl]. exact Hl.
    + intros a a' [Hk _]. exact Hk.
    + eapply lep_map_in; [|eassumption]. intros x Hx y Hxy. simpl. split.
      * apply le_ls_rank. assumption.
      * apply le_ls_norm. assumption.
  - intros He. destruct (F He) as (E1 & E2 & E3 & E4 & E5). unfold set_saving. cbn. rewrite E1, E2, E3, E4, E5. reflexivity.
Qed.

(* ====================================================================================================================== *)
(* 3. every event handled by the writer only extends the live report                                                       *)
(* ====================================================================================================================== *)
Lemma put_ok : forall A B X (g : A -> B) (x : res (A * X)) b o, put g x = Ok (b, o) -> exists a, x = Ok (a, o) /\ b = g a.
Proof. intros A B X g [[a o']|e] b o H; simpl in H; inversion H; subst. eauto. Qed.

Lemma drop_ok : forall A (x : res (A * unit)) a, drop x = Ok a -> x = Ok (a, tt).
Proof. intros A [[a' []]|e] a H; simpl in H; inversion H; subst. reflexivity. Qed.

Lemma pure_ok : forall A (x : res A) a u, pure x = Ok (a, u) -> x = Ok a.
Proof. intros A [a'|e] a u H; simpl in H; inversion H; subst. reflexivity. Qed.

Lemma bind_ok_inv : forall A B (x : res A) (f : A -> res B) b, bind x f = Ok b -> exists a, x = Ok a /\ f a = Ok b.
Proof. intros A B [a|e] f b H; simpl in H; try discriminate. eauto. Qed.

Lemma is_none_true : forall A (o : option A), Saving.is_none o = true -> o = None.
Proof. destruct o; simpl; intros; [discriminate | reflexivity]. Qed.

Lemma lep_replace : forall A (R : A -> A -> Prop) pre s s' post,
  (forall x, R x x) -> R s s' -> lep R (pre ++ s :: post) (pre ++ s' :: post).
Proof.
  induction pre; simpl; intros; constructor; auto. apply lep_refl_in. auto.
Qed.

Lemma upd_first_spec : forall X n (g : lsuite -> res (lsuite * X)) l l' x,
  upd_first n g l = Ok (l', x) ->
  exists pre s post s', l = pre ++ s :: post /\ find_first n l = Some s /\ g s = Ok (s', x) /\ l' = pre ++ s' :: post.
Proof.
  intros X n g. induction l as [|s r IH]; simpl; intros l' x H; try discriminate.
  destruct (str_eqb (ls_name s) n).
  - apply put_ok in H. destruct H as (s' & Hg & El). exists [], s, r, s'. auto.
  - apply put_ok in H. destruct H as (r' & Hr & El). destruct (IH _ _ Hr) as (pre & s0 & post & s' & E1 & E2 & E3 & E4).
    subst. exists (s :: pre), s0, post, s'. auto.
Qed.

(* a suite whose end time is not set, changed in some of its fields *)
Lemma le_ls_open : forall m rk st su su' td td' ts ts' us us' e',
  le_oresult su su' -> le_oresult td td' -> lep le_rt ts ts' -> lep le_ls us us' ->
  le_ls (LSuite m rk st None su td ts us) (LSuite m rk st e' su' td' ts' us').
Proof. intros. constructor; auto. congruence. Qed.

Lemma lep_le_rt_refl : forall l, lep le_rt l l.
Proof. intros. apply lep_refl_in. intros. apply le_rt_refl. Qed.
Lemma lep_le_ls_refl : forall l, lep le_ls l l.
Proof. intros. apply lep_refl_in. intros. apply le_ls_refl. Qed.
Lemma lep_le_step_refl : forall l, lep le_step l l.
Proof. intros. apply lep_refl_in. intros. apply le_step_refl. Qed.

Global Hint Resolve le_oresult_refl lep_le_rt_refl lep_le_ls_refl lep_le_step_refl le_ls_refl le_result_refl : le.

Lemma upd_suite_le : forall X (f : lsuite -> res (lsuite * X)) p l l' x,
  upd_suite p f l = Ok (l', x) -> path_open p l = true ->
  (forall s s', get_suite p l = Some s -> f s = Ok (s', x) -> ls_end s = None -> le_ls s s') ->
  lep le_ls l l'.
Proof.
  intros X f. induction p as [|n rest IH]; intros l l' x H Hp Hf; [discriminate|].
  destruct rest as [|n2 rest'].
  - cbn [upd_suite] in H. destruct (upd_first_spec _ _ _ _ _ _ H) as (pre & s & post & s' & E1 & E2 & E3 & E4). subst l l'.
    cbn [path_open get_suite] in Hp, Hf. rewrite E2 in Hp, Hf. apply andb_true_iff in Hp. destruct Hp as [Hp _].
    apply lep_replace; auto with le. apply Hf; auto. apply is_none_true. assumption.
  - cbn [upd_suite] in H. destruct (upd_first_spec _ _ _ _ _ _ H) as (pre & s & post & s' & E1 & E2 & E3 & E4). subst l l'.
    change (path_open (n :: n2 :: rest') (pre ++ s :: post))
      with (match find_first n (pre ++ s :: post) with
            | None => true
            | Some s => Saving.is_none (ls_end s) && path_open (n2 :: rest') (ls_subs s) end) in Hp.
    change (get_suite (n :: n2 :: rest') (pre ++ s :: post))
      with (match find_first n (pre ++ s :: post) with
            | None => None
            | Some s => get_suite (n2 :: rest') (ls_subs s) end) in Hf.
    rewrite E2 in Hp, Hf. apply andb_true_iff in Hp. destruct Hp as [Hp1 Hp2]. apply is_none_true in Hp1.
    apply put_ok in E3. destruct E3 as (u' & Hu & Es). subst s'.
    apply lep_replace; auto with le.
    specialize (IH _ _ _ Hu Hp2 Hf).
    destruct s as [m rk st e su td ts us]. simpl in *. subst e. apply le_ls_open; auto with le.
Qed.

Lemma on_suite_le : forall p (f : lsuite -> res lsuite) w w',
  on_suite p f w = Ok w' -> path_open p (w_suites w) = true ->
  (forall s s', get_suite p (w_suites w) = Some s -> f s = Ok s' -> ls_end s = None -> le_ls s s') ->
  exists l', w' = set_w_suites w l' /\ lep le_ls (w_suites w) l'.
Proof.
  intros p f w w' H Hp Hf. unfold on_suite in H. apply drop_ok in H. apply put_ok in H. destruct H as (l' & Hu & E).
  exists l'. split; auto. eapply upd_suite_le; eauto. intros s s' Hg Hs He. apply pure_ok in Hs. eauto.
Qed.

Ltac wb_split := unfold le_wb; simpl; split; [|split; [|split]]; auto using le_otime_refl with le.

Lemma le_wb_suites : forall w l', lep le_ls (w_suites w) l' -> le_wb w (set_w_suites w l').
Proof. intros. wb_split. Qed.

Lemma upd_test_spec : forall X n (f : result -> res (result * X)) l l' x,
  upd_test n f l = Ok (l', x) ->
  exists pre rt post r', l = pre ++ rt :: post /\ get_test n l = Some (t_result (snd rt)) /\ f (t_result (snd rt)) = Ok (r', x)
                         /\ l' = pre ++ (fst rt, mkTest (t_meta (snd rt)) r') :: post.
Proof.
  intros X n f. induction l as [|rt r IH]; simpl; intros l' x H; try discriminate.
  destruct (str_eqb (m_name (t_meta (snd rt))) n).
  - apply put_ok in H. destruct H as (r' & Hg & El). exists [], rt, r, r'. auto.
  - apply put_ok in H. destruct H as (r' & Hr & El). destruct (IH _ _ Hr) as (pre & rt0 & post & r0 & E1 & E2 & E3 & E4).
    subst. exists (rt :: pre), rt0, post, r0. auto.
Qed.

Lemma upd_opt_result_ok : forall X ne (f : result -> res (result * X)) o o' x,
  upd_opt_result ne f o = Ok (o', x) -> exists r r', o = Some r /\ f r = Ok (r', x) /\ o' = Some r'.
Proof.
  intros X ne f [r|] o' x H; simpl in H; try discriminate. apply put_ok in H. destruct H as (r' & Hf & E). eauto.
Qed.

(* Report.get(location) then an update of the Result found *)
Lemma upd_result_le : forall X ne loc (f : result -> res (result * X)) w w' x,
  upd_result ne loc f w = Ok (w', x) -> path_open (loc_path loc) (w_suites w) = true ->
  (forall r r', get_result loc w = Some r -> f r = Ok (r', x) -> le_result r r') ->
  le_wb w w' /\ w_end w' = w_end w /\ w_active w' = w_active w.
Proof.
  intros X ne loc f w w' x H Hp Hf. destruct loc as [| |p|p|p]; cbn [upd_result loc_path get_result] in *.
  - apply put_ok in H. destruct H as (o' & Ho & E). subst w'. apply upd_opt_result_ok in Ho. destruct Ho as (r & r' & E1 & E2 & E3).
    subst o'. assert (L : le_result r r') by (apply Hf; auto). split; [|split; reflexivity]. wb_split. rewrite E1. exact L.
  - apply put_ok in H. destruct H as (o' & Ho & E). subst w'. apply upd_opt_result_ok in Ho. destruct Ho as (r & r' & E1 & E2 & E3).
    subst o'. assert (L : le_result r r') by (apply Hf; auto). split; [|split; reflexivity]. wb_split. rewrite E1. exact L.
  - apply put_ok in H. destruct H as (l' & Hu & E). subst w'. split; [|split; reflexivity]. apply le_wb_suites.
    eapply upd_suite_le; eauto. intros s s' Hg Hs He. rewrite Hg in Hf. apply put_ok in Hs. destruct Hs as (o' & Ho & E). subst s'.
    apply upd_opt_result_ok in Ho. destruct Ho as (r & r' & E1 & E2 & E3). subst o'.
    destruct s as [m rk st e su td ts us]. simpl in *. subst e su. apply le_ls_open; simpl; auto with le.
  - apply put_ok in H. destruct H as (l' & Hu & E). subst w'. split; [|split; reflexivity]. apply le_wb_suites.
    eapply upd_suite_le; eauto. intros s s' Hg Hs He. rewrite Hg in Hf. apply put_ok in Hs. destruct Hs as (o' & Ho & E). subst s'.
    apply upd_opt_result_ok in Ho. destruct Ho as (r & r' & E1 & E2 & E3). subst o'.
    destruct s as [m rk st e su td ts us]. simpl in *. subst e td. apply le_ls_open; simpl; auto with le.
  - destruct (split_last p) as [[q n]|] eqn:Esl; try discriminate.
    apply put_ok in H. destruct H as (l' & Hu & E). subst w'. split; [|split; reflexivity]. apply le_wb_suites.
    eapply upd_suite_le; eauto. intros s s' Hg Hs He. rewrite Hg in Hf. apply put_ok in Hs. destruct Hs as (ts' & Ht & E). subst s'.
    destruct (upd_test_spec _ _ _ _ _ _ Ht) as (pre & rt & post & r' & E1 & E2 & E3 & E4).
    destruct s as [m rk st e su td ts us]. simpl in *. subst e ts ts'. apply le_ls_open; auto with le.
    apply lep_replace; auto using le_rt_refl. split; simpl; auto. split; simpl; auto.
Qed.

Lemma le_result_finalize : forall t r, r_end r = None -> le_result r (finalize_result t r).
Proof. intros. unfold le_result. simpl. repeat split; auto with le. congruence. Qed.

Lemma le_result_add_step : forall r st, r_end r = None -> le_result r (set_steps r (r_steps r ++ [st])).
Proof. intros. unfold le_result. simpl. repeat split; auto. - apply lep_app_r. intros. apply le_step_refl. - congruence. Qed.

Lemma upd_nth_lep : forall A (R : A -> A -> Prop) (f : A -> res A) i l l',
  upd_nth i f l = Ok l' -> (forall x, R x x) ->
  (forall x x', nth_error l i = Some x -> f x = Ok x' -> R x x') -> lep R l l'.
Proof.
  intros A R f. induction i as [|j IH]; intros [|x r] l' H Hr Hf; simpl in H; try discriminate.
  - apply bind_ok_inv in H. destruct H as (x' & Hx & E). inversion E; subst. constructor.
    + apply Hf; auto.
    + apply lep_refl_in. auto.
  - apply bind_ok_inv in H. destruct H as (r' & Hx & E). inversion E; subst. constructor; auto.
Qed.

Lemma result_open_inv : forall loc w, result_open loc w = true ->
  path_open (loc_path loc) (w_suites w) = true /\ (forall r, get_result loc w = Some r -> r_end r = None).
Proof.
  intros loc w H. unfold result_open in H. apply andb_true_iff in H. destruct H as [H1 H2]. split; auto.
  intros r Hr. rewrite Hr in H2. apply is_none_true. assumption.
Qed.

(* acting on the Step object of a thread: the step is open, so is its result *)
Lemma upd_step_le : forall ref (f : step -> res step) w w',
  upd_step ref f w = Ok w' -> step_open ref w = true ->
  (forall st st', f st = Ok st' -> st_end st = None -> le_step st st') ->
  le_wb w w' /\ w_end w' = w_end w /\ w_active w' = w_active w.
Proof.
  intros ref f w w' H Ho Hf. unfold step_open in Ho. apply andb_true_iff in Ho. destruct Ho as [Ho1 Ho2].
  destruct (result_open_inv _ _ Ho1) as [Hp Hr].
  unfold upd_step in H. apply drop_ok in H. eapply upd_result_le; eauto.
  intros r r' Hg Hpure. apply pure_ok in Hpure. apply bind_ok_inv in Hpure. destruct Hpure as (l' & Hu & E). inversion E; subst.
  rewrite Hg in Ho2. unfold le_result. simpl. repeat split; auto.
  - eapply upd_nth_lep; eauto using le_step_refl. intros st st' Hn Hst. apply Hf; auto.
    rewrite Hn in Ho2. apply is_none_true. assumption.
  - intros He. rewrite (Hr _ Hg) in He. congruence.
Qed.

Lemma add_step_log_le : forall loc thread log w w',
  add_step_log loc thread log w = Ok w' -> active_open thread w = true ->
  le_wb w w' /\ w_end w' = w_end w.
Proof.
  intros loc thread log w w' H Ho. unfold add_step_log in H. apply bind_ok_inv in H. destruct H as (_ & _ & H).
  unfold active_open in Ho. destruct (lookup_active thread (w_active w)) as [ref|]; try discriminate.
  destruct (upd_step_le _ _ _ _ H Ho) as (L & E & _); auto.
  intros st st' Hst He. destruct (truthy_time (st_end st)); inversion Hst; subst.
  unfold le_step. simpl. repeat split; auto using list_prefix_app. congruence.
Qed.

Lemma le_wb_open : forall w w', le_wb w w' -> w_end w = None -> le_w w w'.
Proof. intros. split; auto. congruence. Qed.

Lemma set_fresh_ok : forall o t o', set_fresh o t = Ok o' -> o = None.
Proof. intros [r|] t o' H; simpl in H; [discriminate | reflexivity]. Qed.

Lemma finalize_opt_ok : forall t o o', finalize_opt t o = Ok o' -> exists r, o = Some r /\ o' = Some (finalize_result t r).
Proof. intros t [r|] o' H; simpl in H; inversion H; eauto. Qed.

Lemma add_suite_ok : forall new l l', add_suite new l = Ok l' -> l' = l ++ [new].
Proof. intros new l l' H. unfold add_suite in H. destruct (name_taken (ls_name new) l); inversion H; reflexivity. Qed.

Lemma add_test_le : forall nd r s s', add_test nd r s = Ok s' -> ls_end s = None -> le_ls s s'.
Proof.
  intros nd r s s' H He. unfold add_test in H. destruct (test_taken _ _); inversion H; subst.
  destruct s as [m rk st e su td ts us]. simpl in *. subst e. apply le_ls_open; auto with le.
  apply lep_app_r. intros. apply le_rt_refl.
Qed.

Ltac on_suite_case H Hadm :=
  let l' := fresh "l'" in let E := fresh "E" in let L := fresh "L" in
  eapply on_suite_le in H; [destruct H as (l' & E & L); subst; apply le_wb_open; [apply le_wb_suites; exact L | assumption]
                           | exact Hadm | ].

Theorem apply_monotone_live : forall w e w', apply w e = Ok w' -> admissible w e = true -> le_w w w'.
Proof.
  intros w e w' H Hadm. unfold admissible in Hadm. apply andb_true_iff in Hadm. destruct Hadm as [Hend Hadm].
  apply is_none_true in Hend.
  destruct e; cbn [apply] in H.
  - (* SessionStart *) inversion H; subst. apply le_wb_open; auto. apply is_none_true in Hadm.
    wb_split. left. assumption.
  - (* SessionEnd *) inversion H; subst. apply le_wb_open; auto. wb_split.
  - (* SessionSetupStart *) apply bind_ok_inv in H. destruct H as (o & Ho & E). inversion E; subst. apply set_fresh_ok in Ho.
    apply le_wb_open; auto. wb_split. rewrite Ho. exact I.
  - (* SessionSetupEnd *) apply bind_ok_inv in H. destruct H as (o & Ho & E). inversion E; subst.
    apply finalize_opt_ok in Ho. destruct Ho as (r & E1 & E2). subst o.
    destruct (result_open_inv _ _ Hadm) as [_ Hr]. simpl in Hr.
    apply le_wb_open; auto. wb_split. rewrite E1. apply le_result_finalize. auto.
  - (* SessionTeardownStart *) apply bind_ok_inv in H. destruct H as (o & Ho & E). inversion E; subst. apply set_fresh_ok in Ho.
    apply le_wb_open; auto. wb_split. rewrite Ho. exact I.
  - (* SessionTeardownEnd *) apply bind_ok_inv in H. destruct H as (o & Ho & E). inversion E; subst.
    apply finalize_opt_ok in Ho. destruct Ho as (r & E1 & E2). subst o.
    destruct (result_open_inv _ _ Hadm) as [_ Hr]. simpl in Hr.
    apply le_wb_open; auto. wb_split. rewrite E1. apply le_result_finalize. auto.
  - (* SuiteStart *) destruct (n_parent suite) as [|n0 rest] eqn:Ep.
    + apply bind_ok_inv in H. destruct H as (l & Hl & E). inversion E; subst. apply add_suite_ok in Hl. subst l.
      apply le_wb_open; auto. apply le_wb_suites. apply lep_app_r. intros. apply le_ls_refl.
    + on_suite_case H Hadm. intros s s' Hg Hs He. apply bind_ok_inv in Hs. destruct Hs as (u & Hu & E). inversion E; subst.
      apply add_suite_ok in Hu. subst u. destruct s as [m rk st e su td ts us]. simpl in *. subst e.
      apply le_ls_open; auto with le. apply lep_app_r. intros. apply le_ls_refl.
  - (* SuiteEnd *) on_suite_case H Hadm. intros s s' Hg Hs He. inversion Hs; subst.
    destruct s as [m rk st e su td ts us]. simpl in *. subst e. apply le_ls_open; auto with le.
  - (* SuiteSetupStart *) on_suite_case H Hadm. intros s s' Hg Hs He. apply bind_ok_inv in Hs. destruct Hs as (o & Ho & E).
    inversion E; subst. apply set_fresh_ok in Ho.
    destruct s as [m rk st e su td ts us]. simpl in *. subst e su. apply le_ls_open; simpl; auto with le.
  - (* SuiteSetupEnd *) destruct (result_open_inv _ _ Hadm) as [Hp Hr]. cbn [loc_path get_result] in Hp, Hr.
    on_suite_case H Hp. intros s s' Hg Hs He. apply bind_ok_inv in Hs. destruct Hs as (o & Ho & E). inversion E; subst.
    apply finalize_opt_ok in Ho. destruct Ho as (r & E1 & E2). subst o. rewrite Hg in Hr.
    destruct s as [m rk st e su td ts us]. simpl in *. subst e su. apply le_ls_open; simpl; auto with le.
    apply le_result_finalize. auto.
  - (* SuiteTeardownStart *) on_suite_case H Hadm. intros s s' Hg Hs He. apply bind_ok_inv in Hs. destruct Hs as (o & Ho & E).
    inversion E; subst. apply set_fresh_ok in Ho.
    destruct s as [m rk st e su td ts us]. simpl in *. subst e td. apply le_ls_open; simpl; auto with le.
  - (* SuiteTeardownEnd *) destruct (result_open_inv _ _ Hadm) as [Hp Hr]. cbn [loc_path get_result] in Hp, Hr.
    on_suite_case H Hp. intros s s' Hg Hs He. apply bind_ok_inv in Hs. destruct Hs as (o & Ho & E). inversion E; subst.
    apply finalize_opt_ok in Ho. destruct Ho as (r & E1 & E2). subst o. rewrite Hg in Hr.
    destruct s as [m rk st e su td ts us]. simpl in *. subst e td. apply le_ls_open; simpl; auto with le.
    apply le_result_finalize. auto.
  - (* TestStart *) on_suite_case H Hadm. intros. eapply add_test_le; eauto.
  - (* TestEnd *) destruct (result_open_inv _ _ Hadm) as [Hp Hr]. apply drop_ok in H.
    eapply upd_result_le in H; eauto.
    + destruct H as (L & E & _). apply le_wb_open; auto.
    + intros r r' Hg Hf. inversion Hf; subst. apply le_result_finalize. auto.
  - (* TestSkipped *) on_suite_case H Hadm. intros. eapply add_test_le; eauto.
  - (* TestDisabled *) on_suite_case H Hadm. intros. eapply add_test_le; eauto.
  - (* StepStart *) destruct (result_open_inv _ _ Hadm) as [Hp Hr]. apply bind_ok_inv in H. destruct H as ([w1 i] & Hu & E).
    inversion E; subst. eapply upd_result_le in Hu; eauto.
    + destruct Hu as ((S1 & S2 & S3 & S4) & E1 & _). apply le_wb_open; auto. unfold le_wb. simpl. auto.
    + intros r r' Hg Hf. inversion Hf; subst. apply le_result_add_step. auto.
  - (* StepEnd *) unfold active_open in Hadm. destruct (lookup_active thread (w_active w)) as [ref|]; try discriminate.
    destruct (upd_step_le _ _ _ _ H Hadm) as (L & E & _); [|apply le_wb_open; auto].
    intros st st' Hst He. inversion Hst; subst. unfold le_step. simpl. repeat split; auto using list_prefix_refl. congruence.
  - (* Log *) cbn [event_steplog] in H. destruct (add_step_log_le _ _ _ _ _ H Hadm) as [L _]. apply le_wb_open; auto.
  - (* Check *) cbn [event_steplog] in H. destruct (add_step_log_le _ _ _ _ _ H Hadm) as [L _]. apply le_wb_open; auto.
  - (* LogAttachment *) cbn [event_steplog] in H. destruct (add_step_log_le _ _ _ _ _ H Hadm) as [L _]. apply le_wb_open; auto.
  - (* LogUrl *) cbn [event_steplog] in H. destruct (add_step_log_le _ _ _ _ _ H Hadm) as [L _]. apply le_wb_open; auto.
Qed.

(* on normal forms: what is written to the file *)
Theorem apply_monotone : forall w e w', apply w e = Ok w' -> admissible w e = true -> le_report (normalize w) (normalize w').
Proof. intros. apply le_w_norm. eapply apply_monotone_live; eauto. Qed.

Theorem prefix_of_later : forall l w w', apply_all w l = Ok w' -> all_admissible w l = true ->
  le_report (normalize w) (normalize w').
Proof.
  induction l as [|e r IH]; simpl; intros w w' H Ha.
  - inversion H; subst. apply le_report_refl.
  - apply bind_ok_inv in H. destruct H as (w1 & H1 & H2). rewrite H1 in Ha. apply andb_true_iff in Ha. destruct Ha as [Ha1 Ha2].
    eapply le_report_trans; [eapply apply_monotone; eauto | eauto].
Qed.

Lemma apply_all_app_ok : forall l1 l2 w w1 w2, apply_all w l1 = Ok w1 -> apply_all w1 l2 = Ok w2 -> apply_all w (l1 ++ l2) = Ok w2.
Proof.
  induction l1; simpl; intros.
  - inversion H; subst. assumption.
  - apply bind_ok_inv in H. destruct H as (w' & H1 & H2). rewrite H1. simpl. eauto.
Qed.

Lemma all_admissible_app : forall l1 l2 w w1, apply_all w l1 = Ok w1 -> all_admissible w (l1 ++ l2) = true ->
  all_admissible w1 l2 = true.
Proof.
  induction l1; simpl; intros l2 w w1 H Ha.
  - inversion H; subst. assumption.
  - apply bind_ok_inv in H. destruct H as (w' & H1 & H2). rewrite H1 in Ha. apply andb_true_iff in Ha. destruct Ha. eauto.
Qed.

(* every snapshot of a run is a prefix of the final report *)
Theorem every_snapshot_prefix_of_final : forall evs k wk wfinal,
  apply_all init_wstate evs = Ok wfinal -> all_admissible init_wstate evs = true ->
  apply_all init_wstate (firstn k evs) = Ok wk ->
  le_report (normalize wk) (normalize wfinal).
Proof.
  intros evs k wk wf Hf Ha Hk. rewrite <- (firstn_skipn k evs) in Hf, Ha.
  eapply prefix_of_later.
  - rewrite (WriterP.apply_all_app (firstn k evs) (skipn k evs)) in Hf. rewrite Hk in Hf. simpl in Hf. exact Hf.
  - eapply all_admissible_app; eauto.
Qed.

(* the hypothesis `admissible` cannot be dropped: a second TestEnd for a finished test changes a finished item *)
Definition mono_meta (n : N) : meta := mkMeta [n] [] [] [] [].
Definition mono_suite : node := mkNode [] (mono_meta 115) 0.
Definition mono_test : node := mkNode [[115%N]] (mono_meta 116) 0.
Definition mono_events : list event :=
  [ESessionStart 1; ESuiteStart mono_suite 2; ETestStart mono_test 3; ETestEnd mono_test 4].

Lemma emb_single_inv : forall A (R : A -> A -> Prop) a b, emb R [a] [b] -> R a b.
Proof. intros A R a b H. inversion H as [ | ? ? ? ? HR HE | ? ? ? HE]; subst; auto. inversion HE. Qed.

Theorem monotone_needs_admissible :
  exists w e w', apply_all init_wstate mono_events = Ok w /\ apply w e = Ok w' /\ admissible w e = false
                 /\ ~ le_report (normalize w) (normalize w').
Proof.
  destruct (apply_all init_wstate mono_events) as [w|] eqn:Ew; [|vm_compute in Ew; discriminate].
  destruct (apply w (ETestEnd mono_test 5)) as [w'|] eqn:Ew'; [|vm_compute in Ew; inversion Ew; subst; vm_compute in Ew'; discriminate].
  exists w, (ETestEnd mono_test 5), w'. vm_compute in Ew. inversion Ew; subst. vm_compute in Ew'. inversion Ew'; subst.
  repeat split; auto.
  intros (_ & _ & _ & _ & _ & _ & U & _). vm_compute in U. apply emb_single_inv in U. inversion U; subst.
  match goal with H : emb le_test _ _ |- _ => apply emb_single_inv in H; destruct H as [_ (_ & _ & F)] end.
  simpl in F. assert (E : Some 4%Z <> None) by discriminate. specialize (F E). discriminate.
Qed.

(* ====================================================================================================================== *)
(* 4. the file session: whole-event snapshots, saved at the promised points                                                 *)
(* ====================================================================================================================== *)
Section Session.
  Variable T : tables.

  Lemma handle_event_eq : forall s e c,
    handle_event T s (e, c) =
    bind (apply (ss_writer s) e)
         (fun w' => Ok (mkSS w' (file_on_event T (ss_file s) e w' (S (ss_count s)) c) (S (ss_count s)))).
  Proof.
    intros. unfold handle_event, handle_event_with, session_listeners. simpl.
    destruct (apply (ss_writer s) e); reflexivity.
  Qed.

  Definition last_saved (f : fsess) : option report :=
    match rev (fs_saves f) with (_, r) :: _ => Some r | [] => None end.

  (* what a run has done so far: `h` is the list of events handled *)
  Definition sinv (h : list event) (s : sstate) : Prop :=
    apply_all init_wstate h = Ok (ss_writer s) /\ ss_count s = length h
    /\ (forall k r, In (k, r) (fs_saves (ss_file s)) ->
          1 <= k <= length h /\ exists wk, apply_all init_wstate (firstn k h) = Ok wk /\ r = normalize wk)
    /\ file_snapshot s = last_saved (ss_file s).

  Lemma sinv_init : forall st t0, sinv [] (init_sstate st t0).
  Proof. intros. unfold sinv. simpl. split; [reflexivity|split; [reflexivity|split; [intros k r []|reflexivity]]]. Qed.

  Lemma last_saved_app : forall f x, match rev (fs_saves f ++ [x]) with (_, r) :: _ => Some r | [] => None end = Some (snd x).
  Proof. intros. rewrite rev_unit. destruct x. reflexivity. Qed.

  Lemma file_on_event_cases : forall f e w n c,
    let f' := file_on_event T f e w n c in
    (f' = f) \/ (f' = save_now f w n (c_saved c)).
  Proof. intros. unfold f', file_on_event. destruct (ekind_eqb _ _); auto. destruct (kind_in _ _); auto. destruct (must_save _ _ _ _ _); auto. Qed.

  Lemma sinv_step : forall h s e c s', sinv h s -> handle_event T s (e, c) = Ok s' -> sinv (h ++ [e]) s'.
  Proof.
    intros h s e c s' (Hw & Hc & Hs & Hf) H. rewrite handle_event_eq in H. apply bind_ok_inv in H. destruct H as (w' & Hw' & E).
    inversion E; subst s'; clear E. unfold sinv. cbn [ss_writer ss_count ss_file].
    assert (Hall : apply_all init_wstate (h ++ [e]) = Ok w').
    { eapply apply_all_app_ok; eauto. simpl. rewrite Hw'. reflexivity. }
    split; [exact Hall|]. split; [rewrite app_length; simpl; lia|].
    assert (Hold : forall k r, In (k, r) (fs_saves (ss_file s)) ->
               1 <= k <= length (h ++ [e]) /\ exists wk, apply_all init_wstate (firstn k (h ++ [e])) = Ok wk /\ r = normalize wk).
    { intros k r Hin. destruct (Hs _ _ Hin) as ([L1 L2] & wk & Hk & Er). split; [rewrite app_length; simpl; lia|].
      exists wk. split; auto. rewrite firstn_app. replace (k - length h) with 0 by lia. simpl. rewrite app_nil_r. assumption. }
    destruct (file_on_event_cases (ss_file s) e w' (S (ss_count s)) c) as [E|E]; cbv zeta in E; rewrite E.
    - split; auto.
    - split.
      + intros k r Hin. unfold save_now in Hin. cbn [fs_saves] in Hin. apply in_app_or in Hin. destruct Hin as [Hin|[Hin|[]]]; auto.
        inversion Hin; subst k r. rewrite Hc. split; [rewrite app_length; simpl; lia|].
        exists w'. split; auto. rewrite firstn_all2; auto. rewrite app_length. simpl. lia.
      + unfold file_snapshot, last_saved, save_now. cbn [fs_file fs_saves ss_file]. rewrite rev_unit. reflexivity.
  Qed.

  Lemma run_sinv : forall l h s s', sinv h s -> run T s l = Ok s' -> sinv (h ++ map fst l) s'.
  Proof.
    induction l as [|[e c] r IH]; simpl; intros h s s' Hi H.
    - inversion H; subst. rewrite app_nil_r. assumption.
    - unfold run in *. simpl in H. apply bind_ok_inv in H. destruct H as (s1 & H1 & H2).
      replace (h ++ e :: map fst r) with ((h ++ [e]) ++ map fst r) by (rewrite <- app_assoc; reflexivity).
      eapply IH; eauto. eapply sinv_step; eauto.
  Qed.

  (* C10_snapshot_consistent *)
  Theorem snapshot_consistent : forall st t0 l s, run T (init_sstate st t0) l = Ok s ->
    (forall k r, In (k, r) (fs_saves (ss_file s)) ->
       1 <= k <= length l /\ exists wk, apply_all init_wstate (firstn k (map fst l)) = Ok wk /\ r = normalize wk)
    /\ file_snapshot s = last_saved (ss_file s)
    /\ apply_all init_wstate (map fst l) = Ok (ss_writer s).
  Proof.
    intros st t0 l s H. destruct (run_sinv l [] _ _ (sinv_init st t0) H) as (Hw & Hc & Hs & Hf). simpl in *.
    repeat split; auto.
    - destruct (Hs _ _ H0) as [[L _] _]. exact L.
    - destruct (Hs _ _ H0) as [[_ L] _]. rewrite map_length in L. exact L.
    - destruct (Hs _ _ H0) as [_ E]. exact E.
  Qed.

  (* one event: when the file is refreshed, and with what *)
  Definition triggers (f : fsess) (e : event) (w' : wstate) (c : clock) : bool :=
    ekind_eqb (kind_of e) KSessionEnd || (kind_in (kind_of e) (t_handle_kinds T) && must_save T f e w' c).

  Lemma refreshed_iff : forall s e c s', handle_event T s (e, c) = Ok s' ->
    apply (ss_writer s) e = Ok (ss_writer s') /\
    (triggers (ss_file s) e (ss_writer s') c = true ->
       file_snapshot s' = Some (normalize (ss_writer s')) /\ fs_last (ss_file s') = c_saved c) /\
    (triggers (ss_file s) e (ss_writer s') c = false -> ss_file s' = ss_file s).
  Proof.
    intros s e c s' H. rewrite handle_event_eq in H. apply bind_ok_inv in H. destruct H as (w' & Hw' & E).
    inversion E; subst s'; clear E. cbn [ss_writer ss_file]. split; auto.
    unfold triggers, file_on_event, file_snapshot. cbn [ss_file].
    destruct (ekind_eqb (kind_of e) KSessionEnd); simpl.
    - split; auto. discriminate.
    - destruct (kind_in (kind_of e) (t_handle_kinds T)); simpl.
      + destruct (must_save T (ss_file s) e w' c); simpl; split; auto; discriminate.
      + split; auto. discriminate.
  Qed.

  Lemma strategy_preserved : forall s e c s', handle_event T s (e, c) = Ok s' -> fs_strategy (ss_file s') = fs_strategy (ss_file s).
  Proof.
    intros s e c s' H. rewrite handle_event_eq in H. apply bind_ok_inv in H. destruct H as (w' & Hw' & E).
    inversion E; subst s'; clear E. cbn [ss_file].
    destruct (file_on_event_cases (ss_file s) e w' (S (ss_count s)) c) as [E|E]; cbv zeta in E; rewrite E; reflexivity.
  Qed.

  (* listener order matters: with the file session first the snapshot misses the event that triggered it *)
  Lemma wrong_order_eq : forall s e c,
    handle_event_with T [LFile; LWriter] s (e, c) =
    bind (apply (ss_writer s) e)
         (fun w' => Ok (mkSS w' (file_on_event T (ss_file s) e (ss_writer s) (S (ss_count s)) c) (S (ss_count s)))).
  Proof. intros. unfold handle_event_with. simpl. destruct (apply (ss_writer s) e); reflexivity. Qed.
End Session.

(* ---------------- the strategies of the source (generated table) ---------------- *)
Module TS := TablesSaving.

Definition is_result_end (e : event) : bool :=
  match e with
  | ETestEnd _ _ | ESuiteSetupEnd _ _ | ESuiteTeardownEnd _ _ | ESessionSetupEnd _ | ESessionTeardownEnd _ => true
  | _ => false
  end.
Definition is_log_like (e : event) : bool :=
  match e with ELog _ _ _ _ _ _ | ECheck _ _ _ _ _ _ _ | ELogAttachment _ _ _ _ _ _ _ | ELogUrl _ _ _ _ _ _ => true | _ => false end.
Definition is_suite_end (e : event) : bool := match e with ESuiteEnd _ _ => true | _ => false end.
Definition is_session_end (e : event) : bool := match e with ESessionEnd _ => true | _ => false end.
(* the location of the result an End event finishes *)
Definition result_end_loc (e : event) : option location :=
  match e with
  | ETestEnd n _ => Some (LocTest (node_path n))
  | ESuiteSetupEnd n _ => Some (LocSuiteSetup (node_path n))
  | ESuiteTeardownEnd n _ => Some (LocSuiteTeardown (node_path n))
  | ESessionSetupEnd _ => Some LocSessionSetup
  | ESessionTeardownEnd _ => Some LocSessionTeardown
  | _ => None
  end.
Definition status_failed (o : option result) : bool :=
  match o with Some r => match r_status r with Some st => str_eqb st s_failed | None => false end | None => false end.

Lemma end_of_result_T : forall e, end_of_result TS.T e = result_end_loc e.
Proof. destruct e; reflexivity. Qed.

(* the trigger of each strategy, event by event, for the table generated from the source *)
Lemma triggers_T : forall f e w' c,
  triggers TS.T f e w' c =
  is_session_end e ||
  match fs_strategy f with
  | None => false
  | Some (SFun FSuite) => is_suite_end e
  | Some (SFun FTest) => is_result_end e
  | Some (SFun FFailedTest) => match result_end_loc e with Some loc => status_failed (get_result loc w') | None => false end
  | Some (SFun FLog) => is_log_like e
  | Some (SInterval n) => (is_result_end e || is_suite_end e || is_log_like e) && Z.ltb (fs_last f + n * 1000) (c_call c)
  end.
Proof.
  intros f e w' c. unfold triggers, must_save. destruct (fs_strategy f) as [[[]|n]|]; cbn [strategy_fn];
    try rewrite end_of_result_T; destruct e; try reflexivity;
    cbn [kind_of is_session_end is_suite_end is_result_end is_log_like result_end_loc ekind_eqb kind_in existsb ekind_index Nat.eqb
         TS.T t_handle_kinds t_suite_kinds t_log_kinds orb andb];
    try reflexivity;
    try (match goal with |- context [get_result ?l ?w] => destruct (get_result l w) as [r|]; simpl; try reflexivity;
                                                          destruct (r_status r); reflexivity end).
Qed.

Theorem strategy_refresh : forall s e c s', handle_event TS.T s (e, c) = Ok s' ->
  let trig := triggers TS.T (ss_file s) e (ss_writer s') c in
  (trig = true -> file_snapshot s' = Some (normalize (ss_writer s')) /\ fs_last (ss_file s') = c_saved c)
  /\ (trig = false -> ss_file s' = ss_file s).
Proof. intros s e c s' H. destruct (refreshed_iff _ _ _ _ _ H) as (_ & A & B). split; assumption. Qed.


(* ---------------- after the writer has handled an End event, the result it finishes is in the report, finalized ---------------- *)
Lemma upd_first_names : forall X n (g : lsuite -> res (lsuite * X)) l l' x,
  upd_first n g l = Ok (l', x) ->
  exists pre s post s', l = pre ++ s :: post /\ g s = Ok (s', x) /\ l' = pre ++ s' :: post
                        /\ (forall y, In y pre -> str_eqb (ls_name y) n = false) /\ str_eqb (ls_name s) n = true.
Proof.
  intros X n g. induction l as [|s r IH]; simpl; intros l' x H; try discriminate.
  destruct (str_eqb (ls_name s) n) eqn:En.
  - apply put_ok in H. destruct H as (s' & Hg & El). exists [], s, r, s'. repeat split; auto. intros y [].
  - apply put_ok in H. destruct H as (r' & Hr & El). destruct (IH _ _ Hr) as (pre & s0 & post & s' & E1 & E2 & E3 & E4 & E5).
    subst. exists (s :: pre), s0, post, s'. repeat split; auto. intros y [Hy|Hy]; subst; auto.
Qed.

Lemma find_first_mid : forall n pre s post, (forall y, In y pre -> str_eqb (ls_name y) n = false) -> str_eqb (ls_name s) n = true ->
  find_first n (pre ++ s :: post) = Some s.
Proof.
  induction pre as [|y pre IH]; simpl; intros s post Hp Hs.
  - rewrite Hs. reflexivity.
  - rewrite (Hp y) by auto. apply IH; auto.
Qed.

Lemma upd_suite_get : forall X (f : lsuite -> res (lsuite * X)) p l l' x,
  upd_suite p f l = Ok (l', x) -> (forall s s', f s = Ok (s', x) -> ls_name s' = ls_name s) ->
  exists s s', get_suite p l = Some s /\ f s = Ok (s', x) /\ get_suite p l' = Some s'.
Proof.
  intros X f. induction p as [|n rest IH]; intros l l' x H Hn; [discriminate|].
  destruct rest as [|n2 rest'].
  - cbn [upd_suite] in H. destruct (upd_first_names _ _ _ _ _ _ H) as (pre & s & post & s' & E1 & E2 & E3 & E4 & E5). subst l l'.
    exists s, s'. cbn [get_suite]. rewrite !find_first_mid; auto. rewrite (Hn _ _ E2). assumption.
  - cbn [upd_suite] in H. destruct (upd_first_names _ _ _ _ _ _ H) as (pre & s & post & s' & E1 & E2 & E3 & E4 & E5). subst l l'.
    apply put_ok in E2. destruct E2 as (u' & Hu & Es). subst s'.
    destruct (IH _ _ _ Hu Hn) as (t & t' & G1 & G2 & G3). exists t, t'.
    change (get_suite (n :: n2 :: rest') (pre ++ s :: post))
      with (match find_first n (pre ++ s :: post) with None => None | Some s => get_suite (n2 :: rest') (ls_subs s) end).
    change (get_suite (n :: n2 :: rest') (pre ++ set_ls_subs s u' :: post))
      with (match find_first n (pre ++ set_ls_subs s u' :: post) with None => None | Some s => get_suite (n2 :: rest') (ls_subs s) end).
    rewrite !find_first_mid; auto.
    + rewrite WriterP.ls_subs_set_subs. auto.
    + rewrite WriterP.ls_name_set_subs. assumption.
Qed.

Lemma upd_test_get : forall X n (f : result -> res (result * X)) l l' x,
  upd_test n f l = Ok (l', x) -> exists r r', get_test n l = Some r /\ f r = Ok (r', x) /\ get_test n l' = Some r'.
Proof.
  intros X n f. induction l as [|rt r IH]; simpl; intros l' x H; try discriminate.
  destruct (str_eqb (m_name (t_meta (snd rt))) n) eqn:En.
  - apply put_ok in H. destruct H as (r' & Hg & El). subst l'. exists (t_result (snd rt)), r'. simpl. rewrite En. auto.
  - apply put_ok in H. destruct H as (r' & Hr & El). subst l'. destruct (IH _ _ Hr) as (a & b & G1 & G2 & G3).
    exists a, b. simpl. rewrite En. auto.
Qed.

Definition finalized (r : result) : Prop :=
  r_end r <> None /\ (r_status r = Some s_passed \/ r_status r = Some s_failed).

Lemma finalize_finalized : forall t r, finalized (finalize_result t r).
Proof. intros. split; simpl; [discriminate|]. destruct (result_successful r); auto. Qed.

Lemma on_suite_get : forall p (f : lsuite -> res lsuite) w w', on_suite p f w = Ok w' ->
  (forall s s', f s = Ok s' -> ls_name s' = ls_name s) ->
  exists s s', get_suite p (w_suites w) = Some s /\ f s = Ok s' /\ get_suite p (w_suites w') = Some s'.
Proof.
  intros p f w w' H Hn. unfold on_suite in H. apply drop_ok in H. apply put_ok in H. destruct H as (l' & Hu & E). subst w'.
  destruct (upd_suite_get _ _ _ _ _ _ Hu) as (s & s' & G1 & G2 & G3).
  - intros s s' Hs. apply pure_ok in Hs. auto.
  - exists s, s'. apply pure_ok in G2. auto.
Qed.

Theorem end_of_result_found : forall w e w' loc, apply w e = Ok w' -> result_end_loc e = Some loc ->
  exists r, get_result loc w' = Some r /\ finalized r.
Proof.
  intros w e w' loc H Hl. destruct e; simpl in Hl; inversion Hl; subst loc; clear Hl; cbn [apply] in H.
  - (* SessionSetupEnd *) apply bind_ok_inv in H. destruct H as (o & Ho & E). inversion E; subst.
    apply finalize_opt_ok in Ho. destruct Ho as (r & E1 & E2). subst o. eexists. split; [reflexivity|apply finalize_finalized].
  - apply bind_ok_inv in H. destruct H as (o & Ho & E). inversion E; subst.
    apply finalize_opt_ok in Ho. destruct Ho as (r & E1 & E2). subst o. eexists. split; [reflexivity|apply finalize_finalized].
  - (* SuiteSetupEnd *) destruct (on_suite_get _ _ _ _ H) as (s & s' & G1 & G2 & G3).
    + intros s s' Hs. apply bind_ok_inv in Hs. destruct Hs as (o & _ & E). inversion E. destruct s; reflexivity.
    + apply bind_ok_inv in G2. destruct G2 as (o & Ho & E). inversion E; subst s'.
      apply finalize_opt_ok in Ho. destruct Ho as (r & E1 & E2). subst o.
      cbn [get_result]. rewrite G3. destruct s; simpl. eexists. split; [reflexivity|apply finalize_finalized].
  - (* SuiteTeardownEnd *) destruct (on_suite_get _ _ _ _ H) as (s & s' & G1 & G2 & G3).
    + intros s s' Hs. apply bind_ok_inv in Hs. destruct Hs as (o & _ & E). inversion E. destruct s; reflexivity.
    + apply bind_ok_inv in G2. destruct G2 as (o & Ho & E). inversion E; subst s'.
      apply finalize_opt_ok in Ho. destruct Ho as (r & E1 & E2). subst o.
      cbn [get_result]. rewrite G3. destruct s; simpl. eexists. split; [reflexivity|apply finalize_finalized].
  - (* TestEnd *) apply drop_ok in H. cbn [upd_result] in H. cbn [get_result].
    destruct (split_last (node_path test)) as [[q n]|]; try discriminate.
    apply put_ok in H. destruct H as (l' & Hu & E). subst w'. cbn [w_suites set_w_suites].
    destruct (upd_suite_get _ _ _ _ _ _ Hu) as (s & s' & G1 & G2 & G3).
    + intros s s' Hs. apply put_ok in Hs. destruct Hs as (ts' & _ & E). subst s'. destruct s; reflexivity.
    + rewrite G3. apply put_ok in G2. destruct G2 as (ts' & Ht & E). subst s'.
      destruct (upd_test_get _ _ _ _ _ _ Ht) as (r & r' & T1 & T2 & T3). inversion T2; subst r'.
      destruct s; simpl in *. exists (finalize_result time r). split; [assumption|apply finalize_finalized].
Qed.

(* ====================================================================================================================== *)
(* 5. crashes: the atomic save sequence never exposes anything but a complete earlier snapshot                              *)
(* ====================================================================================================================== *)
Lemma lookup_remove_same : forall p f, lookup p (remove p f) = None.
Proof. induction f as [|[q c] r IH]; simpl; auto. destruct (Nat.eqb q p) eqn:E; simpl; auto. rewrite E. auto. Qed.

Lemma lookup_remove_other : forall p q f, p <> q -> lookup q (remove p f) = lookup q f.
Proof.
  induction f as [|[x c] r IH]; simpl; intros; auto. destruct (Nat.eqb x p) eqn:E.
  - apply Nat.eqb_eq in E. subst x. destruct (Nat.eqb p q) eqn:E2; auto. apply Nat.eqb_eq in E2. congruence.
  - simpl. destruct (Nat.eqb x q); auto.
Qed.

Lemma lookup_set_same : forall p c f, lookup p (set p c f) = Some c.
Proof. intros. unfold set. simpl. rewrite Nat.eqb_refl. reflexivity. Qed.

Lemma lookup_set_other : forall p q c f, p <> q -> lookup q (set p c f) = lookup q f.
Proof.
  intros. unfold set. simpl. destruct (Nat.eqb p q) eqn:E.
  - apply Nat.eqb_eq in E. congruence.
  - apply lookup_remove_other. assumption.
Qed.

Lemma exec_app : forall a b f, exec (a ++ b) f = exec b (exec a f).
Proof. intros. unfold exec. apply fold_left_app. Qed.

(* operations that only touch the path p *)
Definition only_on (p : fpath) (o : op) : Prop :=
  match o with
  | OpenTrunc q | Write q _ | Flush q | Fsync q | Close q | Unlink q => q = p
  | Rename _ _ => False
  end.

Lemma exec_only_on : forall p q ops f, p <> q -> Forall (only_on p) ops -> lookup q (exec ops f) = lookup q f.
Proof.
  intros p q ops. induction ops as [|o r IH]; intros f Hn Ha; simpl; auto.
  inversion Ha as [|? ? Ho Hr]; subst. unfold exec in *. cbn [fold_left]. rewrite IH; auto.
  destruct o; cbn [only_on exec_op] in *; subst; auto using lookup_set_other, lookup_remove_other.
  - destruct (lookup p f); auto using lookup_set_other.
  - contradiction.
Qed.

Lemma exec_writes : forall p chunks f c, lookup p f = Some c ->
  lookup p (exec (map (Write p) chunks) f) = Some (c ++ concat chunks).
Proof.
  intros p. induction chunks as [|d r IH]; intros f c H; simpl.
  - rewrite app_nil_r. assumption.
  - unfold exec in *. simpl. rewrite H. rewrite (IH _ (c ++ d)).
    + rewrite app_assoc. reflexivity.
    + apply lookup_set_same.
Qed.

Definition atomic_body (tmp : fpath) (chunks : list data) : list op :=
  OpenTrunc tmp :: map (Write tmp) chunks ++ [Flush tmp; Fsync tmp; Close tmp].

Lemma save_atomic_split : forall tmp final chunks, save_atomic tmp final chunks = atomic_body tmp chunks ++ [Rename tmp final].
Proof. intros. unfold save_atomic, atomic_body. simpl. rewrite <- app_assoc. reflexivity. Qed.

Lemma atomic_body_only : forall tmp chunks, Forall (only_on tmp) (atomic_body tmp chunks).
Proof.
  intros. unfold atomic_body. constructor; [reflexivity|]. apply Forall_app. split.
  - apply Forall_forall. intros o Ho. apply in_map_iff in Ho. destruct Ho as (d & E & _). subst. reflexivity.
  - repeat constructor.
Qed.

Lemma Forall_firstn : forall A (P : A -> Prop) k l, Forall P l -> Forall P (firstn k l).
Proof. induction k; intros [|x r] H; simpl; auto. inversion H; subst. constructor; auto. Qed.

(* a crash strictly inside a save leaves the report file untouched *)
Lemma crash_inside_atomic : forall tmp final chunks k f, tmp <> final -> k < length (save_atomic tmp final chunks) ->
  lookup final (exec (firstn k (save_atomic tmp final chunks)) f) = lookup final f.
Proof.
  intros tmp final chunks k f Hn Hk. rewrite save_atomic_split in *. rewrite app_length in Hk.
  change (length [Rename tmp final]) with 1 in Hk.
  rewrite firstn_app. replace (k - length (atomic_body tmp chunks)) with 0 by lia. cbn [firstn]. rewrite app_nil_r.
  apply (exec_only_on tmp); auto. apply Forall_firstn. apply atomic_body_only.
Qed.

(* a completed save leaves the complete image *)
Lemma atomic_complete : forall tmp final chunks f, tmp <> final ->
  lookup final (exec (save_atomic tmp final chunks) f) = Some (concat chunks).
Proof.
  intros tmp final chunks f Hn. rewrite save_atomic_split, exec_app.
  assert (Ht : lookup tmp (exec (atomic_body tmp chunks) f) = Some (concat chunks)).
  { unfold atomic_body. change (OpenTrunc tmp :: map (Write tmp) chunks ++ [Flush tmp; Fsync tmp; Close tmp])
      with ([OpenTrunc tmp] ++ map (Write tmp) chunks ++ [Flush tmp; Fsync tmp; Close tmp]).
    rewrite !exec_app. change (exec [Flush tmp; Fsync tmp; Close tmp]) with (fun g : fsys => g). cbv beta.
    rewrite (exec_writes tmp chunks _ []); [reflexivity|]. unfold exec. simpl. apply lookup_set_same. }
  unfold exec at 1. cbn [fold_left exec_op]. rewrite Ht. apply lookup_set_same.
Qed.

Section History.
  Variable S : Type.
  Variable ser : S -> list data.
  Variables tmp final : fpath.
  Hypothesis tmp_final : tmp <> final.
  Let hops := history_ops (save_atomic tmp final) ser.

  Lemma hops_cons : forall s r, hops (s :: r) = save_atomic tmp final (ser s) ++ hops r.
  Proof. reflexivity. Qed.

  (* the state found at crash point k of a whole run: the image of the last COMPLETED save (j saves are complete) *)
  Theorem crash_atomic_latest : forall snaps f0 k,
    exists j, j <= length snaps
      /\ lookup final (exec (firstn k (hops snaps)) f0)
         = match j with 0 => lookup final f0 | Datatypes.S i => option_map (image ser) (nth_error snaps i) end
      /\ length (hops (firstn j snaps)) <= k
      /\ (k < length (hops (firstn (Datatypes.S j) snaps)) \/ j = length snaps).
  Proof.
    induction snaps as [|s r IH]; intros f0 k.
    - exists 0. simpl. rewrite firstn_nil. simpl. repeat split; auto with arith.
    - rewrite hops_cons. set (ops := save_atomic tmp final (ser s)).
      destruct (Nat.lt_ge_cases k (length ops)) as [Hk|Hk].
      + exists 0. rewrite firstn_app. replace (k - length ops) with 0 by lia. simpl firstn at 2. rewrite app_nil_r.
        split; [simpl; lia|]. split; [apply crash_inside_atomic; auto|]. split; [simpl; lia|].
        left. cbn [firstn]. rewrite hops_cons. simpl. rewrite app_nil_r. exact Hk.
      + rewrite firstn_app. rewrite firstn_all2 by exact Hk. rewrite exec_app.
        destruct (IH (exec ops f0) (k - length ops)) as (j & Hj & Hl & Hc & Hn).
        exists (Datatypes.S j). split; [simpl; lia|]. split.
        * rewrite Hl. destruct j; [|reflexivity]. cbn [nth_error option_map]. unfold ops. rewrite atomic_complete; auto.
        * cbn [firstn]. rewrite hops_cons, app_length. fold ops. split; [lia|].
          destruct Hn as [Hn|Hn]; [left|right; simpl; lia].
          destruct r as [|s2 r2]; [simpl in Hn; lia|]. cbn [firstn] in *. rewrite !hops_cons, !app_length in *. fold ops. lia.
  Qed.

  (* C10_loadable_at_every_crash_point, file-system part: at every crash point the report file is what it was before the run
     (absent, for a fresh report directory) or the complete image of one of the saved snapshots *)
  Theorem crash_atomic_safe : forall snaps f0 k,
    lookup final (exec (firstn k (hops snaps)) f0) = lookup final f0
    \/ exists s, In s snaps /\ lookup final (exec (firstn k (hops snaps)) f0) = Some (image ser s).
  Proof.
    intros snaps f0 k. destruct (crash_atomic_latest snaps f0 k) as (j & Hj & Hl & _). destruct j as [|i]; auto.
    right. destruct (nth_error snaps i) as [s|] eqn:E.
    - exists s. split; [eapply nth_error_In; eauto | exact Hl].
    - apply nth_error_None in E. lia.
  Qed.
End History.

(* the pinned (in-place) sequence: right after the truncating open the report file is empty, whatever it held before *)
Theorem inplace_truncates : forall final chunks f0, lookup final (exec (firstn 1 (save_inplace final chunks)) f0) = Some [].
Proof. intros. simpl. unfold exec. simpl. apply lookup_set_same. Qed.

Theorem inplace_not_safe :
  exists (ser : unit -> list data) (snaps : list unit) (final : fpath) (f0 : fsys) (k : nat),
    let st := exec (firstn k (history_ops (save_inplace final) ser snaps)) f0 in
    lookup final f0 = None /\
    ~ (lookup final st = lookup final f0 \/ exists s, In s snaps /\ lookup final st = Some (image ser s)).
Proof.
  exists (fun _ => [[1]]), [tt], 0, [], 1. cbv zeta. split; [reflexivity|].
  vm_compute. intros [H|(s & _ & H)]; discriminate.
Qed.

(* ====================================================================================================================== *)
(* 6. statements of Props/C10.v                                                                                             *)
(* ====================================================================================================================== *)
Definition refreshed (s' : sstate) : Prop := file_snapshot s' = Some (normalize (ss_writer s')).

Lemma strategy_case : forall s e c s' (b : bool), handle_event TS.T s (e, c) = Ok s' ->
  (is_session_end e ||
   match fs_strategy (ss_file s) with
   | None => false
   | Some (SFun FSuite) => is_suite_end e
   | Some (SFun FTest) => is_result_end e
   | Some (SFun FFailedTest) =>
       match result_end_loc e with Some loc => status_failed (get_result loc (ss_writer s')) | None => false end
   | Some (SFun FLog) => is_log_like e
   | Some (SInterval n) =>
       (is_result_end e || is_suite_end e || is_log_like e) && Z.ltb (fs_last (ss_file s) + n * 1000) (c_call c)
   end) = b ->
  if b then refreshed s' /\ fs_last (ss_file s') = c_saved c else ss_file s' = ss_file s.
Proof.
  intros s e c s' b H Hb. rewrite <- triggers_T in Hb. destruct (strategy_refresh _ _ _ _ H) as [A B].
  destruct b; auto.
Qed.

Theorem final_save : forall s t c s', handle_event TS.T s (ESessionEnd t, c) = Ok s' -> refreshed s'.
Proof. intros s t c s' H. apply (strategy_case _ _ _ _ true H). reflexivity. Qed.

Theorem strategy_at_end_of_tests : forall s e c s', handle_event TS.T s (e, c) = Ok s' -> fs_strategy (ss_file s) = None ->
  if is_session_end e then refreshed s' else ss_file s' = ss_file s.
Proof.
  intros s e c s' H Hs. pose proof (strategy_case _ _ _ _ (is_session_end e) H) as P. rewrite Hs in P.
  rewrite orb_false_r in P. specialize (P eq_refl). destruct (is_session_end e); tauto.
Qed.

Theorem strategy_at_each_suite : forall s e c s', handle_event TS.T s (e, c) = Ok s' ->
  fs_strategy (ss_file s) = Some (SFun FSuite) ->
  if is_suite_end e || is_session_end e then refreshed s' else ss_file s' = ss_file s.
Proof.
  intros s e c s' H Hs. pose proof (strategy_case _ _ _ _ (is_suite_end e || is_session_end e) H) as P. rewrite Hs in P.
  rewrite orb_comm in P. specialize (P eq_refl). destruct (is_suite_end e || is_session_end e); tauto.
Qed.

Theorem strategy_at_each_test : forall s e c s', handle_event TS.T s (e, c) = Ok s' ->
  fs_strategy (ss_file s) = Some (SFun FTest) ->
  if is_result_end e || is_session_end e then refreshed s' else ss_file s' = ss_file s.
Proof.
  intros s e c s' H Hs. pose proof (strategy_case _ _ _ _ (is_result_end e || is_session_end e) H) as P. rewrite Hs in P.
  rewrite orb_comm in P. specialize (P eq_refl). destruct (is_result_end e || is_session_end e); tauto.
Qed.

Theorem strategy_at_each_failed_test : forall s e c s', handle_event TS.T s (e, c) = Ok s' ->
  fs_strategy (ss_file s) = Some (SFun FFailedTest) ->
  if match result_end_loc e with Some loc => status_failed (get_result loc (ss_writer s')) | None => false end || is_session_end e
  then refreshed s' else ss_file s' = ss_file s.
Proof.
  intros s e c s' H Hs.
  pose proof (strategy_case _ _ _ _
    (match result_end_loc e with Some loc => status_failed (get_result loc (ss_writer s')) | None => false end || is_session_end e) H) as P.
  rewrite Hs in P. rewrite orb_comm in P. specialize (P eq_refl).
  destruct (match result_end_loc e with Some loc => status_failed (get_result loc (ss_writer s')) | None => false end || is_session_end e); tauto.
Qed.

Theorem strategy_at_each_log : forall s e c s', handle_event TS.T s (e, c) = Ok s' ->
  fs_strategy (ss_file s) = Some (SFun FLog) ->
  if is_log_like e || is_session_end e then refreshed s' else ss_file s' = ss_file s.
Proof.
  intros s e c s' H Hs. pose proof (strategy_case _ _ _ _ (is_log_like e || is_session_end e) H) as P. rewrite Hs in P.
  rewrite orb_comm in P. specialize (P eq_refl). destruct (is_log_like e || is_session_end e); tauto.
Qed.

(* every_Ns: the clock is consulted on the events the session is subscribed to; after a save last_saved_time is the clock *)
Theorem strategy_every_N_seconds : forall s e c s' n, handle_event TS.T s (e, c) = Ok s' ->
  fs_strategy (ss_file s) = Some (SInterval n) ->
  if ((is_result_end e || is_suite_end e || is_log_like e) && Z.ltb (fs_last (ss_file s) + n * 1000) (c_call c)) || is_session_end e
  then refreshed s' /\ fs_last (ss_file s') = c_saved c else ss_file s' = ss_file s.
Proof.
  intros s e c s' n H Hs.
  pose proof (strategy_case _ _ _ _
    (((is_result_end e || is_suite_end e || is_log_like e) && Z.ltb (fs_last (ss_file s) + n * 1000) (c_call c)) || is_session_end e) H) as P.
  rewrite Hs in P. rewrite orb_comm in P. specialize (P eq_refl). exact P.
Qed.

Definition str_of (l : list N) : str := l.
Theorem strategy_names :
  let mk := make_strategy TS.T in
  mk [97;116;95;101;110;100;95;111;102;95;116;101;115;116;115]%N = Ok None                                  (* at_end_of_tests *)
  /\ mk [97;116;95;101;97;99;104;95;115;117;105;116;101]%N = Ok (Some (SFun FSuite))                          (* at_each_suite *)
  /\ mk [97;116;95;101;97;99;104;95;116;101;115;116]%N = Ok (Some (SFun FTest))                               (* at_each_test *)
  /\ mk [97;116;95;101;97;99;104;95;102;97;105;108;101;100;95;116;101;115;116]%N = Ok (Some (SFun FFailedTest)) (* at_each_failed_test *)
  /\ mk [97;116;95;101;97;99;104;95;108;111;103]%N = Ok (Some (SFun FLog))                                    (* at_each_log *)
  /\ mk [97;116;95;101;97;99;104;95;101;118;101;110;116]%N = Ok (Some (SFun FLog))                            (* at_each_event *)
  /\ mk [101;118;101;114;121;95;49;53;115]%N = Ok (Some (SInterval 15))                                       (* every_15s *)
  /\ mk [101;118;101;114;121;32;50;115]%N = Ok (Some (SInterval 2))                                           (* "every 2s" *)
  /\ mk [101;118;101;114;121;95;115]%N = Err ValueError                                                       (* every_s *)
  /\ mk (t_default TS.T) = Ok (Some (SFun FFailedTest)).                                                      (* the default *)
Proof. vm_compute. repeat split. Qed.

(* the subscription order is what makes the snapshot include the event that triggered it *)
Definition clk0 := mkClock 0 0.
Theorem wrong_listener_order :
  exists s s', run_with TS.T [LFile; LWriter] (init_sstate (Some (SFun FTest)) 0) (map (fun e => (e, clk0)) mono_events) = Ok s
            /\ run TS.T (init_sstate (Some (SFun FTest)) 0) (map (fun e => (e, clk0)) mono_events) = Ok s'
            /\ ss_writer s = ss_writer s' /\ refreshed s' /\ ~ refreshed s.
Proof.
  destruct (run_with TS.T [LFile; LWriter] (init_sstate (Some (SFun FTest)) 0) (map (fun e => (e, clk0)) mono_events)) as [s|] eqn:E1;
    [|vm_compute in E1; discriminate].
  destruct (run TS.T (init_sstate (Some (SFun FTest)) 0) (map (fun e => (e, clk0)) mono_events)) as [s'|] eqn:E2;
    [|vm_compute in E2; discriminate].
  exists s, s'. vm_compute in E1. vm_compute in E2. inversion E1; subst. inversion E2; subst.
  repeat split; try reflexivity. unfold refreshed. vm_compute. intros H. discriminate.
Qed.

(* end to end: for every event history, every save in it and every crash point of the whole sequence of file-system
   operations, the report file is absent or is the complete image of a snapshot taken after a whole number of events, which
   is a prefix (le_report) of the final report *)
Theorem loadable_at_every_crash_point :
  forall (st : option strat) (t0 : Z) (l : list (event * clock)) (s : sstate),
    run TS.T (init_sstate st t0) l = Ok s ->
    forall (save : fpath -> fpath -> list data -> list op),
      In save [TS.save_ops_json; TS.save_ops_xml; TS.save_ops_junit] ->
    forall (ser : report -> list data) (tmp final : fpath) (f0 : fsys) (k : nat),
      tmp <> final -> lookup final f0 = None ->
      let snaps := map snd (fs_saves (ss_file s)) in
      let found := lookup final (exec (firstn k (history_ops (save tmp final) ser snaps)) f0) in
      found = None
      \/ exists j r wj, In (j, r) (fs_saves (ss_file s)) /\ found = Some (image ser r)
                        /\ 1 <= j <= length l /\ apply_all init_wstate (firstn j (map fst l)) = Ok wj /\ r = normalize wj
                        /\ (all_admissible init_wstate (map fst l) = true -> le_report r (normalize (ss_writer s)))
                        /\ (forall load : data -> option report, (forall x, load (image ser x) = Some x) ->
                            exists c, found = Some c /\ load c = Some r).
Proof.
  intros st t0 l s Hrun save Hsave ser tmp final f0 k Hn H0 snaps found.
  assert (Es : history_ops (save tmp final) ser snaps = history_ops (save_atomic tmp final) ser snaps).
  { destruct Hsave as [E|[E|[E|[]]]]; subst save; reflexivity. }
  unfold found. rewrite Es.
  destruct (crash_atomic_safe _ ser tmp final Hn snaps f0 k) as [E|(r & Hin & E)].
  - left. rewrite E. assumption.
  - right. unfold snaps in Hin. apply in_map_iff in Hin. destruct Hin as ([j r'] & Er & Hin). simpl in Er. subst r'.
    destruct (snapshot_consistent _ _ _ _ _ Hrun) as (Hs & _ & Hfin).
    destruct (Hs _ _ Hin) as (Hj & wj & Hwj & Erj).
    exists j, r, wj. split; [exact Hin|]. split; [exact E|]. split; [exact Hj|]. split; [exact Hwj|]. split; [exact Erj|]. split.
    + intros Ha. subst r. eapply every_snapshot_prefix_of_final; eauto.
    + intros load Hl. exists (image ser r). split; auto.
Qed.
