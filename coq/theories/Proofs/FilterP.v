(* Proofs about Model/Filter.v.
   Part 1: the declarative specification of the filter language (Prop level, written from the documentation and independent of
           the evaluator: wildcard matching is GlobP.gmatch, metadata values are described by membership along the hierarchy).
   Part 2: the evaluator agrees with the specification.
   Part 3: selection and pruning over trees.
   Part 4: laws.  Part 5: report-based selection. *)
From Coq Require Import List NArith ZArith Bool Lia.
Import ListNotations.
From LCC Require Import Base.Util Model.Report Model.Glob Model.Filter Proofs.GlobP.

(* ====================================================================== Part 1: specification *)

(* a value matches a pattern text *)
Definition wild (pat v : str) : Prop := gmatch (parse_glob pat) v.

Definition is_flag (c : N) : Prop := c = 45%N \/ c = 94%N \/ c = 126%N.          (* - ^ ~ *)
Definition flagged (p : str) : Prop := exists c q, p = c :: q /\ is_flag c.

(* V = the values the node exposes for the option. A pattern starting with a flag holds when NO value matches the rest;
   any other pattern holds when SOME value matches it. *)
Inductive pat_sat (V : str -> Prop) : str -> Prop :=
| ps_neg c q : is_flag c -> ~ (exists v, V v /\ wild q v) -> pat_sat V (c :: q)
| ps_pos p : ~ flagged p -> (exists v, V v /\ wild p v) -> pat_sat V p.

(* one occurrence of an option: its values are alternatives (an occurrence without value constrains nothing) *)
Definition group_sat {A} (sat : A -> Prop) (g : list A) : Prop := g = [] \/ exists p, In p g /\ sat p.
(* repeated occurrences must all hold *)
Definition groups_sat {A} (sat : A -> Prop) (gs : list (list A)) : Prop := forall g, In g gs -> group_sat sat g.

(* values exposed by a node whose hierarchy (root first, node last) is h *)
Definition path_value (h : hier) (v : str) : Prop := exists p s, h = p ++ s /\ p <> [] /\ v = path_of p.
Definition desc_value (h : hier) (v : str) : Prop := exists n, In n h /\ v = m_description n.
Definition tag_value (h : hier) (v : str) : Prop := exists n, In n h /\ In v (m_tags n).
Definition link_value (h : hier) (v : str) : Prop :=
  exists n u nm, In n h /\ In (u, nm) (m_links n) /\ (v = u \/ v = or_empty nm).
(* the innermost definition of key k: the last binding of k when the property lists are read from the root to the node *)
Definition prop_value (h : hier) (k v : str) : Prop :=
  exists l1 l2, flat_map m_properties h = l1 ++ (k, v) :: l2 /\ forall v', ~ In (k, v') l2.

Definition base_spec (f : base_filter) (h : hier) : Prop :=
  group_sat (pat_sat (path_value h)) (f_paths f) /\
  groups_sat (pat_sat (desc_value h)) (f_descs f) /\
  groups_sat (pat_sat (tag_value h)) (f_tags f) /\
  groups_sat (fun kp => pat_sat (prop_value h (fst kp)) (snd kp)) (f_props f) /\
  groups_sat (pat_sat (link_value h)) (f_links f).

Definition disabled_somewhere (h : phier) : Prop := exists n, In n h /\ snd n = true.

Definition test_spec (f : test_filter) (h : phier) : Prop :=
  base_spec (tf_base f) (map fst h) /\
  (tf_enabled f = true -> ~ disabled_somewhere h) /\
  (tf_disabled f = true -> disabled_somewhere h).

(* l' is l restricted to the elements satisfying P: same order, same multiplicity *)
Inductive selects {A} (P : A -> Prop) : list A -> list A -> Prop :=
| sel_nil : selects P [] []
| sel_keep x l l' : P x -> selects P l l' -> selects P (x :: l) (x :: l')
| sel_drop x l l' : ~ P x -> selects P l l' -> selects P (x :: l) l'.

(* the pruned forest: kept suites keep their metadata, place and nesting; a suite is dropped exactly when no test below it
   is kept; inside a kept suite the tests are restricted to the kept ones *)
Inductive prune_rel (K : phier -> Prop) : phier -> list psuite -> list psuite -> Prop :=
| pr_nil anc : prune_rel K anc [] []
| pr_keep anc m d ts subs ts' subs' rest rest' :
    selects (fun t => K ((anc ++ [(m, d)]) ++ [t])) ts ts' ->
    prune_rel K (anc ++ [(m, d)]) subs subs' ->
    (exists h, In h (tests_h anc (PSuite m d ts subs)) /\ K h) ->
    prune_rel K anc rest rest' ->
    prune_rel K anc (PSuite m d ts subs :: rest) (PSuite m d ts' subs' :: rest')
| pr_drop anc s rest rest' :
    ~ (exists h, In h (tests_h anc s) /\ K h) ->
    prune_rel K anc rest rest' ->
    prune_rel K anc (s :: rest) rest'.

(* ====================================================================== Part 2: evaluator = specification *)

(* ---------- equality tests *)
Lemma list_eqb_eq {A} (eqb : A -> A -> bool) :
  (forall x y, eqb x y = true <-> x = y) -> forall l1 l2, list_eqb eqb l1 l2 = true <-> l1 = l2.
Proof.
  intros E. induction l1 as [|x r IH]; destruct l2 as [|y r2]; simpl; split; intros H; try discriminate; auto.
  - apply andb_true_iff in H. destruct H as [H1 H2]. apply E in H1. apply IH in H2. subst. reflexivity.
  - inversion H; subst. apply andb_true_iff. split; [apply E; reflexivity | apply IH; reflexivity].
Qed.

Lemma str_eqb_eq a b : str_eqb a b = true <-> a = b.
Proof. unfold str_eqb. apply list_eqb_eq. intros. apply N.eqb_eq. Qed.

Lemma str_eqb_refl a : str_eqb a a = true.
Proof. apply str_eqb_eq. reflexivity. Qed.

Lemma str_eqb_neq a b : str_eqb a b = false <-> a <> b.
Proof. split; intros H.
  - intros E. apply str_eqb_eq in E. congruence.
  - destruct (str_eqb a b) eqn:E; auto. apply str_eqb_eq in E. contradiction.
Qed.

Lemma link_eqb_eq a b : link_eqb a b = true <-> a = b.
Proof.
  destruct a as [u1 n1], b as [u2 n2]. unfold link_eqb, pair_eqb. simpl. rewrite andb_true_iff, str_eqb_eq.
  destruct n1 as [x|], n2 as [y|]; simpl; try rewrite str_eqb_eq; split; intros H;
    try (destruct H as [H1 H2]; subst; try discriminate; reflexivity);
    try (inversion H; subst; split; reflexivity).
Qed.

Lemma neg_flag_spec c : neg_flag c = true <-> is_flag c.
Proof. unfold neg_flag, is_flag. rewrite !orb_true_iff, !N.eqb_eq. tauto. Qed.

Lemma flagged_cons c q : flagged (c :: q) <-> is_flag c.
Proof. split.
  - intros [c' [q' [E F]]]. inversion E; subst. exact F.
  - intros F. exists c, q. auto.
Qed.

Lemma not_flagged_nil : ~ flagged [].
Proof. intros [c [q [E _]]]. discriminate. Qed.

(* ---------- patterns *)
Lemma any_match_spec values pat : any_match values pat = true <-> exists v, In v values /\ wild pat v.
Proof.
  unfold any_match, wild, fnmatch. rewrite existsb_exists.
  split; intros [v [Hi Hm]]; exists v; split; auto; apply glob_spec_proof; exact Hm.
Qed.

Lemma value_pattern_holds_spec values p :
  value_pattern_holds values p = true <-> pat_sat (fun v => In v values) p.
Proof.
  destruct p as [|c q]; simpl.
  - rewrite any_match_spec. split; intros H.
    + apply ps_pos; [apply not_flagged_nil | exact H].
    + inversion H; subst. assumption.
  - destruct (neg_flag c) eqn:F.
    + apply neg_flag_spec in F. rewrite negb_true_iff. split; intros H.
      * apply ps_neg; auto. intros X. apply any_match_spec in X. congruence.
      * inversion H as [c' q' Fl Hn | p' Hnf Hex]; subst.
        -- destruct (any_match values q) eqn:E; auto. exfalso. apply Hn. apply any_match_spec. exact E.
        -- exfalso. apply Hnf. apply flagged_cons. exact F.
    + assert (~ is_flag c) as NF by (intros X; apply neg_flag_spec in X; congruence).
      rewrite any_match_spec. split; intros H.
      * apply ps_pos; auto. intros X. apply flagged_cons in X. contradiction.
      * inversion H as [c' q' Fl Hn | p' Hnf Hex]; subst; [contradiction | assumption].
Qed.

Lemma pat_sat_ext (V W : str -> Prop) p : (forall v, V v <-> W v) -> pat_sat V p <-> pat_sat W p.
Proof.
  intros E. split; intros H; inversion H as [c q Fl Hn | p' Hnf [v [Hv Hw]]]; subst.
  - apply ps_neg; auto. intros [v [Hv Hw]]. apply Hn. exists v. split; auto. apply E. exact Hv.
  - apply ps_pos; auto. exists v. split; auto. apply E. exact Hv.
  - apply ps_neg; auto. intros [v [Hv Hw]]. apply Hn. exists v. split; auto. apply E. exact Hv.
  - apply ps_pos; auto. exists v. split; auto. apply E. exact Hv.
Qed.

Lemma group_sat_ext {A} (P Q : A -> Prop) g : (forall x, P x <-> Q x) -> group_sat P g <-> group_sat Q g.
Proof.
  intros E. unfold group_sat. split; intros [H|[p [Hi Hp]]]; auto; right; exists p; split; auto; apply E; auto.
Qed.

Lemma existsb_group {A} (f : A -> bool) (P : A -> Prop) g :
  (forall x, f x = true <-> P x) ->
  match g with [] => true | _ :: _ => existsb f g end = true <-> group_sat P g.
Proof.
  intros E. unfold group_sat. destruct g as [|a r].
  - split; auto.
  - rewrite existsb_exists. split.
    + intros [x [Hi Hx]]. right. exists x. split; auto. apply E. exact Hx.
    + intros [H|[x [Hi Hx]]]; [discriminate|]. exists x. split; auto. apply E. exact Hx.
Qed.

Lemma map_or_empty_some l : map or_empty (map Some l) = l.
Proof. induction l; simpl; congruence. Qed.

Lemma match_values_spec values patterns :
  match_values values patterns = true <-> group_sat (pat_sat (fun v => In v (map or_empty values))) patterns.
Proof.
  unfold match_values. apply existsb_group. intros p. apply value_pattern_holds_spec.
Qed.

Lemma forallb_groups {A} (f : list A -> bool) (P : A -> Prop) gs :
  (forall g, f g = true <-> group_sat P g) -> forallb f gs = true <-> groups_sat P gs.
Proof.
  intros E. unfold groups_sat. rewrite forallb_forall. split; intros H g Hi; apply E; auto.
Qed.

(* ---------- values along the hierarchy *)
Lemma prefixes_spec {A} (l p : list A) : In p (prefixes l) <-> exists s, l = p ++ s /\ p <> [].
Proof.
  revert p. induction l as [|x r IH]; intros p; simpl.
  - split; [tauto|]. intros [s [E N]]. destruct p; [contradiction | discriminate].
  - split.
    + intros [H|H].
      * subst p. exists r. split; [reflexivity | discriminate].
      * apply in_map_iff in H. destruct H as [q [E Hq]]. subst p. apply IH in Hq. destruct Hq as [s [E N]].
        exists s. subst r. split; [reflexivity | discriminate].
    + intros [s [E N]]. destruct p as [|y q]; [contradiction|]. simpl in E. inversion E; subst.
      destruct q as [|z q'].
      * left. reflexivity.
      * right. apply in_map_iff. exists (z :: q'). split; auto. apply IH. exists s. split; [reflexivity | discriminate].
Qed.

Lemma hierarchy_paths_spec h v : In v (hierarchy_paths h) <-> path_value h v.
Proof.
  unfold hierarchy_paths, path_value. rewrite in_map_iff. split.
  - intros [p [E Hp]]. apply prefixes_spec in Hp. destruct Hp as [s [E2 N]]. exists p, s. auto.
  - intros [p [s [E [N Ev]]]]. exists p. split; auto. apply prefixes_spec. exists s. auto.
Qed.

Lemma hierarchy_descriptions_spec h v : In v (hierarchy_descriptions h) <-> desc_value h v.
Proof.
  unfold hierarchy_descriptions, desc_value. rewrite in_map_iff. split; intros [n H]; exists n; intuition.
Qed.

Lemma oset_add_in {A} (eqb : A -> A -> bool) (E : forall x y, eqb x y = true <-> x = y) s x y :
  In y (oset_add eqb s x) <-> In y s \/ y = x.
Proof.
  unfold oset_add. destruct (existsb (eqb x) s) eqn:X.
  - apply existsb_exists in X. destruct X as [z [Hz Ez]]. apply E in Ez. subst z. split; [auto|]. intros [H|H]; subst; auto.
  - rewrite in_app_iff. simpl. intuition.
Qed.

Lemma oset_update_in {A} (eqb : A -> A -> bool) (E : forall x y, eqb x y = true <-> x = y) l : forall s y,
  In y (oset_update eqb s l) <-> In y s \/ In y l.
Proof.
  unfold oset_update. induction l as [|x r IH]; intros s y; simpl.
  - tauto.
  - rewrite IH. rewrite (oset_add_in eqb E). intuition.
Qed.

Lemma fold_oset_in {A B} (eqb : A -> A -> bool) (E : forall x y, eqb x y = true <-> x = y) (g : B -> list A) h : forall s y,
  In y (fold_left (fun s n => oset_update eqb s (g n)) h s) <-> In y s \/ exists n, In n h /\ In y (g n).
Proof.
  induction h as [|n r IH]; intros s y; simpl.
  - split; [auto|]. intros [H|[n [[] _]]]. exact H.
  - rewrite IH. rewrite (oset_update_in eqb E). split.
    + intros [[H|H]|[n' [Hi Hy]]]; auto.
      * right. exists n. auto.
      * right. exists n'. auto.
    + intros [H|[n' [[Hi|Hi] Hy]]]; auto.
      * subst n'. auto.
      * right. exists n'. auto.
Qed.

Lemma hierarchy_tags_spec h v : In v (hierarchy_tags h) <-> tag_value h v.
Proof.
  unfold hierarchy_tags, tag_value. rewrite (fold_oset_in str_eqb str_eqb_eq). simpl. tauto.
Qed.

Lemma hierarchy_links_in h l : In l (hierarchy_links h) <-> exists n, In n h /\ In l (m_links n).
Proof.
  unfold hierarchy_links. rewrite (fold_oset_in link_eqb link_eqb_eq). simpl. tauto.
Qed.

Lemma flatten_links_spec h v : In v (map or_empty (flatten_links (hierarchy_links h))) <-> link_value h v.
Proof.
  unfold flatten_links, link_value. rewrite in_map_iff. split.
  - intros [o [E Ho]]. apply in_flat_map in Ho. destruct Ho as [[u nm] [Hl Ho]]. apply hierarchy_links_in in Hl.
    destruct Hl as [n [Hn Hl]]. exists n, u, nm. split; auto. split; auto.
    simpl in Ho. destruct Ho as [Ho|[Ho|[]]]; subst o; simpl in E; subst v; auto.
  - intros [n [u [nm [Hn [Hl Hv]]]]].
    assert (In (u, nm) (hierarchy_links h)) as HL by (apply hierarchy_links_in; exists n; auto).
    destruct Hv as [Hv|Hv]; subst v.
    + exists (Some u). split; auto. apply in_flat_map. exists (u, nm). split; auto. simpl. auto.
    + exists nm. split; auto. apply in_flat_map. exists (u, nm). split; auto. simpl. auto.
Qed.

(* ---------- the properties dict *)
Lemma dict_get_set d k v k' : dict_get (dict_set d k v) k' = if str_eqb k k' then Some v else dict_get d k'.
Proof.
  induction d as [|[a b] r IH]; simpl.
  - reflexivity.
  - destruct (str_eqb a k) eqn:E; simpl.
    + apply str_eqb_eq in E. subst a. destruct (str_eqb k k'); reflexivity.
    + rewrite IH. destruct (str_eqb a k') eqn:E2; auto.
      destruct (str_eqb k k') eqn:E3; auto.
      apply str_eqb_eq in E2. apply str_eqb_eq in E3. subst. rewrite str_eqb_refl in E. discriminate.
Qed.

(* last binding of k in an association list *)
Fixpoint assoc_last (l : list (str * str)) (k : str) : option str :=
  match l with
  | [] => None
  | (a, b) :: r => match assoc_last r k with Some x => Some x | None => if str_eqb a k then Some b else None end
  end.

Lemma dict_update_get kvs : forall d k,
  dict_get (dict_update d kvs) k = match assoc_last kvs k with Some x => Some x | None => dict_get d k end.
Proof.
  unfold dict_update. induction kvs as [|[a b] r IH]; intros d k; simpl.
  - reflexivity.
  - rewrite IH. destruct (assoc_last r k); auto. rewrite dict_get_set. destruct (str_eqb a k); reflexivity.
Qed.

Lemma hierarchy_properties_flat h : forall d,
  fold_left (fun d n => dict_update d (m_properties n)) h d = dict_update d (flat_map m_properties h).
Proof.
  induction h as [|n r IH]; intros d; simpl.
  - reflexivity.
  - rewrite IH. unfold dict_update. rewrite fold_left_app. reflexivity.
Qed.

Lemma assoc_last_none l k : assoc_last l k = None <-> forall v, ~ In (k, v) l.
Proof.
  induction l as [|[a b] r IH]; simpl.
  - split; auto.
  - case_eq (assoc_last r k); [intros x E | intros E].
    + split; [discriminate|]. intros H. exfalso.
      assert (assoc_last r k = None) as X by (apply IH; intros v Hv; apply (H v); auto). congruence.
    + destruct (str_eqb a k) eqn:E2.
      * apply str_eqb_eq in E2. subst a. split; [discriminate|]. intros H. exfalso. apply (H b). auto.
      * split; auto. intros _ v [H|H].
        -- inversion H; subst. rewrite str_eqb_refl in E2. discriminate.
        -- revert H. apply IH. exact E.
Qed.

Lemma assoc_last_some l k v : assoc_last l k = Some v <-> exists l1 l2, l = l1 ++ (k, v) :: l2 /\ forall v', ~ In (k, v') l2.
Proof.
  revert v. induction l as [|[a b] r IH]; intros v; simpl.
  - split; [discriminate|]. intros [l1 [l2 [E _]]]. destruct l1; discriminate.
  - case_eq (assoc_last r k); [intros x E | intros E].
    + split.
      * intros H. inversion H; subst x. destruct (proj1 (IH v) E) as [l1 [l2 [E1 E2]]].
        exists ((a, b) :: l1), l2. subst r. auto.
      * intros [l1 [l2 [E1 E2]]]. destruct l1 as [|y l1]; simpl in E1; inversion E1; subst.
        -- apply assoc_last_none in E2. congruence.
        -- assert (assoc_last (l1 ++ (k, v) :: l2) k = Some v) as X by (apply IH; exists l1, l2; auto). congruence.
    + destruct (str_eqb a k) eqn:E2.
      * apply str_eqb_eq in E2. subst a. split.
        -- intros H. inversion H; subst. exists [], r. split; auto. apply assoc_last_none. exact E.
        -- intros [l1 [l2 [E1 E3]]]. destruct l1 as [|y l1]; simpl in E1; inversion E1; subst; auto.
           exfalso. pose proof (proj1 (assoc_last_none _ _) E v) as X. apply X. apply in_app_iff. right. left. reflexivity.
      * split; [discriminate|]. intros [l1 [l2 [E1 E3]]]. destruct l1 as [|y l1]; simpl in E1; inversion E1; subst.
        -- rewrite str_eqb_refl in E2. discriminate.
        -- exfalso. pose proof (proj1 (assoc_last_none _ _) E v) as X. apply X. apply in_app_iff. right. left. reflexivity.
Qed.

Lemma hierarchy_properties_spec h k v : dict_get (hierarchy_properties h) k = Some v <-> prop_value h k v.
Proof.
  unfold hierarchy_properties, prop_value. rewrite hierarchy_properties_flat, dict_update_get. simpl.
  rewrite <- assoc_last_some. destruct (assoc_last (flat_map m_properties h) k); split; intros H; congruence.
Qed.

Lemma prop_value_fun h k v1 v2 : prop_value h k v1 -> prop_value h k v2 -> v1 = v2.
Proof. intros H1 H2. apply hierarchy_properties_spec in H1. apply hierarchy_properties_spec in H2. congruence. Qed.

Lemma key_pattern_holds_spec h kp :
  key_pattern_holds (hierarchy_properties h) kp = true <-> pat_sat (prop_value h (fst kp)) (snd kp).
Proof.
  destruct kp as [k p]. simpl.
  assert (forall pat, match dict_get (hierarchy_properties h) k with None => false | Some x => fnmatch x pat end = true
                      <-> exists v, prop_value h k v /\ wild pat v) as POS.
  { intros pat. destruct (dict_get (hierarchy_properties h) k) as [x|] eqn:E.
    - split.
      + intros H. exists x. split; [apply hierarchy_properties_spec; exact E | apply glob_spec_proof; exact H].
      + intros [v [Hv Hw]]. apply hierarchy_properties_spec in Hv. rewrite E in Hv. inversion Hv; subst.
        apply glob_spec_proof. exact Hw.
    - split; [discriminate|]. intros [v [Hv _]]. apply hierarchy_properties_spec in Hv. congruence. }
  destruct p as [|c q].
  - rewrite POS. split; intros H.
    + apply ps_pos; [apply not_flagged_nil | exact H].
    + inversion H; subst. assumption.
  - destruct (neg_flag c) eqn:F.
    + apply neg_flag_spec in F.
      assert (match dict_get (hierarchy_properties h) k with None => true | Some x => negb (fnmatch x q) end
              = negb (match dict_get (hierarchy_properties h) k with None => false | Some x => fnmatch x q end)) as R
        by (destruct (dict_get (hierarchy_properties h) k); reflexivity).
      rewrite R, negb_true_iff. split; intros H.
      * apply ps_neg; auto. intros X. apply POS in X. congruence.
      * inversion H as [c' q' Fl Hn | p' Hnf Hex]; subst.
        -- destruct (match dict_get (hierarchy_properties h) k with None => false | Some x => fnmatch x q end) eqn:E; auto.
           exfalso. apply Hn. apply POS. exact E.
        -- exfalso. apply Hnf. apply flagged_cons. exact F.
    + assert (~ is_flag c) as NF by (intros X; apply neg_flag_spec in X; congruence).
      rewrite POS. split; intros H.
      * apply ps_pos; auto. intros X. apply flagged_cons in X. contradiction.
      * inversion H as [c' q' Fl Hn | p' Hnf Hex]; subst; [contradiction | assumption].
Qed.

(* ---------- the five criteria and the filters *)
Lemma do_paths_spec f h : do_paths f h = true <-> group_sat (pat_sat (path_value h)) (f_paths f).
Proof.
  unfold do_paths. rewrite match_values_spec, map_or_empty_some.
  apply group_sat_ext. intros p. apply pat_sat_ext. intros v. apply hierarchy_paths_spec.
Qed.

Lemma do_descs_spec f h : do_descs f h = true <-> groups_sat (pat_sat (desc_value h)) (f_descs f).
Proof.
  unfold do_descs. apply forallb_groups. intros g. rewrite match_values_spec, map_or_empty_some.
  apply group_sat_ext. intros p. apply pat_sat_ext. intros v. apply hierarchy_descriptions_spec.
Qed.

Lemma do_tags_spec f h : do_tags f h = true <-> groups_sat (pat_sat (tag_value h)) (f_tags f).
Proof.
  unfold do_tags. apply forallb_groups. intros g. rewrite match_values_spec, map_or_empty_some.
  apply group_sat_ext. intros p. apply pat_sat_ext. intros v. apply hierarchy_tags_spec.
Qed.

Lemma do_links_spec f h : do_links f h = true <-> groups_sat (pat_sat (link_value h)) (f_links f).
Proof.
  unfold do_links. apply forallb_groups. intros g. unfold match_values_lists. rewrite match_values_spec.
  apply group_sat_ext. intros p. apply pat_sat_ext. intros v. apply flatten_links_spec.
Qed.

Lemma do_props_spec f h :
  do_props f h = true <-> groups_sat (fun kp => pat_sat (prop_value h (fst kp)) (snd kp)) (f_props f).
Proof.
  unfold do_props. apply forallb_groups. intros g. unfold match_key_values. apply existsb_group.
  intros kp. apply key_pattern_holds_spec.
Qed.

Theorem base_call_spec f h : base_call f h = true <-> base_spec f h.
Proof.
  unfold base_call, base_spec. rewrite !andb_true_iff.
  rewrite do_paths_spec, do_descs_spec, do_tags_spec, do_props_spec, do_links_spec. tauto.
Qed.

Lemma is_disabled_spec h : is_disabled h = true <-> disabled_somewhere h.
Proof. unfold is_disabled, disabled_somewhere. rewrite existsb_exists. tauto. Qed.

Theorem test_call_spec f h : test_call f h = true <-> test_spec f h.
Proof.
  unfold test_call, test_spec. rewrite !andb_true_iff, base_call_spec.
  pose proof (is_disabled_spec h) as D.
  destruct (tf_enabled f), (tf_disabled f), (is_disabled h); simpl; intuition (try discriminate; try congruence).
Qed.

(* ====================================================================== Part 3: selection and pruning over trees *)
Section psuite_induction.
  Variable P : psuite -> Prop.
  Hypothesis step : forall m d ts subs, Forall P subs -> P (PSuite m d ts subs).
  Fixpoint psuite_ind2 (s : psuite) : P s :=
    match s with
    | PSuite m d ts subs =>
        step m d ts subs ((fix go (l : list psuite) : Forall P l :=
                             match l with
                             | [] => Forall_nil P
                             | x :: r => Forall_cons x (psuite_ind2 x) (go r)
                             end) subs)
    end.
End psuite_induction.

Lemma selects_filter {A} (P : A -> Prop) (f : A -> bool) l :
  (forall x, f x = true <-> P x) -> selects P l (filter f l).
Proof.
  intros E. induction l as [|x r IH]; simpl.
  - constructor.
  - destruct (f x) eqn:F.
    + apply sel_keep; auto. apply E. exact F.
    + apply sel_drop; auto. intros X. apply E in X. congruence.
Qed.

Lemma selects_fun {A} (P : A -> Prop) l l1 l2 : selects P l l1 -> selects P l l2 -> l1 = l2.
Proof.
  intros H1. revert l2. induction H1; intros l2 H2; inversion H2; subst; auto; try contradiction.
  f_equal. auto.
Qed.

Lemma selects_in {A} (P : A -> Prop) l l' : selects P l l' -> forall x, In x l' <-> In x l /\ P x.
Proof.
  induction 1 as [|x l l' Hx Hs IH|x l l' Hx Hs IH]; intros y; simpl.
  - tauto.
  - rewrite IH. split.
    + intros [E|[Hi Hp]]; subst; auto.
    + intros [[E|Hi] Hp]; subst; auto.
  - rewrite IH. split.
    + intros [Hi Hp]; auto.
    + intros [[E|Hi] Hp]; subst; auto. contradiction.
Qed.

Lemma filter_map_comm {A B} (g : A -> B) (f : B -> bool) l : filter f (map g l) = map g (filter (fun x => f (g x)) l).
Proof. induction l as [|x r IH]; simpl; auto. destruct (f (g x)); simpl; congruence. Qed.

Lemma filter_flat_map {A B} (g : A -> list B) (f : B -> bool) l :
  filter f (flat_map g l) = flat_map (fun x => filter f (g x)) l.
Proof. induction l as [|x r IH]; simpl; auto. rewrite filter_app. congruence. Qed.

Lemma is_empty_tests s : forall anc, is_empty s = true <-> tests_h anc s = [].
Proof.
  induction s as [m d ts subs IH] using psuite_ind2. intros anc. simpl.
  destruct ts as [|t ts].
  - simpl. rewrite forallb_forall. split.
    + intros H. induction subs as [|x r IHr]; simpl; auto.
      inversion IH as [|? ? Hx Hr]; subst.
      rewrite (proj1 (Hx _) (H x (or_introl eq_refl))). simpl. apply IHr; auto. intros y Hy. apply H. right. exact Hy.
    + intros H x Hx. induction subs as [|y r IHr]; simpl in *; [contradiction|].
      inversion IH as [|? ? Hy Hr]; subst. apply app_eq_nil in H. destruct H as [H1 H2].
      destruct Hx as [Hx|Hx].
      * subst y. apply (Hy (anc ++ [(m, d)])). exact H1.
      * apply IHr; auto.
  - simpl. split; discriminate.
Qed.

(* flat_map over the suites that are not empty loses no test *)
Lemma flat_map_drop_empty anc l :
  flat_map (tests_h anc) (filter (fun x => negb (is_empty x)) l) = flat_map (tests_h anc) l.
Proof.
  induction l as [|x r IH]; simpl; auto.
  destruct (is_empty x) eqn:E; simpl.
  - apply (is_empty_tests x anc) in E. rewrite E. simpl. exact IH.
  - rewrite IH. reflexivity.
Qed.

Lemma tests_h_suite_filter keep s : forall anc, tests_h anc (suite_filter keep anc s) = filter keep (tests_h anc s).
Proof.
  induction s as [m d ts subs IH] using psuite_ind2. intros anc. simpl.
  rewrite filter_app. f_equal.
  - rewrite filter_map_comm. reflexivity.
  - rewrite flat_map_drop_empty. rewrite filter_flat_map. rewrite flat_map_concat_map, map_map, <- flat_map_concat_map.
    induction subs as [|x r IHr]; simpl; auto.
    inversion IH as [|? ? Hx Hr]; subst. rewrite Hx. f_equal. apply IHr. exact Hr.
Qed.

Theorem all_tests_filter_suites keep anc l :
  all_tests_h anc (filter_suites keep anc l) = filter keep (all_tests_h anc l).
Proof.
  unfold all_tests_h, filter_suites. rewrite flat_map_drop_empty, filter_flat_map.
  induction l as [|x r IH]; simpl; auto. rewrite tests_h_suite_filter. f_equal. exact IH.
Qed.

Theorem selected_iff_proof (f : test_filter) (suites : list psuite) :
  selects (test_spec f) (all_tests_h [] suites) (all_tests_h [] (filter_suites (test_call f) [] suites)).
Proof.
  rewrite all_tests_filter_suites. apply selects_filter. intros h. apply test_call_spec.
Qed.

(* ---------- pruning *)
Lemma suite_filter_empty_iff keep anc s :
  is_empty (suite_filter keep anc s) = false <-> exists h, In h (tests_h anc s) /\ keep h = true.
Proof.
  split.
  - intros H. destruct (filter keep (tests_h anc s)) as [|h r] eqn:E.
    + rewrite <- tests_h_suite_filter in E. apply (is_empty_tests _ anc) in E. congruence.
    + exists h. apply filter_In. rewrite E. left. reflexivity.
  - intros [h Hh]. apply filter_In in Hh. destruct (is_empty (suite_filter keep anc s)) eqn:E; auto.
    apply (is_empty_tests _ anc) in E. rewrite tests_h_suite_filter in E. rewrite E in Hh. contradiction.
Qed.

Lemma prune_suite_step keep s :
  forall anc rest rest', prune_rel (fun h => keep h = true) anc rest rest' ->
    prune_rel (fun h => keep h = true) anc (s :: rest)
      (if negb (is_empty (suite_filter keep anc s)) then suite_filter keep anc s :: rest' else rest').
Proof.
  induction s as [m d ts subs IH] using psuite_ind2. intros anc rest rest' Hrest.
  destruct (is_empty (suite_filter keep anc (PSuite m d ts subs))) eqn:E; simpl negb; cbv iota.
  - apply pr_drop; auto. intros X. apply suite_filter_empty_iff in X. congruence.
  - simpl suite_filter. apply pr_keep; auto.
    + apply selects_filter. intros t. tauto.
    + clear E. induction subs as [|x r IHr]; simpl.
      * constructor.
      * inversion IH as [|? ? Hx Hr]; subst. apply Hx. apply IHr. exact Hr.
    + apply suite_filter_empty_iff. exact E.
Qed.

Theorem prune_proof keep anc l : prune_rel (fun h => keep h = true) anc l (filter_suites keep anc l).
Proof.
  unfold filter_suites. induction l as [|s r IH]; simpl.
  - constructor.
  - apply prune_suite_step. exact IH.
Qed.

Lemma prune_rel_ext (K K' : phier -> Prop) : (forall h, K h <-> K' h) ->
  forall anc l l', prune_rel K anc l l' -> prune_rel K' anc l l'.
Proof.
  intros E anc l l' H. induction H.
  - constructor.
  - apply pr_keep; auto.
    + clear - E H. induction H; constructor; auto; try (apply E; assumption). intros X. apply E in X. contradiction.
    + destruct H1 as [h [Hi Hk]]. exists h. split; auto. apply E. exact Hk.
  - apply pr_drop; auto. intros [h [Hi Hk]]. apply H. exists h. split; auto. apply E. exact Hk.
Qed.

Theorem prune_spec_proof (f : test_filter) (suites : list psuite) :
  prune_rel (test_spec f) [] suites (filter_suites (test_call f) [] suites).
Proof.
  apply prune_rel_ext with (K := fun h => test_call f h = true).
  - intros h. apply test_call_spec.
  - apply prune_proof.
Qed.

(* ====================================================================== Part 4: laws *)
Lemma vph_neg vs c p : is_flag c -> value_pattern_holds vs (c :: p) = negb (any_match vs p).
Proof. intros F. apply neg_flag_spec in F. simpl. rewrite F. reflexivity. Qed.

Lemma vph_pos vs p : ~ flagged p -> value_pattern_holds vs p = any_match vs p.
Proof.
  intros NF. destruct p as [|c q]; simpl; auto.
  destruct (neg_flag c) eqn:F; auto. exfalso. apply NF. apply flagged_cons. apply neg_flag_spec. exact F.
Qed.

Lemma kph_neg d k c p : is_flag c ->
  key_pattern_holds d (k, c :: p) = negb (match dict_get d k with None => false | Some x => fnmatch x p end).
Proof. intros F. apply neg_flag_spec in F. simpl. rewrite F. destruct (dict_get d k); reflexivity. Qed.

Lemma kph_pos d k p : ~ flagged p ->
  key_pattern_holds d (k, p) = match dict_get d k with None => false | Some x => fnmatch x p end.
Proof.
  intros NF. destruct p as [|c q]; simpl; auto.
  destruct (neg_flag c) eqn:F; auto. exfalso. apply NF. apply flagged_cons. apply neg_flag_spec. exact F.
Qed.

Lemma base_call_only_paths ps h : base_call (mkBase ps [] [] [] []) h = match_values (map Some (hierarchy_paths h)) ps.
Proof. unfold base_call, do_paths, do_descs, do_tags, do_props, do_links. simpl. rewrite !andb_true_r. reflexivity. Qed.
Lemma base_call_only_descs gs h :
  base_call (mkBase [] gs [] [] []) h = forallb (match_values (map Some (hierarchy_descriptions h))) gs.
Proof. unfold base_call, do_paths, do_descs, do_tags, do_props, do_links. simpl. rewrite !andb_true_r. reflexivity. Qed.
Lemma base_call_only_tags gs h :
  base_call (mkBase [] [] gs [] []) h = forallb (match_values (map Some (hierarchy_tags h))) gs.
Proof. unfold base_call, do_paths, do_descs, do_tags, do_props, do_links. simpl. rewrite !andb_true_r. reflexivity. Qed.
Lemma base_call_only_props gs h :
  base_call (mkBase [] [] [] gs []) h = forallb (match_key_values (hierarchy_properties h)) gs.
Proof. unfold base_call, do_paths, do_descs, do_tags, do_props, do_links. simpl. rewrite !andb_true_r. reflexivity. Qed.
Lemma base_call_only_links gs h :
  base_call (mkBase [] [] [] [] gs) h = forallb (match_values_lists (hierarchy_links h)) gs.
Proof. unfold base_call, do_paths, do_descs, do_tags, do_props, do_links. simpl. reflexivity. Qed.

Lemma match_values_single vs p : match_values vs [p] = value_pattern_holds (map or_empty vs) p.
Proof. unfold match_values. simpl. apply orb_false_r. Qed.

(* a negated pattern selects exactly the complement of what the pattern selects, for each of the five options *)
Theorem neg_is_complement_proof : forall (h : hier) (c : N) (p k : str), is_flag c -> ~ flagged p ->
  base_call (mkBase [c :: p] [] [] [] []) h = negb (base_call (mkBase [p] [] [] [] []) h) /\
  base_call (mkBase [] [[c :: p]] [] [] []) h = negb (base_call (mkBase [] [[p]] [] [] []) h) /\
  base_call (mkBase [] [] [[c :: p]] [] []) h = negb (base_call (mkBase [] [] [[p]] [] []) h) /\
  base_call (mkBase [] [] [] [[(k, c :: p)]] []) h = negb (base_call (mkBase [] [] [] [[(k, p)]] []) h) /\
  base_call (mkBase [] [] [] [] [[c :: p]]) h = negb (base_call (mkBase [] [] [] [] [[p]]) h).
Proof.
  intros h c p k F NF.
  rewrite !base_call_only_paths, !base_call_only_descs, !base_call_only_tags, !base_call_only_props, !base_call_only_links.
  unfold match_values_lists. cbn [forallb]. rewrite !andb_true_r, !match_values_single.
  rewrite !(vph_neg _ c p F), !(vph_pos _ p NF).
  unfold match_key_values. cbn [existsb]. rewrite !orb_false_r. rewrite (kph_neg _ k c p F), (kph_pos _ k p NF).
  repeat split; reflexivity.
Qed.

Lemma match_values_app vs g1 g2 : g1 <> [] -> g2 <> [] ->
  match_values vs (g1 ++ g2) = match_values vs g1 || match_values vs g2.
Proof.
  intros N1 N2. unfold match_values. destruct g1 as [|a r]; [contradiction|]. destruct g2 as [|b r2]; [contradiction|].
  change ((a :: r) ++ b :: r2) with (a :: (r ++ b :: r2)). rewrite <- existsb_app. reflexivity.
Qed.

Lemma match_key_values_app d g1 g2 : g1 <> [] -> g2 <> [] ->
  match_key_values d (g1 ++ g2) = match_key_values d g1 || match_key_values d g2.
Proof.
  intros N1 N2. unfold match_key_values. destruct g1 as [|a r]; [contradiction|]. destruct g2 as [|b r2]; [contradiction|].
  change ((a :: r) ++ b :: r2) with (a :: (r ++ b :: r2)). rewrite <- existsb_app. reflexivity.
Qed.

(* the values given to one occurrence of an option are alternatives: the selection is the union *)
Theorem values_are_union_proof : forall (h : hier) (g1 g2 : list str) (q1 q2 : list (str * str)),
  g1 <> [] -> g2 <> [] -> q1 <> [] -> q2 <> [] ->
  base_call (mkBase (g1 ++ g2) [] [] [] []) h = base_call (mkBase g1 [] [] [] []) h || base_call (mkBase g2 [] [] [] []) h /\
  base_call (mkBase [] [g1 ++ g2] [] [] []) h = base_call (mkBase [] [g1] [] [] []) h || base_call (mkBase [] [g2] [] [] []) h /\
  base_call (mkBase [] [] [g1 ++ g2] [] []) h = base_call (mkBase [] [] [g1] [] []) h || base_call (mkBase [] [] [g2] [] []) h /\
  base_call (mkBase [] [] [] [q1 ++ q2] []) h = base_call (mkBase [] [] [] [q1] []) h || base_call (mkBase [] [] [] [q2] []) h /\
  base_call (mkBase [] [] [] [] [g1 ++ g2]) h = base_call (mkBase [] [] [] [] [g1]) h || base_call (mkBase [] [] [] [] [g2]) h.
Proof.
  intros h g1 g2 q1 q2 N1 N2 M1 M2.
  rewrite !base_call_only_paths, !base_call_only_descs, !base_call_only_tags, !base_call_only_props, !base_call_only_links.
  unfold match_values_lists. cbn [forallb]. rewrite !andb_true_r.
  rewrite !(match_values_app _ g1 g2 N1 N2), (match_key_values_app _ q1 q2 M1 M2). repeat split; reflexivity.
Qed.

(* repeated occurrences of an option, and different options, are conjunctions: the selection is the intersection *)
Theorem options_are_intersection_proof : forall (h : hier) ps d1 d2 t1 t2 p1 p2 l1 l2,
  base_call (mkBase ps (d1 ++ d2) (t1 ++ t2) (p1 ++ p2) (l1 ++ l2)) h =
  base_call (mkBase ps d1 t1 p1 l1) h && base_call (mkBase [] d2 t2 p2 l2) h.
Proof.
  intros. unfold base_call, do_paths, do_descs, do_tags, do_props, do_links. simpl.
  rewrite !forallb_app.
  destruct (match_values (map Some (hierarchy_paths h)) ps); simpl; auto.
  repeat match goal with |- context [forallb ?f ?l] => destruct (forallb f l); simpl; auto end.
Qed.

Theorem options_split_proof : forall (f : base_filter) (h : hier),
  base_call f h = base_call (mkBase (f_paths f) [] [] [] []) h && base_call (mkBase [] (f_descs f) [] [] []) h &&
                  base_call (mkBase [] [] (f_tags f) [] []) h && base_call (mkBase [] [] [] (f_props f) []) h &&
                  base_call (mkBase [] [] [] [] (f_links f)) h.
Proof.
  intros. rewrite base_call_only_paths, base_call_only_descs, base_call_only_tags, base_call_only_props, base_call_only_links.
  reflexivity.
Qed.

(* ---------- inheritance *)
Definition positive (f : base_filter) : Prop :=
  (forall p, In p (f_paths f) -> ~ flagged p) /\
  (forall g p, In g (f_descs f) -> In p g -> ~ flagged p) /\
  (forall g p, In g (f_tags f) -> In p g -> ~ flagged p) /\
  (forall g kp, In g (f_props f) -> In kp g -> ~ flagged (snd kp)) /\
  (forall g p, In g (f_links f) -> In p g -> ~ flagged p).
Definition defines (n : meta) (k : str) : Prop := exists v, In (k, v) (m_properties n).

Lemma pat_sat_mono (V W : str -> Prop) p : ~ flagged p -> (forall v, V v -> W v) -> pat_sat V p -> pat_sat W p.
Proof.
  intros NF M H. inversion H as [c q Fl Hn | p' Hnf [v [Hv Hw]]]; subst.
  - exfalso. apply NF. apply flagged_cons. exact Fl.
  - apply ps_pos; auto. exists v. auto.
Qed.

Lemma group_sat_mono {A} (P Q : A -> Prop) g : (forall x, In x g -> P x -> Q x) -> group_sat P g -> group_sat Q g.
Proof. intros M [H|[x [Hi Hx]]]; [left; auto | right; exists x; auto]. Qed.

Lemma path_value_ext h ext v : path_value h v -> path_value (h ++ ext) v.
Proof. intros [p [s [E [N Ev]]]]. exists p, (s ++ ext). subst h. rewrite app_assoc. auto. Qed.
Lemma desc_value_ext h ext v : desc_value h v -> desc_value (h ++ ext) v.
Proof. intros [n [Hi E]]. exists n. split; auto. apply in_app_iff. auto. Qed.
Lemma tag_value_ext h ext v : tag_value h v -> tag_value (h ++ ext) v.
Proof. intros [n [Hi E]]. exists n. split; auto. apply in_app_iff. auto. Qed.
Lemma link_value_ext h ext v : link_value h v -> link_value (h ++ ext) v.
Proof. intros [n [u [nm [Hi E]]]]. exists n, u, nm. split; [apply in_app_iff; auto | exact E]. Qed.
Lemma prop_value_ext h ext k v : (forall n, In n ext -> ~ defines n k) -> prop_value h k v -> prop_value (h ++ ext) k v.
Proof.
  intros ND [l1 [l2 [E Hn]]]. exists l1, (l2 ++ flat_map m_properties ext). split.
  - rewrite flat_map_app, E, <- app_assoc. reflexivity.
  - intros v' Hi. apply in_app_iff in Hi. destruct Hi as [Hi|Hi]; [apply (Hn v'); exact Hi|].
    apply in_flat_map in Hi. destruct Hi as [n [Hne Hin]]. apply (ND n Hne). exists v'. exact Hin.
Qed.

(* whatever holds of a suite for a filter made of positive patterns holds of every suite and test below it
   (for properties: unless a node below redefines a key the filter mentions) *)
Theorem inherit_proof : forall (f : base_filter) (h ext : hier),
  positive f ->
  (forall n g kp, In n ext -> In g (f_props f) -> In kp g -> ~ defines n (fst kp)) ->
  base_call f h = true -> base_call f (h ++ ext) = true.
Proof.
  intros f h ext [P1 [P2 [P3 [P4 P5]]]] ND H. apply base_call_spec in H. apply base_call_spec.
  destruct H as [H1 [H2 [H3 [H4 H5]]]]. unfold base_spec, groups_sat in *. repeat split.
  - revert H1. apply group_sat_mono. intros p Hp. apply pat_sat_mono; auto. intros v. apply path_value_ext.
  - intros g Hg. generalize (H2 g Hg). apply group_sat_mono. intros p Hp. apply pat_sat_mono; eauto.
    intros v. apply desc_value_ext.
  - intros g Hg. generalize (H3 g Hg). apply group_sat_mono. intros p Hp. apply pat_sat_mono; eauto.
    intros v. apply tag_value_ext.
  - intros g Hg. generalize (H4 g Hg). apply group_sat_mono. intros kp Hkp. apply pat_sat_mono; eauto.
    intros v. apply prop_value_ext. intros n Hn. apply (ND n g kp); auto.
  - intros g Hg. generalize (H5 g Hg). apply group_sat_mono. intros p Hp. apply pat_sat_mono; eauto.
    intros v. apply link_value_ext.
Qed.

(* ---------- the empty filter *)
Lemma nonempty_false {A} (l : list A) : nonempty l = false -> l = [].
Proof. destruct l; [auto | discriminate]. Qed.

Theorem empty_selects_all_proof :
  (forall f h, test_bool f = false -> test_call f h = true) /\
  (forall keep anc l, (forall h, keep h = true) -> all_tests_h anc (filter_suites keep anc l) = all_tests_h anc l) /\
  (forall suites f, filter_bool f = false -> forallb is_empty suites = false -> load_suites suites f = Ok suites).
Proof.
  split; [|split].
  - intros [[ps ds ts prs ls] en di] h H. unfold test_bool, base_bool in H. simpl in H.
    repeat (apply orb_false_iff in H; destruct H as [H ?]).
    repeat match goal with X : nonempty _ = false |- _ => apply nonempty_false in X end. subst.
    match goal with X : en || di = false |- _ => apply orb_false_iff in X; destruct X; subst end.
    reflexivity.
  - intros keep anc l K. rewrite all_tests_filter_suites.
    induction (all_tests_h anc l) as [|x r IH]; simpl; auto. rewrite K. f_equal. exact IH.
  - intros suites f B E. unfold load_suites. rewrite E, B. reflexivity.
Qed.

(* ====================================================================== Part 5: report-based selection *)
Definition names (h : hier) : list str := map m_name h.
Definition dotfree (s : str) : Prop := ~ In c_dot s.

(* texts searched by --grep, declaratively *)
Inductive log_text : steplog -> str -> Prop :=
| lt_log lvl m t : log_text (LLog lvl m t) m
| lt_check d ok det t : log_text (LCheck d ok det t) d
| lt_check_details d ok x t : x <> [] -> log_text (LCheck d ok (Some x) t) x
| lt_att_file d fn img t : log_text (LAttachment d fn img t) fn
| lt_att_desc d fn img t : log_text (LAttachment d fn img t) d
| lt_url u d t : log_text (LUrl d u t) u
| lt_url_desc u d t : log_text (LUrl d u t) d.
Definition step_text (s : step) (x : str) : Prop := x = st_description s \/ exists l, In l (st_logs s) /\ log_text l x.
Definition result_text (r : result) (x : str) : Prop := exists s, In s (r_steps r) /\ step_text s x.

Definition status_flags (a : cli_args) : bool := a_passed a || a_failed a || a_skipped a || a_non_passed a.
Definition status_wanted (a : cli_args) (s : str) : Prop :=
  (a_passed a = true /\ s = s_passed) \/
  ((a_failed a = true \/ a_non_passed a = true) /\ s = s_failed) \/
  ((a_skipped a = true \/ a_non_passed a = true) /\ s = s_skipped).

(* what the report-based criteria ask of a test result found in the report (hierarchy rh, result rt) *)
Definition report_criteria (re_search : str -> str -> bool) (a : cli_args) (rh : hier) (rt : test_result) : Prop :=
  base_spec (args_base a) rh /\
  (status_flags a = true -> exists s, r_status (t_result rt) = Some s /\ status_wanted a s) /\
  (a_enabled a = true -> r_status (t_result rt) <> Some s_disabled) /\
  (a_disabled a = true -> r_status (t_result rt) = Some s_disabled) /\
  (forall p, a_grep a = Some p -> p <> [] -> exists txt, result_text (t_result rt) txt /\ re_search p txt = true).

Lemma iter_grepable_log_spec l x : In x (iter_grepable_log l) <-> log_text l x.
Proof.
  destruct l as [lvl m t|d ok det t|d fn img t|d u t]; simpl.
  - split; [intros [H|[]]; subst; constructor | intros H; inversion H; auto].
  - destruct det as [[|c r]|]; simpl.
    + split; [intros [H|[]]; subst; constructor | intros H; inversion H; subst; auto; contradiction].
    + split.
      * intros [H|[H|[]]]; subst; constructor. discriminate.
      * intros H; inversion H; subst; auto.
    + split; [intros [H|[]]; subst; constructor | intros H; inversion H; auto].
  - split; [intros [H|[H|[]]]; subst; constructor | intros H; inversion H; auto].
  - split; [intros [H|[H|[]]]; subst; constructor | intros H; inversion H; auto].
Qed.

Lemma iter_grepable_spec steps x : In x (iter_grepable steps) <-> exists s, In s steps /\ step_text s x.
Proof.
  unfold iter_grepable, step_text. rewrite in_flat_map. split.
  - intros [s [Hs [H|H]]]; exists s; split; auto.
    apply in_flat_map in H. destruct H as [l [Hl Hx]]. right. exists l. split; auto. apply iter_grepable_log_spec. exact Hx.
  - intros [s [Hs [H|[l [Hl Hx]]]]]; exists s; split; auto.
    + left. auto.
    + right. apply in_flat_map. exists l. split; auto. apply iter_grepable_log_spec. exact Hx.
Qed.

Lemma grep_steps_spec g r : grep_steps g (r_steps r) = true <-> exists txt, result_text r txt /\ g txt = true.
Proof.
  unfold grep_steps, result_text. rewrite existsb_exists. split.
  - intros [x [Hi Hg]]. exists x. split; auto. apply iter_grepable_spec. exact Hi.
  - intros [x [Hi Hg]]. exists x. split; auto. apply iter_grepable_spec. exact Hi.
Qed.

Lemma in_if {A} (b : bool) (l : list A) x : In x (if b then l else []) <-> b = true /\ In x l.
Proof. destruct b; simpl; intuition discriminate. Qed.

Lemma status_in_spec st l : status_in st l = true <-> exists s, st = Some s /\ In s l.
Proof.
  unfold status_in. destruct st as [s|].
  - rewrite existsb_exists. split.
    + intros [x [Hi E]]. apply str_eqb_eq in E. subst x. exists s. auto.
    + intros [x [E Hi]]. inversion E; subst x. exists s. split; auto. apply str_eqb_refl.
  - split; [discriminate|]. intros [s [E _]]. discriminate.
Qed.

Lemma status_is_disabled_spec st : status_is_disabled st = true <-> st = Some s_disabled.
Proof.
  unfold status_is_disabled. destruct st as [s|].
  - rewrite str_eqb_eq. split; intros H; [subst; auto | inversion H; auto].
  - split; discriminate.
Qed.

Definition statuses_of (a : cli_args) : list str :=
  (if a_passed a then [s_passed] else []) ++ (if a_failed a then [s_failed] else []) ++
  (if a_skipped a then [s_skipped] else []) ++ (if a_non_passed a then [s_failed; s_skipped] else []).

Lemma statuses_of_in a s : In s (statuses_of a) <-> status_wanted a s.
Proof.
  unfold statuses_of, status_wanted. rewrite !in_app_iff, !in_if. simpl. intuition (subst; auto).
Qed.

Lemma statuses_of_nil a : statuses_of a = [] <-> status_flags a = false.
Proof.
  unfold statuses_of, status_flags. destruct (a_passed a), (a_failed a), (a_skipped a), (a_non_passed a); simpl;
    split; intros; try discriminate; reflexivity.
Qed.

Lemma result_call_cli re_search a f rh rt :
  make_result_filter re_search a = Ok f ->
  (result_call f rh rt = true <-> report_criteria re_search a rh rt).
Proof.
  unfold make_result_filter. destruct (a_disabled a && a_enabled a); [discriminate|]. intros E. inversion E; subst f; clear E.
  fold (statuses_of a). unfold result_call, result_criteria, report_criteria.
  cbn [rf_base rf_statuses rf_enabled rf_disabled rf_grep].
  rewrite !andb_true_iff, base_call_spec.
  set (st := r_status (t_result rt)).
  assert (match statuses_of a with [] => true | _ :: _ => status_in st (statuses_of a) end = true <->
          (status_flags a = true -> exists s, st = Some s /\ status_wanted a s)) as S1.
  { destruct (statuses_of a) as [|x r] eqn:L.
    - apply statuses_of_nil in L. rewrite L. split; auto. intros; discriminate.
    - assert (status_flags a = true) as Fl.
      { destruct (status_flags a) eqn:X; auto. apply statuses_of_nil in X. congruence. }
      rewrite <- L. rewrite status_in_spec. split.
      + intros [s [Es Hi]] _. exists s. split; auto. apply statuses_of_in. exact Hi.
      + intros H. destruct (H Fl) as [s [Es Hw]]. exists s. split; auto. apply statuses_of_in. exact Hw. }
  assert ((if a_enabled a then negb (status_is_disabled st) else true) = true <-> (a_enabled a = true -> st <> Some s_disabled)) as S2.
  { destruct (a_enabled a).
    - rewrite negb_true_iff. split.
      + intros H _ X. apply status_is_disabled_spec in X. congruence.
      + intros H. destruct (status_is_disabled st) eqn:X; auto. apply status_is_disabled_spec in X. exfalso. apply H; auto.
    - split; auto. intros _ X. discriminate. }
  assert ((if a_disabled a then status_is_disabled st else true) = true <-> (a_disabled a = true -> st = Some s_disabled)) as S3.
  { destruct (a_disabled a).
    - rewrite status_is_disabled_spec. split; auto.
    - split; auto. intros _ X. discriminate. }
  assert (match match grep_truthy (a_grep a) with Some p => Some (re_search p) | None => None end with
          | None => true | Some g => grep_steps g (r_steps (t_result rt)) end = true <->
          (forall p, a_grep a = Some p -> p <> [] -> exists txt, result_text (t_result rt) txt /\ re_search p txt = true)) as S4.
  { unfold grep_truthy. destruct (a_grep a) as [[|c q]|].
    - split; auto. intros _ p E N. inversion E; subst. contradiction.
    - rewrite grep_steps_spec. split.
      + intros H p E N. inversion E; subst. exact H.
      + intros H. apply (H (c :: q)); auto. discriminate.
    - split; auto. intros _ p E. discriminate. }
  rewrite S1, S2, S3, S4. tauto.
Qed.

(* ---------- paths identify tests when names contain no dot *)
Lemma join_aux x : forall y t1 t2, dotfree x -> dotfree y ->
  (t1 = [] \/ exists u, t1 = c_dot :: u) -> (t2 = [] \/ exists u, t2 = c_dot :: u) ->
  x ++ t1 = y ++ t2 -> x = y /\ t1 = t2.
Proof.
  induction x as [|a x IH]; intros y t1 t2 Dx Dy T1 T2 E.
  - destruct y as [|b y]; simpl in E; auto.
    exfalso. destruct T1 as [T1|[u T1]]; subst t1; [discriminate|]. inversion E; subst. apply Dy. left. reflexivity.
  - destruct y as [|b y]; simpl in E.
    + exfalso. destruct T2 as [T2|[u T2]]; subst t2; [discriminate|]. inversion E; subst. apply Dx. left. reflexivity.
    + inversion E; subst. destruct (IH y t1 t2) as [E1 E2]; auto.
      * intros X. apply Dx. right. exact X.
      * intros X. apply Dy. right. exact X.
      * subst. auto.
Qed.

Lemma join_dot_cons x r : join_dot (x :: r) = x ++ match r with [] => [] | _ :: _ => c_dot :: join_dot r end.
Proof. destruct r; simpl; [rewrite app_nil_r|]; reflexivity. Qed.

Lemma join_dot_inj : forall l1 l2, l1 <> [] -> l2 <> [] -> Forall dotfree l1 -> Forall dotfree l2 ->
  join_dot l1 = join_dot l2 -> l1 = l2.
Proof.
  induction l1 as [|x r IH]; intros l2 N1 N2 D1 D2 E; [contradiction|].
  destruct l2 as [|y r2]; [contradiction|].
  rewrite !join_dot_cons in E. inversion D1; subst. inversion D2; subst.
  apply join_aux in E; auto.
  - destruct E as [E1 E2]. subst y. destruct r as [|x2 r], r2 as [|y2 r2]; try discriminate; auto.
    inversion E2. f_equal. apply IH; auto; discriminate.
  - destruct r; [left; auto | right; eexists; reflexivity].
  - destruct r2; [left; auto | right; eexists; reflexivity].
Qed.

Section suite_result_induction.
  Variable P : suite_result -> Prop.
  Hypothesis step : forall m a b c d ts subs, Forall P subs -> P (SuiteResult m a b c d ts subs).
  Fixpoint suite_result_ind2 (s : suite_result) : P s :=
    match s with
    | SuiteResult m a b c d ts subs =>
        step m a b c d ts subs ((fix go (l : list suite_result) : Forall P l :=
                                   match l with
                                   | [] => Forall_nil P
                                   | x :: r => Forall_cons x (suite_result_ind2 x) (go r)
                                   end) subs)
    end.
End suite_result_induction.

Lemma rtests_h_nonempty s : forall anc rh rt, In (rh, rt) (rtests_h anc s) -> rh <> [].
Proof.
  induction s as [m a b c d ts subs IH] using suite_result_ind2. intros anc rh rt H. simpl in H.
  apply in_app_iff in H. destruct H as [H|H].
  - apply in_map_iff in H. destruct H as [t [E _]]. inversion E. destruct (anc ++ [m]); discriminate.
  - apply in_flat_map in H. destruct H as [y [Hy Hin]]. rewrite Forall_forall in IH. eapply IH; eauto.
Qed.

Lemma tests_h_nonempty s : forall anc h, In h (tests_h anc s) -> h <> [].
Proof.
  induction s as [m d ts subs IH] using psuite_ind2. intros anc h H. simpl in H. apply in_app_iff in H. destruct H as [H|H].
  - apply in_map_iff in H. destruct H as [t [E _]]. subst h. destruct (anc ++ [(m, d)]); discriminate.
  - apply in_flat_map in H. destruct H as [y [Hy Hin]]. rewrite Forall_forall in IH. eapply IH; eauto.
Qed.

Lemma from_tests_call_spec paths h : from_tests_call paths h = true <-> In (path_of (map fst h)) paths.
Proof.
  unfold from_tests_call. rewrite existsb_exists. split.
  - intros [x [Hi E]]. apply str_eqb_eq in E. subst x. exact Hi.
  - intros H. exists (path_of (map fst h)). split; auto. apply str_eqb_refl.
Qed.

Lemma from_report_paths_spec f rep p :
  In p (from_report_paths f rep) <-> exists rh rt, In (rh, rt) (report_tests_h rep) /\ result_call f rh rt = true /\ p = path_of rh.
Proof.
  unfold from_report_paths. rewrite in_map_iff. split.
  - intros [[rh rt] [E H]]. apply filter_In in H. simpl in *. exists rh, rt. intuition.
  - intros [rh [rt [Hi [Hc E]]]]. exists (rh, rt). split; auto. apply filter_In. auto.
Qed.

Definition report_dotfree (rep : report) : Prop :=
  forall rh rt, In (rh, rt) (report_tests_h rep) -> Forall dotfree (names rh).

Lemma selects_filter_in {A} (P : A -> Prop) (f : A -> bool) l :
  (forall x, In x l -> (f x = true <-> P x)) -> selects P l (filter f l).
Proof.
  induction l as [|x r IH]; intros E; simpl.
  - constructor.
  - assert (selects P r (filter f r)) as Hr by (apply IH; intros y Hy; apply E; right; exact Hy).
    destruct (f x) eqn:F.
    + apply sel_keep; auto. apply E; [left; reflexivity | exact F].
    + apply sel_drop; auto. intros X. apply E in X; [congruence | left; reflexivity].
Qed.

Theorem from_report_proof : forall (re_search : str -> str -> bool) (a : cli_args) (rep : report) (suites : list psuite) (f : any_filter),
  uses_report a = true ->
  make_test_filter re_search a rep = Ok f ->
  report_dotfree rep ->
  (forall h, In h (all_tests_h [] suites) -> Forall dotfree (names (map fst h))) ->
  selects (fun h => exists rh rt, In (rh, rt) (report_tests_h rep) /\ names rh = names (map fst h) /\
                                  report_criteria re_search a rh rt)
          (all_tests_h [] suites) (all_tests_h [] (filter_suites (filter_call f) [] suites)).
Proof.
  intros re_search a rep suites f U M DR DP. unfold make_test_filter in M. rewrite U in M.
  destruct (make_result_filter re_search a) as [rf|e] eqn:RF; [|discriminate]. inversion M; subst f; clear M.
  rewrite all_tests_filter_suites. apply selects_filter_in. intros h Hh. simpl filter_call.
  rewrite from_tests_call_spec, from_report_paths_spec.
  assert (map fst h <> []) as NE.
  { unfold all_tests_h in Hh. apply in_flat_map in Hh. destruct Hh as [s [_ Hs]]. apply tests_h_nonempty in Hs.
    destruct h; [contradiction | discriminate]. }
  split.
  - intros [rh [rt [Hi [Hc E]]]]. exists rh, rt. split; auto. split.
    + symmetry. unfold path_of in E. apply join_dot_inj; [| | | |exact E].
      * unfold names. destruct (map fst h); [contradiction | discriminate].
      * unfold report_tests_h in Hi. apply in_flat_map in Hi. destruct Hi as [s [_ Hs]]. apply rtests_h_nonempty in Hs.
        destruct rh; [contradiction | discriminate].
      * apply (DP h Hh).
      * apply (DR rh rt Hi).
    + apply (result_call_cli re_search a rf rh rt RF). exact Hc.
  - intros [rh [rt [Hi [En Hc]]]]. exists rh, rt. split; auto. split.
    + apply (result_call_cli re_search a rf rh rt RF). exact Hc.
    + unfold path_of. unfold names in En. rewrite En. reflexivity.
Qed.

(* ---------- the whole command-line path, without report: what `lcc run <filter>` keeps *)
Theorem select_cli_proof : forall re_search (a : cli_args) (rep : report) (suites l : list psuite),
  uses_report a = false ->
  lcc_select re_search a rep suites = Ok l ->
  let f := mkTestFilter (args_base a) (a_enabled a) (a_disabled a) in
  (test_bool f = true -> selects (test_spec f) (all_tests_h [] suites) (all_tests_h [] l) /\ prune_rel (test_spec f) [] suites l) /\
  (test_bool f = false -> l = suites).
Proof.
  intros re_search a rep suites l U H f. unfold lcc_select, make_test_filter in H. rewrite U in H.
  unfold make_plain_test_filter in H. destruct (a_disabled a && a_enabled a); [discriminate|].
  fold f in H. unfold load_suites in H. destruct (forallb is_empty suites); [discriminate|]. simpl filter_bool in H.
  split; intros B; rewrite B in H.
  - change (filter_call (FTest f)) with (test_call f) in H.
    destruct (filter_suites (test_call f) [] suites) as [|x r] eqn:E; [discriminate|].
    inversion H; subst l. rewrite <- E. split; [apply selected_iff_proof | apply prune_spec_proof].
  - inversion H. reflexivity.
Qed.

(* ====================================================================== Part 6: concrete objects for the non-vacuity examples *)
Definition w_a : str := [97]%N.
Definition w_b : str := [98]%N.
Definition w_c : str := [99]%N.
Definition w_t1 : str := [116; 49]%N.
Definition w_t2 : str := [116; 50]%N.
Definition w_slow : str := [115; 108; 111; 119]%N.
Definition w_prio : str := [112; 114; 105; 111]%N.
Definition w_low : str := [108; 111; 119]%N.
Definition w_meta (name : str) (tags : list str) (props : list (str * str)) : meta := mkMeta name name tags props [].
(* a{ t1[slow, prio=low], t2, b[slow]{ c (disabled) } } *)
Definition w_tree : list psuite :=
  [PSuite (w_meta w_a [] []) false
     [(w_meta w_t1 [w_slow] [(w_prio, w_low)], false); (w_meta w_t2 [] [], false)]
     [PSuite (w_meta w_b [w_slow] []) false [(w_meta w_c [] [], true)] []]].
Definition w_tags (ps : list str) : test_filter := mkTestFilter (mkBase [] [] [ps] [] []) false false.
Definition w_result (st : str) : result := mkResult None None (Some st) None [].
Definition w_report : report :=
  mkReport [] [] None None None 1%Z None None
    [SuiteResult (w_meta w_a [] []) None None None None
       [mkTest (w_meta w_t1 [] []) (w_result s_passed); mkTest (w_meta w_t2 [] []) (w_result s_failed)]
       [SuiteResult (w_meta w_b [] []) None None None None [mkTest (w_meta w_c [] []) (w_result s_skipped)] []]].
Definition w_args_failed : cli_args := mkArgs [] [] [] [] [] false true false false false false None false.
(* dotted names: project a{ "b.c" }, report "a.b"{ c } *)
Definition w_bc : str := [98; 46; 99]%N.
Definition w_ab : str := [97; 46; 98]%N.
Definition w_tree_dotted : list psuite := [PSuite (w_meta w_a [] []) false [(w_meta w_bc [] [], false)] []].
Definition w_report_dotted : report :=
  mkReport [] [] None None None 1%Z None None
    [SuiteResult (w_meta w_ab [] []) None None None None [mkTest (w_meta w_c [] []) (w_result s_failed)] []].
