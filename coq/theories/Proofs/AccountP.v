(* Layer 3, accounting (C01): what a test task puts on the event queue at the level of results. Whatever its scripts do
   (logs, steps, threads, raises of every kind), an executed test fires exactly one test_start and — unless a BaseException
   escaped — exactly one test_end, in that order, both from its worker thread; a skipped test exactly one test_skipped, a
   disabled one exactly one test_disabled; no thread it starts fires any result-level event.  With the dispatch-loop theorem
   "every task exactly once" (SchedP) and the writer adding one test result per such event (Model/Writer.v add_test), every
   scheduled test is accounted for exactly once. *)
From Coq Require Import List Arith Bool Lia.
Import ListNotations.
From LCC Require Import Base.Util Model.Proj Model.Sched Model.Fixture Model.TaskSem Model.TaskSemEq
     Proofs.ProtocolP.

Definition rl (out : list atom) : list revt := filter result_level (events_of out).

Lemma rl_app a b : rl (a ++ b) = rl a ++ rl b.
Proof. unfold rl. rewrite events_of_app. apply filter_app. Qed.

Definition quiet_pending (s : tstate) : Prop := Forall (fun e => result_level e = false) (ts_pending s).
Definition acc (s : tstate) (R : list revt) : Prop := rl (ts_out s) = R /\ quiet_pending s.

Lemma rl_fires l : Forall (fun e => result_level e = false) l -> rl (map AtFire l) = [].
Proof.
  induction 1 as [|e r He Hr IH]; [reflexivity|]. unfold rl in *. simpl. rewrite He. exact IH.
Qed.

Lemma acc_emit a s R : (forall e, a <> AtFire e) -> acc s R -> acc (emit a s) R.
Proof.
  intros Hn [A Q]. split; [|exact Q]. unfold emit. cbn [ts_out]. rewrite rl_app, A.
  destruct a; try (unfold rl; simpl; apply app_nil_r). exfalso. eapply Hn. reflexivity.
Qed.

Lemma acc_fire e s R : result_level e = false -> acc s R -> acc (fire e s) R.
Proof.
  intros He [A Q]. split; [|exact Q]. unfold fire, emit. cbn [ts_out]. rewrite rl_app, A. unfold rl. simpl. rewrite He. apply app_nil_r.
Qed.

Lemma acc_fire_result e s R : result_level e = true -> acc s R -> acc (fire e s) (R ++ [e]).
Proof.
  intros He [A Q]. split; [|exact Q]. unfold fire, emit. cbn [ts_out]. rewrite rl_app, A. unfold rl. simpl. rewrite He. reflexivity.
Qed.

Lemma acc_hold e s R : result_level e = false -> acc s R -> acc (hold e s) R.
Proof. intros He [A Q]. split; [exact A|]. unfold quiet_pending, hold. cbn [ts_pending]. apply Forall_app. split; [exact Q|constructor; [exact He|constructor]]. Qed.

Lemma acc_flush s R : acc s R -> acc (flush s) R.
Proof.
  intros [A Q]. split; [|constructor]. unfold flush. cbn [ts_out]. rewrite rl_app, A, (rl_fires _ Q). apply app_nil_r.
Qed.

Lemma acc_set_step_field d s R : acc s R -> acc (set_step_field d s) R.
Proof. intros [A Q]. split; assumption. Qed.

Lemma acc_discard_or_fire is_class e s R : result_level e = false -> acc s R -> acc (discard_or_fire is_class e s) R.
Proof.
  intros He [A Q]. unfold discard_or_fire. destruct (rev (ts_pending s)) as [|last before] eqn:Er; [apply acc_fire; [exact He|split; assumption]|].
  destruct (is_class last); [|apply acc_fire; [exact He|split; assumption]].
  split; [exact A|]. unfold quiet_pending in *. cbn [ts_pending].
  assert (Hp : ts_pending s = rev before ++ [last]) by (rewrite <- (rev_involutive (ts_pending s)), Er; reflexivity).
  rewrite Hp in Q. apply Forall_app in Q as [Q _]. exact Q.
Qed.

Lemma acc_end_step th s R : acc s R -> acc (end_step th s) R.
Proof. intros H. unfold end_step. apply acc_set_step_field. apply acc_discard_or_fire; [reflexivity|exact H]. Qed.

Lemma acc_end_step_if_any th s R : acc s R -> acc (end_step_if_any th s) R.
Proof. intros H. unfold end_step_if_any. destruct (ts_step s); [apply acc_end_step; exact H|exact H]. Qed.

Lemma acc_set_step d th s R : acc s R -> acc (set_step d th s) R.
Proof. intros H. unfold set_step. apply acc_hold; [reflexivity|]. apply acc_set_step_field. apply acc_end_step_if_any. exact H. Qed.

Lemma acc_mark_failed s R : acc s R -> acc (mark_failed s) R.
Proof. intros H. unfold mark_failed. apply acc_emit; [intros e; discriminate|exact H]. Qed.

Lemma acc_do_log th lvl m s R : acc s R -> acc (fst (do_log th lvl m s)) R.
Proof.
  intros H. unfold do_log. cbn [fst]. apply acc_fire; [reflexivity|].
  destruct (Nat.eqb lvl 3); [apply acc_mark_failed|]; apply acc_flush; exact H.
Qed.

Lemma acc_do_check th ok m s R : acc s R -> acc (fst (do_check th ok m s)) R.
Proof.
  intros H. unfold do_check. cbn [fst]. apply acc_fire; [reflexivity|].
  destruct ok; [|apply acc_mark_failed]; apply acc_flush; exact H.
Qed.

Lemma acc_do_url th m s R : acc s R -> acc (do_url th m s) R.
Proof. intros H. unfold do_url. apply acc_fire; [reflexivity|apply acc_flush; exact H]. Qed.

Lemma acc_do_attach th m s R : acc s R -> acc (do_attach th m s) R.
Proof. intros H. unfold do_attach. apply acc_fire; [reflexivity|apply acc_flush; exact H]. Qed.

Lemma acc_spawn_creator s R : acc s R -> acc (spawn_creator s) R.
Proof.
  intros [A Q]. unfold spawn_creator. destruct (ts_pending s) as [|e r] eqn:Ep; [split; [exact A|unfold quiet_pending; rewrite Ep; constructor]|].
  unfold quiet_pending in Q. rewrite Ep in Q. inversion Q as [|e0 r0 He Hr [E1 E2]].
  destruct (is_step_start e); [split; [exact A|unfold quiet_pending; rewrite Ep; exact Q]|].
  split; [|exact Hr]. cbn [ts_out]. rewrite rl_app, A. unfold rl. simpl. rewrite He. apply app_nil_r.
Qed.

Lemma acc_join_all cs s R : acc s R -> acc (join_all cs s) R.
Proof.
  unfold join_all. revert s. induction cs as [|c r IH]; intros s H; [exact H|]. simpl. apply IH.
  apply acc_emit; [intros e; discriminate|exact H].
Qed.

(* ------------------------------------------------------------------ scripts *)
Definition kids_quiet (cs : list (owner * tpath * list atom)) : Prop := Forall (fun c => rl (snd c) = []) cs.
Definition sacc (x : sres) (R : list revt) : Prop := acc (sr_state x) R /\ kids_quiet (sr_children x).

Definition action_acc (a : action) : Prop :=
  forall o env tp x R, sacc x R -> sacc (step_action o env tp a x) R.

Lemma run_list_acc (body : list action) : Forall action_acc body ->
  forall o env tp x R, sacc x R ->
    sacc ((fix run_list (l0 : list action) (y : sres) : sres :=
             match l0 with [] => y | b :: r => run_list r (step_action o env tp b y) end) body x) R.
Proof. induction 1 as [|b r Hb Hr IH]; intros o env tp x R H; [exact H|]. apply IH. apply Hb. exact H. Qed.

Lemma fold_left_acc (sc : list action) : Forall action_acc sc ->
  forall o env tp x R, sacc x R -> sacc (fold_left (fun y a => step_action o env tp a y) sc x) R.
Proof. induction 1 as [|b r Hb Hr IH]; intros o env tp x R H; [exact H|]. simpl. apply IH. apply Hb. exact H. Qed.

Lemma close_script_acc x R : sacc x R -> sacc (close_script x) R.
Proof. intros [A K]. split; [apply acc_join_all; exact A|exact K]. Qed.

Lemma action_acc_all : forall n a, action_size a <= n -> action_acc a.
Proof.
  induction n as [|n IH]; intros a Hs.
  - destruct a; simpl in Hs; lia.
  - intros o env tp x R [A K]. destruct (sr_raised x) eqn:Er.
    { destruct a; cbn [step_action]; rewrite Er; split; assumption. }
    destruct a; cbn [step_action]; rewrite Er.
    + pose proof (acc_do_log tp level (MUser o tp payload) (sr_state x) R A) as H.
      destruct (do_log tp level (MUser o tp payload) (sr_state x)) as [s' f]. split; [exact H|exact K].
    + pose proof (acc_do_check tp ok (MUser o tp payload) (sr_state x) R A) as H.
      destruct (do_check tp ok (MUser o tp payload) (sr_state x)) as [s' f]. split; [exact H|exact K].
    + split; [apply acc_do_url; exact A|exact K].
    + split; [apply acc_do_attach; exact A|exact K].
    + split; [apply acc_set_step; exact A|exact K].
    + split; [apply acc_emit; [intros e; discriminate|exact A]|exact K].
    + split; [apply acc_emit; [intros e; discriminate|exact A]|exact K].
    + (* ASpawn *)
      assert (Fb : Forall action_acc body).
      { apply Forall_forall. intros b Hb. apply IH. simpl in Hs.
        assert (action_size b <= fold_right (fun b0 acc0 => action_size b0 + acc0) 0 body).
        { clear -Hb. induction body as [|b0 r IHr]; simpl in *; [tauto|]. destruct Hb as [->|Hb]; [lia|]. specialize (IHr Hb). lia. }
        lia. }
      set (s1 := spawn_creator (sr_state x)). set (ctp := tp ++ [sr_nchild x]).
      set (c0 := hold (RStepStart (ts_loc s1) (ts_step s1) ctp) (mkTs (ts_loc s1) (ts_step s1) [] [])).
      assert (C0 : sacc (mkSres c0 false [] None [] 0) []).
      { split; [|constructor]. apply acc_hold; [reflexivity|]. split; [reflexivity|constructor]. }
      pose proof (close_script_acc _ _ (run_list_acc body Fb o env ctp _ _ C0)) as [Ac Kc].
      set (cr := close_script _) in *.
      cbn [sr_state sr_children]. split.
      * apply acc_emit; [intros e; discriminate|]. apply acc_spawn_creator. exact A.
      * unfold kids_quiet in *. apply Forall_app. split; [exact K|]. apply Forall_app. split; [|exact Kc].
        constructor; [|constructor]. cbn [snd].
        assert (A1 : acc (match sr_raised cr with
                          | Some k => if is_exception k then fst (do_log ctp 3 MUnexpected (sr_state cr)) else sr_state cr
                          | None => sr_state cr end) []).
        { destruct (sr_raised cr) as [k|]; [|exact Ac]. destruct (is_exception k); [apply acc_do_log|]; exact Ac. }
        apply (acc_end_step ctp _ [] A1).
    + split; [apply acc_join_all; exact A|exact K].
    + split; [apply acc_emit; [intros e; discriminate|exact A]|exact K].
Qed.

Lemma interp_acc o tp env sc x R : sacc x R -> sacc (interp o tp env sc x) R.
Proof.
  intros H. unfold interp. apply close_script_acc. apply fold_left_acc; [|exact H].
  apply Forall_forall. intros a _. apply (action_acc_all (action_size a)). lia.
Qed.

Lemma run_script_acc o env sc s failed children R : acc s R -> kids_quiet children ->
  sacc (run_script o env sc s failed children) R.
Proof.
  intros A K. unfold run_script.
  assert (H0 : sacc (mkSres (emit (AtBegin o) s) failed children None [] 0) R).
  { split; [apply acc_emit; [intros e; discriminate|exact A]|exact K]. }
  pose proof (interp_acc o [] env sc _ R H0) as [A1 K1].
  destruct (sr_raised (interp o [] env sc (mkSres (emit (AtBegin o) s) failed children None [] 0))); [split; assumption|].
  split; [cbn [sr_state]; apply acc_emit; [intros e; discriminate|exact A1]|exact K1].
Qed.

(* ------------------------------------------------------------------ runner functions *)
Definition racc (r : rstate) (R : list revt) : Prop := acc (rs_t r) R /\ kids_quiet (rs_children r).

Lemma handle_exception_acc k suite s R : acc s R -> acc (handle_exception k suite s) R.
Proof.
  intros A. destruct k; cbn [handle_exception]; try (apply acc_do_log; exact A).
  - destruct suite; [apply acc_emit; [intros e; discriminate|]|]; apply acc_do_log; exact A.
  - apply acc_emit; [intros e; discriminate|]. apply acc_do_log; exact A.
Qed.

Lemma after_exception_acc k suite r R : racc r R -> racc (after_exception k suite r) R.
Proof.
  intros [A K]. unfold after_exception. destruct (is_exception k); split; cbn [rs_t rs_children]; try assumption.
  apply handle_exception_acc. exact A.
Qed.

Lemma call_sfun_acc env f r R : racc r R -> racc (fst (call_sfun env f r)) R.
Proof.
  intros [A K]. destruct f as [fx| |p sc|p sc]; cbn [call_sfun fst].
  - pose proof (run_script_acc (OFxSetup (fx_name fx)) env (fx_setup fx) _ (rs_failed r) _ R A K) as [A1 K1]. split; assumption.
  - split; assumption.
  - pose proof (run_script_acc (OSetupSuite p) env sc _ (rs_failed r) _ R A K) as [A1 K1]. split; assumption.
  - pose proof (run_script_acc (OSetupTest p) env sc _ (rs_failed r) _ R A K) as [A1 K1]. split; assumption.
Qed.

Lemma call_tfun_acc env f r R : racc r R -> racc (fst (call_tfun env f r)) R.
Proof.
  intros [A K]. destruct f as [fx|p sc|p sc]; cbn [call_tfun fst].
  - destruct (fx_generator fx); [|split; assumption]. cbn [fst].
    pose proof (run_script_acc (OFxTeardown (fx_name fx)) env (fx_teardown fx) _ (rs_failed r) _ R A K) as [A1 K1]. split; assumption.
  - pose proof (run_script_acc (OTeardownSuite p) env sc _ (rs_failed r) _ R A K) as [A1 K1]. split; assumption.
  - assert (A' : acc (emit (AtStatus (negb (rs_failed r))) (rs_t r)) R) by (apply acc_emit; [intros e; discriminate|exact A]).
    pose proof (run_script_acc (OTeardownTest p) env sc _ (rs_failed r) _ R A' K) as [A1 K1]. split; assumption.
Qed.

Lemma run_setup_funcs_acc env suite pairs : forall r kept R, racc r R -> racc (fst (run_setup_funcs env suite pairs r kept)) R.
Proof.
  induction pairs as [|[sf td] rest IH]; intros r kept R H; [exact H|]. destruct sf as [f|]; cbn [run_setup_funcs]; [|apply IH; exact H].
  pose proof (call_sfun_acc env f r R H) as H1. destruct (call_sfun env f r) as [r1 k]. cbn [fst] in H1.
  destruct k as [k|]; [cbn [fst]; apply after_exception_acc; exact H1|].
  destruct (rs_failed r1); [exact H1|apply IH; exact H1].
Qed.

Lemma run_teardown_list_acc env suite l : forall r R, racc r R -> racc (run_teardown_list env suite l r) R.
Proof.
  induction l as [|[f|] rest IH]; intros r R H; [exact H| |]; cbn [run_teardown_list]; [|apply IH; exact H].
  destruct (rs_died r); [exact H|].
  pose proof (call_tfun_acc env f r R H) as H1. destruct (call_tfun env f r) as [r1 k]. cbn [fst] in H1.
  destruct k as [k|]; apply IH; [apply after_exception_acc|]; exact H1.
Qed.

(* ------------------------------------------------------------------ the test task *)
Theorem test_run_accounts env p suite t hk fxs :
  let o := test_run env p suite t hk fxs in
  kids_quiet (to_children o) /\
  (to_res o <> TkDied -> rl (to_main o) = [RTestStart p; RTestEnd p]) /\
  (to_res o = TkDied -> rl (to_main o) = [RTestStart p]).
Proof.
  unfold test_run. set (pairs := (_, _) :: fixture_pairs fxs).
  set (r0 := mkRs (set_step SdSetupTest [] (fresh_cursor (LTest p) [AtFire (RTestStart p)])) false [] false).
  assert (R0 : racc r0 [RTestStart p]).
  { split; [|constructor]. apply acc_set_step. split; [reflexivity|constructor]. }
  assert (R1 : racc (fst (if any_setup pairs then run_setup_funcs env (Some suite) pairs r0 [] else (r0, only_teardowns pairs))) [RTestStart p]).
  { destruct (any_setup pairs); [apply run_setup_funcs_acc|]; exact R0. }
  destruct (if any_setup pairs then run_setup_funcs env (Some suite) pairs r0 [] else (r0, only_teardowns pairs)) as [r1 kept].
  cbn [fst] in R1.
  assert (Hdied : forall r, racc r [RTestStart p] -> rs_died r = true ->
            kids_quiet (to_children (finish r [])) /\ (to_res (finish r []) <> TkDied -> rl (to_main (finish r [])) = [RTestStart p; RTestEnd p]) /\
            (to_res (finish r []) = TkDied -> rl (to_main (finish r [])) = [RTestStart p])).
  { intros r [[A _] K] D. unfold finish. cbn [to_children to_res to_main]. rewrite D. split; [exact K|]. split; [congruence|intros _; exact A]. }
  destruct (rs_died r1) eqn:D1; [apply Hdied; assumption|].
  set (r2 := if rs_failed r1 then r1 else _).
  assert (R2 : racc r2 [RTestStart p]).
  { unfold r2. destruct (rs_failed r1); [exact R1|]. destruct R1 as [A1 K1].
    pose proof (run_script_acc (OBody p) env (tt_body t) (set_step (SdTest (tt_name t)) [] (rs_t r1)) false (rs_children r1)
                               [RTestStart p] (acc_set_step _ _ _ _ A1) K1) as [A2 K2].
    destruct (sr_raised _); [apply after_exception_acc|]; split; assumption. }
  destruct (rs_died r2) eqn:D2; [apply Hdied; assumption|].
  set (r3 := if any_teardown kept then _ else r2).
  assert (R3 : racc r3 [RTestStart p]).
  { unfold r3. destruct (any_teardown kept); [|exact R2]. unfold run_teardown_funcs. apply run_teardown_list_acc.
    destruct R2 as [A2 K2]. split; [apply acc_set_step; exact A2|exact K2]. }
  destruct (rs_died r3) eqn:D3; [apply Hdied; assumption|].
  destruct R3 as [A3 K3]. unfold finish. cbn [to_children to_res to_main rs_died rs_children rs_t]. split; [exact K3|].
  pose proof (acc_fire_result (RTestEnd p) _ _ eq_refl (acc_end_step_if_any [] _ _ A3)) as [A4 _].
  split; [intros _; exact A4|]. destruct (rs_failed r3); discriminate.
Qed.

(* every test task: exactly one of disabled / skipped / (start, end) *)
Theorem test_task_accounts pr reg force t md setup_md o :
  task_sem pr reg force t md setup_md = Some o -> t_kind t = KTest ->
  kids_quiet (to_children o) /\
  (to_res o <> TkDied ->
     rl (to_main o) = [RTestDisabled (t_path t)] \/
     (exists r, md = Skip r /\ rl (to_main o) = [RTestSkipped (t_path t) (shown_reason r)]) \/
     (md = Run /\ rl (to_main o) = [RTestStart (t_path t); RTestEnd (t_path t)])).
Proof.
  intros H Hk. unfold task_sem in H. rewrite Hk in H.
  destruct (find_test_in (p_suites pr) (t_path t)) as [[[s inh] tst]|]; [|discriminate].
  destruct ((inh || su_disabled s || tt_disabled tst) && negb force).
  - inversion H. split; [constructor|]. intros _. left. reflexivity.
  - destruct md as [|r]; inversion H.
    + destruct (test_run_accounts (env_of reg (parent_path (t_path t)) (Some (t_path t))) (t_path t) (parent_path (t_path t)) tst
                  (su_hooks s) (ok_list (get_fixtures_scheduled_for_test reg tst))) as [K [A _]].
      split; [exact K|]. intros Hd. right. right. split; [reflexivity|apply A; exact Hd].
    + split; [constructor|]. intros _. right. left. exists r. split; reflexivity.
Qed.

(* ------------------------------------------------------------------ setup / teardown phases (C07: brackets elided together) *)
(* the phase's start event is still held: nothing at all has been fired by this thread *)
Definition held (start : revt) (s : tstate) : Prop :=
  events_of (ts_out s) = [] /\
  ((ts_step s = None /\ ts_pending s = [start]) \/
   (exists d th, ts_step s = Some d /\ ts_pending s = [start; RStepStart (ts_loc s) (Some d) th])).

Section Phase.
  Variable start : revt.
  Hypothesis start_result : result_level start = true.
  Hypothesis start_not_step : is_step_start start = false.

  Lemma held_emit a s : (forall e, a <> AtFire e) -> held start s -> held start (emit a s).
  Proof.
    intros Hn [E P]. split; [|exact P]. unfold emit. cbn [ts_out]. rewrite events_of_app, E.
    destruct a; try reflexivity. exfalso. eapply Hn. reflexivity.
  Qed.

  Lemma held_flush s : held start s -> acc (flush s) [start].
  Proof.
    intros [E P]. split; [|constructor]. unfold flush. cbn [ts_out]. rewrite rl_app. unfold rl at 1. rewrite E. simpl.
    destruct P as [[_ P]|[d [th [_ P]]]]; rewrite P; unfold rl; simpl; rewrite start_result; reflexivity.
  Qed.

  Lemma held_end_step_if_any th s : held start s ->
    events_of (ts_out (end_step_if_any th s)) = [] /\ ts_step (end_step_if_any th s) = None /\
    ts_pending (end_step_if_any th s) = [start] /\ ts_loc (end_step_if_any th s) = ts_loc s.
  Proof.
    intros [E P]. unfold end_step_if_any. destruct P as [[St P]|[d [th' [St P]]]]; rewrite St; [repeat split; assumption|].
    unfold end_step, discard_or_fire, set_step_field. rewrite P. simpl. repeat split; auto.
  Qed.

  Lemma held_set_step d th s : held start s -> held start (set_step d th s).
  Proof.
    intros H. unfold set_step. destruct (held_end_step_if_any th s H) as [E [St [P L]]].
    split; [exact E|]. right. exists d, th. cbn [hold set_step_field ts_step ts_pending ts_loc]. rewrite P. split; reflexivity.
  Qed.

  Lemma held_spawn_creator s : held start s -> acc (spawn_creator s) [start].
  Proof.
    intros [E P]. unfold spawn_creator.
    destruct P as [[_ P]|[d [th [_ P]]]]; rewrite P, start_not_step; (split; [cbn [ts_out]; rewrite rl_app; unfold rl; rewrite E; simpl; rewrite start_result; reflexivity|]);
      unfold quiet_pending; cbn [ts_pending]; repeat constructor.
  Qed.

  Lemma held_join_all cs s : held start s -> held start (join_all cs s).
  Proof.
    unfold join_all. revert s. induction cs as [|c r IH]; intros s H; [exact H|]. simpl. apply IH.
    apply held_emit; [intros e; discriminate|exact H].
  Qed.

  (* the invariant of a phase: still held (and then no thread was started), or flushed *)
  Definition pinv (s : tstate) (children : list (owner * tpath * list atom)) : Prop :=
    (held start s /\ children = []) \/ (acc s [start] /\ kids_quiet children).

  Lemma spawn_creator_held_idem s : held start s -> spawn_creator (spawn_creator s) = spawn_creator s.
  Proof.
    intros [_ P]. destruct P as [[_ P]|[d [th [_ P]]]].
    - assert (Hs : spawn_creator s = mkTs (ts_loc s) (ts_step s) [] (ts_out s ++ [AtFire start]))
        by (unfold spawn_creator; rewrite P, start_not_step; reflexivity).
      rewrite Hs. reflexivity.
    - assert (Hs : spawn_creator s = mkTs (ts_loc s) (ts_step s) [RStepStart (ts_loc s) (Some d) th] (ts_out s ++ [AtFire start]))
        by (unfold spawn_creator; rewrite P, start_not_step; reflexivity).
      rewrite Hs. reflexivity.
  Qed.

  Lemma step_action_pinv o env tp a x :
    pinv (sr_state x) (sr_children x) -> pinv (sr_state (step_action o env tp a x)) (sr_children (step_action o env tp a x)).
  Proof.
    intros [[H K]|[A K]].
    2:{ right. exact (action_acc_all (action_size a) a (le_n _) o env tp x [start] (conj A K)). }
    destruct (sr_raised x) eqn:Er.
    { destruct a; cbn [step_action]; rewrite Er; left; split; assumption. }
    destruct a; cbn [step_action]; rewrite Er.
    - right. pose proof (acc_fire (RLog (ts_loc (sr_state x)) (ts_step (sr_state x)) tp level (MUser o tp payload))) as F.
      unfold do_log. cbn [sr_state sr_children]. rewrite K. split; [|constructor].
      apply acc_fire; [reflexivity|]. destruct (Nat.eqb level 3); [apply acc_mark_failed|]; apply held_flush; exact H.
    - right. unfold do_check. cbn [sr_state sr_children]. rewrite K. split; [|constructor].
      apply acc_fire; [reflexivity|]. destruct ok; [|apply acc_mark_failed]; apply held_flush; exact H.
    - right. cbn [sr_state sr_children]. rewrite K. split; [|constructor]. unfold do_url. apply acc_fire; [reflexivity|apply held_flush; exact H].
    - right. cbn [sr_state sr_children]. rewrite K. split; [|constructor]. unfold do_attach. apply acc_fire; [reflexivity|apply held_flush; exact H].
    - left. cbn [sr_state sr_children]. split; [apply held_set_step; exact H|exact K].
    - left. cbn [sr_state sr_children]. split; [apply held_emit; [intros e; discriminate|exact H]|exact K].
    - left. cbn [sr_state sr_children]. split; [apply held_emit; [intros e; discriminate|exact H]|exact K].
    - (* ASpawn: the creator flushes the held start; then as in the flushed case *)
      right.
      set (x' := mkSres (spawn_creator (sr_state x)) (sr_failed x) (sr_children x) None (sr_unjoined x) (sr_nchild x)).
      assert (Hx' : sacc x' [start]) by (split; [apply held_spawn_creator; exact H|cbn [sr_children x']; rewrite K; constructor]).
      pose proof (action_acc_all (action_size (ASpawn body)) (ASpawn body) (le_n _) o env tp x' [start] Hx') as Hs.
      assert (E : step_action o env tp (ASpawn body) x' = step_action o env tp (ASpawn body) x).
      { cbn [step_action]. rewrite Er. cbn [sr_raised sr_state sr_failed sr_children sr_unjoined sr_nchild x'].
        rewrite (spawn_creator_held_idem _ H). reflexivity. }
      rewrite E in Hs. cbn [step_action] in Hs. rewrite Er in Hs. exact Hs.
    - left. cbn [sr_state sr_children]. split; [apply held_join_all; exact H|exact K].
    - left. cbn [sr_state sr_children]. split; [apply held_emit; [intros e; discriminate|exact H]|exact K].
  Qed.

  Lemma interp_pinv o tp env sc x : pinv (sr_state x) (sr_children x) ->
    pinv (sr_state (interp o tp env sc x)) (sr_children (interp o tp env sc x)).
  Proof.
    intros H. unfold interp.
    assert (F : pinv (sr_state (fold_left (fun y a => step_action o env tp a y) sc x))
                     (sr_children (fold_left (fun y a => step_action o env tp a y) sc x))).
    { revert x H. induction sc as [|a r IH]; intros x H; [exact H|]. simpl. apply IH. apply step_action_pinv. exact H. }
    unfold close_script. cbn [sr_state sr_children]. destruct F as [[Hh K]|[A K]].
    - left. split; [apply held_join_all; exact Hh|exact K].
    - right. split; [apply acc_join_all; exact A|exact K].
  Qed.

  Lemma run_script_pinv o env sc s failed children : pinv s children ->
    pinv (sr_state (run_script o env sc s failed children)) (sr_children (run_script o env sc s failed children)).
  Proof.
    intros H. unfold run_script.
    assert (H0 : pinv (sr_state (mkSres (emit (AtBegin o) s) failed children None [] 0)) (sr_children (mkSres (emit (AtBegin o) s) failed children None [] 0))).
    { cbn [sr_state sr_children]. destruct H as [[Hh K]|[A K]].
      - left. split; [apply held_emit; [intros e; discriminate|exact Hh]|exact K].
      - right. split; [apply acc_emit; [intros e; discriminate|exact A]|exact K]. }
    pose proof (interp_pinv o [] env sc _ H0) as H1.
    destruct (sr_raised (interp o [] env sc (mkSres (emit (AtBegin o) s) failed children None [] 0))); [exact H1|].
    cbn [sr_state sr_children]. destruct H1 as [[Hh K]|[A K]].
    - left. split; [apply held_emit; [intros e; discriminate|exact Hh]|exact K].
    - right. split; [apply acc_emit; [intros e; discriminate|exact A]|exact K].
  Qed.

  Definition rpinv (r : rstate) : Prop := pinv (rs_t r) (rs_children r).

  Lemma after_exception_pinv k suite r : rpinv r -> rpinv (after_exception k suite r).
  Proof.
    intros H. unfold after_exception, rpinv. destruct (is_exception k); [|exact H]. cbn [rs_t rs_children].
    destruct H as [[Hh K]|[A K]].
    - right. rewrite K. split; [|constructor].
      assert (L : forall m, acc (fst (do_log [] 3 m (rs_t r))) [start]).
      { intros m. unfold do_log. cbn [fst]. apply acc_fire; [reflexivity|]. simpl. apply acc_mark_failed. apply held_flush. exact Hh. }
      destruct k; cbn [handle_exception]; try apply L.
      + destruct suite; [apply acc_emit; [intros e; discriminate|]|]; apply L.
      + apply acc_emit; [intros e; discriminate|]. apply L.
    - right. split; [apply handle_exception_acc; exact A|exact K].
  Qed.

  Lemma call_sfun_pinv env f r : rpinv r -> rpinv (fst (call_sfun env f r)).
  Proof.
    intros H. destruct f as [fx| |p sc|p sc]; cbn [call_sfun fst]; try exact H; unfold rpinv; cbn [rs_t rs_children]; apply run_script_pinv; exact H.
  Qed.

  Lemma call_tfun_pinv env f r : rpinv r -> rpinv (fst (call_tfun env f r)).
  Proof.
    intros H. destruct f as [fx|p sc|p sc]; cbn [call_tfun fst].
    - destruct (fx_generator fx); [|exact H]. cbn [fst]. unfold rpinv. cbn [rs_t rs_children]. apply run_script_pinv. exact H.
    - unfold rpinv. cbn [rs_t rs_children]. apply run_script_pinv. exact H.
    - unfold rpinv. cbn [rs_t rs_children]. apply run_script_pinv. destruct H as [[Hh K]|[A K]].
      + left. split; [apply held_emit; [intros e; discriminate|exact Hh]|exact K].
      + right. split; [apply acc_emit; [intros e; discriminate|exact A]|exact K].
  Qed.

  Lemma run_setup_funcs_pinv env suite pairs : forall r kept, rpinv r -> rpinv (fst (run_setup_funcs env suite pairs r kept)).
  Proof.
    induction pairs as [|[sf td] rest IH]; intros r kept H; [exact H|]. destruct sf as [f|]; cbn [run_setup_funcs]; [|apply IH; exact H].
    pose proof (call_sfun_pinv env f r H) as H1. destruct (call_sfun env f r) as [r1 k]. cbn [fst] in H1.
    destruct k as [k|]; [cbn [fst]; apply after_exception_pinv; exact H1|].
    destruct (rs_failed r1); [exact H1|apply IH; exact H1].
  Qed.

  Lemma run_teardown_list_pinv env suite l : forall r, rpinv r -> rpinv (run_teardown_list env suite l r).
  Proof.
    induction l as [|[f|] rest IH]; intros r H; [exact H| |]; cbn [run_teardown_list]; [|apply IH; exact H].
    destruct (rs_died r); [exact H|].
    pose proof (call_tfun_pinv env f r H) as H1. destruct (call_tfun env f r) as [r1 k]. cbn [fst] in H1.
    destruct k as [k|]; apply IH; [apply after_exception_pinv|]; exact H1.
  Qed.

  (* the end of a phase: the end event is dropped together with a start that is still held, and fired otherwise *)
  Variable end_ : revt.
  Variable is_start : revt -> bool.
  Hypothesis end_result : result_level end_ = true.
  Hypothesis is_start_start : is_start start = true.
  Hypothesis is_start_only : forall e, result_level e = false -> is_start e = false.

  Lemma close_phase_brackets s children : pinv s children ->
    let s1 := discard_or_fire is_start end_ (end_step_if_any [] s) in
    (events_of (ts_out s1) = [] /\ children = []) \/ (rl (ts_out s1) = [start; end_] /\ kids_quiet children).
  Proof.
    intros [[Hh K]|[A K]]; cbv zeta.
    - left. split; [|exact K]. destruct (held_end_step_if_any [] s Hh) as [E [St [P L]]].
      unfold discard_or_fire. rewrite P. simpl. rewrite is_start_start. exact E.
    - right. split; [|exact K]. pose proof (acc_end_step_if_any [] s [start] A) as [A1 Q1].
      unfold discard_or_fire. destruct (rev (ts_pending (end_step_if_any [] s))) as [|last before] eqn:Er.
      + unfold fire, emit. cbn [ts_out]. rewrite rl_app, A1. unfold rl. simpl. rewrite end_result. reflexivity.
      + assert (Hl : result_level last = false).
        { unfold quiet_pending in Q1. rewrite Forall_forall in Q1. apply Q1. apply in_rev. rewrite Er. left. reflexivity. }
        rewrite (is_start_only _ Hl). unfold fire, emit. cbn [ts_out]. rewrite rl_app, A1. unfold rl. simpl. rewrite end_result. reflexivity.
  Qed.
End Phase.

(* A setup phase (session setup, suite setup) and a teardown phase: either nothing at all reaches the queue — the start event
   is dropped together with the end event, no thread was started — or the start event and the end event are both fired,
   start first and end last among the result-level events.  Never a start without its end (unless a BaseException escaped). *)
Theorem setup_phase_brackets env l start end_ is_start d pairs :
  result_level start = true -> is_step_start start = false -> result_level end_ = true ->
  is_start start = true -> (forall e, result_level e = false -> is_start e = false) ->
  let o := setup_phase env l start end_ is_start d pairs in
  to_res o <> TkDied ->
  (events_of (to_main o) = [] /\ to_children o = []) \/ (rl (to_main o) = [start; end_] /\ kids_quiet (to_children o)).
Proof.
  intros Rs Ns Re Is Io. unfold setup_phase. destruct (any_setup pairs); [|intros _; left; split; reflexivity].
  set (r0 := mkRs (set_step d [] (hold start (fresh_cursor l []))) false [] false).
  assert (H0 : rpinv start r0).
  { left. split; [|reflexivity]. apply held_set_step. split; [reflexivity|]. left. split; reflexivity. }
  assert (H1 : rpinv start (fst (run_setup_funcs env None pairs r0 []))) by (apply run_setup_funcs_pinv; assumption).
  destruct (run_setup_funcs env None pairs r0 []) as [r kept]. cbn [fst] in H1.
  destruct (rs_died r) eqn:D; [unfold finish; cbn [to_res]; rewrite D; congruence|]. intros _.
  unfold finish. cbn [to_main to_children rs_t rs_children].
  apply close_phase_brackets; assumption.
Qed.

Theorem teardown_phase_brackets env l start end_ is_start d kept :
  result_level start = true -> is_step_start start = false -> result_level end_ = true ->
  is_start start = true -> (forall e, result_level e = false -> is_start e = false) ->
  let o := teardown_phase env l start end_ is_start d kept in
  to_res o <> TkDied ->
  (events_of (to_main o) = [] /\ to_children o = []) \/ (rl (to_main o) = [start; end_] /\ kids_quiet (to_children o)).
Proof.
  intros Rs Ns Re Is Io. unfold teardown_phase. destruct (any_teardown kept); [|intros _; left; split; reflexivity].
  set (r0 := mkRs (set_step d [] (hold start (fresh_cursor l []))) false [] false).
  assert (H0 : rpinv start r0).
  { left. split; [|reflexivity]. apply held_set_step. split; [reflexivity|]. left. split; reflexivity. }
  assert (H1 : rpinv start (run_teardown_list env None (rev kept) r0)) by (apply run_teardown_list_pinv; assumption). unfold run_teardown_funcs.
  destruct (rs_died (run_teardown_list env None (rev kept) r0)) eqn:D; [unfold finish; cbn [to_res]; rewrite D; congruence|]. intros _.
  cbn [to_main to_children].
  apply close_phase_brackets; assumption.
Qed.

Definition phase_events (t : task) : option (revt * revt) :=
  match t_kind t with
  | KSessionSetup => Some (RSessionSetupStart, RSessionSetupEnd)
  | KSessionTeardown => Some (RSessionTeardownStart, RSessionTeardownEnd)
  | KSuiteInit => Some (RSuiteSetupStart (t_path t), RSuiteSetupEnd (t_path t))
  | KSuiteTeardown => Some (RSuiteTeardownStart (t_path t), RSuiteTeardownEnd (t_path t))
  | _ => None
  end.

(* every setup / teardown task of every project, whatever was decided for it: both brackets or nothing *)
Theorem task_phase_brackets pr reg force t md setup_md o start end_ :
  task_sem pr reg force t md setup_md = Some o -> phase_events t = Some (start, end_) -> to_res o <> TkDied ->
  (events_of (to_main o) = [] /\ to_children o = []) \/ (rl (to_main o) = [start; end_] /\ kids_quiet (to_children o)).
Proof.
  intros H Hp Hd. unfold phase_events in Hp. unfold task_sem in H.
  assert (Io1 : forall e, result_level e = false -> is_session_setup_start e = false) by (intros e; destruct e; simpl; congruence).
  assert (Io2 : forall e, result_level e = false -> is_session_teardown_start e = false) by (intros e; destruct e; simpl; congruence).
  assert (Io3 : forall e, result_level e = false -> is_suite_setup_start e = false) by (intros e; destruct e; simpl; congruence).
  assert (Io4 : forall e, result_level e = false -> is_suite_teardown_start e = false) by (intros e; destruct e; simpl; congruence).
  destruct (t_kind t); try discriminate; inversion Hp; subst start end_; clear Hp.
  - destruct md; inversion H; subst o; [|left; split; reflexivity].
    apply setup_phase_brackets; auto.
  - destruct (find_suite_in (p_suites pr) (t_path t) false) as [[s inh]|]; [|discriminate].
    destruct md; inversion H; subst o; [|left; split; reflexivity].
    apply setup_phase_brackets; auto.
  - destruct (find_suite_in (p_suites pr) (t_path t) false) as [[s inh]|]; [|discriminate].
    inversion H; subst o. apply teardown_phase_brackets; auto.
  - inversion H; subst o. apply teardown_phase_brackets; auto.
Qed.
