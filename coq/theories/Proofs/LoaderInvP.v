(* The specification (declared_dir) does not depend on what the loader's preparation passes change: ranks (import pass)
   and the order of directory listings (sorting).  Hence C13_exact can be stated against the source tree itself. *)
From Coq Require Import List Arith Bool NArith Lia Permutation.
Import ListNotations.
From LCC Require Import Model.Loader Proofs.LoaderP.

(* ------------------------------------------------------------------ erasing ranks *)
Fixpoint erase_item (it : item) : item :=
  match it with ITest _ d => ITest 0 d | IClass _ c body => IClass 0 c (map erase_item body) end.
Definition erase_mod (m : mdecl) : mdecl :=
  {| m_file := m_file m; m_suite := m_suite m; m_rank := 0; m_items := map erase_item (m_items m) |}.
Fixpoint erase_dir (d : dir) : dir :=
  match d with Dir n mods subs => Dir n (map erase_mod mods) (map erase_dir subs) end.

Lemma thread_view : forall A V (view : A -> V) (f : nat -> A -> A * nat) l,
  Forall (fun x => forall n, view (fst (f n x)) = view x) l -> forall n, map view (fst (thread f n l)) = map view l.
Proof.
  induction l as [|x l IH]; simpl; intros HF n; [reflexivity|]. inversion HF as [|? ? Hx HF']; subst.
  specialize (Hx n). destruct (f n x) as [rx n'] eqn:E. specialize (IH HF' n'). destruct (thread f n' l) as [rr n''] eqn:E2.
  simpl in *. congruence.
Qed.

Lemma erase_rank_item : forall it n, erase_item (fst (rank_item n it)) = erase_item it.
Proof.
  induction it as [r d|r c body IH] using item_ind'; intro n; simpl; [reflexivity|].
  pose proof (thread_view _ _ erase_item rank_item body IH n) as H. destruct (thread rank_item n body) as [rb n1]. simpl in H.
  destruct (c_rank c); simpl; rewrite H; reflexivity.
Qed.

Lemma erase_rank_items : forall l n, map erase_item (fst (rank_items n l)) = map erase_item l.
Proof.
  intros. unfold rank_items. apply thread_view. rewrite Forall_forall. intros x _ n'. apply erase_rank_item.
Qed.

Lemma attr_erase : forall x, item_attr (erase_item x) = item_attr x. Proof. destruct x; reflexivity. Qed.
Lemma is_test_erase : forall x, is_test (erase_item x) = is_test x. Proof. destruct x; reflexivity. Qed.
Lemma is_class_erase : forall x, is_class (erase_item x) = is_class x. Proof. destruct x; reflexivity. Qed.
Lemma hidden_erase : forall x, item_hidden (erase_item x) = item_hidden x. Proof. destruct x; reflexivity. Qed.
Lemma name_erase : forall x, item_name (erase_item x) = item_name x. Proof. destruct x; reflexivity. Qed.

Lemma attrs_erase : forall l, map item_attr (map erase_item l) = map item_attr l.
Proof. intro l. rewrite map_map. apply map_ext. apply attr_erase. Qed.

Lemma dedupe_last_erase : forall l, dedupe_last (map erase_item l) = map erase_item (dedupe_last l).
Proof.
  unfold dedupe_last. induction l as [|x l IH]; simpl; [reflexivity|].
  change (map (fun y : item => item_attr y) (map erase_item l)) with (map item_attr (map erase_item l)).
  rewrite attrs_erase, attr_erase. change (map (fun y : item => item_attr y) l) with (map item_attr l).
  destruct (mem_str (item_attr x) (map item_attr l)); simpl; rewrite IH; reflexivity.
Qed.

Lemma filter_map_comm : forall A (g : A -> A) (f : A -> bool) l, (forall x, f (g x) = f x) -> filter f (map g l) = map g (filter f l).
Proof. induction l as [|x l IH]; simpl; intros H; [reflexivity|]. rewrite H. destruct (f x); simpl; rewrite IH; auto. Qed.

Lemma unshadowed_erase : forall (f : item -> list (list pnode * tinfo)) l,
  Forall (fun x => f (erase_item x) = f x) l -> unshadowed_flat f (map erase_item l) = unshadowed_flat f l.
Proof.
  induction l as [|x l IH]; simpl; intros HF; [reflexivity|]. inversion HF; subst. unfold shadowed. rewrite attrs_erase, attr_erase.
  rewrite IH by assumption. destruct (mem_str _ _); congruence.
Qed.

Lemma declared_item_erase : forall it p, declared_item p (erase_item it) = declared_item p it.
Proof.
  induction it as [r d|r c body IH] using item_ind'; intro p; simpl; [reflexivity|].
  destruct (hidden_of (c_cond c)); [reflexivity|]. apply unshadowed_erase.
  rewrite Forall_forall in *. intros x Hx. apply IH. assumption.
Qed.

Lemma declared_items_erase : forall p l, declared_items p (map erase_item l) = declared_items p l.
Proof. intros. unfold declared_items. apply unshadowed_erase. rewrite Forall_forall. intros x _. apply declared_item_erase. Qed.

Lemma visible_classes_erase : forall l, visible_classes (map erase_item l) = map erase_item (visible_classes l).
Proof.
  intro l. unfold visible_classes. rewrite dedupe_last_erase. rewrite (filter_map_comm _ erase_item is_class) by apply is_class_erase.
  apply filter_map_comm. intro x. rewrite hidden_erase. reflexivity.
Qed.

Lemma declares_no_test_here_erase : forall l, declares_no_test_here (map erase_item l) = declares_no_test_here l.
Proof.
  intro l. unfold declares_no_test_here. rewrite dedupe_last_erase. rewrite (filter_map_comm _ erase_item is_test) by apply is_test_erase.
  rewrite flat_map_concat_map, map_map, <- flat_map_concat_map.
  rewrite (flat_map_ext_in _ _ (fun x => declared_item [] (erase_item x)) (declared_item [])); [reflexivity|].
  intros x _. apply declared_item_erase.
Qed.

Lemma collapses_erase : forall m, collapses (erase_mod m) = collapses m.
Proof.
  intro m. unfold collapses. simpl. destruct (m_suite m); [reflexivity|]. rewrite declares_no_test_here_erase, visible_classes_erase.
  destruct (visible_classes (m_items m)) as [|c [|c' l]]; simpl; try reflexivity. rewrite name_erase. reflexivity.
Qed.

Lemma declared_module_erase : forall p m, declared_module p (erase_mod m) = declared_module p m.
Proof.
  intros. unfold declared_module. rewrite collapses_erase. unfold mod_hidden, mod_name, declared_mod_meta. simpl.
  rewrite !declared_items_erase. reflexivity.
Qed.

Lemma node_erase : forall x, item_node (erase_item x) = item_node x. Proof. destruct x; reflexivity. Qed.

Lemma merged_node_erase : forall m, merged_node (erase_mod m) = merged_node m.
Proof.
  intro m. unfold merged_node. rewrite collapses_erase. unfold declared_mod_meta, mod_name. simpl. rewrite visible_classes_erase.
  destruct (visible_classes (m_items m)) as [|c [|c' l]]; simpl; try reflexivity. rewrite node_erase. reflexivity.
Qed.

Lemma erase_rank_module : forall m n, erase_mod (fst (rank_module n m)) = erase_mod m.
Proof.
  intros m n. unfold rank_module. pose proof (erase_rank_items (m_items m) n) as H.
  destruct (rank_items n (m_items m)) as [ri n1]. simpl in *. unfold erase_mod. simpl. rewrite H. reflexivity.
Qed.

Lemma find_map_erase : forall f mods, find (file_is f) (map erase_mod mods) = option_map erase_mod (find (file_is f) mods).
Proof.
  induction mods as [|m mods IH]; simpl; [reflexivity|]. unfold file_is at 1 3. simpl. destruct (str_eqb (m_file m) f); [reflexivity|assumption].
Qed.

Lemma dir_name_erase : forall d, dir_name (erase_dir d) = dir_name d. Proof. destruct d; reflexivity. Qed.

Lemma declared_dir_erase : forall d p, declared_dir p (erase_dir d) = declared_dir p d.
Proof.
  induction d as [n mods subs IH] using dir_ind'. intro p. simpl. f_equal.
  - rewrite flat_map_concat_map, map_map, <- flat_map_concat_map. apply flat_map_ext_in. intros m _. apply declared_module_erase.
  - rewrite flat_map_concat_map, map_map, <- flat_map_concat_map. apply flat_map_ext_in. intros x Hx.
    unfold sub_spec. rewrite dir_name_erase, find_map_erase. rewrite Forall_forall in IH.
    destruct (find (file_is (dir_name x)) mods) as [m|]; simpl.
    + unfold mod_hidden at 1. simpl. fold (mod_hidden m). rewrite merged_node_erase. destruct (mod_hidden m); [reflexivity|]. apply IH. assumption.
    + apply IH. assumption.
Qed.

Lemma erase_rank_dir : forall fixed d n, erase_dir (fst (rank_dir fixed n d)) = erase_dir d.
Proof.
  intro fixed. induction d as [nm mods subs IH] using dir_ind'. intro n. simpl.
  pose proof (thread_view _ _ erase_mod rank_module mods) as Hm.
  specialize (Hm (proj2 (Forall_forall _ _) (fun m _ n' => erase_rank_module m n')) n).
  unfold rank_modules. destruct (thread rank_module n mods) as [rm n1]. simpl in Hm.
  pose proof (thread_view _ _ erase_dir
     (fun n x => if fixed && mem_str (dir_name x) (hidden_files mods) then (x, n) else rank_dir fixed n x) subs) as Hs.
  assert (HF : Forall (fun x => forall n0, erase_dir (fst (if fixed && mem_str (dir_name x) (hidden_files mods) then (x, n0) else rank_dir fixed n0 x)) = erase_dir x) subs).
  { rewrite Forall_forall in *. intros x Hx n0. destruct (fixed && mem_str (dir_name x) (hidden_files mods)); [reflexivity|apply IH; assumption]. }
  specialize (Hs HF n1). destruct (thread _ n1 subs) as [rs n2]. simpl in *. rewrite Hm, Hs. reflexivity.
Qed.

(* ranks do not matter to the specification *)
Lemma declared_dir_rank : forall fixed d n p, declared_dir p (fst (rank_dir fixed n d)) = declared_dir p d.
Proof. intros. rewrite <- (declared_dir_erase (fst (rank_dir fixed n d))), erase_rank_dir, declared_dir_erase. reflexivity. Qed.

(* ------------------------------------------------------------------ names *)
Lemma names_of_erase_mods : forall mods, map m_file (map erase_mod mods) = map m_file mods.
Proof. intro. rewrite map_map. reflexivity. Qed.

Lemma names_ok_erase_iff : forall d, names_ok (erase_dir d) <-> names_ok d.
Proof.
  induction d as [n mods subs IH] using dir_ind'. simpl. rewrite Forall_forall in IH.
  assert (E : map dir_name (map erase_dir subs) = map dir_name subs) by (rewrite map_map; apply map_ext; apply dir_name_erase).
  split; intro H; inversion H as [? ? ? N1 N2 HF]; subst; constructor.
  - rewrite names_of_erase_mods in N1. assumption.
  - rewrite E in N2. assumption.
  - rewrite Forall_forall in *. intros x Hx. apply IH; [assumption|]. apply HF. apply in_map. assumption.
  - rewrite names_of_erase_mods. assumption.
  - rewrite E. assumption.
  - rewrite Forall_forall in *. intros y Hy. apply in_map_iff in Hy. destruct Hy as [x [Ey Hx]]. subst y. apply IH; auto.
Qed.

Lemma names_ok_rank : forall fixed d n, names_ok d -> names_ok (fst (rank_dir fixed n d)).
Proof. intros. apply names_ok_erase_iff. rewrite erase_rank_dir. apply names_ok_erase_iff. assumption. Qed.

(* ------------------------------------------------------------------ sorting the listings *)
Lemma dir_name_norm : forall d, dir_name (norm_dir d) = dir_name d. Proof. destruct d; reflexivity. Qed.

Lemma find_perm : forall f mods mods', NoDup (map m_file mods) -> Permutation mods mods' ->
  find (file_is f) mods' = find (file_is f) mods.
Proof.
  intros f mods mods' ND HP.
  assert (ND' : NoDup (map m_file mods')) by (eapply Permutation_NoDup; [apply Permutation_map; exact HP|assumption]).
  destruct (find (file_is f) mods) as [m|] eqn:E.
  - destruct (find_some_file _ _ _ E) as [Hin Ef]. subst f. apply find_file_is; [assumption|]. eapply Permutation_in; eassumption.
  - destruct (find (file_is f) mods') as [m'|] eqn:E'; [|reflexivity].
    destruct (find_some_file _ _ _ E') as [Hin Ef]. subst f.
    rewrite (find_file_is mods m' ND) in E; [discriminate|]. eapply Permutation_in; [apply Permutation_sym; exact HP|assumption].
Qed.

Lemma Permutation_flat_map_pointwise : forall A B (f g : A -> list B) l,
  (forall x, In x l -> Permutation (f x) (g x)) -> Permutation (flat_map f l) (flat_map g l).
Proof.
  induction l as [|x l IH]; simpl; intros H; [constructor|]. apply Permutation_app; [apply H; left; reflexivity|apply IH; intros; apply H; right; assumption].
Qed.

Lemma declared_dir_norm : forall d, names_ok d -> forall p, Permutation (declared_dir p (norm_dir d)) (declared_dir p d).
Proof.
  induction d as [n mods subs IH] using dir_ind'. intros Hn p. inversion Hn as [? ? ? N1 N2 HF]; subst. simpl.
  apply Permutation_app.
  - apply Permutation_flat_map. apply sort_by_perm.
  - rewrite (Permutation_flat_map _ (sort_by_perm _ dir_leb (map norm_dir subs))).
    rewrite flat_map_concat_map, map_map, <- flat_map_concat_map. apply Permutation_flat_map_pointwise.
    intros x Hx. unfold sub_spec. rewrite dir_name_norm.
    rewrite (find_perm _ mods (sort_by mod_leb mods) N1) by (apply Permutation_sym; apply sort_by_perm).
    rewrite Forall_forall in IH, HF.
    destruct (find (file_is (dir_name x)) mods) as [m|]; [destruct (mod_hidden m); [constructor|]|]; apply IH; auto.
Qed.

Lemma names_ok_norm : forall d, names_ok d -> names_ok (norm_dir d).
Proof.
  induction d as [n mods subs IH] using dir_ind'. intros Hn. inversion Hn as [? ? ? N1 N2 HF]; subst. simpl. constructor.
  - eapply Permutation_NoDup; [apply Permutation_map; apply Permutation_sym; apply sort_by_perm|assumption].
  - eapply Permutation_NoDup; [apply Permutation_map; apply Permutation_sym; apply sort_by_perm|].
    rewrite map_map. rewrite (map_ext _ dir_name dir_name_norm). assumption.
  - apply sort_by_Forall. rewrite Forall_forall in *. intros y Hy. apply in_map_iff in Hy. destruct Hy as [x [Ey Hx]]. subst y. auto.
Qed.

(* ------------------------------------------------------------------ C13_exact against the source tree itself *)
Lemma load_exact_source : forall rank0 root suites, names_ok root -> load true rank0 root = Ok suites ->
  Permutation (map obs_of (flat_all [] suites)) (declared_dir [] root).
Proof.
  intros rank0 root suites Hn H.
  assert (Hp : names_ok (prepared true rank0 root)) by (unfold prepared; apply names_ok_rank; apply names_ok_norm; assumption).
  rewrite (load_exact _ _ _ Hp H). unfold prepared. rewrite declared_dir_rank. apply declared_dir_norm. assumption.
Qed.
