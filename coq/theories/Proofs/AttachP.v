From Coq Require Import List Arith Bool Lia.
Import ListNotations.
From LCC Require Import Model.Attach.

Lemma locked_run_shape sched : forall s,
  a_names (fold_left locked_step sched s) = a_names s ++ seq (S (a_count s)) (length sched) /\
  a_count (fold_left locked_step sched s) = a_count s + length sched.
Proof.
  induction sched as [|t r IH]; intros s; simpl.
  - rewrite app_nil_r. auto.
  - destruct (IH (locked_step s t)) as [A B]. rewrite A, B. simpl. rewrite <- app_assoc. simpl. split; [reflexivity|lia].
Qed.

Theorem locked_names_distinct : forall (sched : list nat) (nthreads : nat), NoDup (names_of (run_locked nthreads sched)).
Proof.
  intros sched n. unfold names_of, run_locked. destruct (locked_run_shape sched a0) as [A _]. rewrite A. simpl.
  apply seq_NoDup.
Qed.

Theorem unlocked_names_collide : exists sched nthreads, ~ NoDup (names_of (run_unlocked nthreads sched)).
Proof.
  exists [0; 1; 0; 1], 2. vm_compute. intros H. inversion H as [|x l Hn Hd]; subst. apply Hn. left. reflexivity.
Qed.
