From Coq Require Import List Arith Bool Lia Permutation.
Import ListNotations.
From LCC Require Import Model.Attach.

Lemma locked_run_shape sched : forall s,
  a_names (fold_left locked_step sched s) = a_names s ++ seq (S (a_count s)) (length sched) /\
  a_count (fold_left locked_step sched s) = a_count s + length sched.
Proof.
  induction sched as [|t r IH]; intros s; simpl.
  - rewrite app_nil_r. auto.
  - destruct (IH (locked_step s t)) as [A B]. rewrite A, B. simpl. rewrite <- app_assoc. simpl. split; [reflexivity|lia].
Qed.

Theorem locked_names_distinct : forall (sched : list nat) (nthreads : nat), NoDup (names_of (run_locked nthreads sched)).
Proof.
  intros sched n. unfold names_of, run_locked. destruct (locked_run_shape sched a0) as [A _]. rewrite A. simpl.
  apply seq_NoDup.
Qed.

Theorem unlocked_names_collide : exists sched nthreads, ~ NoDup (names_of (run_unlocked nthreads sched)).
Proof.
  exists [0; 1; 0; 1], 2. vm_compute. intros H. inversion H as [|x l Hn Hd]; subst. apply Hn. left. reflexivity.
Qed.

(* ---------------- the whole life of an attachment ---------------- *)
Lemma take_open_split t l n r : take_open t l = Some (n, r) ->
  exists l1 l2, l = l1 ++ (t, n) :: l2 /\ r = l1 ++ l2.
Proof.
  revert n r. induction l as [|[k m] l IH]; simpl; intros n r H; [discriminate|].
  destruct (Nat.eqb_spec k t) as [->|Hne].
  - injection H as Hn Hr. subst n r. exists [], l. auto.
  - destruct (take_open t l) as [[m' r']|] eqn:E; [|discriminate]. injection H as Hn Hr. subst n r.
    destruct (IH m' r' eq_refl) as [l1 [l2 [A B]]]. exists ((k, m) :: l1), l2. rewrite A, B. auto.
Qed.

(* invariant: the numbers handed out are 1..count in order; those still open and those referenced are pairwise distinct
   and were all handed out *)
Record BInv (s : bstate) : Prop := {
  bi_all : b_all s = seq 1 (b_count s);
  bi_nodup : NoDup (b_refs s ++ map snd (b_open s));
  bi_le : forall n, In n (b_refs s ++ map snd (b_open s)) -> 1 <= n <= b_count s }.

Lemma BInv_b0 : BInv b0.
Proof. constructor; simpl; [reflexivity|constructor|tauto]. Qed.

Lemma NoDup_move (A : Type) (x : A) (refs l1 l2 : list A) :
  NoDup (refs ++ l1 ++ x :: l2) -> NoDup ((refs ++ [x]) ++ l1 ++ l2).
Proof.
  intros H. apply (Permutation_NoDup (l := refs ++ l1 ++ x :: l2)); [|exact H].
  rewrite <- app_assoc. apply Permutation_app_head. simpl. symmetry. apply Permutation_middle.
Qed.

Lemma NoDup_drop (A : Type) (x : A) (refs l1 l2 : list A) :
  NoDup (refs ++ l1 ++ x :: l2) -> NoDup (refs ++ l1 ++ l2).
Proof. intros H. rewrite app_assoc in H. apply NoDup_remove in H. rewrite <- app_assoc in H. tauto. Qed.

Lemma bstep_BInv s o : BInv s -> BInv (bstep s o).
Proof.
  intros [A N L]. destruct o as [t|t|t]; simpl.
  - constructor; cbn [b_all b_count b_refs b_open map snd].
    + rewrite A. rewrite seq_S. reflexivity.
    + assert (~ In (S (b_count s)) (b_refs s ++ map snd (b_open s))) by (intros F; apply L in F; lia).
      clear - N H. revert N H. generalize (map snd (b_open s)) as o. generalize (b_refs s) as r.
      intros r o N H. induction r as [|y r IH]; simpl in *.
      * constructor; auto.
      * inversion N; subst. constructor.
        -- rewrite in_app_iff in *. simpl. intros [F|[F|F]]; [tauto|subst; tauto|tauto].
        -- apply IH; auto.
    + intros n H. rewrite in_app_iff in H. simpl in H. destruct H as [H|[H|H]].
      * assert (1 <= n <= b_count s) by (apply L; rewrite in_app_iff; auto). lia.
      * subst. lia.
      * assert (1 <= n <= b_count s) by (apply L; rewrite in_app_iff; auto). lia.
  - destruct (take_open t (b_open s)) as [[n r]|] eqn:E; [|constructor; auto].
    destruct (take_open_split _ _ _ _ E) as [l1 [l2 [E1 E2]]]. subst r. rewrite E1 in *.
    rewrite map_app in *. simpl in *. constructor; simpl; auto.
    + rewrite map_app. apply NoDup_move. exact N.
    + intros m H. apply L. rewrite map_app in H. rewrite !in_app_iff in *. simpl in *. tauto.
  - destruct (take_open t (b_open s)) as [[n r]|] eqn:E; [|constructor; auto].
    destruct (take_open_split _ _ _ _ E) as [l1 [l2 [E1 E2]]]. subst r. rewrite E1 in *.
    rewrite map_app in *. simpl in *. constructor; simpl; auto.
    + rewrite map_app. eapply NoDup_drop. exact N.
    + intros m H. apply L. rewrite map_app in H. rewrite !in_app_iff in *. simpl in *. tauto.
Qed.

Lemma brun_BInv_from ops : forall s, BInv s -> BInv (fold_left bstep ops s).
Proof. induction ops as [|o r IH]; simpl; intros s H; auto. apply IH. apply bstep_BInv. exact H. Qed.

(* for EVERY sequence of reservations, normal ends and failures, by any threads, nested or not: every number is handed out
   once, the report never references one number twice, and it only references numbers that were handed out *)
Theorem block_names_distinct : forall ops : list aop,
  NoDup (b_all (brun ops)) /\ NoDup (b_refs (brun ops)) /\ incl (b_refs (brun ops)) (b_all (brun ops)).
Proof.
  intros ops. destruct (brun_BInv_from ops b0 BInv_b0) as [A N L]. fold (brun ops) in *. split; [|split].
  - rewrite A. apply seq_NoDup.
  - clear - N. revert N. generalize (map snd (b_open (brun ops))) as o. induction (b_refs (brun ops)) as [|y r IH]; simpl; intros o N.
    + constructor.
    + inversion N; subst. constructor; [rewrite in_app_iff in *; tauto|eapply IH; eauto].
  - intros n H. rewrite A. apply in_seq. assert (1 <= n <= b_count (brun ops)) by (apply L; rewrite in_app_iff; auto). lia.
Qed.

(* ... and this is why an abandoned block must not give its number back: A reserves 1, B reserves 2 and ends, A fails (the counter
   goes back to 1), C reserves 2 again and ends: the report references the file 0002 twice *)
Theorem giveback_collides : exists ops, ~ NoDup (b_refs (brun_giveback ops)).
Proof.
  exists [Reserve 0; Reserve 1; Commit 1; Abandon 0; Reserve 2; Commit 2]. vm_compute.
  intros H. inversion H as [|x l Hn Hd]; subst. apply Hn. left. reflexivity.
Qed.
