(* C03: which fixtures a suite setup task evaluates — exactly the suite-scoped fixtures that an enabled test of the suite (or
   the suite itself: injected fixtures, setup_suite arguments) needs, directly or through fixture dependencies; each once;
   after the fixtures they depend on. Composition of Proofs/FixtureP.v (the schedule, level_spec) with Proofs/TeardownOrderP.v
   (what the task does with the schedule). *)
From Coq Require Import List Arith Bool Relations.
Import ListNotations.
From LCC Require Import Base.Util Model.Proj Model.Fixture Model.TaskSem Proofs.FixtureP Proofs.TeardownOrderP.

(* a fixture name the suite needs directly: used by the suite itself or by one of its tests that is going to run (or by any
   of its tests under --force-disabled), provided the suite has something to run at all *)
Definition needed_directly (inh : bool) (s : suite) (force : bool) (f : name) : Prop :=
  (has_enabled_tests inh s || (force && has_tests s) = true) /\
  (In f (suite_fixtures s) \/
   exists t, In t (su_tests s) /\ (test_enabled (inh || su_disabled s) t || force = true) /\ In f (test_fixtures t)).

Lemma setups_of_fixture_pairs : forall fxs, setups_of (fixture_pairs fxs) = map (fun fx => OFxSetup (fx_name fx)) fxs.
Proof. induction fxs as [|fx fxs IH]; [reflexivity|]; unfold setups_of, fixture_pairs in *; simpl; rewrite IH; reflexivity. Qed.

Theorem suite_schedule_is_what_is_needed : forall reg inh s force, registry_ok reg ->
  (forall f, needed_directly inh s force f -> reg_mem reg f = true) ->
  exists fxs, get_fixtures_scheduled_for_suite reg inh s force = Ok fxs /\
    NoDup (map fx_name fxs) /\
    (forall y, In y (map fx_name fxs) <->
       (exists f, needed_directly inh s force f /\ clos_refl_trans name (Edge (reg_find reg)) f y) /\ scope_of reg y ScSuite) /\
    (forall d1 fx t1, fxs = d1 ++ fx :: t1 ->
       forall y, In y (fparams fx) -> scope_of reg y ScSuite -> In y (map fx_name d1)).
Proof.
  intros reg inh s force Hok Hreg.
  destruct (level_spec reg (get_fixtures_used_in_suite inh s force) ScSuite Hok) as [fxs [Hs [Hnd [Hiff Hord]]]].
  { intros f Hf; apply Hreg; apply used_in_suite_In; exact Hf. }
  exists fxs; split; [exact Hs|split; [exact Hnd|split]].
  - intros y; rewrite Hiff; unfold reach; split.
    + intros [[f [Hf Hp]] Hsc]; split; [exists f; split; [apply used_in_suite_In; exact Hf|exact Hp]|exact Hsc].
    + intros [[f [Hf Hp]] Hsc]; split; [exists f; split; [apply used_in_suite_In; exact Hf|exact Hp]|exact Hsc].
  - intros d1 fx t1 E; destruct (Hord d1 fx t1 E) as [_ [_ H]]; exact H.
Qed.

(* a suite without any test that is going to run needs nothing: no suite fixture is evaluated for it *)
Theorem nothing_to_run_nothing_scheduled : forall reg inh s,
  has_enabled_tests inh s = false -> get_fixtures_scheduled_for_suite reg inh s false = Ok [].
Proof.
  intros reg inh s H; unfold get_fixtures_scheduled_for_suite, get_fixtures_used_in_suite; rewrite H; reflexivity.
Qed.

(* what the suite setup task then enters: the setups of the schedule, in schedule order, then inject_fixtures (no user code)
   and setup_suite — up to the first one that records a failure *)
Theorem suite_setup_task_enters_the_schedule : forall reg force inh sp s fxs env l st en isst d,
  get_fixtures_scheduled_for_suite reg inh s force = Ok fxs ->
  to_res (setup_phase env l st en isst d (init_pairs reg force inh sp s)) = TkSuccess ->
  begins (to_main (setup_phase env l st en isst d (init_pairs reg force inh sp s))) =
    map (fun fx => OFxSetup (fx_name fx)) fxs ++
    match h_setup_suite (su_hooks s) with Some _ => [OSetupSuite sp] | None => [] end.
Proof.
  intros reg force inh sp s fxs env l st en isst d Hs Hr.
  destruct (setup_phase_order env l st en isst d (init_pairs reg force inh sp s)) as [done [rest [E [B [_ R]]]]].
  { rewrite Hr; discriminate. }
  apply R in Hr; subst rest; rewrite app_nil_r in E, B; subst done; rewrite B.
  unfold init_pairs; rewrite Hs; unfold setups_of; rewrite !flat_map_app.
  change (flat_map (fun p : pair => sf_owners (fst p)) (fixture_pairs (ok_list (Ok fxs)))) with (setups_of (fixture_pairs fxs)).
  rewrite setups_of_fixture_pairs; f_equal.
  destruct (su_injected s); destruct (h_setup_suite (su_hooks s)) as [[a sc]|]; destruct (h_teardown_suite (su_hooks s)); reflexivity.
Qed.

(* ---------------- test scope ---------------- *)
Theorem test_schedule_is_what_the_test_needs : forall reg t, registry_ok reg ->
  (forall f, In f (test_fixtures t) -> reg_mem reg f = true) ->
  exists fxs, get_fixtures_scheduled_for_test reg t = Ok fxs /\
    NoDup (map fx_name fxs) /\
    (forall y, In y (map fx_name fxs) <->
       (exists f, In f (test_fixtures t) /\ clos_refl_trans name (Edge (reg_find reg)) f y) /\ scope_of reg y ScTest) /\
    (forall d1 fx t1, fxs = d1 ++ fx :: t1 ->
       forall y, In y (fparams fx) -> scope_of reg y ScTest -> In y (map fx_name d1)).
Proof.
  intros reg t Hok Hreg.
  destruct (level_spec reg (test_fixtures t) ScTest Hok Hreg) as [fxs [Hs [Hnd [Hiff Hord]]]].
  exists fxs; split; [exact Hs|split; [exact Hnd|split]].
  - intros y; rewrite Hiff; unfold reach; reflexivity.
  - intros d1 fx t1 E; destruct (Hord d1 fx t1 E) as [_ [_ H]]; exact H.
Qed.

(* a test task that ends with Success has entered: setup_test, the setups of its test-scoped schedule in schedule order, its
   body, the teardowns of the generator fixtures of the schedule in reverse order, teardown_test *)
Theorem successful_test_task : forall env p suite t hk fxs,
  to_res (test_run env p suite t hk fxs) = TkSuccess ->
  begins (to_main (test_run env p suite t hk fxs)) =
    (match h_setup_test hk with Some _ => [OSetupTest p] | None => [] end) ++
    map (fun fx => OFxSetup (fx_name fx)) fxs ++ [OBody p] ++
    rev (map (fun fx => OFxTeardown (fx_name fx)) (filter fx_generator fxs)) ++
    (match h_teardown_test hk with Some _ => [OTeardownTest p] | None => [] end).
Proof.
  intros env p suite t hk fxs R.
  destruct (test_run_user_code_order env p suite t hk fxs) as [done [rest [E [B S]]]]; [rewrite R; discriminate|].
  rewrite (S R) in *; rewrite app_nil_r in E; subst done; rewrite B; unfold test_pairs.
  assert (T : forall l, teardowns_of (map snd (fixture_pairs l)) = map (fun fx => OFxTeardown (fx_name fx)) (filter fx_generator l)).
  { induction l as [|fx l IH]; [reflexivity|]. unfold teardowns_of, fixture_pairs in *; simpl.
    destruct (fx_generator fx); simpl; rewrite IH; reflexivity. }
  unfold setups_of; simpl flat_map.
  change (flat_map (fun p0 : pair => sf_owners (fst p0)) (fixture_pairs fxs)) with (setups_of (fixture_pairs fxs)).
  rewrite setups_of_fixture_pairs.
  unfold teardowns_of; simpl flat_map.
  change (flat_map tf_owners (map snd (fixture_pairs fxs))) with (teardowns_of (map snd (fixture_pairs fxs))).
  rewrite T, rev_app_distr.
  destruct (h_setup_test hk), (h_teardown_test hk); simpl; rewrite <- ?app_assoc; reflexivity.
Qed.

(* ---------------- session scope ---------------- *)
(* a fixture name some suite of the run needs: used in a suite of the forest (recursively: get_fixtures_used_in_suite of
   every nested suite, with the inherited disabled flag) *)
Definition needed_in_run (suites : list suite) (force : bool) (f : name) : Prop :=
  exists s, In s suites /\ In f (get_fixtures_used_in_suite_recursively false s force).

Theorem session_schedule_is_what_is_needed : forall reg suites force, registry_ok reg ->
  (forall f, needed_in_run suites force f -> reg_mem reg f = true) ->
  exists fxs, get_fixtures_scheduled_for_session reg suites force = Ok fxs /\
    NoDup (map fx_name fxs) /\
    (forall y, In y (map fx_name fxs) <->
       (exists f, needed_in_run suites force f /\ clos_refl_trans name (Edge (reg_find reg)) f y) /\ scope_of reg y ScSession) /\
    (forall d1 fx t1, fxs = d1 ++ fx :: t1 ->
       forall y, In y (fparams fx) -> scope_of reg y ScSession -> In y (map fx_name d1)).
Proof.
  intros reg suites force Hok Hreg.
  destruct (level_spec reg (fixtures_used_in_suites suites force) ScSession Hok) as [fxs [Hs [Hnd [Hiff Hord]]]].
  { intros f Hf; apply Hreg; apply used_suites_In; exact Hf. }
  exists fxs; split; [exact Hs|split; [exact Hnd|split]].
  - intros y; rewrite Hiff; unfold reach; split.
    + intros [[f [Hf Hp]] Hsc]; split; [exists f; split; [apply used_suites_In; exact Hf|exact Hp]|exact Hsc].
    + intros [[f [Hf Hp]] Hsc]; split; [exists f; split; [apply used_suites_In; exact Hf|exact Hp]|exact Hsc].
  - intros d1 fx t1 E; destruct (Hord d1 fx t1 E) as [_ [_ H]]; exact H.
Qed.

(* every fixture the run needs is used by some suite of the forest, itself or through one of its tests: nothing else *)
Theorem needed_in_run_is_used_somewhere : forall suites force f, needed_in_run suites force f ->
  exists top s', In top suites /\ In s' (flatten_suite top) /\
    (In f (suite_fixtures s') \/ exists t, In t (su_tests s') /\ In f (test_fixtures t)).
Proof.
  intros suites force f [s [Hs Hf]].
  destruct (used_rec_upper s false force f Hf) as [s' [Hs' H]].
  exists s, s'; auto.
Qed.

Theorem session_setup_task_enters_the_schedule : forall reg force suites fxs env l st en isst d,
  get_fixtures_scheduled_for_session reg suites force = Ok fxs ->
  to_res (setup_phase env l st en isst d (session_pairs reg force suites)) = TkSuccess ->
  begins (to_main (setup_phase env l st en isst d (session_pairs reg force suites))) =
    map (fun fx => OFxSetup (fx_name fx)) fxs.
Proof.
  intros reg force suites fxs env l st en isst d Hs Hr.
  destruct (setup_phase_order env l st en isst d (session_pairs reg force suites)) as [done [rest [E [B [_ R]]]]].
  { rewrite Hr; discriminate. }
  apply R in Hr; subst rest; rewrite app_nil_r in E, B; subst done; rewrite B.
  unfold session_pairs; rewrite Hs; apply setups_of_fixture_pairs.
Qed.
