(* "User code that does not fail": scripts without raise, failed check or error log (transitively, in the threads they start).
   Part A (layer 3): every task made of such code ends with Success, raises no context flag, and never dies.
   Part B (layer 1): in a run whose finished tasks all succeeded and in which nothing raised a flag or interrupted, every
   task is run (never skipped) and every result is Success.
   Part C: composition — for a project of quiet code every task is run exactly once and succeeds (C14 "green"). *)
From Coq Require Import List Arith Bool Lia.
Import ListNotations.
From LCC Require Import Base.Util Model.Proj Model.Sched Model.Graph Model.Fixture Model.TaskSem Model.TaskSemEq
     Proofs.SchedP Proofs.ProtocolP Proofs.VerdictP.

(* ------------------------------------------------------------------ quiet code *)
Fixpoint quiet_action (a : action) : bool :=
  match a with
  | ALog lvl _ => negb (Nat.eqb lvl 3)
  | ACheck ok _ => ok
  | ASpawn body => (fix all (l : list action) : bool := match l with [] => true | b :: r => quiet_action b && all r end) body
  | ARaise _ => false
  | _ => true
  end.
Definition quiet_script (sc : script) : bool := forallb quiet_action sc.

Lemma quiet_spawn body : quiet_action (ASpawn body) = quiet_script body.
Proof. unfold quiet_script. simpl. induction body as [|b r IH]; [reflexivity|]. simpl. rewrite <- IH. reflexivity. Qed.

Definition calm (x : sres) : Prop := sr_raised x = None /\ sr_failed x = false.

Definition action_calm (a : action) : Prop :=
  forall o env tp x, quiet_action a = true -> calm x -> calm (step_action o env tp a x).

Lemma run_list_calm (body : list action) :
  Forall action_calm body -> quiet_script body = true ->
  forall o env tp x, calm x ->
    calm ((fix run_list (l0 : list action) (y : sres) : sres :=
             match l0 with [] => y | b :: r => run_list r (step_action o env tp b y) end) body x).
Proof.
  induction 1 as [|b r Hb Hr IH]; intros Q o env tp x C; [exact C|]. simpl in Q. apply andb_true_iff in Q as [Qb Qr].
  apply IH; [exact Qr|]. apply Hb; assumption.
Qed.

Lemma fold_left_calm (sc : list action) :
  Forall action_calm sc -> quiet_script sc = true ->
  forall o env tp x, calm x -> calm (fold_left (fun y a => step_action o env tp a y) sc x).
Proof.
  induction 1 as [|b r Hb Hr IH]; intros Q o env tp x C; [exact C|]. simpl in Q. apply andb_true_iff in Q as [Qb Qr].
  simpl. apply IH; [exact Qr|]. apply Hb; assumption.
Qed.

Lemma close_script_calm x : calm x -> calm (close_script x).
Proof. intros [A B]. split; assumption. Qed.

Lemma action_calm_all : forall n a, action_size a <= n -> action_calm a.
Proof.
  induction n as [|n IH]; intros a Hs.
  - destruct a; simpl in Hs; lia.
  - intros o env tp x Q [Cr Cf].
    destruct a; cbn [step_action]; rewrite Cr.
    + simpl in Q. unfold do_log. destruct (Nat.eqb level 3); [discriminate|]. split; cbn; [reflexivity|rewrite Cf; reflexivity].
    + simpl in Q. subst ok. unfold do_check. split; cbn; [reflexivity|rewrite Cf; reflexivity].
    + split; cbn; [reflexivity|rewrite Cf; reflexivity].
    + split; cbn; [reflexivity|rewrite Cf; reflexivity].
    + split; cbn; [reflexivity|rewrite Cf; reflexivity].
    + split; cbn; [reflexivity|rewrite Cf; reflexivity].
    + split; cbn; [reflexivity|rewrite Cf; reflexivity].
    + (* ASpawn *)
      rewrite quiet_spawn in Q.
      assert (Fb : Forall action_calm body).
      { apply Forall_forall. intros b Hb. apply IH. simpl in Hs.
        assert (action_size b <= fold_right (fun b0 acc => action_size b0 + acc) 0 body).
        { clear -Hb. induction body as [|b0 r IHr]; simpl in *; [tauto|]. destruct Hb as [->|Hb]; [lia|]. specialize (IHr Hb). lia. }
        lia. }
      set (s1 := spawn_creator (sr_state x)). set (ctp := tp ++ [sr_nchild x]).
      set (c0 := hold (RStepStart (ts_loc s1) (ts_step s1) ctp) (mkTs (ts_loc s1) (ts_step s1) [] [])).
      assert (C0 : calm (mkSres c0 false [] None [] 0)) by (split; reflexivity).
      pose proof (close_script_calm _ (run_list_calm body Fb Q o env ctp _ C0)) as [Rr Rf].
      cbn [sr_raised sr_failed]. split; [reflexivity|]. rewrite Rr, Rf, Cf. reflexivity.
    + split; cbn; [reflexivity|exact Cf].
    + discriminate Q.
Qed.

Lemma interp_calm o tp env sc x : quiet_script sc = true -> calm x -> calm (interp o tp env sc x).
Proof.
  intros Q C. unfold interp. apply close_script_calm. apply fold_left_calm; try assumption.
  apply Forall_forall. intros a _. apply (action_calm_all (action_size a)). lia.
Qed.

Lemma run_script_calm o env sc s children :
  quiet_script sc = true ->
  let x := run_script o env sc s false children in sr_raised x = None /\ sr_failed x = false.
Proof.
  intros Q. unfold run_script.
  pose proof (interp_calm o [] env sc (mkSres (emit (AtBegin o) s) false children None [] 0) Q (conj eq_refl eq_refl)) as [A B].
  rewrite A. cbn [sr_raised sr_failed]. split; [reflexivity|exact B].
Qed.

(* ------------------------------------------------------------------ quiet setup / teardown functions *)
Definition quiet_fixture (fx : fixture) : bool := quiet_script (fx_setup fx) && quiet_script (fx_teardown fx).
Definition quiet_sfun (f : sfun) : bool :=
  match f with SFixture fx => quiet_fixture fx | SInject => true | SSetupSuite _ sc => quiet_script sc | SSetupTest _ sc => quiet_script sc end.
Definition quiet_tfun (f : tfun) : bool :=
  match f with TFixture fx => quiet_fixture fx | TTeardownSuite _ sc => quiet_script sc | TTeardownTest _ sc => quiet_script sc end.
Definition quiet_opt {A} (q : A -> bool) (o : option A) : bool := match o with Some x => q x | None => true end.
Definition quiet_pair (p : pair) : bool := quiet_opt quiet_sfun (fst p) && quiet_opt quiet_tfun (snd p).

Definition rcalm (r : rstate) : Prop := rs_failed r = false /\ rs_died r = false.

Lemma call_sfun_calm env f r : quiet_sfun f = true -> rcalm r ->
  rcalm (fst (call_sfun env f r)) /\ snd (call_sfun env f r) = None.
Proof.
  intros Q [Rf Rd]. destruct f as [fx| |p sc|p sc]; cbn [call_sfun quiet_sfun] in *.
  - unfold quiet_fixture in Q. apply andb_true_iff in Q as [Q _]. rewrite Rf.
    destruct (run_script_calm (OFxSetup (fx_name fx)) env (fx_setup fx) (rs_t r) (rs_children r) Q) as [A B].
    cbn [fst snd]. split; [split; [exact B|reflexivity]|exact A].
  - split; [split; assumption|reflexivity].
  - rewrite Rf. destruct (run_script_calm (OSetupSuite p) env sc (rs_t r) (rs_children r) Q) as [A B].
    cbn [fst snd]. split; [split; [exact B|reflexivity]|exact A].
  - rewrite Rf. destruct (run_script_calm (OSetupTest p) env sc (rs_t r) (rs_children r) Q) as [A B].
    cbn [fst snd]. split; [split; [exact B|reflexivity]|exact A].
Qed.

Lemma call_tfun_calm env f r : quiet_tfun f = true -> rcalm r ->
  rcalm (fst (call_tfun env f r)) /\ snd (call_tfun env f r) = None.
Proof.
  intros Q [Rf Rd]. destruct f as [fx|p sc|p sc]; cbn [call_tfun quiet_tfun] in *.
  - unfold quiet_fixture in Q. apply andb_true_iff in Q as [_ Q]. destruct (fx_generator fx).
    + rewrite Rf. destruct (run_script_calm (OFxTeardown (fx_name fx)) env (fx_teardown fx) (rs_t r) (rs_children r) Q) as [A B].
      cbn [fst snd]. split; [split; [exact B|reflexivity]|exact A].
    + split; [split; assumption|reflexivity].
  - rewrite Rf. destruct (run_script_calm (OTeardownSuite p) env sc (rs_t r) (rs_children r) Q) as [A B].
    cbn [fst snd]. split; [split; [exact B|reflexivity]|exact A].
  - rewrite Rf. destruct (run_script_calm (OTeardownTest p) env sc (emit (AtStatus (negb false)) (rs_t r)) (rs_children r) Q) as [A B].
    cbn [fst snd]. split; [split; [exact B|reflexivity]|exact A].
Qed.

Lemma run_setup_funcs_calm env suite pairs : forall r kept,
  forallb quiet_pair pairs = true -> forallb (quiet_opt quiet_tfun) kept = true -> rcalm r ->
  rcalm (fst (run_setup_funcs env suite pairs r kept)) /\
  forallb (quiet_opt quiet_tfun) (snd (run_setup_funcs env suite pairs r kept)) = true.
Proof.
  induction pairs as [|[sf td] rest IH]; intros r kept Q K C; [split; assumption|].
  simpl in Q. apply andb_true_iff in Q as [Qp Qr]. unfold quiet_pair in Qp. cbn [fst snd] in Qp. apply andb_true_iff in Qp as [Qs Qt].
  assert (K' : forallb (quiet_opt quiet_tfun) (kept ++ [td]) = true).
  { rewrite forallb_app, K. simpl. rewrite Qt. reflexivity. }
  destruct sf as [f|]; cbn [run_setup_funcs].
  - destruct (call_sfun_calm env f r Qs C) as [C1 N1]. destruct (call_sfun env f r) as [r1 k]. cbn [fst snd] in *. subst k.
    destruct C1 as [F1 D1]. rewrite F1. apply IH; try assumption. split; assumption.
  - apply IH; assumption.
Qed.

Lemma run_teardown_list_calm env suite l : forall r,
  forallb (quiet_opt quiet_tfun) l = true -> rcalm r -> rcalm (run_teardown_list env suite l r).
Proof.
  induction l as [|[f|] rest IH]; intros r Q C; [exact C| |].
  - simpl in Q. apply andb_true_iff in Q as [Qf Qr]. cbn [run_teardown_list]. destruct C as [Cf Cd]. rewrite Cd.
    destruct (call_tfun_calm env f r Qf (conj Cf Cd)) as [C1 N1]. destruct (call_tfun env f r) as [r1 k]. cbn [fst snd] in *. subst k.
    apply IH; assumption.
  - simpl in Q. cbn [run_teardown_list]. apply IH; assumption.
Qed.

Lemma forallb_rev {A} (f : A -> bool) l : forallb f (rev l) = forallb f l.
Proof. induction l as [|a l IH]; [reflexivity|]. simpl. rewrite forallb_app, IH. simpl. rewrite andb_true_r. apply andb_comm. Qed.

(* ------------------------------------------------------------------ tasks *)
Lemma only_teardowns_quiet pairs : forallb quiet_pair pairs = true -> forallb (quiet_opt quiet_tfun) (only_teardowns pairs) = true.
Proof.
  unfold only_teardowns. induction pairs as [|[sf td] rest IH]; intros Q; [reflexivity|]. simpl in Q.
  apply andb_true_iff in Q as [Qp Qr]. unfold quiet_pair in Qp. cbn [fst snd] in Qp. apply andb_true_iff in Qp as [_ Qt].
  cbn [map snd filter]. destruct td as [t|]; [|apply IH; exact Qr].
  cbn [forallb quiet_opt]. cbn [quiet_opt] in Qt. rewrite Qt. apply IH. exact Qr.
Qed.

Lemma setup_phase_green env l start end_ is_start d pairs :
  forallb quiet_pair pairs = true ->
  to_res (setup_phase env l start end_ is_start d pairs) = TkSuccess /\
  forallb (quiet_opt quiet_tfun) (to_kept (setup_phase env l start end_ is_start d pairs)) = true.
Proof.
  intros Q. unfold setup_phase. destruct (any_setup pairs).
  - set (r0 := mkRs _ false [] false).
    destruct (run_setup_funcs_calm env None pairs r0 [] Q eq_refl (conj eq_refl eq_refl)) as [[Cf Cd] K].
    destruct (run_setup_funcs env None pairs r0 []) as [r kept]. cbn [fst snd] in *. rewrite Cd.
    unfold finish. cbn [to_res to_kept rs_died rs_failed]. rewrite Cf. split; [reflexivity|exact K].
  - cbn [to_res to_kept]. split; [reflexivity|apply only_teardowns_quiet; exact Q].
Qed.

Lemma teardown_phase_green env l start end_ is_start d kept :
  forallb (quiet_opt quiet_tfun) kept = true ->
  to_res (teardown_phase env l start end_ is_start d kept) = TkSuccess.
Proof.
  intros Q. unfold teardown_phase. destruct (any_teardown kept); [|reflexivity].
  set (r0 := mkRs _ false [] false). unfold run_teardown_funcs.
  assert (Q' : forallb (quiet_opt quiet_tfun) (rev kept) = true) by (rewrite forallb_rev; exact Q).
  destruct (run_teardown_list_calm env None (rev kept) r0 Q' (conj eq_refl eq_refl)) as [Cf Cd]. rewrite Cd. reflexivity.
Qed.

Lemma fixture_pairs_quiet l : forallb quiet_fixture l = true -> forallb quiet_pair (fixture_pairs l) = true.
Proof.
  induction l as [|f l IH]; [reflexivity|]. simpl. intros Q. apply andb_true_iff in Q as [Qf Ql].
  rewrite (IH Ql). unfold quiet_pair. cbn. rewrite Qf. reflexivity.
Qed.

Lemma test_run_green env p suite t hk fxs :
  quiet_script (tt_body t) = true -> quiet_opt quiet_script (h_setup_test hk) = true ->
  quiet_opt quiet_script (h_teardown_test hk) = true -> forallb quiet_fixture fxs = true ->
  to_res (test_run env p suite t hk fxs) = TkSuccess.
Proof.
  intros Qb Qs Qt Qf. unfold test_run.
  set (pairs := (_, _) :: fixture_pairs fxs).
  assert (Qp : forallb quiet_pair pairs = true).
  { unfold pairs. simpl. rewrite (fixture_pairs_quiet fxs Qf), andb_true_r. unfold quiet_pair. cbn [fst snd].
    destruct (h_setup_test hk), (h_teardown_test hk); cbn in *; rewrite ?Qs, ?Qt; reflexivity. }
  set (r0 := mkRs (set_step SdSetupTest [] _) false [] false).
  assert (R1 : rcalm (fst (if any_setup pairs then run_setup_funcs env (Some suite) pairs r0 [] else (r0, only_teardowns pairs))) /\
               forallb (quiet_opt quiet_tfun) (snd (if any_setup pairs then run_setup_funcs env (Some suite) pairs r0 [] else (r0, only_teardowns pairs))) = true).
  { destruct (any_setup pairs).
    - apply run_setup_funcs_calm; [exact Qp|reflexivity|split; reflexivity].
    - cbn [fst snd]. split; [split; reflexivity|apply only_teardowns_quiet; exact Qp]. }
  destruct (if any_setup pairs then run_setup_funcs env (Some suite) pairs r0 [] else (r0, only_teardowns pairs)) as [r1 kept].
  cbn [fst snd] in R1. destruct R1 as [[F1 D1] K]. rewrite D1, F1.
  destruct (run_script_calm (OBody p) env (tt_body t) (set_step (SdTest (tt_name t)) [] (rs_t r1)) (rs_children r1) Qb) as [A B].
  rewrite A. cbn [rs_died rs_failed rs_t rs_children].
  set (x := run_script (OBody p) env (tt_body t) (set_step (SdTest (tt_name t)) [] (rs_t r1)) false (rs_children r1)) in *.
  destruct (any_teardown kept).
  - unfold run_teardown_funcs.
    assert (K' : forallb (quiet_opt quiet_tfun) (rev kept) = true) by (rewrite forallb_rev; exact K).
    destruct (run_teardown_list_calm env (Some suite) (rev kept)
               (mkRs (set_step SdTeardownTest [] (sr_state x)) (sr_failed x) (sr_children x) false) K' (conj B eq_refl)) as [Cf Cd].
    rewrite Cd. unfold finish. cbn [to_res rs_died rs_failed]. rewrite Cf. reflexivity.
  - cbn [rs_died]. unfold finish. cbn [to_res rs_died rs_failed]. rewrite B. reflexivity.
Qed.

(* ------------------------------------------------------------------ quiet projects *)
Fixpoint subsuites (s : suite) : list suite := s :: flat_map subsuites (su_subs s).
Definition all_subsuites (l : list suite) : list suite := flat_map subsuites l.

Definition quiet_hooks (h : hooks) : bool :=
  quiet_opt (fun x => quiet_script (snd x)) (h_setup_suite h) && quiet_opt quiet_script (h_teardown_suite h) &&
  quiet_opt quiet_script (h_setup_test h) && quiet_opt quiet_script (h_teardown_test h).
Definition quiet_suite (s : suite) : bool :=
  quiet_hooks (su_hooks s) && forallb (fun t => quiet_script (tt_body t)) (su_tests s).

Record quiet_project (pr : project) (reg : registry) : Prop := {
  qp_suites : forall s, In s (all_subsuites (p_suites pr)) -> quiet_suite s = true;
  qp_fixtures : forall direct sc l, get_scheduled_fixtures_for_scope reg direct sc = Ok l -> forallb quiet_fixture l = true }.

Lemma find_suite_in_sub : forall p l inh s i, find_suite_in l p inh = Some (s, i) -> In s (all_subsuites l).
Proof.
  induction p as [|n rest IH]; intros l inh s i H; [discriminate|]. simpl in H.
  destruct (find (fun s0 => Nat.eqb (su_name s0) n) l) as [s0|] eqn:Hf; [|discriminate].
  apply find_some in Hf as [Hin _]. destruct rest as [|m rest'].
  - inversion H. subst s0. apply in_flat_map. exists s. split; [exact Hin|]. destruct s; simpl; left; reflexivity.
  - apply IH in H. apply in_flat_map. exists s0. split; [exact Hin|]. destruct s0 as [a b c d e subs]; simpl in *. right. exact H.
Qed.

Lemma ok_list_quiet reg direct sc : (forall l, get_scheduled_fixtures_for_scope reg direct sc = Ok l -> forallb quiet_fixture l = true) ->
  forallb quiet_fixture (ok_list (get_scheduled_fixtures_for_scope reg direct sc)) = true.
Proof. intros H. destruct (get_scheduled_fixtures_for_scope reg direct sc) as [l|e]; [apply H; reflexivity|reflexivity]. Qed.

Lemma init_pairs_quiet reg force inh sp s :
  (forall direct sc l, get_scheduled_fixtures_for_scope reg direct sc = Ok l -> forallb quiet_fixture l = true) ->
  quiet_suite s = true -> forallb quiet_pair (init_pairs reg force inh sp s) = true.
Proof.
  intros Hf Qs. unfold init_pairs. rewrite !forallb_app. unfold get_fixtures_scheduled_for_suite.
  rewrite (fixture_pairs_quiet _ (ok_list_quiet reg _ _ (Hf _ _))). cbn [andb].
  unfold quiet_suite, quiet_hooks in Qs. apply andb_true_iff in Qs as [Qh _].
  apply andb_true_iff in Qh as [Qh _]. apply andb_true_iff in Qh as [Qh _]. apply andb_true_iff in Qh as [Q1 Q2].
  apply andb_true_iff. split.
  - destruct (su_injected s); reflexivity.
  - destruct (h_setup_suite (su_hooks s)) as [[args sc]|], (h_teardown_suite (su_hooks s)) as [tsc|];
      cbn [quiet_opt snd] in Q1, Q2; cbn [forallb]; unfold quiet_pair; cbn [fst snd quiet_opt quiet_sfun quiet_tfun];
      rewrite ?Q1, ?Q2; reflexivity.
Qed.

(* Part A: a task of a quiet project that is run (not skipped) ends with Success, whatever was decided for its setup task *)
Theorem task_sem_green pr reg force t setup_md o :
  quiet_project pr reg -> task_sem pr reg force t Run setup_md = Some o -> to_res o = TkSuccess.
Proof.
  intros [Qs Qf] H. unfold task_sem in H. destruct (t_kind t).
  - (* session setup *) inversion H. apply setup_phase_green. unfold session_pairs, get_fixtures_scheduled_for_session.
    apply fixture_pairs_quiet. apply ok_list_quiet. apply Qf.
  - inversion H. reflexivity.
  - (* suite init *)
    destruct (find_suite_in (p_suites pr) (t_path t) false) as [[s inh]|] eqn:Hs; [|discriminate]. inversion H.
    apply setup_phase_green. apply init_pairs_quiet; [exact Qf|]. apply Qs. eapply find_suite_in_sub. exact Hs.
  - (* test *)
    unfold find_test_in in H.
    destruct (find_suite_in (p_suites pr) (parent_path (t_path t)) false) as [[s inh]|] eqn:Hs; [|discriminate].
    destruct (find (fun t0 => Nat.eqb (tt_name t0) (last (t_path t) 0)) (su_tests s)) as [tst|] eqn:Ht; [|discriminate].
    destruct ((inh || su_disabled s || tt_disabled tst) && negb force); [inversion H; reflexivity|]. inversion H.
    pose proof (Qs s (find_suite_in_sub _ _ _ _ _ Hs)) as Q. unfold quiet_suite, quiet_hooks in Q.
    apply andb_true_iff in Q as [Qh Qt]. apply andb_true_iff in Qh as [Qh Q4]. apply andb_true_iff in Qh as [Qh Q3].
    apply find_some in Ht as [Hin _]. rewrite forallb_forall in Qt.
    apply test_run_green; [apply Qt; exact Hin|exact Q3|exact Q4|].
    unfold get_fixtures_scheduled_for_test. apply ok_list_quiet. apply Qf.
  - (* suite teardown *)
    destruct (find_suite_in (p_suites pr) (t_path t) false) as [[s inh]|] eqn:Hs; [|discriminate]. inversion H.
    apply teardown_phase_green. destruct setup_md as [[|r]|]; try reflexivity.
    apply setup_phase_green. apply init_pairs_quiet; [exact Qf|]. apply Qs. eapply find_suite_in_sub. exact Hs.
  - inversion H. reflexivity.
  - (* session teardown *) inversion H. apply teardown_phase_green. destruct setup_md as [[|r]|]; try reflexivity.
    apply setup_phase_green. unfold session_pairs, get_fixtures_scheduled_for_session.
    apply fixture_pairs_quiet. apply ok_list_quiet. apply Qf.
Qed.

(* ------------------------------------------------------------------ Part B: the dispatch loop on an all-success run *)
Definition green_move (m : move) : bool :=
  match m with
  | MFinish _ r => tres_eqb r ResSuccess
  | MFlag _ | MInterrupt | MDie _ => false
  | _ => true
  end.

Record GInv (g : graph) (s : st) : Prop := {
  gi_cx : cx s = ctx0;
  gi_results : forall t r, result_of s t = Some r -> r = ResSuccess;
  gi_jobs : forall t j, In (t, j) (poolq s) -> j = JHandle;
  gi_modes : forall t md, In (t, md) (running s) -> md = Run;
  gi_have : forall t, In t (complq s) \/ In t (completed s) -> result_of s t <> None;
  gi_pc : pc s <> PDrain }.

Lemma tres_eqb_success r : tres_eqb r ResSuccess = true -> r = ResSuccess.
Proof. destruct r; simpl; intros H; try discriminate; reflexivity. Qed.

Lemma mode_eqb_run md : mode_eqb md Run = true -> md = Run.
Proof. destruct md; simpl; intros H; [reflexivity|discriminate]. Qed.

Lemma result_of_cons s t r x :
  result_of (mkSt (remaining s) (poolq s) (remove_running t (running s)) (complq s ++ [t]) (completed s)
                  ((t, r) :: results s) (cx s) (pc s) (dead s)) x = if Nat.eqb t x then Some r else result_of s x.
Proof. unfold result_of. simpl. destruct (Nat.eqb t x); reflexivity. Qed.

Lemma green_init g n : GInv g (init g n).
Proof.
  constructor; simpl; try reflexivity.
  - intros t r H. discriminate.
  - intros t j H. apply in_map_iff in H as [i [E _]]. inversion E. reflexivity.
  - intros t md [].
  - intros t [[]|[]].
  - unfold pc_after. destruct (Nat.eqb _ _); discriminate.
Qed.

Lemma green_step g n sof s m s' :
  Inv g n s -> deps_done g s -> GInv g s -> green_move m = true -> step g n sof s m = Some s' ->
  GInv g s' /\ (forall t md, m = MTake t md -> md = Run).
Proof.
  intros I D G Gm Hs. destruct G as [Gc Gr Gj Gmo Gh Gp].
  destruct m as [t|t md|t r|f| |t]; simpl in Gm; try discriminate; simpl in Hs.
  - (* MMain: pc is never PDrain without an interrupt; both branches keep the invariant except for the skip jobs of PDrain *)
    destruct (pc s) eqn:Epc; try discriminate; destruct (complq s) as [|t' q] eqn:Eq; try discriminate;
      destruct (Nat.eqb t t') eqn:Et; try discriminate; inversion Hs; subst s'; clear Hs.
    + split; [|intros ? ? H; discriminate]. constructor; simpl; auto.
      * intros t0 j H. apply in_app_iff in H as [H|H]; [eapply Gj; exact H|]. apply in_map_iff in H as [i [E _]]. inversion E. reflexivity.
      * intros t0 [H|[H|H]].
        -- apply Gh. left. right. exact H.
        -- subst t0. apply Nat.eqb_eq in Et. subst t'. apply Gh. left. left. reflexivity.
        -- apply Gh. right. exact H.
      * unfold pc_after. match goal with |- (if ?c then _ else _) <> _ => destruct c end; discriminate.
    + exfalso. apply Gp. reflexivity.
  - (* MTake *)
    destruct (poolq s) as [|[t' j] q] eqn:Eq; [discriminate|].
    destruct (Nat.eqb t t' && Nat.ltb (length (running s)) n && mode_eqb md (decide g sof s t j)) eqn:Ec; [|discriminate].
    inversion Hs; subst s'; clear Hs.
    apply andb_true_iff in Ec as [Ec Em]. apply andb_true_iff in Ec as [Et _]. apply Nat.eqb_eq in Et. subst t'.
    assert (Hj : j = JHandle) by (apply (Gj t j); left; reflexivity). subst j.
    assert (Hd : decide g sof s t JHandle = Run).
    { unfold decide.
      assert (Hds : dep_skip s (t_succ (get_task g t)) = None).
      { apply dep_skip_none. intros d Hd.
        assert (Hc : In d (completed s)).
        { apply (D t d); [unfold dispatched; rewrite Eq; left; reflexivity|]. unfold all_deps. apply in_app_iff. right. exact Hd. }
        destruct (result_of s d) as [r|] eqn:Er; [rewrite (Gr d r Er); reflexivity|].
        exfalso. apply (Gh d); [right; exact Hc|exact Er]. }
      rewrite Hds, Gc. unfold ctx_skip, ctx0. simpl. rewrite !andb_false_r. reflexivity. }
    rewrite Hd in Em. apply mode_eqb_run in Em. subst md.
    split; [|intros ? ? H; inversion H; reflexivity]. constructor; simpl; auto.
    + intros t0 j H. apply (Gj t0 j). right. exact H.
    + intros t0 md [H|H]; [inversion H; reflexivity|eapply Gmo; exact H].
  - (* MFinish *)
    destruct (running_mode s t) as [md|] eqn:Erm; [|discriminate].
    destruct (result_allowed g t md r); [|discriminate]. inversion Hs; subst s'; clear Hs.
    apply tres_eqb_success in Gm. subst r.
    split; [|intros ? ? H; discriminate]. constructor; try (simpl; auto; fail).
    + intros t0 r0 H. rewrite result_of_cons in H. destruct (Nat.eqb t t0); [inversion H; reflexivity|eapply Gr; exact H].
    + simpl. intros t0 md0 H. apply filter_In in H as [H _]. eapply Gmo; exact H.
    + intros t0 H. rewrite result_of_cons. destruct (Nat.eqb t t0) eqn:E; [discriminate|]. apply Gh. simpl in H.
      destruct H as [H|H]; [|right; exact H]. apply in_app_iff in H as [H|[H|[]]]; [left; exact H|].
      subst t0. rewrite Nat.eqb_refl in E. discriminate.
Qed.

Lemma green_run_from g n sof ms : forall s s', 1 <= n -> Inv g n s -> deps_done g s -> GInv g s ->
  forallb green_move ms = true -> run g n sof s ms = Some s' ->
  GInv g s' /\ (forall t md, In (MTake t md) ms -> md = Run).
Proof.
  induction ms as [|m ms IH]; intros s s' Hn I D G Q H; simpl in H.
  - inversion H. subst s'. split; [exact G|intros t md []].
  - simpl in Q. apply andb_true_iff in Q as [Qm Qr].
    destruct (step g n sof s m) as [s1|] eqn:E; [|discriminate].
    destruct (green_step g n sof s m s1 I D G Qm E) as [G1 T1].
    destruct (IH s1 s' Hn (step_Inv g n sof s m s1 Hn I E) (step_deps_done g n sof s m s1 I D E) G1 Qr H) as [G' T'].
    split; [exact G'|]. intros t md [Hm|Hm]; [apply (T1 t md); exact Hm|apply (T' t md Hm)].
Qed.

(* Part B: in a run where every finished task succeeded and nothing raised a flag, interrupted or died, every task that is
   taken is run (never skipped), the context stays clean and every recorded result is Success *)
Theorem green_run g n sof ms s : 1 <= n -> run g n sof (init g n) ms = Some s -> forallb green_move ms = true ->
  (forall t md, In (MTake t md) ms -> md = Run) /\ cx s = ctx0 /\ (forall t r, result_of s t = Some r -> r = ResSuccess) /\
  (forall t, In t (completed s) -> result_of s t = Some ResSuccess).
Proof.
  intros Hn H Q.
  destruct (green_run_from g n sof ms (init g n) s Hn (init_Inv g n Hn) (init_deps_done g n) (green_init g n) Q H) as [G T].
  split; [exact T|]. split; [apply G|]. split; [apply G|].
  intros t Ht. destruct (result_of s t) as [r|] eqn:Er; [rewrite (gi_results _ _ G t r Er); reflexivity|].
  exfalso. apply (gi_have _ _ G t); [right; exact Ht|exact Er].
Qed.

(* ------------------------------------------------------------------ Part C: composition with layer 3 *)
Definition calm_move (m : move) : bool := match m with MFlag _ | MInterrupt | MDie _ => false | _ => true end.

(* every finished task ended with the result layer 3 predicts for the decision it was taken with *)
Definition l3_consistent (pr : project) (reg : registry) (force : bool) (g : graph) (ms : list move) : Prop :=
  forall ms1 t r ms2, ms = ms1 ++ MFinish t r :: ms2 ->
    exists md setup_md o, In (MTake t md) ms1 /\ task_sem pr reg force (get_task g t) md setup_md = Some o /\
                          predicted_result t md o = Some r.

Lemma l3_consistent_prefix pr reg force g a b : l3_consistent pr reg force g (a ++ b) -> l3_consistent pr reg force g a.
Proof. intros H ms1 t r ms2 E. apply (H ms1 t r (ms2 ++ b)). rewrite E, <- app_assoc. reflexivity. Qed.

Lemma quiet_run_is_green pr reg force g n sof : quiet_project pr reg -> 1 <= n ->
  forall ms s, run g n sof (init g n) ms = Some s -> forallb calm_move ms = true -> l3_consistent pr reg force g ms ->
  forallb green_move ms = true.
Proof.
  intros Q Hn ms. induction ms as [|m ms' IH] using rev_ind; intros s H C L; [reflexivity|].
  rewrite run_app in H. destruct (run g n sof (init g n) ms') as [s1|] eqn:E1; [|discriminate].
  rewrite forallb_app in C. apply andb_true_iff in C as [C1 Cm]. simpl in Cm. rewrite andb_true_r in Cm.
  pose proof (IH s1 eq_refl C1 (l3_consistent_prefix _ _ _ _ _ _ L)) as G1.
  rewrite forallb_app, G1. simpl. rewrite andb_true_r.
  destruct m as [t|t md|t r|f| |t]; simpl in *; try reflexivity; try discriminate.
  destruct (L ms' t r [] eq_refl) as [md [setup_md [o [Hin [Hsem Hpred]]]]].
  destruct (green_run g n sof ms' s1 Hn E1 G1) as [T _]. rewrite (T t md Hin) in *.
  pose proof (task_sem_green pr reg force (get_task g t) setup_md o Q Hsem) as Hres.
  unfold predicted_result in Hpred. rewrite Hres in Hpred. inversion Hpred. reflexivity.
Qed.

Lemma count_pos_In f ms : count f ms >= 1 -> exists m, In m ms /\ f m = true.
Proof.
  unfold count. intros H. destruct (filter f ms) as [|m r] eqn:E; [simpl in H; lia|].
  assert (Hin : In m (filter f ms)) by (rewrite E; left; reflexivity). apply filter_In in Hin. exists m. exact Hin.
Qed.

(* C14 "green": a project whose user code does not fail — in any run (any thread count, any interleaving) that is consistent
   with layer 3 and in which nobody presses Ctrl-C, every task is taken exactly once, is run (never skipped) and ends with
   Success: every enabled test is executed and passes, every disabled test is reported disabled. *)
Theorem quiet_project_all_green pr reg force g n sof ms s :
  quiet_project pr reg -> 1 <= n ->
  run g n sof (init g n) ms = Some s -> forallb calm_move ms = true -> l3_consistent pr reg force g ms ->
  finished g s = true ->
  forall t, t < length g ->
    count (is_take t) ms = 1 /\ In (MTake t Run) ms /\ result_of s t = Some ResSuccess.
Proof.
  intros Q Hn H C L F t Ht.
  pose proof (quiet_run_is_green pr reg force g n sof Q Hn ms s H C L) as G.
  destruct (green_run g n sof ms s Hn H G) as [T [_ [_ R]]].
  destruct (exactly_once_when_finished g n sof ms s t Hn H F Ht) as [Ct [_ [_ Dd]]].
  split; [exact Ct|]. split.
  - destruct (count_pos_In (is_take t) ms) as [m [Hin Hm]]; [lia|].
    destruct m as [x|x md|x r|f| |x]; simpl in Hm; try discriminate. apply Nat.eqb_eq in Hm. subst x.
    rewrite (T t md Hin) in Hin. exact Hin.
  - apply R. pose proof (run_Inv g n sof ms (init g n) s Hn (init_Inv g n Hn) H) as I.
    unfold finished in F. destruct (pc s); try discriminate. apply Nat.eqb_eq in F.
    pose proof (Inv_length g n s I) as Hl. pose proof (proj2 (Inv_range g n s I t) Ht) as Hin.
    unfold everything, inflight in Hl, Hin. rewrite !app_length in Hl.
    assert (E1 : remaining s = []) by (apply length_zero_iff_nil; lia).
    assert (E2 : poolq s = []) by (apply length_zero_iff_nil; rewrite <- (map_length fst); lia).
    assert (E3 : running s = []) by (apply length_zero_iff_nil; rewrite <- (map_length fst); lia).
    assert (E4 : complq s = []) by (apply length_zero_iff_nil; lia).
    rewrite E1, E2, E3, E4, Dd in Hin. simpl in Hin. rewrite app_nil_r in Hin. exact Hin.
Qed.

(* ------------------------------------------------------------------ a registry of quiet fixtures *)
Lemma select_scope_from_registry reg sc : forall names l, select_scope reg sc names = Ok l ->
  forall fx, In fx l -> exists n, reg_find reg n = Some fx.
Proof.
  induction names as [|n r IH]; intros l H fx Hin; simpl in H.
  - inversion H. subst l. destruct Hin.
  - destruct (reg_find reg n) as [f|] eqn:Hf; [|discriminate]. destruct (select_scope reg sc r) as [l'|e] eqn:Hs; [|discriminate].
    inversion H. subst l. destruct (scope_eqb (fx_scope f) sc).
    + destruct Hin as [Hin|Hin]; [subst fx; exists n; exact Hf|apply (IH l' eq_refl fx Hin)].
    + apply (IH l' eq_refl fx Hin).
Qed.

Lemma quiet_registry_project pr reg :
  (forall s, In s (all_subsuites (p_suites pr)) -> quiet_suite s = true) ->
  (forall n fx, reg_find reg n = Some fx -> quiet_fixture fx = true) ->
  quiet_project pr reg.
Proof.
  intros Hs Hr. constructor; [exact Hs|]. intros direct sc l H. unfold get_scheduled_fixtures_for_scope in H.
  destruct (scheduled_names reg direct []) as [names|e] eqn:Hn; [|discriminate]. simpl in H.
  apply forallb_forall. intros fx Hin. destruct (select_scope_from_registry reg sc names l H fx Hin) as [n Hf]. exact (Hr n fx Hf).
Qed.
