(* Lemmas about the writer model (Model/Writer.v): framing of the path lookups, result "lenses", sorting. *)
From Coq Require Import List NArith ZArith Bool Lia.
Import ListNotations.
From LCC Require Import Base.Util Model.Report Model.Events Model.Writer.

(* ---------------- string / list equality ---------------- *)
Lemma list_eqb_refl : forall A (eqb : A -> A -> bool), (forall x, eqb x x = true) -> forall l, list_eqb eqb l l = true.
Proof. induction l; simpl; auto. rewrite H, IHl. reflexivity. Qed.

Lemma str_eqb_refl : forall s, str_eqb s s = true.
Proof. intro. apply list_eqb_refl. apply N.eqb_refl. Qed.

Lemma list_eqb_eq : forall A (eqb : A -> A -> bool), (forall x y, eqb x y = true -> x = y) ->
  forall l1 l2, list_eqb eqb l1 l2 = true -> l1 = l2.
Proof.
  induction l1; destruct l2; simpl; intros; try discriminate; auto.
  apply andb_true_iff in H0. destruct H0. f_equal; auto.
Qed.

Lemma str_eqb_eq : forall a b, str_eqb a b = true -> a = b.
Proof. apply list_eqb_eq. intros. apply N.eqb_eq. assumption. Qed.

(* ---------------- put / drop / pure ---------------- *)
Lemma put_put : forall A B C X (g : B -> C) (h : A -> B) (x : res (A * X)), put g (put h x) = put (fun a => g (h a)) x.
Proof. intros. destruct x as [[a o]|e]; reflexivity. Qed.

Lemma put_ext : forall A B X (g g' : A -> B) (x : res (A * X)), (forall a, g a = g' a) -> put g x = put g' x.
Proof. intros. destruct x as [[a o]|e]; simpl; congruence. Qed.

(* ---------------- setters ---------------- *)
Lemma ls_name_set_subs : forall s u, ls_name (set_ls_subs s u) = ls_name s.
Proof. destruct s; reflexivity. Qed.
Lemma ls_subs_set_subs : forall s u, ls_subs (set_ls_subs s u) = u.
Proof. destruct s; reflexivity. Qed.
Lemma set_subs_set_subs : forall s u v, set_ls_subs (set_ls_subs s u) v = set_ls_subs s v.
Proof. destruct s; reflexivity. Qed.

(* ---------------- lookups at the end of a list of distinct names ---------------- *)
Lemma name_taken_app : forall n l1 l2, name_taken n (l1 ++ l2) = name_taken n l1 || name_taken n l2.
Proof. intros. unfold name_taken. apply existsb_app. Qed.

Lemma upd_first_last : forall X n (g : lsuite -> res (lsuite * X)) l s,
  name_taken n l = false -> ls_name s = n ->
  upd_first n g (l ++ [s]) = put (fun s' => l ++ [s']) (g s).
Proof.
  induction l; simpl; intros s Hn Hs.
  - rewrite Hs, str_eqb_refl. reflexivity.
  - apply orb_false_iff in Hn. destruct Hn as [Ha Hl]. rewrite Ha.
    rewrite (IHl s Hl Hs). rewrite put_put. reflexivity.
Qed.

Lemma upd_test_last : forall X n (f : result -> res (result * X)) l rk m r,
  test_taken n l = false -> m_name m = n ->
  upd_test n f (l ++ [(rk, mkTest m r)]) = put (fun r' => l ++ [(rk, mkTest m r')]) (f r).
Proof.
  induction l; simpl; intros rk m r Hn Hm.
  - rewrite Hm, str_eqb_refl. reflexivity.
  - apply orb_false_iff in Hn. destruct Hn as [Ha Hl]. rewrite Ha.
    rewrite (IHl rk m r Hl Hm). rewrite put_put. reflexivity.
Qed.

Lemma split_last_app : forall q x, split_last (q ++ [x]) = Some (q, x).
Proof. induction q; simpl; intros; auto. rewrite IHq. reflexivity. Qed.

Lemma upd_nth_last : forall A (f : A -> res A) l x,
  upd_nth (length l) f (l ++ [x]) = bind (f x) (fun x' => Ok (l ++ [x'])).
Proof.
  induction l; simpl; intros.
  - destruct (f x); reflexivity.
  - rewrite IHl. destruct (f x); reflexivity.
Qed.

Lemma lookup_set_active : forall t r l, lookup_active t (set_active t r l) = Some r.
Proof.
  induction l as [|[t' r'] l]; simpl.
  - rewrite Z.eqb_refl. reflexivity.
  - destruct (Z.eqb t' t) eqn:E; simpl.
    + rewrite Z.eqb_refl. reflexivity.
    + rewrite E. assumption.
Qed.

(* ---------------- contexts: the spine of suites that are the last of their siblings ---------------- *)
Definition frame := (list lsuite * lsuite)%type.     (* left siblings, the suite (its own sub-suites are replaced by the plug) *)
Fixpoint plug (c : list frame) (u : list lsuite) : list lsuite :=
  match c with
  | [] => u
  | (l, s) :: c' => l ++ [set_ls_subs s (plug c' u)]
  end.
Definition ctx_path (c : list frame) : path := map (fun f => ls_name (snd f)) c.
Definition ctx_ok (c : list frame) : Prop := Forall (fun f => name_taken (ls_name (snd f)) (fst f) = false) c.

Lemma plug_app : forall c l s u, plug (c ++ [(l, s)]) u = plug c (l ++ [set_ls_subs s u]).
Proof. induction c as [|[l0 s0] c]; simpl; intros; auto. rewrite IHc. reflexivity. Qed.

Lemma ctx_path_app : forall c f, ctx_path (c ++ [f]) = ctx_path c ++ [ls_name (snd f)].
Proof. intros. unfold ctx_path. rewrite map_app. reflexivity. Qed.

Lemma ctx_ok_app : forall c l s, ctx_ok c -> name_taken (ls_name s) l = false -> ctx_ok (c ++ [(l, s)]).
Proof. intros. apply Forall_app. split; [assumption | constructor; [assumption | constructor]]. Qed.

Lemma upd_plug : forall X (f : lsuite -> res (lsuite * X)) c q u,
  ctx_ok c -> q <> [] ->
  upd_suite (ctx_path c ++ q) f (plug c u) = put (plug c) (upd_suite q f u).
Proof.
  induction c as [|[l s] c]; intros q u Hc Hq.
  - simpl. destruct (upd_suite q f u) as [[a o]|e]; reflexivity.
  - inversion Hc; subst. simpl in H1.
    change (ctx_path ((l, s) :: c) ++ q) with (ls_name s :: (ctx_path c ++ q)).
    assert (Hne : exists x y, ctx_path c ++ q = x :: y).
    { destruct (ctx_path c ++ q) eqn:E. apply app_eq_nil in E. destruct E. contradiction. eauto. }
    destruct Hne as [x [y Hxy]].
    cbn [upd_suite]. rewrite Hxy. rewrite <- Hxy.
    cbn [plug]. rewrite upd_first_last; auto.
    2: apply ls_name_set_subs.
    rewrite ls_subs_set_subs. rewrite IHc; auto.
    rewrite !put_put. apply put_ext. intro a. rewrite set_subs_set_subs. reflexivity.
Qed.

(* the suite addressed by (ctx_path c ++ [n]) when it is the last of the plugged list *)
Lemma upd_suite_here : forall X (f : lsuite -> res (lsuite * X)) c l s,
  ctx_ok c -> name_taken (ls_name s) l = false ->
  upd_suite (ctx_path c ++ [ls_name s]) f (plug c (l ++ [s])) = put (fun s' => plug c (l ++ [s'])) (f s).
Proof.
  intros. rewrite upd_plug; auto. 2: discriminate.
  cbn [upd_suite]. rewrite upd_first_last; auto. rewrite put_put. reflexivity.
Qed.

Lemma on_suite_here : forall (f : lsuite -> res lsuite) c l s a b x y A,
  ctx_ok c -> name_taken (ls_name s) l = false ->
  on_suite (ctx_path c ++ [ls_name s]) f (mkW a b x y (plug c (l ++ [s])) A)
  = bind (f s) (fun s' => Ok (mkW a b x y (plug c (l ++ [s'])) A)).
Proof.
  intros. unfold on_suite. cbn [w_suites]. rewrite upd_suite_here; auto.
  destruct (f s); reflexivity.
Qed.

(* ---------------- result lenses ---------------- *)
Definition rlens (loc : location) (build : result -> list (tid * sref) -> wstate) : Prop :=
  (forall X ne (f : result -> res (result * X)) r A,
      upd_result ne loc f (build r A) = put (fun r' => build r' A) (f r)) /\
  (forall r A, w_active (build r A) = A) /\
  (forall r A A', set_w_active (build r A) A' = build r A').

Lemma rlens_session_setup : forall a b y S, rlens LocSessionSetup (fun r A => mkW a b (Some r) y S A).
Proof.
  intros. split; [|split]; intros; try reflexivity.
  unfold upd_result. cbn. rewrite put_put. reflexivity.
Qed.

Lemma rlens_session_teardown : forall a b x S, rlens LocSessionTeardown (fun r A => mkW a b x (Some r) S A).
Proof.
  intros. split; [|split]; intros; try reflexivity.
  unfold upd_result. cbn. rewrite put_put. reflexivity.
Qed.

Lemma rlens_suite_setup : forall c l a b x y m rk st en td ts us,
  ctx_ok c -> name_taken (m_name m) l = false ->
  rlens (LocSuiteSetup (ctx_path c ++ [m_name m]))
        (fun r A => mkW a b x y (plug c (l ++ [LSuite m rk st en (Some r) td ts us])) A).
Proof.
  intros. split; [|split]; intros; try reflexivity.
  unfold upd_result. cbn [w_suites].
  change (m_name m) with (ls_name (LSuite m rk st en (Some r) td ts us)).
  rewrite upd_suite_here; auto. cbn. rewrite !put_put. reflexivity.
Qed.

Lemma rlens_suite_teardown : forall c l a b x y m rk st en su ts us,
  ctx_ok c -> name_taken (m_name m) l = false ->
  rlens (LocSuiteTeardown (ctx_path c ++ [m_name m]))
        (fun r A => mkW a b x y (plug c (l ++ [LSuite m rk st en su (Some r) ts us])) A).
Proof.
  intros. split; [|split]; intros; try reflexivity.
  unfold upd_result. cbn [w_suites].
  change (m_name m) with (ls_name (LSuite m rk st en su (Some r) ts us)).
  rewrite upd_suite_here; auto. cbn. rewrite !put_put. reflexivity.
Qed.

Lemma rlens_test : forall c l a b x y m rk st en su td ts us tm trk,
  ctx_ok c -> name_taken (m_name m) l = false -> test_taken (m_name tm) ts = false ->
  rlens (LocTest ((ctx_path c ++ [m_name m]) ++ [m_name tm]))
        (fun r A => mkW a b x y (plug c (l ++ [LSuite m rk st en su td (ts ++ [(trk, mkTest tm r)]) us])) A).
Proof.
  intros. split; [|split]; intros; try reflexivity.
  unfold upd_result. rewrite split_last_app. cbn [w_suites].
  change (m_name m) with (ls_name (LSuite m rk st en su td (ts ++ [(trk, mkTest tm r)]) us)).
  rewrite upd_suite_here; auto. cbn [ls_tests]. rewrite upd_test_last; auto.
  cbn. rewrite !put_put. reflexivity.
Qed.

(* ---------------- apply_all ---------------- *)
Lemma apply_all_app : forall l1 l2 w, apply_all w (l1 ++ l2) = bind (apply_all w l1) (fun w' => apply_all w' l2).
Proof.
  induction l1; simpl; intros; auto.
  destruct (apply w a); simpl; auto.
Qed.

(* ---------------- sorting by a constant key is the identity ---------------- *)
Lemma sort_by_const : forall A (key : A -> Z) k l, (forall x, In x l -> key x = k) -> sort_by key l = l.
Proof.
  induction l; simpl; intros; auto.
  unfold sort_by in *. simpl. rewrite IHl by auto.
  destruct l; simpl; auto.
  rewrite (H a), (H a0) by (simpl; auto). rewrite Z.leb_refl. reflexivity.
Qed.
