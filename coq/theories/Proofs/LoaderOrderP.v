(* Order: the symbols of a scope are loaded in rank order, and the import pass gives ranks in declaration order. *)
From Coq Require Import List Arith Bool NArith Lia Permutation Sorted.
Import ListNotations.
From LCC Require Import Model.Loader Proofs.LoaderP.

(* ------------------------------------------------------------------ insertion sort sorts *)
Section SortSorted.
  Context {A : Type} (key : A -> nat).
  Let leb (a b : A) : bool := Nat.leb (key a) (key b).
  Let R (a b : A) : Prop := key a <= key b.

  Lemma insert_by_sorted : forall x l, StronglySorted R l -> StronglySorted R (insert_by leb x l).
  Proof.
    induction l as [|y l IH]; simpl; intros H.
    - constructor; constructor.
    - inversion H as [|? ? Hs Hf]; subst. unfold leb at 1. destruct (Nat.leb_spec (key x) (key y)).
      + constructor; [assumption|]. constructor; [assumption|]. rewrite Forall_forall in *. intros z Hz. unfold R in *.
        specialize (Hf z Hz). lia.
      + constructor; [apply IH; assumption|]. rewrite Forall_forall in *. intros z Hz.
        apply (Permutation_in _ (insert_by_perm _ leb x l)) in Hz. destruct Hz as [Hz|Hz]; [subst; unfold R; lia|auto].
  Qed.

  Lemma sort_by_sorted : forall l, StronglySorted R (sort_by leb l).
  Proof. induction l as [|x l IH]; simpl; [constructor|]. apply insert_by_sorted. assumption. Qed.
End SortSorted.

(* a <=-sorted permutation of a strictly sorted list is that list *)
Lemma sorted_perm_unique : forall A (key : A -> nat) (l l' : list A),
  StronglySorted (fun a b => key a < key b) l -> Permutation l l' -> StronglySorted (fun a b => key a <= key b) l' -> l = l'.
Proof.
  intros A key. induction l as [|x l IH]; intros l' Hs Hp Hs'.
  - apply Permutation_nil in Hp. subst. reflexivity.
  - destruct l' as [|y l']; [apply Permutation_sym, Permutation_nil in Hp; discriminate|].
    inversion Hs as [|? ? Hs1 Hf1]; subst. inversion Hs' as [|? ? Hs2 Hf2]; subst.
    assert (E : x = y).
    { assert (Hx : In x (y :: l')) by (eapply Permutation_in; [exact Hp|left; reflexivity]).
      assert (Hy : In y (x :: l)) by (eapply Permutation_in; [apply Permutation_sym; exact Hp|left; reflexivity]).
      rewrite Forall_forall in *. destruct Hx as [Hx|Hx]; [congruence|]. destruct Hy as [Hy|Hy]; [congruence|].
      specialize (Hf1 _ Hy). specialize (Hf2 _ Hx). lia. }
    subst y. f_equal. apply IH; try assumption. eapply Permutation_cons_inv. exact Hp.
Qed.

Lemma StronglySorted_filter : forall A (R : A -> A -> Prop) f l, StronglySorted R l -> StronglySorted R (filter f l).
Proof.
  induction l as [|x l IH]; simpl; intros H; [constructor|]. inversion H; subst. destruct (f x); [|auto].
  constructor; [auto|]. apply filter_Forall. assumption.
Qed.

Lemma StronglySorted_dedupe : forall (R : item -> item -> Prop) l, StronglySorted R l -> StronglySorted R (dedupe_last l).
Proof.
  unfold dedupe_last. induction l as [|x l IH]; simpl; intros H; [constructor|]. inversion H as [|? ? Hs Hf]; subst.
  destruct (mem_str _ _); [auto|]. constructor; [auto|]. rewrite Forall_forall in *. intros y Hy. apply Hf.
  eapply dedupe_last_k_In. exact Hy.
Qed.

(* ------------------------------------------------------------------ symbols come out in rank order; with strictly
   increasing ranks that is the order of the scope *)
Lemma symbols_sorted : forall f l, StronglySorted (fun a b => item_rank a <= item_rank b) (symbols f l).
Proof. intros. unfold symbols, symbols_k. apply (sort_by_sorted item_rank). Qed.

Lemma symbols_source_order : forall f l,
  StronglySorted (fun a b => item_rank a < item_rank b) (filter f (dedupe_last l)) ->
  symbols f l = filter f (dedupe_last l).
Proof.
  intros f l H. symmetry. apply (sorted_perm_unique _ item_rank); [assumption| |apply symbols_sorted].
  apply Permutation_sym. apply (symbols_k_perm _ (fun x : item => x)).
Qed.

(* ------------------------------------------------------------------ the import pass ranks in declaration order *)
Definition auto_ranked (it : item) : bool :=
  match it with ITest _ _ => true | IClass _ c _ => match c_rank c with None => true | Some _ => false end end.

Lemma thread_mono : forall (f : nat -> item -> item * nat) l,
  Forall (fun x => forall n, n <= snd (f n x)) l -> forall n, n <= snd (thread f n l).
Proof.
  induction l as [|x l IH]; simpl; intros HF n; [lia|]. inversion HF as [|? ? Hx HF']; subst.
  specialize (Hx n). destruct (f n x) as [rx n'] eqn:E. simpl in Hx.
  specialize (IH HF' n'). destruct (thread f n' l) as [rr n''] eqn:E2. simpl in *. lia.
Qed.

Lemma rank_item_mono : forall it n, n <= snd (rank_item n it).
Proof.
  induction it as [r d|r c body IH] using item_ind'; intro n; simpl; [lia|].
  pose proof (thread_mono rank_item body IH n) as H. destruct (thread rank_item n body) as [rb n1]. simpl in H.
  destruct (c_rank c); simpl; lia.
Qed.

Lemma rank_item_bounds : forall it n, auto_ranked it = true ->
  n <= item_rank (fst (rank_item n it)) /\ item_rank (fst (rank_item n it)) < snd (rank_item n it).
Proof.
  intros [r d|r c body] n H; simpl in *; [lia|].
  pose proof (thread_mono rank_item body) as Hm. specialize (Hm (proj2 (Forall_forall _ _) (fun x _ => rank_item_mono x)) n).
  destruct (thread rank_item n body) as [rb n1]. simpl in Hm. destruct (c_rank c); [discriminate|]. simpl. lia.
Qed.

Lemma rank_item_auto : forall it n, auto_ranked (fst (rank_item n it)) = auto_ranked it.
Proof.
  intros [r d|r c body] n; simpl; [reflexivity|]. destruct (thread rank_item n body) as [rb n1]. destruct (c_rank c) eqn:E; simpl; rewrite E; reflexivity.
Qed.

Lemma rank_items_lower : forall l n x, In x (fst (rank_items n l)) -> auto_ranked x = true -> n <= item_rank x.
Proof.
  unfold rank_items. induction l as [|y l IH]; simpl; intros n x Hin Ha; [destruct Hin|].
  pose proof (rank_item_mono y n) as Hm. pose proof (rank_item_bounds y n) as Hb. pose proof (rank_item_auto y n) as Hau.
  destruct (rank_item n y) as [ry n'] eqn:E. simpl in *. specialize (IH n').
  destruct (thread rank_item n' l) as [rr n''] eqn:E2. simpl in *. destruct Hin as [Hin|Hin].
  - subst x. rewrite Hau in Ha. apply Hb in Ha. lia.
  - specialize (IH x Hin Ha). lia.
Qed.

Lemma rank_items_increasing : forall l n,
  StronglySorted (fun a b => item_rank a < item_rank b) (filter auto_ranked (fst (rank_items n l))).
Proof.
  unfold rank_items. induction l as [|y l IH]; simpl; intro n; [constructor|].
  pose proof (rank_item_bounds y n) as Hb. pose proof (rank_item_auto y n) as Hau.
  destruct (rank_item n y) as [ry n'] eqn:E. simpl in *. specialize (IH n').
  pose proof (rank_items_lower l n') as Hl. unfold rank_items in Hl.
  destruct (thread rank_item n' l) as [rr n''] eqn:E2. simpl in *.
  destruct (auto_ranked ry) eqn:Ha; [|assumption]. constructor; [assumption|].
  rewrite Forall_forall. intros x Hx. apply filter_In in Hx. destruct Hx as [Hx Hax]. specialize (Hl x Hx Hax).
  symmetry in Hau. apply Hb in Hau. lia.
Qed.

Lemma filter_filter_implies : forall A (f g : A -> bool) l, (forall x, f x = true -> g x = true) -> filter f (filter g l) = filter f l.
Proof.
  induction l as [|x l IH]; simpl; intros H; [reflexivity|]. destruct (g x) eqn:Eg; simpl; destruct (f x) eqn:Ef; rewrite ?IH; auto.
  apply H in Ef. congruence.
Qed.

Lemma filter_dedupe_comm_sorted : forall f (R : item -> item -> Prop) l, (forall x, f x = true -> auto_ranked x = true) ->
  StronglySorted R (filter auto_ranked l) -> StronglySorted R (filter f l).
Proof.
  intros f R l H Hs. rewrite <- (filter_filter_implies _ f auto_ranked l H). apply StronglySorted_filter. assumption.
Qed.

(* dedupe_last keeps a sub-sequence: a strictly sorted sub-sequence stays strictly sorted *)
Lemma dedupe_filter_sorted : forall f l,
  StronglySorted (fun a b => item_rank a < item_rank b) (filter f l) ->
  StronglySorted (fun a b => item_rank a < item_rank b) (filter f (dedupe_last l)).
Proof.
  unfold dedupe_last. induction l as [|x l IH]; simpl; intros H; [constructor|].
  destruct (mem_str _ _).
  - apply IH. destruct (f x); [inversion H; assumption|assumption].
  - simpl. destruct (f x).
    + inversion H as [|? ? Hs Hf]; subst. constructor; [auto|]. rewrite Forall_forall in *. intros y Hy. apply Hf.
      apply filter_In in Hy. apply filter_In. destruct Hy as [Hy Hfy]. split; [eapply dedupe_last_k_In; exact Hy|assumption].
    + auto.
Qed.

(* C13_order, scope level: after the import pass (any starting counter), the symbols selected by [f] -- provided they all
   take their rank from the counter: every test; every class without rank= -- are loaded in the order of their declaration *)
Lemma order_of_scope : forall f body n, (forall x, f x = true -> auto_ranked x = true) ->
  symbols f (fst (rank_items n body)) = filter f (dedupe_last (fst (rank_items n body))).
Proof.
  intros f body n H. apply symbols_source_order. apply dedupe_filter_sorted.
  apply (filter_dedupe_comm_sorted f _ _ H). apply rank_items_increasing.
Qed.

Lemma tests_in_declaration_order : forall body n,
  load_tests_of (fst (rank_items n body)) = flat_map expand_item (filter is_test (dedupe_last (fst (rank_items n body)))).
Proof.
  intros. unfold load_tests_of. rewrite (order_of_scope is_test); [reflexivity|]. intros [r d|r c b] H; [reflexivity|discriminate].
Qed.
