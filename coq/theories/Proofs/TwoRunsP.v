(* TWO RUNS OF THE SAME PROJECT GIVE THE SAME REPORT: linearization (LinearizeP) composed with thread merging
   (WriterOrderP.aggregate_rename_merge), with EVERY premise an executable boolean check.

     ts_par   the tagged event stream of the N-thread run;
     ts_seq   the SAME tagged events rearranged in the order of the 1-thread run (tasks do not overlap);
     T        the one thread identifier of the 1-thread run.

   two_runs_same_report:  the report of the parallel run  =  the report of the sequential rearrangement with all its threads
                          merged into the single thread T.

   Contents
     generic boolean checkers   nodupb / nodupb_sound (Section NoDupB)
     event_eqb_eq               event_eqb a b = true -> a = b   (node_eqb_eq on the way)
     merge_okb / merge_okb_sound               executable WriterOrderP.merge_ok
     deepb, node_keysb, keys_distinctb / keys_distinctb_sound      executable WriterOrderP.keys_distinct
     permb / permb_sound        NoDup of the tags of s1 /\ Permutation s1 s2
     two_runs_same_report       the main theorem
     two_runs_premises, two_runs_checkb, two_runs_failed, two_runs_checkb_sound, two_runs_failed_nil
                                one executable function for the harness, and the indexes of the false premises
     task_of_table, ordered_of_pairs           constructors for task_of / orderedb from tables
     retime, stream_eqb_mod_time               compare two streams up to the time fields (no theorem)
     TwoEx                      non-vacuity on LinEx.ts1 (sequential) / LinEx.ts2 (overlapping)
     preservedb_fast, startafterb_fast, coverageb_fast (+ _sound)   cheaper checkers for H1 / H2 / H3 (section 10)
     two_runs_via_base (LinearizeP's checkers) / two_runs_via_base_fast (cheaper checkers)
                                the composition through a BASE stream in which every task has its own thread identifier;
                                both observed streams are merges of it (needed because two unordered tasks run by the same
                                worker emit dependent events, so H3 fails on the observed streams)
     two_runs_base_premises, two_runs_base_checkb, two_runs_base_failed, two_runs_base_checkb_sound,
     two_runs_base_failed_nil, thread_table
     BaseEx                     non-vacuity: LinEx with own thread identifiers; three tests on two workers

   Only stdlib. *)
From Coq Require Import List NArith ZArith Bool Lia Arith Permutation.
Import ListNotations.
From LCC Require Import Base.Util Model.Report Model.Events Model.Writer Proofs.WriterP Proofs.WriterFilingP
  Proofs.WriterOrderP Proofs.LinearizeP.
From LCC Require Proofs.PrefixP.

(* ====================================================================================================================== *)
(* 1. generic: duplicate-freeness as a boolean                                                                             *)
(* ====================================================================================================================== *)
Section NoDupB.
  Variable A : Type.
  Variable eqb : A -> A -> bool.
  Hypothesis eqb_refl : forall x, eqb x x = true.

  Fixpoint nodupb (l : list A) : bool :=
    match l with
    | [] => true
    | x :: r => negb (existsb (eqb x) r) && nodupb r
    end.

  Lemma nodupb_sound : forall l, nodupb l = true -> NoDup l.
  Proof.
    induction l as [|x r IH]; intros H; cbn [nodupb] in H.
    - constructor.
    - apply andb_prop in H. destruct H as [H1 H2]. constructor; [|apply IH; exact H2].
      intros Hin. apply negb_true_iff in H1.
      assert (Hex : existsb (eqb x) r = true).
      { apply existsb_exists. exists x. split; [exact Hin|apply eqb_refl]. }
      rewrite Hex in H1. discriminate H1.
  Qed.
End NoDupB.

Arguments nodupb {A} eqb l.

Definition nodupZb : list Z -> bool := nodupb Z.eqb.
Definition nodupNb : list nat -> bool := nodupb Nat.eqb.

Lemma nodupZb_sound : forall l, nodupZb l = true -> NoDup l.
Proof. exact (nodupb_sound Z Z.eqb Z.eqb_refl). Qed.

Lemma nodupNb_sound : forall l, nodupNb l = true -> NoDup l.
Proof. exact (nodupb_sound nat Nat.eqb Nat.eqb_refl). Qed.

(* ====================================================================================================================== *)
(* 2. event_eqb is an equality                                                                                             *)
(* ====================================================================================================================== *)
Lemma node_eqb_eq : forall a b, node_eqb a b = true -> a = b.
Proof.
  intros [p m r] [p' m' r'] E. unfold node_eqb in E. cbn [n_parent n_meta n_rank] in E.
  apply andb_prop in E. destruct E as [E E3]. apply andb_prop in E. destruct E as [E1 E2].
  apply WriterOrderP.path_eqb_eq in E1. apply PrefixP.meta_eqb_eq in E2. apply Z.eqb_eq in E3.
  subst p' m' r'. reflexivity.
Qed.

Ltac eqb_solve :=
  repeat match goal with
         | H : _ && _ = true |- _ => apply andb_prop in H; destruct H
         end;
  repeat match goal with
         | H : str_eqb _ _ = true |- _ => apply PrefixP.N_list_eqb_eq in H
         | H : ostr_eqb _ _ = true |- _ => apply PrefixP.ostr_eqb_eq in H
         | H : Z.eqb _ _ = true |- _ => apply Z.eqb_eq in H
         | H : Bool.eqb _ _ = true |- _ => apply eqb_prop in H
         | H : node_eqb _ _ = true |- _ => apply node_eqb_eq in H
         | H : location_eqb _ _ = true |- _ => apply WriterOrderP.location_eqb_eq in H
         end;
  subst; reflexivity.

Lemma event_eqb_eq : forall a b, event_eqb a b = true -> a = b.
Proof. intros a b E. destruct a, b; cbn [event_eqb] in E; try discriminate E; eqb_solve. Qed.

(* ====================================================================================================================== *)
(* 3. executable merge_ok                                                                                                  *)
(* ====================================================================================================================== *)
Fixpoint merge_okb (f : tid -> tid) (open : list tid) (s : list event) : bool :=
  match s with
  | [] => true
  | e :: r =>
      match e with
      | EStepStart _ _ th _ =>
          forallb (fun th2 => Z.eqb th2 th || negb (Z.eqb (f th2) (f th))) open && merge_okb f (th :: open) r
      | EStepEnd _ _ th _ => existsb (Z.eqb th) open && merge_okb f (remove Z.eq_dec th open) r
      | _ => match thread_of e with
             | Some th => existsb (Z.eqb th) open && merge_okb f open r
             | None => merge_okb f open r
             end
      end
  end.

Lemma existsb_Zeqb_In : forall (th : Z) l, existsb (Z.eqb th) l = true -> In th l.
Proof.
  intros th l H. apply existsb_exists in H. destruct H as (x & Hx & E). apply Z.eqb_eq in E. subst x. exact Hx.
Qed.

Lemma merge_okb_sound : forall f s open, merge_okb f open s = true -> merge_ok f open s.
Proof.
  intros f. induction s as [|e s IH]; intros open H; [exact I|].
  destruct e; cbn [merge_okb merge_ok thread_of kind_of] in H |- *;
    try (apply IH; exact H; fail);
    apply andb_prop in H; destruct H as [H1 H2];
    try (split; [apply existsb_Zeqb_In; exact H1|apply IH; exact H2]; fail).
  (* StepStart *)
  split; [|apply IH; exact H2].
  intros th2 Hin Hne Ef.
  pose proof (proj1 (forallb_forall _ _) H1 th2 Hin) as Hc. cbn beta in Hc.
  apply orb_true_iff in Hc. destruct Hc as [Hc|Hc].
  - apply Z.eqb_eq in Hc. exact (Hne Hc).
  - apply negb_true_iff in Hc. apply Z.eqb_neq in Hc. exact (Hc Ef).
Qed.

(* ====================================================================================================================== *)
(* 4. executable keys_distinct                                                                                             *)
(* ====================================================================================================================== *)
Fixpoint deepb (p : lsuite -> bool) (s : lsuite) : bool :=
  match s with
  | LSuite _ _ _ _ _ _ _ us =>
      p s && (fix all (l : list lsuite) : bool := match l with [] => true | u :: r => deepb p u && all r end) us
  end.

Lemma deepb_unfold : forall p s, deepb p s = p s && forallb (deepb p) (ls_subs s).
Proof.
  (* the inner fix IS forallb (deepb p), up to conversion *)
  intros p [m rk a e x y ts us]. cbn [deepb ls_subs]. reflexivity.
Qed.

Lemma deepb_sound : forall (p : lsuite -> bool) (P : lsuite -> Prop), (forall s, p s = true -> P s) ->
  forall s, deepb p s = true -> deep P s.
Proof.
  intros p P Hp s. induction s as [m rk st e su td ts us IH] using lsuite_induct. intros H.
  apply deep_unfold. rewrite deepb_unfold in H. apply andb_prop in H. destruct H as [H1 H2].
  split; [apply Hp; exact H1|]. clear H1. cbn [ls_subs] in H2 |- *. revert H2.
  induction IH as [|u r Hu Hr IHr]; intros H2; [constructor|].
  cbn [forallb] in H2. apply andb_prop in H2. destruct H2 as [H2 H3].
  constructor; [apply Hu; exact H2|apply IHr; exact H3].
Qed.

Definition node_keysb (s : lsuite) : bool :=
  nodupZb (map fst (ls_tests s)) && nodupZb (map ls_rank (ls_subs s)).

Lemma node_keysb_sound : forall s, node_keysb s = true -> node_keys s.
Proof.
  intros s H. unfold node_keysb in H. apply andb_prop in H. destruct H as [H1 H2].
  split; apply nodupZb_sound; assumption.
Qed.

Definition keys_distinctb (w : wstate) : bool :=
  nodupZb (map ls_rank (w_suites w)) && forallb (deepb node_keysb) (w_suites w).

Lemma keys_distinctb_sound : forall w, keys_distinctb w = true -> keys_distinct w.
Proof.
  intros w H. unfold keys_distinctb in H. apply andb_prop in H. destruct H as [H1 H2]. split.
  - apply nodupZb_sound. exact H1.
  - apply Forall_forall. intros u Hu. apply (deepb_sound node_keysb node_keys node_keysb_sound).
    exact (proj1 (forallb_forall _ _) H2 u Hu).
Qed.

(* ====================================================================================================================== *)
(* 5. executable "same tagged events"                                                                                      *)
(* ====================================================================================================================== *)
Definition tagged_eqb (x y : nat * event) : bool := Nat.eqb (fst x) (fst y) && event_eqb (snd x) (snd y).

Lemma tagged_eqb_eq : forall x y, tagged_eqb x y = true -> x = y.
Proof.
  intros [i a] [j b] H. unfold tagged_eqb in H. cbn [fst snd] in H. apply andb_prop in H. destruct H as [H1 H2].
  apply Nat.eqb_eq in H1. apply event_eqb_eq in H2. subst j b. reflexivity.
Qed.

(* the tags of s1 are pairwise distinct, s1 and s2 have the same length, every element of s1 occurs in s2 *)
Definition permb (s1 s2 : list (nat * event)) : bool :=
  nodupNb (map fst s1) && Nat.eqb (length s1) (length s2) &&
  forallb (fun x => existsb (tagged_eqb x) s2) s1.

Lemma permb_sound : forall s1 s2, permb s1 s2 = true -> NoDup (map fst s1) /\ Permutation s1 s2.
Proof.
  intros s1 s2 H. unfold permb in H. apply andb_prop in H. destruct H as [H H3].
  apply andb_prop in H. destruct H as [H1 H2].
  assert (Hnd : NoDup (map fst s1)) by (apply nodupNb_sound; exact H1).
  split; [exact Hnd|].
  apply NoDup_Permutation_bis.
  - exact (NoDup_map_inv _ _ Hnd).
  - apply Nat.eqb_eq in H2. rewrite H2. apply le_n.
  - intros x Hx. pose proof (proj1 (forallb_forall _ _) H3 x Hx) as Hc. cbn beta in Hc.
    apply existsb_exists in Hc. destruct Hc as (y & Hy & E). apply tagged_eqb_eq in E. subst y. exact Hy.
Qed.

(* ====================================================================================================================== *)
(* 6. the main theorem                                                                                                     *)
(* ====================================================================================================================== *)
Theorem two_runs_same_report :
  forall (task_of : nat -> nat) (orderedb : nat -> nat -> bool) (ts_seq ts_par : list (nat * event)) (T : tid) w,
  permb ts_seq ts_par = true ->
  preservedb (fun x y => Nat.eqb (task_of (fst x)) (task_of (fst y))) ts_seq ts_par = true ->
  startafterb task_of orderedb ts_seq = true -> startafterb task_of orderedb ts_par = true ->
  coverageb task_of orderedb ts_seq = true ->
  apply_all init_wstate (map snd ts_seq) = Ok w ->
  all_alignedb init_wstate (map snd ts_seq) = true -> keys_distinctb w = true ->
  merge_okb (fun _ => T) [] (map snd ts_seq) = true ->
  exists w', apply_all init_wstate (map (rename (fun _ => T)) (map snd ts_seq)) = Ok w' /\
             aggregate (map snd ts_par) = Ok (normalize w').
Proof.
  intros task_of orderedb ts_seq ts_par T w Cp C1 C2a C2b C3 Hs Ca Ck Cm.
  destruct (permb_sound ts_seq ts_par Cp) as [Hnd Hp].
  assert (Hlin : aggregate (map snd ts_seq) = aggregate (map snd ts_par)).
  { exact (aggregate_task_linearizations_b task_of orderedb ts_seq ts_par w Hnd Hp C1 C2a C2b C3 Hs
             (all_alignedb_sound _ _ Ca) (keys_distinctb_sound w Ck)). }
  destruct (aggregate_rename_merge (fun _ => T) (map snd ts_seq) w (merge_okb_sound _ _ _ Cm) Hs) as (w' & Hs' & En).
  exists w'. split; [exact Hs'|].
  rewrite <- Hlin. unfold aggregate. rewrite Hs. cbn [bind]. rewrite En. reflexivity.
Qed.

(* ====================================================================================================================== *)
(* 7. one executable function for the harness                                                                              *)
(* ====================================================================================================================== *)
(* the premises, in a fixed order (the index of a premise in this list is what two_runs_failed reports):
     0  permb ts_seq ts_par                  same tagged events, tags pairwise distinct
     1  preservedb (same task) ts_seq ts_par every task's own events keep their order
     2  startafterb ts_seq                   in ts_seq a task's events come after those of the tasks it is ordered after
     3  startafterb ts_par                   the same in ts_par
     4  coverageb ts_seq                     dependent events come from the same task or from ordered tasks
     5  apply_all init_wstate ts_seq is Ok   the writer accepts the sequential stream
     6  all_alignedb ts_seq                  the alignment side condition of WriterOrderP
     7  keys_distinctb of the final state    sibling sort keys pairwise distinct (false when 5 is false)
     8  merge_okb (fun _ => T) [] ts_seq     in ts_seq no two threads have a step open at the same time *)
Definition two_runs_premises (task_of : nat -> nat) (orderedb : nat -> nat -> bool)
  (ts_seq ts_par : list (nat * event)) (T : tid) : list bool :=
  [ permb ts_seq ts_par;
    preservedb (fun x y => Nat.eqb (task_of (fst x)) (task_of (fst y))) ts_seq ts_par;
    startafterb task_of orderedb ts_seq;
    startafterb task_of orderedb ts_par;
    coverageb task_of orderedb ts_seq;
    match apply_all init_wstate (map snd ts_seq) with Ok _ => true | Err _ => false end;
    all_alignedb init_wstate (map snd ts_seq);
    match apply_all init_wstate (map snd ts_seq) with Ok w => keys_distinctb w | Err _ => false end;
    merge_okb (fun _ => T) [] (map snd ts_seq) ].

Definition two_runs_checkb (task_of : nat -> nat) (orderedb : nat -> nat -> bool)
  (ts_seq ts_par : list (nat * event)) (T : tid) : bool :=
  forallb (fun b : bool => b) (two_runs_premises task_of orderedb ts_seq ts_par T).

(* indexes (from i) of the false elements *)
Fixpoint false_indexes (i : nat) (l : list bool) : list nat :=
  match l with
  | [] => []
  | b :: r => if b then false_indexes (S i) r else i :: false_indexes (S i) r
  end.

Definition two_runs_failed (task_of : nat -> nat) (orderedb : nat -> nat -> bool)
  (ts_seq ts_par : list (nat * event)) (T : tid) : list nat :=
  false_indexes 0 (two_runs_premises task_of orderedb ts_seq ts_par T).

Lemma false_indexes_nil : forall l i, false_indexes i l = [] <-> forallb (fun b : bool => b) l = true.
Proof.
  induction l as [|b r IH]; intros i; cbn [false_indexes forallb].
  - split; reflexivity.
  - destruct b; cbn [andb].
    + apply IH.
    + split; intros H; discriminate H.
Qed.

Lemma two_runs_failed_nil : forall task_of orderedb ts_seq ts_par T,
  two_runs_failed task_of orderedb ts_seq ts_par T = [] <-> two_runs_checkb task_of orderedb ts_seq ts_par T = true.
Proof. intros task_of orderedb ts_seq ts_par T. apply false_indexes_nil. Qed.

Corollary two_runs_checkb_sound :
  forall (task_of : nat -> nat) (orderedb : nat -> nat -> bool) (ts_seq ts_par : list (nat * event)) (T : tid),
  two_runs_checkb task_of orderedb ts_seq ts_par T = true ->
  exists w w', apply_all init_wstate (map snd ts_seq) = Ok w /\
               apply_all init_wstate (map (rename (fun _ => T)) (map snd ts_seq)) = Ok w' /\
               aggregate (map snd ts_par) = Ok (normalize w').
Proof.
  intros task_of orderedb ts_seq ts_par T H. unfold two_runs_checkb, two_runs_premises in H. cbn [forallb] in H.
  apply andb_prop in H. destruct H as [Cp H]. apply andb_prop in H. destruct H as [C1 H].
  apply andb_prop in H. destruct H as [C2a H]. apply andb_prop in H. destruct H as [C2b H].
  apply andb_prop in H. destruct H as [C3 H]. apply andb_prop in H. destruct H as [_ H].
  apply andb_prop in H. destruct H as [Ca H]. apply andb_prop in H. destruct H as [Ck H].
  apply andb_prop in H. destruct H as [Cm _].
  destruct (apply_all init_wstate (map snd ts_seq)) as [w|er] eqn:Hs; [|discriminate Ck].
  destruct (two_runs_same_report task_of orderedb ts_seq ts_par T w Cp C1 C2a C2b C3 Hs Ca Ck Cm) as (w' & Hs' & Hr).
  exists w, w'. split; [reflexivity|]. split; [exact Hs'|exact Hr].
Qed.

(* constructors for the harness: the task of a tag from a table, the order of the tasks from a list of pairs *)
Definition task_of_table (l : list nat) : nat -> nat := fun tag => nth tag l 0.
Definition ordered_of_pairs (l : list (nat * nat)) : nat -> nat -> bool :=
  fun a b => existsb (fun p => Nat.eqb (fst p) a && Nat.eqb (snd p) b) l.

(* ====================================================================================================================== *)
(* 8. comparing streams up to the time fields (used by the harness; no theorem)                                            *)
(* ====================================================================================================================== *)
Definition retime (c : Z) (e : event) : event :=
  match e with
  | ESessionStart _ => ESessionStart c
  | ESessionEnd _ => ESessionEnd c
  | ESessionSetupStart _ => ESessionSetupStart c
  | ESessionSetupEnd _ => ESessionSetupEnd c
  | ESessionTeardownStart _ => ESessionTeardownStart c
  | ESessionTeardownEnd _ => ESessionTeardownEnd c
  | ESuiteStart n _ => ESuiteStart n c
  | ESuiteEnd n _ => ESuiteEnd n c
  | ESuiteSetupStart n _ => ESuiteSetupStart n c
  | ESuiteSetupEnd n _ => ESuiteSetupEnd n c
  | ESuiteTeardownStart n _ => ESuiteTeardownStart n c
  | ESuiteTeardownEnd n _ => ESuiteTeardownEnd n c
  | ETestStart n _ => ETestStart n c
  | ETestEnd n _ => ETestEnd n c
  | ETestSkipped n r _ => ETestSkipped n r c
  | ETestDisabled n r _ => ETestDisabled n r c
  | EStepStart l d th _ => EStepStart l d th c
  | EStepEnd l d th _ => EStepEnd l d th c
  | ELog l d th lv m _ => ELog l d th lv m c
  | ECheck l d th x ok y _ => ECheck l d th x ok y c
  | ELogAttachment l d th f x i _ => ELogAttachment l d th f x i c
  | ELogUrl l d th u x _ => ELogUrl l d th u x c
  end.

Definition stream_eqb_mod_time (s1 s2 : list event) : bool :=
  list_eqb event_eqb (map (retime 0%Z) s1) (map (retime 0%Z) s2).

(* ====================================================================================================================== *)
(* 9. non-vacuity: LinEx.ts1 (the sequential order, test a on thread 1 then test b on thread 2) and LinEx.ts2 (the two     *)
(*    tests overlap)                                                                                                       *)
(* ====================================================================================================================== *)
Module TwoEx.
  Definition ts_seq := LinEx.ts1.
  Definition ts_par := LinEx.ts2.

  Example streams_differ : map snd ts_seq <> map snd ts_par.
  Proof. exact LinEx.ts_differ. Qed.

  Example check : two_runs_checkb LinEx.task_of LinEx.orderedb ts_seq ts_par 1%Z = true.
  Proof. vm_compute; reflexivity. Qed.

  Example no_failure : two_runs_failed LinEx.task_of LinEx.orderedb ts_seq ts_par 1%Z = [].
  Proof. vm_compute; reflexivity. Qed.

  Example same_report :
    exists w w', apply_all init_wstate (map snd ts_seq) = Ok w /\
                 apply_all init_wstate (map (rename (fun _ => 1%Z)) (map snd ts_seq)) = Ok w' /\
                 aggregate (map snd ts_par) = Ok (normalize w').
  Proof. exact (two_runs_checkb_sound LinEx.task_of LinEx.orderedb ts_seq ts_par 1%Z check). Qed.

  (* the same with the task structure given by tables, as the harness gives it *)
  Definition tasks : list nat := [0; 0; 1; 1; 1; 1; 1; 2; 2; 2; 2; 2; 3; 3].
  Definition order : list (nat * nat) := [(0, 1); (0, 2); (0, 3); (1, 3); (2, 3)].

  Example check_tables : two_runs_checkb (task_of_table tasks) (ordered_of_pairs order) ts_seq ts_par 1%Z = true.
  Proof. vm_compute; reflexivity. Qed.

  (* the merged sequential stream really is a 1-thread stream and differs from the sequential stream *)
  Example merged_one_thread : threads (map (rename (fun _ => 1%Z)) (map snd ts_seq)) = [1; 1; 1; 1; 1; 1]%Z /\
                              threads (map snd ts_seq) = [1; 1; 1; 2; 2; 2]%Z.
  Proof. split; vm_compute; reflexivity. Qed.

  (* the checks are not trivially true: with the roles swapped (the overlapping order taken as the "sequential" one) the
     thread-merging premise fails, and only that one; with the two tests declared ORDERED the parallel stream fails H2 *)
  Example swapped_fails : two_runs_failed LinEx.task_of LinEx.orderedb ts_par ts_seq 1%Z = [8].
  Proof. vm_compute; reflexivity. Qed.

  Example ordered_fails :
    two_runs_failed (task_of_table tasks) (ordered_of_pairs ((1, 2) :: order)) ts_seq ts_par 1%Z = [3].
  Proof. vm_compute; reflexivity. Qed.

  (* a lost event is noticed by premise 0 *)
  Example lost_event_fails : In 0 (two_runs_failed LinEx.task_of LinEx.orderedb ts_seq (tl ts_par) 1%Z).
  Proof. vm_compute. left. reflexivity. Qed.

  (* retime / stream_eqb_mod_time *)
  Example retime_ex : stream_eqb_mod_time (map snd ts_seq) (map (retime 77%Z) (map snd ts_seq)) = true /\
                      stream_eqb_mod_time (map snd ts_seq) (map snd ts_par) = false /\
                      list_eqb event_eqb (map snd ts_seq) (map (retime 77%Z) (map snd ts_seq)) = false.
  Proof. vm_compute. repeat split. Qed.
End TwoEx.

(* ====================================================================================================================== *)
(* 10. cheaper checkers for H1 / H2 / H3, sound directly for the hypotheses of aggregate_task_linearizations               *)
(*     (LinearizeP's preservedb / startafterb / coverageb call the linear beforeb_nat, task_of and orderedb inside a        *)
(*     quadratic loop; here the tasks are computed once per event and `before` is never recomputed)                        *)
(* ====================================================================================================================== *)
Section BeforeFacts.
  Variables A B : Type.

  Lemma before_trichotomy : forall (s : list A) x y, In x s -> In y s -> x = y \/ before x y s \/ before y x s.
  Proof.
    induction s as [|z s IH]; intros x y Ix Iy; [destruct Ix|].
    destruct Ix as [Ix|Ix]; destruct Iy as [Iy|Iy].
    - left. rewrite <- Ix. exact Iy.
    - subst z. right. left. apply before_head. exact Iy.
    - subst z. right. right. apply before_head. exact Ix.
    - destruct (IH x y Ix Iy) as [E|[Hb|Hb]].
      + left. exact E.
      + right. left. apply before_tail. exact Hb.
      + right. right. apply before_tail. exact Hb.
  Qed.

  Lemma before_map : forall (g : A -> B) s x y, before x y s -> before (g x) (g y) (map g s).
  Proof.
    intros g s x y (a & b & c & E). subst s. exists (map g a), (map g b), (map g c).
    rewrite map_app. cbn [map]. rewrite map_app. reflexivity.
  Qed.

  Lemma before_map_inv : forall (g : A -> B) s u v, before u v (map g s) ->
    exists x y, g x = u /\ g y = v /\ before x y s.
  Proof.
    intros g. induction s as [|z s IH]; intros u v H; cbn [map] in H; [exfalso; exact (before_nil _ _ _ H)|].
    destruct (before_cons_inv _ _ _ _ _ H) as [[E I]|Hb].
    - apply in_map_iff in I. destruct I as (y & Ey & Iy). exists z, y. split; [exact E|]. split; [exact Ey|].
      apply before_head. exact Iy.
    - destruct (IH u v Hb) as (x & y & Ex & Ey & Hxy). exists x, y. split; [exact Ex|]. split; [exact Ey|].
      apply before_tail. exact Hxy.
  Qed.

  Lemma before_filter : forall (p : A -> bool) s x y, p x = true -> p y = true -> before x y s ->
    before x y (filter p s).
  Proof.
    intros p s x y Hx Hy (a & b & c & E). subst s. exists (filter p a), (filter p b), (filter p c).
    rewrite filter_app. cbn [filter]. rewrite Hx. rewrite filter_app. cbn [filter]. rewrite Hy. reflexivity.
  Qed.

  Lemma before_filter_inv : forall (p : A -> bool) s x y, before x y (filter p s) -> before x y s.
  Proof.
    intros p. induction s as [|z s IH]; intros x y H; cbn [filter] in H; [exact H|].
    destruct (p z) eqn:Ez.
    - destruct (before_cons_inv _ _ _ _ _ H) as [[E I]|Hb].
      + subst z. apply before_head. exact (proj1 (proj1 (filter_In _ _ _) I)).
      + apply before_tail. exact (IH x y Hb).
    - apply before_tail. exact (IH x y H).
  Qed.
End BeforeFacts.

Section FastChecks.
  Variable A : Type.

  (* ---- H2 ----  one walk over the tasks of the stream: no event at or after an event y belongs to a task that is
     ordered before y's task *)
  Fixpoint sa_tasks (orderedb : nat -> nat -> bool) (l : list nat) : bool :=
    match l with
    | [] => true
    | ty :: r => if orderedb ty ty then false
                 else if existsb (fun tx => orderedb tx ty) r then false else sa_tasks orderedb r
    end.

  Definition startafterb_fast (task_of : nat -> nat) (orderedb : nat -> nat -> bool) (s : list (nat * A)) : bool :=
    sa_tasks orderedb (map (fun x => task_of (fst x)) s).

  Lemma sa_tasks_sound : forall (g : nat * A -> nat) orderedb s, sa_tasks orderedb (map g s) = true ->
    forall y x, (x = y /\ In x s) \/ before y x s -> orderedb (g x) (g y) = false.
  Proof.
    intros g orderedb. induction s as [|z s IH]; intros H y x Hc.
    - destruct Hc as [[_ []]|Hb]. exfalso. exact (before_nil _ _ _ Hb).
    - cbn [map sa_tasks] in H. destruct (orderedb (g z) (g z)) eqn:Ez; [discriminate H|].
      destruct (existsb (fun tx => orderedb tx (g z)) (map g s)) eqn:Ex; [discriminate H|].
      assert (Hlater : forall x', In x' s -> orderedb (g x') (g z) = false).
      { intros x' Ix'. destruct (orderedb (g x') (g z)) eqn:Eo; [|reflexivity]. exfalso.
        assert (Ht : existsb (fun tx => orderedb tx (g z)) (map g s) = true).
        { apply existsb_exists. exists (g x'). split; [apply in_map; exact Ix'|exact Eo]. }
        rewrite Ht in Ex. discriminate Ex. }
      destruct Hc as [[E [Iz|Ix]]|Hb].
      + rewrite <- E, <- Iz. exact Ez.
      + apply (IH H y x). left. split; [exact E|exact Ix].
      + destruct (before_cons_inv _ _ _ _ _ Hb) as [[E Ix]|Hb'].
        * rewrite <- E. exact (Hlater x Ix).
        * apply (IH H y x). right. exact Hb'.
  Qed.

  Lemma startafterb_fast_sound : forall task_of orderedb (s : list (nat * A)),
    startafterb_fast task_of orderedb s = true ->
    forall x y, In x s -> In y s -> orderedb (task_of (fst x)) (task_of (fst y)) = true -> before x y s.
  Proof.
    intros task_of orderedb s H x y Ix Iy Ho.
    pose proof (sa_tasks_sound (fun z => task_of (fst z)) orderedb s H y x) as Hs. cbn beta in Hs.
    destruct (before_trichotomy _ s x y Ix Iy) as [E|[Hb|Hb]].
    - rewrite (Hs (or_introl (conj E Ix))) in Ho. discriminate Ho.
    - exact Hb.
    - rewrite (Hs (or_intror Hb)) in Ho. discriminate Ho.
  Qed.

  (* ---- H1 ----  for every task, the tags of its events form the same sequence in both streams *)
  Definition tasktags (task_of : nat -> nat) (s : list (nat * A)) : list (nat * nat) :=
    map (fun x => (task_of (fst x), fst x)) s.
  Definition proj_task (t : nat) (l : list (nat * nat)) : list nat :=
    map snd (filter (fun q => Nat.eqb (fst q) t) l).

  Definition preservedb_fast (task_of : nat -> nat) (s1 s2 : list (nat * A)) : bool :=
    let l1 := tasktags task_of s1 in
    let l2 := tasktags task_of s2 in
    forallb (fun t => list_eqb Nat.eqb (proj_task t l1) (proj_task t l2)) (nodup Nat.eq_dec (map fst l1)).

  Lemma preservedb_fast_sound : forall task_of (s1 s2 : list (nat * A)),
    NoDup (map fst s2) -> (forall x, In x s1 -> In x s2) -> preservedb_fast task_of s1 s2 = true ->
    forall x y, task_of (fst x) = task_of (fst y) -> before x y s1 -> before x y s2.
  Proof.
    intros task_of s1 s2 Hnd Hin H x y Et Hb.
    pose (g := fun z : nat * A => (task_of (fst z), fst z)).
    pose (t := task_of (fst x)).
    pose (p := fun q : nat * nat => Nat.eqb (fst q) t).
    destruct (before_In _ _ _ Hb) as [Ix Iy].
    assert (Heq : proj_task t (map g s1) = proj_task t (map g s2)).
    { unfold preservedb_fast in H. cbn zeta in H.
      apply (list_eqb_eq nat Nat.eqb (fun a b Hab => proj1 (Nat.eqb_eq a b) Hab)).
      apply (proj1 (forallb_forall _ _) H t). apply nodup_In. unfold tasktags. rewrite map_map. cbn [fst].
      apply in_map_iff. exists x. split; [reflexivity|exact Ix]. }
    assert (B1 : before (snd (g x)) (snd (g y)) (proj_task t (map g s1))).
    { unfold proj_task. apply before_map. apply before_filter.
      - cbn [g fst]. apply Nat.eqb_refl.
      - cbn [g fst]. rewrite <- Et. apply Nat.eqb_refl.
      - apply before_map. exact Hb. }
    rewrite Heq in B1. unfold proj_task in B1.
    destruct (before_map_inv _ _ snd _ _ _ B1) as (q1 & q2 & E1 & E2 & B2).
    apply before_filter_inv in B2.
    destruct (before_map_inv _ _ g _ _ _ B2) as (x' & y' & Ex & Ey & B3).
    destruct (before_In _ _ _ B3) as [Ix' Iy'].
    assert (Exx : x' = x).
    { apply (tag_inj A s2 x' x Hnd Ix' (Hin x Ix)). rewrite <- Ex in E1. exact E1. }
    assert (Eyy : y' = y).
    { apply (tag_inj A s2 y' y Hnd Iy' (Hin y Iy)). rewrite <- Ey in E2. exact E2. }
    rewrite <- Exx, <- Eyy. exact B3.
  Qed.
End FastChecks.

Arguments startafterb_fast {A} task_of orderedb s.
Arguments preservedb_fast {A} task_of s1 s2.

(* ---- H3 ----  the task of every event is computed once; the tests are made in the order independent / same task /
   ordered, and stop at the first that succeeds *)
Definition coverageb_fast (task_of : nat -> nat) (orderedb : nat -> nat -> bool) (s : list (nat * event)) : bool :=
  let l := map (fun x => (task_of (fst x), snd x)) s in
  forallb (fun a => forallb (fun b =>
    if indep (snd a) (snd b) then true
    else if Nat.eqb (fst a) (fst b) then true
    else if orderedb (fst a) (fst b) then true else orderedb (fst b) (fst a)) l) l.

Lemma coverageb_fast_sound : forall task_of orderedb s, coverageb_fast task_of orderedb s = true ->
  forall x y, In x s -> In y s -> indep (snd x) (snd y) = false -> x <> y ->
    task_of (fst x) = task_of (fst y) \/ orderedb (task_of (fst x)) (task_of (fst y)) = true \/
    orderedb (task_of (fst y)) (task_of (fst x)) = true.
Proof.
  intros task_of orderedb s H x y Ix Iy Hxy _. unfold coverageb_fast in H. cbn zeta in H.
  pose (g := fun z : nat * event => (task_of (fst z), snd z)).
  pose proof (proj1 (forallb_forall _ _) (proj1 (forallb_forall _ _) H (g x) (in_map g s x Ix)) (g y) (in_map g s y Iy))
    as Hc.
  cbn [g fst snd] in Hc. rewrite Hxy in Hc.
  destruct (Nat.eqb (task_of (fst x)) (task_of (fst y))) eqn:En; [left; apply Nat.eqb_eq; exact En|].
  destruct (orderedb (task_of (fst x)) (task_of (fst y))) eqn:Eo; [right; left; reflexivity|].
  right. right. exact Hc.
Qed.

(* ====================================================================================================================== *)
(* 11. the composition through a BASE stream in which every task has a thread identifier of its own                        *)
(* ====================================================================================================================== *)
(* Two tasks that the parallel run happened to execute on the same worker thread emit DEPENDENT events (the writer keys open
   steps by thread) although the dependency graph does not order them, so H3 (coverageb) fails on the observed streams.
   In the base streams every task has its own thread identifier: H3 holds, and both observed streams are MERGES of a base
   stream:   1-thread run  = rename (fun _ => T) base_seq,      N-thread run = rename f base_par
   (f : the task's own thread identifier |-> the worker thread that ran the task). *)
Lemma aggregate_ok_inv : forall s r, aggregate s = Ok r -> exists w, apply_all init_wstate s = Ok w /\ normalize w = r.
Proof.
  intros s r H. unfold aggregate in H. destruct (apply_all init_wstate s) as [w|er]; cbn [bind] in H; [|discriminate H].
  exists w. split; [reflexivity|]. injection H as H. exact H.
Qed.

Lemma merge_both_sides : forall (s_seq s_par : list event) (f : tid -> tid) (T : tid) w,
  aggregate s_seq = aggregate s_par -> apply_all init_wstate s_seq = Ok w ->
  merge_ok (fun _ => T) [] s_seq -> merge_ok f [] s_par ->
  exists w1 wn, apply_all init_wstate (map (rename (fun _ => T)) s_seq) = Ok w1 /\
                apply_all init_wstate (map (rename f) s_par) = Ok wn /\
                normalize w1 = normalize wn.
Proof.
  intros s_seq s_par f T w Hlin Hs Hm1 Hmn.
  assert (Hagg : aggregate s_par = Ok (normalize w)).
  { rewrite <- Hlin. unfold aggregate. rewrite Hs. reflexivity. }
  destruct (aggregate_ok_inv s_par (normalize w) Hagg) as (wp & Hp & Enp).
  destruct (aggregate_rename_merge (fun _ => T) s_seq w Hm1 Hs) as (w1 & Hs1 & E1).
  destruct (aggregate_rename_merge f s_par wp Hmn Hp) as (wn & Hsn & En).
  exists w1, wn. split; [exact Hs1|]. split; [exact Hsn|]. rewrite E1, En. symmetry. exact Enp.
Qed.

Theorem two_runs_via_base :
  forall (task_of : nat -> nat) (orderedb : nat -> nat -> bool) (base_seq base_par : list (nat * event))
         (f : tid -> tid) (T : tid) w,
  permb base_seq base_par = true ->
  preservedb (fun x y => Nat.eqb (task_of (fst x)) (task_of (fst y))) base_seq base_par = true ->
  startafterb task_of orderedb base_seq = true -> startafterb task_of orderedb base_par = true ->
  coverageb task_of orderedb base_seq = true ->
  apply_all init_wstate (map snd base_seq) = Ok w ->
  all_alignedb init_wstate (map snd base_seq) = true -> keys_distinctb w = true ->
  merge_okb (fun _ => T) [] (map snd base_seq) = true ->
  merge_okb f [] (map snd base_par) = true ->
  exists w1 wn, apply_all init_wstate (map (rename (fun _ => T)) (map snd base_seq)) = Ok w1 /\
                apply_all init_wstate (map (rename f) (map snd base_par)) = Ok wn /\
                normalize w1 = normalize wn.
Proof.
  intros task_of orderedb base_seq base_par f T w Cp C1 C2a C2b C3 Hs Ca Ck Cm1 Cmn.
  destruct (permb_sound base_seq base_par Cp) as [Hnd Hp].
  apply (merge_both_sides _ _ f T w); [|exact Hs|exact (merge_okb_sound _ _ _ Cm1)|exact (merge_okb_sound _ _ _ Cmn)].
  exact (aggregate_task_linearizations_b task_of orderedb base_seq base_par w Hnd Hp C1 C2a C2b C3 Hs
           (all_alignedb_sound _ _ Ca) (keys_distinctb_sound w Ck)).
Qed.

(* the same with the cheaper checkers of section 10 *)
Theorem two_runs_via_base_fast :
  forall (task_of : nat -> nat) (orderedb : nat -> nat -> bool) (base_seq base_par : list (nat * event))
         (f : tid -> tid) (T : tid) w,
  permb base_seq base_par = true ->
  preservedb_fast task_of base_seq base_par = true ->
  startafterb_fast task_of orderedb base_seq = true -> startafterb_fast task_of orderedb base_par = true ->
  coverageb_fast task_of orderedb base_seq = true ->
  apply_all init_wstate (map snd base_seq) = Ok w ->
  all_alignedb init_wstate (map snd base_seq) = true -> keys_distinctb w = true ->
  merge_okb (fun _ => T) [] (map snd base_seq) = true ->
  merge_okb f [] (map snd base_par) = true ->
  exists w1 wn, apply_all init_wstate (map (rename (fun _ => T)) (map snd base_seq)) = Ok w1 /\
                apply_all init_wstate (map (rename f) (map snd base_par)) = Ok wn /\
                normalize w1 = normalize wn.
Proof.
  intros task_of orderedb base_seq base_par f T w Cp C1 C2a C2b C3 Hs Ca Ck Cm1 Cmn.
  destruct (permb_sound base_seq base_par Cp) as [Hnd Hp].
  assert (Hnd2 : NoDup (map fst base_par)) by (exact (Permutation_NoDup (Permutation_map fst Hp) Hnd)).
  apply (merge_both_sides _ _ f T w); [|exact Hs|exact (merge_okb_sound _ _ _ Cm1)|exact (merge_okb_sound _ _ _ Cmn)].
  apply (aggregate_task_linearizations task_of (fun t t' => orderedb t t' = true) base_seq base_par w Hnd Hp);
    [| | | |exact Hs|exact (all_alignedb_sound _ _ Ca)|exact (keys_distinctb_sound w Ck)].
  - exact (preservedb_fast_sound _ task_of base_seq base_par Hnd2 (fun z Hz => Permutation_in z Hp Hz) C1).
  - exact (startafterb_fast_sound _ task_of orderedb base_seq C2a).
  - exact (startafterb_fast_sound _ task_of orderedb base_par C2b).
  - exact (coverageb_fast_sound task_of orderedb base_seq C3).
Qed.

(* the premises, in a fixed order; indexes 0..8 have the meaning they have in two_runs_premises (for base_seq / base_par;
   1-4 are computed by the cheaper checkers of section 10), and
     9  merge_okb f [] base_par     in base_par no two tasks mapped to the same worker have a step open at the same time *)
Definition two_runs_base_premises (task_of : nat -> nat) (orderedb : nat -> nat -> bool)
  (base_seq base_par : list (nat * event)) (f : tid -> tid) (T : tid) : list bool :=
  [ permb base_seq base_par;
    preservedb_fast task_of base_seq base_par;
    startafterb_fast task_of orderedb base_seq;
    startafterb_fast task_of orderedb base_par;
    coverageb_fast task_of orderedb base_seq;
    match apply_all init_wstate (map snd base_seq) with Ok _ => true | Err _ => false end;
    all_alignedb init_wstate (map snd base_seq);
    match apply_all init_wstate (map snd base_seq) with Ok w => keys_distinctb w | Err _ => false end;
    merge_okb (fun _ => T) [] (map snd base_seq);
    merge_okb f [] (map snd base_par) ].

Definition two_runs_base_checkb (task_of : nat -> nat) (orderedb : nat -> nat -> bool)
  (base_seq base_par : list (nat * event)) (f : tid -> tid) (T : tid) : bool :=
  forallb (fun b : bool => b) (two_runs_base_premises task_of orderedb base_seq base_par f T).

Definition two_runs_base_failed (task_of : nat -> nat) (orderedb : nat -> nat -> bool)
  (base_seq base_par : list (nat * event)) (f : tid -> tid) (T : tid) : list nat :=
  false_indexes 0 (two_runs_base_premises task_of orderedb base_seq base_par f T).

Lemma two_runs_base_failed_nil : forall task_of orderedb base_seq base_par f T,
  two_runs_base_failed task_of orderedb base_seq base_par f T = [] <->
  two_runs_base_checkb task_of orderedb base_seq base_par f T = true.
Proof. intros task_of orderedb base_seq base_par f T. apply false_indexes_nil. Qed.

Corollary two_runs_base_checkb_sound :
  forall (task_of : nat -> nat) (orderedb : nat -> nat -> bool) (base_seq base_par : list (nat * event))
         (f : tid -> tid) (T : tid),
  two_runs_base_checkb task_of orderedb base_seq base_par f T = true ->
  exists w w1 wn, apply_all init_wstate (map snd base_seq) = Ok w /\
                  apply_all init_wstate (map (rename (fun _ => T)) (map snd base_seq)) = Ok w1 /\
                  apply_all init_wstate (map (rename f) (map snd base_par)) = Ok wn /\
                  normalize w1 = normalize wn.
Proof.
  intros task_of orderedb base_seq base_par f T H. unfold two_runs_base_checkb, two_runs_base_premises in H.
  cbn [forallb] in H.
  apply andb_prop in H. destruct H as [Cp H]. apply andb_prop in H. destruct H as [C1 H].
  apply andb_prop in H. destruct H as [C2a H]. apply andb_prop in H. destruct H as [C2b H].
  apply andb_prop in H. destruct H as [C3 H]. apply andb_prop in H. destruct H as [_ H].
  apply andb_prop in H. destruct H as [Ca H]. apply andb_prop in H. destruct H as [Ck H].
  apply andb_prop in H. destruct H as [Cm1 H]. apply andb_prop in H. destruct H as [Cmn _].
  destruct (apply_all init_wstate (map snd base_seq)) as [w|er] eqn:Hs; [|discriminate Ck].
  destruct (two_runs_via_base_fast task_of orderedb base_seq base_par f T w Cp C1 C2a C2b C3 Hs Ca Ck Cm1 Cmn)
    as (w1 & wn & Hs1 & Hsn & En).
  exists w, w1, wn. split; [reflexivity|]. split; [exact Hs1|]. split; [exact Hsn|exact En].
Qed.

(* f from a table: the thread identifier th (a small natural number, e.g. the number of the task) is mapped to the th-th
   entry; identifiers outside the table are left alone *)
Definition thread_table (l : list Z) : tid -> tid := fun th => nth (Z.to_nat th) l th.

(* a cheaper orderedb for long streams: the a-th entry of the table lists the tasks b with `a ordered before b`
   (ordered_of_pairs walks the whole list of pairs at every call) *)
Definition ordered_of_succs (l : list (list nat)) : nat -> nat -> bool :=
  fun a b => existsb (Nat.eqb b) (nth a l []).

(* ====================================================================================================================== *)
(* 12. non-vacuity of the composition through a base stream                                                                *)
(* ====================================================================================================================== *)
Module BaseEx.
  Import Ex.
  Local Open Scope Z_scope.

  (* --- (a) derived from LinEx: test a gets the thread identifier 3, test b gets 4; f maps them back to the worker
         threads 1 and 2 of LinEx.ts2 --- *)
  Definition own (th : tid) : tid := if Z.eqb th 1 then 3 else if Z.eqb th 2 then 4 else th.
  Definition to_base (s : list (nat * event)) : list (nat * event) := map (fun x => (fst x, rename own (snd x))) s.
  Definition base_seq := to_base LinEx.ts1.
  Definition base_par := to_base LinEx.ts2.
  Definition f : tid -> tid := thread_table [0; 0; 0; 1; 2].

  Example base_threads : threads (map snd base_par) = [4; 3; 3; 4; 3; 4].
  Proof. vm_compute; reflexivity. Qed.

  Example merges_are_the_observed_streams :
    map (rename f) (map snd base_par) = map snd LinEx.ts2 /\
    map (rename (fun _ => 1)) (map snd base_seq) = map (rename (fun _ => 1)) (map snd LinEx.ts1) /\
    map snd base_seq <> map snd base_par.
  Proof. split; [vm_compute; reflexivity|]. split; [vm_compute; reflexivity|]. intros E. vm_compute in E. discriminate E. Qed.

  Example check : two_runs_base_checkb LinEx.task_of LinEx.orderedb base_seq base_par f 1 = true.
  Proof. vm_compute; reflexivity. Qed.

  Example same_report :
    exists w w1 wn, apply_all init_wstate (map snd base_seq) = Ok w /\
                    apply_all init_wstate (map (rename (fun _ => 1)) (map snd base_seq)) = Ok w1 /\
                    apply_all init_wstate (map (rename f) (map snd base_par)) = Ok wn /\
                    normalize w1 = normalize wn.
  Proof. exact (two_runs_base_checkb_sound LinEx.task_of LinEx.orderedb base_seq base_par f 1 check). Qed.

  (* the slow and the cheap checkers agree here *)
  Example slow_checks_too :
    preservedb (fun x y => Nat.eqb (LinEx.task_of (fst x)) (LinEx.task_of (fst y))) base_seq base_par = true /\
    startafterb LinEx.task_of LinEx.orderedb base_seq = true /\ startafterb LinEx.task_of LinEx.orderedb base_par = true /\
    coverageb LinEx.task_of LinEx.orderedb base_seq = true.
  Proof. vm_compute. repeat split. Qed.

  (* f merging the two OVERLAPPING tests into one worker is rejected by premise 9, and only by it *)
  Example bad_f : two_runs_base_failed LinEx.task_of LinEx.orderedb base_seq base_par (fun _ => 1) 1 = [9%nat].
  Proof. vm_compute; reflexivity. Qed.

  (* --- (b) the situation that motivates the base stream: three tests a, b, c of one suite, two workers;
         worker 1 runs a then c, worker 2 runs b (b overlaps both).  Tasks: 0 = start, 1 = a, 2 = b, 3 = c, 4 = end;
         the own thread identifier of a task is its number. --- *)
  Definition nC : node := mkNode [[115%N]] (mk 99) (test_key 0 2).
  Definition lC : location := LocTest [[115%N]; [99%N]].
  Definition a0 := ETestStart nA 3.  Definition a1 := EStepStart lA d 1 4.  Definition a2 := EStepEnd lA d 1 5.
  Definition a3 := ETestEnd nA 6.
  Definition b0 := ETestStart nB 7.  Definition b1 := EStepStart lB d 2 8.  Definition b2 := EStepEnd lB d 2 9.
  Definition b3 := ETestEnd nB 10.
  Definition c0 := ETestStart nC 11. Definition c1 := EStepStart lC d 3 12. Definition c2 := EStepEnd lC d 3 13.
  Definition c3 := ETestEnd nC 14.
  Definition h0 := ESessionStart 1.  Definition h1 := ESuiteStart nS 2.
  Definition z0 := ESuiteEnd nS 15.  Definition z1 := ESessionEnd 16.
  Local Close Scope Z_scope.

  Definition seq3 : list (nat * event) :=
    [ (0, h0); (1, h1); (2, a0); (3, a1); (4, a2); (5, a3); (6, b0); (7, b1); (8, b2); (9, b3);
      (10, c0); (11, c1); (12, c2); (13, c3); (14, z0); (15, z1) ].
  Definition par3 : list (nat * event) :=
    [ (0, h0); (1, h1); (2, a0); (6, b0); (7, b1); (3, a1); (4, a2); (5, a3); (10, c0); (11, c1); (8, b2);
      (12, c2); (13, c3); (9, b3); (14, z0); (15, z1) ].
  Definition tasks3 : list nat := [0; 0; 1; 1; 1; 1; 2; 2; 2; 2; 3; 3; 3; 3; 4; 4].
  Definition order3 : list (nat * nat) := [(0, 1); (0, 2); (0, 3); (0, 4); (1, 4); (2, 4); (3, 4)].
  Definition f3 : tid -> tid := thread_table [0; 1; 2; 1]%Z.

  Example check3 : two_runs_base_checkb (task_of_table tasks3) (ordered_of_pairs order3) seq3 par3 f3 1%Z = true.
  Proof. vm_compute; reflexivity. Qed.

  Example check3_succs :
    two_runs_base_checkb (task_of_table tasks3) (ordered_of_succs [[1; 2; 3; 4]; [4]; [4]; [4]]) seq3 par3 f3 1%Z = true.
  Proof. vm_compute; reflexivity. Qed.

  (* a and c share worker 1 in the observed parallel stream *)
  Definition observed (s : list (nat * event)) : list (nat * event) := map (fun x => (fst x, rename f3 (snd x))) s.
  Example observed_threads : threads (map snd (observed par3)) = [2; 1; 1; 1; 2; 1]%Z.
  Proof. vm_compute; reflexivity. Qed.

  (* ... and the direct composition (two_runs_checkb on the observed events) fails on H3, and only on H3 *)
  Example direct_fails :
    two_runs_failed (task_of_table tasks3) (ordered_of_pairs order3) (observed seq3) (observed par3) 1%Z = [4].
  Proof. vm_compute; reflexivity. Qed.
End BaseEx.

Print Assumptions event_eqb_eq.
Print Assumptions merge_okb_sound.
Print Assumptions keys_distinctb_sound.
Print Assumptions permb_sound.
Print Assumptions two_runs_same_report.
Print Assumptions two_runs_checkb_sound.
Print Assumptions two_runs_failed_nil.
Print Assumptions TwoEx.same_report.
Print Assumptions startafterb_fast_sound.
Print Assumptions preservedb_fast_sound.
Print Assumptions coverageb_fast_sound.
Print Assumptions two_runs_via_base.
Print Assumptions two_runs_via_base_fast.
Print Assumptions two_runs_base_checkb_sound.
Print Assumptions two_runs_base_failed_nil.
Print Assumptions BaseEx.same_report.
