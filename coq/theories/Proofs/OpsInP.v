(* Proofs about Model/OpsIn.v: the contract of check_that_in / require_that_in / assert_that_in. *)
From Coq Require Import List Bool NArith ZArith Lia.
Import ListNotations.
From LCC Require Import Base.Util Model.PyVal Model.Matcher Model.OpsIn Proofs.MatcherP.

Lemma flat_map_ext_in_local : forall {A B} (f g : A -> list B) l, (forall a, In a l -> f a = g a) -> flat_map f l = flat_map g l.
Proof.
  intros A B f g l; induction l as [|a l IH]; intros H; simpl; [reflexivity|].
  rewrite (H a (or_introl eq_refl)), IH; [reflexivity|intros; apply H; right; assumption].
Qed.

Definition he (y : list pyval * matcher) : matcher := HasEntry (fst y) (Some (snd y)).

Definition ret_of (o : outcome) : bool := match o with Returns b => b | Raises _ => false end.

(* ---------------- the list comprehension, for any operation ---------------- *)
Lemma run_ops_app : forall (f : op) actual quiet done rest ending,
  (forall y, In y done -> exists ok, snd (f actual (he y) quiet) = Returns ok) ->
  run_ops f actual quiet (done ++ rest) ending =
    (flat_map (fun y => fst (f actual (he y) quiet)) done ++ fst (run_ops f actual quiet rest ending),
     match snd (run_ops f actual quiet rest ending) with
     | ReturnsAll oks => ReturnsAll (map (fun y => ret_of (snd (f actual (he y) quiet))) done ++ oks)
     | RaisesIn e => RaisesIn e
     end).
Proof.
  intros f actual quiet done rest ending; induction done as [|[p m] done IH]; intros H.
  - simpl; destruct (run_ops f actual quiet rest ending) as [cs [oks|e]]; reflexivity.
  - simpl. destruct (H (p, m) (or_introl eq_refl)) as [ok Hok].
    change (HasEntry p (Some m)) with (he (p, m)).
    destruct (f actual (he (p, m)) quiet) as [cs o] eqn:F; simpl in Hok; subst o.
    rewrite IH by (intros y Hy; apply H; right; exact Hy).
    simpl; destruct (snd (run_ops f actual quiet rest ending)); rewrite <- app_assoc; reflexivity.
Qed.

Lemma run_ops_first_raise : forall (f : op) actual quiet done y rest ending e,
  (forall d, In d done -> exists ok, snd (f actual (he d) quiet) = Returns ok) ->
  snd (f actual (he y) quiet) = Raises e ->
  run_ops f actual quiet (done ++ y :: rest) ending =
    (flat_map (fun d => fst (f actual (he d) quiet)) done ++ fst (f actual (he y) quiet), RaisesIn e).
Proof.
  intros f actual quiet done [p m] rest ending e H Hy.
  rewrite (run_ops_app f actual quiet done ((p, m) :: rest) ending H).
  simpl. change (HasEntry p (Some m)) with (he (p, m)).
  destruct (f actual (he (p, m)) quiet) as [cs o]; simpl in Hy; subst o; reflexivity.
Qed.

Lemma run_ops_all_return : forall (f : op) actual quiet ys ending,
  (forall y, In y ys -> exists ok, snd (f actual (he y) quiet) = Returns ok) ->
  run_ops f actual quiet ys ending =
    (flat_map (fun y => fst (f actual (he y) quiet)) ys,
     match ending with
     | None => ReturnsAll (map (fun y => ret_of (snd (f actual (he y) quiet))) ys)
     | Some e => RaisesIn e
     end).
Proof.
  intros f actual quiet ys ending H.
  rewrite <- (app_nil_r ys) at 1; rewrite (run_ops_app f actual quiet ys [] ending H).
  simpl; destruct ending; simpl; rewrite ?app_nil_r; reflexivity.
Qed.

(* an exception that escapes comes from the generator or from one of the operations, never from nowhere *)
Lemma run_ops_raise_origin : forall (f : op) actual quiet ys ending cs e,
  run_ops f actual quiet ys ending = (cs, RaisesIn e) ->
  ending = Some e \/ exists y, In y ys /\ snd (f actual (he y) quiet) = Raises e.
Proof.
  intros f actual quiet ys ending; induction ys as [|[p m] ys IH]; intros cs e H.
  - simpl in H; destruct ending; inversion H; left; reflexivity.
  - simpl in H. change (HasEntry p (Some m)) with (he (p, m)) in H.
    destruct (f actual (he (p, m)) quiet) as [c0 [ok|e0]] eqn:F.
    + destruct (run_ops f actual quiet ys ending) as [c1 [oks|e1]] eqn:R; inversion H; subst.
      destruct (IH c1 e eq_refl) as [L|[y [Hy Ry]]]; [left; exact L|right; exists y; split; [right; exact Hy|exact Ry]].
    + inversion H; subst; right; exists (p, m); split; [left; reflexivity|rewrite F; reflexivity].
Qed.

(* ---------------- the three operations ---------------- *)
Definition the_check (actual : pyval) (quiet : bool) (y : list pyval * matcher) : list check :=
  match matches (he y) actual with
  | Ok (ok, d) => [{| ck_ok := ok; ck_details := if quiet then DNone else d |}]
  | Err _ => []
  end.
Definition the_verdict (actual : pyval) (y : list pyval * matcher) : bool :=
  match matches (he y) actual with Ok (ok, _) => ok | Err _ => false end.

Lemma check_that_fst : forall actual quiet y, fst (check_that FrdSlice actual (he y) quiet) = the_check actual quiet y.
Proof.
  intros actual quiet y; unfold the_check; pose proof (check_that_contract actual (he y) quiet) as C.
  destruct (matches (he y) actual) as [[ok d]|e]; rewrite C; reflexivity.
Qed.
Lemma check_that_snd : forall actual quiet y ok d, matches (he y) actual = Ok (ok, d) ->
  snd (check_that FrdSlice actual (he y) quiet) = Returns ok.
Proof.
  intros actual quiet y ok d M; pose proof (check_that_contract actual (he y) quiet) as C; rewrite M in C; rewrite C; reflexivity.
Qed.

(* check_that_in: one check per (key path, matcher) pair, in order, carrying the verdict of has_entry(path, matcher) on the
   actual value; the verdicts are returned; a failing match never raises *)
Theorem check_that_in_contract : forall actual quiet ys ending,
  (forall y, In y ys -> exists ok d, matches (he y) actual = Ok (ok, d)) ->
  run_ops (check_that FrdSlice) actual quiet ys ending =
    (flat_map (the_check actual quiet) ys,
     match ending with None => ReturnsAll (map (the_verdict actual) ys) | Some e => RaisesIn e end).
Proof.
  intros actual quiet ys ending H.
  rewrite run_ops_all_return.
  - f_equal.
    + apply flat_map_ext; intros y; apply check_that_fst.
    + destruct ending; [reflexivity|]. f_equal. apply map_ext_in; intros y Hy.
      destruct (H y Hy) as [ok [d M]]; rewrite (check_that_snd actual quiet y ok d M); unfold the_verdict; rewrite M; reflexivity.
  - intros y Hy; destruct (H y Hy) as [ok [d M]]; exists ok; apply (check_that_snd actual quiet y ok d M).
Qed.

Theorem check_that_in_raises_only_if_matching_raises : forall actual quiet ys ending cs e,
  run_ops (check_that FrdSlice) actual quiet ys ending = (cs, RaisesIn e) ->
  ending = Some e \/ exists y, In y ys /\ matches (he y) actual = Err e.
Proof.
  intros actual quiet ys ending cs e H.
  destruct (run_ops_raise_origin _ _ _ _ _ _ _ H) as [L|[y [Hy R]]]; [left; exact L|right; exists y; split; [exact Hy|]].
  pose proof (check_that_contract actual (he y) quiet) as C.
  destruct (matches (he y) actual) as [[ok d]|e0]; rewrite C in R; simpl in R; inversion R; reflexivity.
Qed.

(* require_that_in: stops at the first pair that does not match, with AbortTest; that check and the ones before are recorded *)
Theorem require_that_in_first_failure : forall actual quiet done y rest ending d,
  (forall x, In x done -> exists dx, matches (he x) actual = Ok (true, dx)) ->
  matches (he y) actual = Ok (false, d) ->
  run_ops (require_that FrdSlice) actual quiet (done ++ y :: rest) ending =
    (flat_map (the_check actual quiet) (done ++ [y]), RaisesIn AbortTest).
Proof.
  intros actual quiet done y rest ending d H M.
  assert (R : forall x ok dx, matches (he x) actual = Ok (ok, dx) ->
              require_that FrdSlice actual (he x) quiet =
              (the_check actual quiet x, if ok then Returns true else Raises AbortTest)).
  { intros x ok dx Mx; pose proof (require_that_contract actual (he x) quiet) as C; rewrite Mx in C; rewrite C.
    unfold the_check; rewrite Mx; reflexivity. }
  rewrite (run_ops_first_raise _ actual quiet done y rest ending AbortTest).
  - rewrite flat_map_app; simpl; rewrite app_nil_r, (R y false d M); cbn [fst].
    replace (flat_map (fun d0 => fst (require_that FrdSlice actual (he d0) quiet)) done) with (flat_map (the_check actual quiet) done);
      [reflexivity|].
    apply flat_map_ext_in_local; intros x Hx; destruct (H x Hx) as [dx Mx]; rewrite (R x true dx Mx); reflexivity.
  - intros x Hx; destruct (H x Hx) as [dx Mx]; exists true; rewrite (R x true dx Mx); reflexivity.
  - rewrite (R y false d M); reflexivity.
Qed.

Theorem require_that_in_all_match : forall actual quiet ys,
  (forall x, In x ys -> exists dx, matches (he x) actual = Ok (true, dx)) ->
  run_ops (require_that FrdSlice) actual quiet ys None =
    (flat_map (the_check actual quiet) ys, ReturnsAll (map (fun _ => true) ys)).
Proof.
  intros actual quiet ys H.
  assert (R : forall x, In x ys -> require_that FrdSlice actual (he x) quiet = (the_check actual quiet x, Returns true)).
  { intros x Hx; destruct (H x Hx) as [dx Mx]; pose proof (require_that_contract actual (he x) quiet) as C; rewrite Mx in C; rewrite C.
    unfold the_check; rewrite Mx; reflexivity. }
  rewrite run_ops_all_return.
  - f_equal; [apply flat_map_ext_in_local; intros x Hx; rewrite (R x Hx); reflexivity|].
    f_equal; apply map_ext_in; intros x Hx; rewrite (R x Hx); reflexivity.
  - intros x Hx; exists true; rewrite (R x Hx); reflexivity.
Qed.

(* assert_that_in: nothing is recorded for the pairs that match; the first that does not records one failed check and raises *)
Theorem assert_that_in_first_failure : forall actual quiet done y rest ending d,
  (forall x, In x done -> exists dx, matches (he x) actual = Ok (true, dx)) ->
  matches (he y) actual = Ok (false, d) ->
  run_ops (assert_that FrdSlice) actual quiet (done ++ y :: rest) ending =
    ([{| ck_ok := false; ck_details := if quiet then DNone else d |}], RaisesIn AbortTest).
Proof.
  intros actual quiet done y rest ending d H M.
  assert (R : forall x dx, matches (he x) actual = Ok (true, dx) -> assert_that FrdSlice actual (he x) quiet = ([], Returns true)).
  { intros x dx Mx; pose proof (assert_that_contract actual (he x) quiet) as C; rewrite Mx in C; exact C. }
  assert (Ry : assert_that FrdSlice actual (he y) quiet =
               ([{| ck_ok := false; ck_details := if quiet then DNone else d |}], Raises AbortTest)).
  { pose proof (assert_that_contract actual (he y) quiet) as C; rewrite M in C; exact C. }
  rewrite (run_ops_first_raise _ actual quiet done y rest ending AbortTest).
  - rewrite Ry; simpl. replace (flat_map _ done) with (@nil check); [reflexivity|].
    symmetry; clear - H R. induction done as [|x done IH]; [reflexivity|].
    simpl; destruct (H x (or_introl eq_refl)) as [dx Mx]; rewrite (R x dx Mx); simpl; apply IH; intros z Hz; apply H; right; exact Hz.
  - intros x Hx; destruct (H x Hx) as [dx Mx]; exists true; rewrite (R x dx Mx); reflexivity.
  - rewrite Ry; reflexivity.
Qed.

(* ---------------- the generator ---------------- *)
Section EargInd.
  Variable P : earg -> Prop.
  Hypothesis H_m : forall m, P (EMatcher m).
  Hypothesis H_o : P EOther.
  Hypothesis H_l : forall l, (forall x, In x l -> P x) -> P (EList l).
  Hypothesis H_d : forall l, (forall k x, In (k, x) l -> P x) -> P (EDict l).
  Fixpoint earg_ind2 (a : earg) : P a :=
    match a with
    | EMatcher m => H_m m
    | EOther => H_o
    | EList l => H_l l ((fix go (l : list earg) : forall x, In x l -> P x :=
                           match l with
                           | [] => fun x f => match f with end
                           | y :: r => fun x f => match f with
                                                  | or_introl e => eq_rect y P (earg_ind2 y) x e
                                                  | or_intror i => go r x i
                                                  end
                           end) l)
    | EDict l => H_d l ((fix go (l : list (pyval * earg)) : forall k x, In (k, x) l -> P x :=
                           match l with
                           | [] => fun k x f => match f with end
                           | (k0, y) :: r => fun k x f => match f with
                                                          | or_introl e => eq_rect y P (earg_ind2 y) x (f_equal snd e)
                                                          | or_intror i => go r k x i
                                                          end
                           end) l)
    end.
End EargInd.

(* a well-formed expected structure: matchers at the leaves of nested lists / dicts, nothing else *)
Fixpoint wf_earg (a : earg) : bool :=
  match a with
  | EMatcher _ => true
  | EOther => false
  | EList l => forallb wf_earg l
  | EDict l => forallb (fun kx => wf_earg (snd kx)) l
  end.

Definition list_go (path : list pyval) :=
  fix go (l : list earg) (i : Z) : yielded * bool :=
    match l with
    | [] => ([], false)
    | x :: r => let '(ys, e) := from_arg x (path ++ [VInt i]) in
                if e then (ys, true) else let '(zs, e') := go r (i + 1)%Z in (ys ++ zs, e')
    end.
Definition dict_go (path : list pyval) :=
  fix go (l : list (pyval * earg)) : yielded * bool :=
    match l with
    | [] => ([], false)
    | (k, x) :: r => let '(ys, e) := from_arg x (path ++ [k]) in
                     if e then (ys, true) else let '(zs, e') := go r in (ys ++ zs, e')
    end.

(* the generator raises ValueError exactly on the structures that are not well formed, and every key path it yields extends
   the path it was given (base_key, then the keys and list indexes down to the matcher) *)
Theorem from_arg_spec : forall a path,
  snd (from_arg a path) = negb (wf_earg a) /\
  (forall p m, In (p, m) (fst (from_arg a path)) -> exists suffix, p = path ++ suffix).
Proof.
  induction a as [m| |l IH|l IH] using earg_ind2; intros path.
  - simpl; split; [reflexivity|]. intros p m' [H|[]]; inversion H; subst; exists []; rewrite app_nil_r; reflexivity.
  - simpl; split; [reflexivity|intros p m []].
  - change (from_arg (EList l) path) with (list_go path l 0%Z). simpl wf_earg. generalize 0%Z.
    induction l as [|x r IHr]; intros i; [simpl; split; [reflexivity|intros p m []]|].
    simpl. destruct (IH x (or_introl eq_refl) (path ++ [VInt i])) as [E Pf].
    destruct (from_arg x (path ++ [VInt i])) as [ys e]; simpl in E, Pf; subst e.
    destruct (wf_earg x); simpl.
    + destruct (IHr (fun y Hy => IH y (or_intror Hy)) (i + 1)%Z) as [E2 Pf2].
      fold (list_go path) in *. destruct (list_go path r (i + 1)%Z) as [zs e']; simpl in *; split; [exact E2|].
      intros p m Hin; apply in_app_or in Hin; destruct Hin as [Hin|Hin]; [|apply (Pf2 p m Hin)].
      destruct (Pf p m Hin) as [sfx Hs]; exists (VInt i :: sfx); rewrite Hs, <- app_assoc; reflexivity.
    + split; [reflexivity|]. intros p m Hin; destruct (Pf p m Hin) as [sfx Hs]; exists (VInt i :: sfx); rewrite Hs, <- app_assoc; reflexivity.
  - change (from_arg (EDict l) path) with (dict_go path l). simpl wf_earg.
    induction l as [|[k x] r IHr]; [simpl; split; [reflexivity|intros p m []]|].
    simpl. destruct (IH k x (or_introl eq_refl) (path ++ [k])) as [E Pf].
    destruct (from_arg x (path ++ [k])) as [ys e]; simpl in E, Pf; subst e.
    destruct (wf_earg x); simpl.
    + destruct (IHr (fun k' y Hy => IH k' y (or_intror Hy))) as [E2 Pf2].
      fold (dict_go path) in *. destruct (dict_go path r) as [zs e']; simpl in *; split; [exact E2|].
      intros p m Hin; apply in_app_or in Hin; destruct Hin as [Hin|Hin]; [|apply (Pf2 p m Hin)].
      destruct (Pf p m Hin) as [sfx Hs]; exists (k :: sfx); rewrite Hs, <- app_assoc; reflexivity.
    + split; [reflexivity|]. intros p m Hin; destruct (Pf p m Hin) as [sfx Hs]; exists (k :: sfx); rewrite Hs, <- app_assoc; reflexivity.
Qed.

(* ---------------- the whole argument list ---------------- *)
Definition wf_eargs (args : eargs) : bool :=
  match args with
  | ASingle (EList l) => forallb wf_earg l
  | ASingle (EDict l) => forallb (fun kx => wf_earg (snd kx)) l
  | ASingle _ => false
  | APairs l => forallb (fun kx => wf_earg (snd kx)) l
  | AOdd => false
  end.

Lemma from_pairs_spec : forall l base,
  snd (from_pairs l base) = negb (forallb (fun kx => wf_earg (snd kx)) l) /\
  (forall p m, In (p, m) (fst (from_pairs l base)) -> exists suffix, p = base ++ suffix).
Proof.
  induction l as [|[k x] r IH]; intros base; [simpl; split; [reflexivity|intros p m []]|].
  simpl. destruct (from_arg_spec x (base ++ key_path k)) as [E Pf].
  destruct (from_arg x (base ++ key_path k)) as [ys e]; simpl in E, Pf; subst e.
  destruct (wf_earg x); simpl.
  - destruct (IH base) as [E2 Pf2]. destruct (from_pairs r base) as [zs e']; simpl in *; split; [exact E2|].
    intros p m Hin; apply in_app_or in Hin; destruct Hin as [Hin|Hin]; [|apply (Pf2 p m Hin)].
    destruct (Pf p m Hin) as [sfx Hs]; exists (key_path k ++ sfx); rewrite Hs, <- app_assoc; reflexivity.
  - split; [reflexivity|]. intros p m Hin; destruct (Pf p m Hin) as [sfx Hs]; exists (key_path k ++ sfx); rewrite Hs, <- app_assoc; reflexivity.
Qed.

(* the generator of a whole call ends normally exactly on well-formed arguments (one list / tuple / dict, or key / structure
   pairs, with matchers at all the leaves), and every key path it yields starts with base_key *)
Theorem from_args_spec : forall args base_key,
  (snd (from_args args base_key) = None <-> wf_eargs args = true) /\
  (forall p m, In (p, m) (fst (from_args args base_key)) -> exists suffix, p = key_path base_key ++ suffix).
Proof.
  intros args base_key; unfold from_args, wf_eargs; destruct args as [a|l|].
  - destruct a as [m| l| l| ].
    + split; [split; discriminate|intros p m' []].
    + destruct (from_arg_spec (EList l) (key_path base_key)) as [E Pf].
      destruct (from_arg (EList l) (key_path base_key)) as [ys e]; cbn [fst snd] in *; subst e; split; [|exact Pf].
      cbn [wf_earg]; destruct (forallb wf_earg l); cbn [negb]; split; auto; discriminate.
    + destruct (from_arg_spec (EDict l) (key_path base_key)) as [E Pf].
      destruct (from_arg (EDict l) (key_path base_key)) as [ys e]; cbn [fst snd] in *; subst e; split; [|exact Pf].
      cbn [wf_earg]; destruct (forallb (fun kx => wf_earg (snd kx)) l); cbn [negb]; split; auto; discriminate.
    + split; [split; discriminate|intros p m' []].
  - destruct (from_pairs_spec l (key_path base_key)) as [E Pf].
    destruct (from_pairs l (key_path base_key)) as [ys e]; cbn [fst snd] in *; subst e; split; [|exact Pf].
    destruct (forallb (fun kx => wf_earg (snd kx)) l); cbn [negb]; split; auto; discriminate.
  - split; [split; discriminate|intros p m []].
Qed.
