(* Verdicts (C02): a task's location is marked failed exactly when a failing event (error log or failed check) was put
   on the queue by one of its threads; a test task ends with TaskFailure exactly in that case. Since the report writer
   computes `failed` from the same events, the three computations (session failures / task result / report status) agree. *)
From Coq Require Import List Arith Bool Lia.
Import ListNotations.
From LCC Require Import Base.Util Model.Proj Model.Sched Model.Fixture Model.TaskSem Model.TaskSemEq Proofs.ProtocolP.

Definition failing_event (e : revt) : bool :=
  match e with
  | RLog _ _ _ lvl _ => Nat.eqb lvl 3
  | RCheck _ _ _ ok _ => negb ok
  | _ => false
  end.
Definition fails (out : list atom) : bool := existsb failing_event (events_of out).
Definition cfails (cs : list (owner * tpath * list atom)) : bool := existsb (fun c => fails (snd c)) cs.

Lemma fails_app a b : fails (a ++ b) = fails a || fails b.
Proof. unfold fails. rewrite events_of_app, existsb_app. auto. Qed.
Lemma cfails_app a b : cfails (a ++ b) = cfails a || cfails b.
Proof. unfold cfails. apply existsb_app. Qed.

Lemma cfails_single c : cfails [c] = fails (snd c).
Proof. unfold cfails. simpl. apply orb_false_r. Qed.

(* held events are never failing events *)
Definition pending_clean (s : tstate) : Prop := existsb failing_event (ts_pending s) = false.

Lemma fails_map_fire l : fails (map AtFire l) = existsb failing_event l.
Proof. unfold fails, events_of. induction l as [|e r IH]; simpl; auto. rewrite IH. auto. Qed.

Lemma existsb_rev {A} (f : A -> bool) l : existsb f (rev l) = existsb f l.
Proof. induction l as [|a r IH]; simpl; auto. rewrite existsb_app, IH. simpl. rewrite orb_false_r. apply orb_comm. Qed.

(* ---- elementary operations: effect on `fails (ts_out _)` and on pending_clean ---- *)
Lemma emit_nonfire_fails a s : (forall e, a <> AtFire e) -> fails (ts_out (emit a s)) = fails (ts_out s).
Proof.
  intros H. unfold emit. simpl. rewrite fails_app. destruct a; simpl; try (rewrite orb_false_r; auto).
  exfalso. eapply H; eauto.
Qed.

Lemma flush_fails s : pending_clean s -> fails (ts_out (flush s)) = fails (ts_out s) /\ pending_clean (flush s).
Proof.
  intros P. unfold flush; simpl. rewrite fails_app, fails_map_fire, P, orb_false_r. split; auto. reflexivity.
Qed.

Lemma discard_or_fire_fails is_class e s : pending_clean s -> failing_event e = false ->
  fails (ts_out (discard_or_fire is_class e s)) = fails (ts_out s) /\ pending_clean (discard_or_fire is_class e s).
Proof.
  intros P E. unfold discard_or_fire, pending_clean in *.
  destruct (rev (ts_pending s)) as [|last before] eqn:Er.
  - unfold fire, emit. simpl. rewrite fails_app. unfold fails at 2. simpl. rewrite E. simpl. rewrite orb_false_r. auto.
  - destruct (is_class last).
    + simpl. split; auto. rewrite existsb_rev.
      rewrite <- (existsb_rev failing_event (ts_pending s)), Er in P. simpl in P. apply orb_false_elim in P. tauto.
    + unfold fire, emit. simpl. rewrite fails_app. unfold fails at 2. simpl. rewrite E. simpl. rewrite orb_false_r. auto.
Qed.

Lemma end_step_fails th s : pending_clean s ->
  fails (ts_out (end_step th s)) = fails (ts_out s) /\ pending_clean (end_step th s).
Proof.
  intros P. unfold end_step, set_step_field. simpl.
  apply (discard_or_fire_fails is_step_start (RStepEnd (ts_loc s) (ts_step s) th) s P). reflexivity.
Qed.

Lemma end_step_if_any_fails th s : pending_clean s ->
  fails (ts_out (end_step_if_any th s)) = fails (ts_out s) /\ pending_clean (end_step_if_any th s).
Proof. intros P. unfold end_step_if_any. destruct (ts_step s); auto. apply end_step_fails; auto. Qed.

Lemma set_step_fails d th s : pending_clean s ->
  fails (ts_out (set_step d th s)) = fails (ts_out s) /\ pending_clean (set_step d th s).
Proof.
  intros P. destruct (end_step_if_any_fails th s P) as [A B]. unfold set_step, hold, set_step_field. simpl.
  split; auto. unfold pending_clean in *. simpl. rewrite existsb_app, B. reflexivity.
Qed.

Lemma fire_fails e s : fails (ts_out (fire e s)) = fails (ts_out s) || failing_event e.
Proof. unfold fire, emit. simpl. rewrite fails_app. unfold fails at 2. simpl. rewrite orb_false_r. auto. Qed.
Lemma fire_pending e s : ts_pending (fire e s) = ts_pending s.
Proof. reflexivity. Qed.
Lemma mark_failed_fails s : fails (ts_out (mark_failed s)) = fails (ts_out s) /\ ts_pending (mark_failed s) = ts_pending s.
Proof. unfold mark_failed. split; [apply emit_nonfire_fails; intros e; discriminate|reflexivity]. Qed.

Lemma do_log_fails th lvl m s : pending_clean s ->
  fails (ts_out (fst (do_log th lvl m s))) = fails (ts_out s) || snd (do_log th lvl m s) /\
  pending_clean (fst (do_log th lvl m s)).
Proof.
  intros P. destruct (flush_fails s P) as [A B]. unfold do_log. cbn [fst snd].
  rewrite fire_fails. unfold pending_clean. rewrite fire_pending. cbn [failing_event].
  destruct (Nat.eqb lvl 3).
  - destruct (mark_failed_fails (flush s)) as [C D]. rewrite C, D, A. auto.
  - rewrite A. auto.
Qed.

Lemma do_check_fails th ok m s : pending_clean s ->
  fails (ts_out (fst (do_check th ok m s))) = fails (ts_out s) || snd (do_check th ok m s) /\
  pending_clean (fst (do_check th ok m s)).
Proof.
  intros P. destruct (flush_fails s P) as [A B]. unfold do_check. cbn [fst snd].
  rewrite fire_fails. unfold pending_clean. rewrite fire_pending. cbn [failing_event].
  destruct ok.
  - rewrite A. auto.
  - destruct (mark_failed_fails (flush s)) as [C D]. rewrite C, D, A. auto.
Qed.

Lemma flush_fire_nonfailing e s : pending_clean s -> failing_event e = false ->
  fails (ts_out (fire e (flush s))) = fails (ts_out s) /\ pending_clean (fire e (flush s)).
Proof.
  intros P E. destruct (flush_fails s P) as [A B]. rewrite fire_fails, A, E, orb_false_r. split; auto.
Qed.

Lemma join_all_fails cs s : fails (ts_out (join_all cs s)) = fails (ts_out s) /\
  ts_pending (join_all cs s) = ts_pending s.
Proof.
  unfold join_all. revert s. induction cs as [|c r IH]; simpl; intros s; auto.
  destruct (IH (emit (AtJoin c) s)) as [A B]. rewrite A, B. split; auto.
  apply emit_nonfire_fails. intros e; discriminate.
Qed.

Lemma spawn_creator_fails s : pending_clean s ->
  fails (ts_out (spawn_creator s)) = fails (ts_out s) /\ pending_clean (spawn_creator s).
Proof.
  intros P. unfold spawn_creator, pending_clean in *. destruct (ts_pending s) as [|e r] eqn:Ep.
  - rewrite Ep. split; auto.
  - destruct (is_step_start e); [rewrite Ep; split; auto|]. cbn [ts_out ts_pending]. cbn [existsb] in P.
    apply orb_false_elim in P as [P1 P2].
    rewrite fails_app. unfold fails at 2. simpl. rewrite P1. simpl. rewrite orb_false_r. auto.
Qed.

(* ---- the invariant of a running script ---- *)
Definition verdict_inv (x : sres) : Prop :=
  sr_failed x = fails (ts_out (sr_state x)) || cfails (sr_children x).
Definition vgood (x : sres) : Prop := pending_clean (sr_state x).

(* failed0 / out0 / children0: what the script started from; the invariant is relative to that starting point *)
Definition verdict_rel (f0 : bool) (o0 : bool) (c0 : bool) (x : sres) : Prop :=
  sr_failed x = f0 || ((fails (ts_out (sr_state x)) || cfails (sr_children x))) /\
  (o0 = true -> fails (ts_out (sr_state x)) = true) /\ (c0 = true -> cfails (sr_children x) = true).

Definition action_verdict (a : action) : Prop :=
  forall o env tp x, verdict_inv x -> vgood x ->
    verdict_inv (step_action o env tp a x) /\ vgood (step_action o env tp a x).

Arguments do_log : simpl never.
Arguments do_check : simpl never.
Arguments do_url : simpl never.
Arguments do_attach : simpl never.
Arguments set_step : simpl never.
Arguments join_all : simpl never.
Arguments spawn_creator : simpl never.
Arguments emit : simpl never.
Arguments end_step : simpl never.
Arguments close_script : simpl never.
Arguments fails : simpl never.
Arguments cfails : simpl never.

Lemma run_list_verdict (body : list action) :
  Forall action_verdict body ->
  forall o env tp x, verdict_inv x -> vgood x ->
    let y := (fix run_list (l0 : list action) (y : sres) : sres :=
                match l0 with [] => y | b :: r => run_list r (step_action o env tp b y) end) body x in
    verdict_inv y /\ vgood y.
Proof.
  induction 1 as [|b r Hb Hr IH]; intros o env tp x V G; simpl; auto.
  destruct (Hb o env tp x V G) as [V1 G1]. apply IH; auto.
Qed.

Lemma fold_left_verdict (sc : list action) :
  Forall action_verdict sc ->
  forall o env tp x, verdict_inv x -> vgood x ->
    let y := fold_left (fun y a => step_action o env tp a y) sc x in verdict_inv y /\ vgood y.
Proof.
  induction 1 as [|b r Hb Hr IH]; intros o env tp x V G; simpl; auto.
  destruct (Hb o env tp x V G) as [V1 G1]. apply IH; auto.
Qed.

Lemma close_script_verdict x : verdict_inv x -> vgood x -> verdict_inv (close_script x) /\ vgood (close_script x).
Proof.
  intros V G. unfold close_script, verdict_inv, vgood, pending_clean in *. cbn [sr_state sr_failed sr_children].
  destruct (join_all_fails (sr_unjoined x) (sr_state x)) as [A B]. rewrite A, B. auto.
Qed.

Lemma action_verdict_all : forall n a, action_size a <= n -> action_verdict a.
Proof.
  induction n as [|n IH]; intros a Hs.
  - destruct a; simpl in Hs; lia.
  - unfold action_verdict. intros o env tp x V G. unfold verdict_inv, vgood in *.
    destruct (sr_raised x) eqn:Er.
    { destruct a; cbn [step_action]; rewrite Er; auto. }
    destruct a; cbn [step_action]; rewrite Er.
    + destruct (do_log_fails tp level (MUser o tp payload) (sr_state x) G) as [A B].
      destruct (do_log tp level (MUser o tp payload) (sr_state x)) as [s' f] eqn:E.
      cbn [fst snd sr_state sr_failed sr_children] in *. rewrite A, V. split; auto.
      destruct (fails (ts_out (sr_state x))), (cfails (sr_children x)), f; auto.
    + destruct (do_check_fails tp ok (MUser o tp payload) (sr_state x) G) as [A B].
      destruct (do_check tp ok (MUser o tp payload) (sr_state x)) as [s' f] eqn:E.
      cbn [fst snd sr_state sr_failed sr_children] in *. rewrite A, V. split; auto.
      destruct (fails (ts_out (sr_state x))), (cfails (sr_children x)), f; auto.
    + cbn [sr_state sr_failed sr_children]. unfold do_url.
      destruct (flush_fire_nonfailing (RUrl (ts_loc (sr_state x)) (ts_step (sr_state x)) tp (MUser o tp payload))
                                      (sr_state x) G eq_refl) as [A B].
      rewrite A, V, orb_false_r. auto.
    + cbn [sr_state sr_failed sr_children]. unfold do_attach.
      destruct (flush_fire_nonfailing (RAttach (ts_loc (sr_state x)) (ts_step (sr_state x)) tp (MUser o tp payload))
                                      (sr_state x) G eq_refl) as [A B].
      rewrite A, V, orb_false_r. auto.
    + cbn [sr_state sr_failed sr_children].
      destruct (set_step_fails (SdUser o tp payload) tp (sr_state x) G) as [A B]. rewrite A, V, orb_false_r. auto.
    + cbn [sr_state sr_failed sr_children]. rewrite emit_nonfire_fails by (intros e; discriminate).
      rewrite V, orb_false_r. auto.
    + cbn [sr_state sr_failed sr_children]. rewrite emit_nonfire_fails by (intros e; discriminate).
      rewrite V, orb_false_r. auto.
    + (* ASpawn *)
      destruct (spawn_creator_fails (sr_state x) G) as [A1 B1].
      set (s1 := spawn_creator (sr_state x)) in *.
      set (ctp := tp ++ [sr_nchild x]).
      set (c0 := hold (RStepStart (ts_loc s1) (ts_step s1) ctp) (mkTs (ts_loc s1) (ts_step s1) [] [])).
      assert (Fb : Forall action_verdict body).
      { apply Forall_forall. intros b Hb. apply IH. simpl in Hs.
        assert (action_size b <= fold_right (fun b0 acc => action_size b0 + acc) 0 body).
        { clear -Hb. induction body as [|b0 r IHr]; simpl in *; [tauto|]. destruct Hb as [->|Hb]; [lia|]. specialize (IHr Hb). lia. }
        lia. }
      assert (V0 : verdict_inv (mkSres c0 false [] None [] 0)) by reflexivity.
      assert (G0 : vgood (mkSres c0 false [] None [] 0)) by reflexivity.
      pose proof (run_list_verdict body Fb o env ctp (mkSres c0 false [] None [] 0) V0 G0) as R.
      set (y := (fix run_list (l0 : list action) (y : sres) : sres :=
                   match l0 with [] => y | b :: r => run_list r (step_action o env ctp b y) end)
                  body (mkSres c0 false [] None [] 0)) in *.
      destruct R as [Vy Gy].
      destruct (close_script_verdict y Vy Gy) as [Vc Gc].
      set (cr := close_script y) in *. unfold verdict_inv, vgood in Vc, Gc.
      set (c1 := match sr_raised cr with
                 | Some k => if is_exception k then fst (do_log ctp 3 MUnexpected (sr_state cr)) else sr_state cr
                 | None => sr_state cr
                 end).
      assert (F1 : fails (ts_out c1) = fails (ts_out (sr_state cr)) ||
                                       match sr_raised cr with Some k => is_exception k | None => false end /\
                   pending_clean c1).
      { unfold c1. destruct (sr_raised cr) as [k|]; [|rewrite orb_false_r; auto].
        destruct (is_exception k); [|rewrite orb_false_r; auto].
        destruct (do_log_fails ctp 3 MUnexpected (sr_state cr) Gc) as [A B]. rewrite A. split; auto. }
      destruct F1 as [F1 P1].
      destruct (end_step_fails ctp c1 P1) as [F2 _].
      cbn [sr_state sr_failed sr_children]. split.
      * rewrite emit_nonfire_fails by (intros e; discriminate). rewrite A1.
        rewrite !cfails_app, cfails_single. cbn [snd]. rewrite F2, F1, Vc, V.
        destruct (fails (ts_out (sr_state x))), (cfails (sr_children x)), (fails (ts_out (sr_state cr))),
          (cfails (sr_children cr)), (match sr_raised cr with Some k => is_exception k | None => false end); auto.
      * unfold pending_clean. unfold emit. simpl. exact B1.
    + cbn [sr_state sr_failed sr_children]. destruct (join_all_fails (sr_unjoined x) (sr_state x)) as [A B].
      unfold pending_clean. rewrite A, B. auto.
    + cbn [sr_state sr_failed sr_children]. rewrite emit_nonfire_fails by (intros e; discriminate). auto.
Qed.

Theorem interp_verdict o tp env sc x : verdict_inv x -> vgood x ->
  verdict_inv (interp o tp env sc x) /\ vgood (interp o tp env sc x).
Proof.
  intros V G. unfold interp.
  assert (F : Forall action_verdict sc).
  { apply Forall_forall. intros a _. apply (action_verdict_all (action_size a)). lia. }
  destruct (fold_left_verdict sc F o env tp x V G) as [V1 G1]. apply close_script_verdict; auto.
Qed.

(* ------------------------------------------------------------------ the runner's code around the scripts *)
Definition rverdict (r : rstate) : Prop :=
  rs_failed r = fails (ts_out (rs_t r)) || cfails (rs_children r) /\ pending_clean (rs_t r).

Lemma run_script_verdict o env sc s failed children :
  failed = fails (ts_out s) || cfails children -> pending_clean s ->
  let x := run_script o env sc s failed children in
  sr_failed x = fails (ts_out (sr_state x)) || cfails (sr_children x) /\ pending_clean (sr_state x).
Proof.
  intros V G. unfold run_script.
  assert (V0 : verdict_inv (mkSres (emit (AtBegin o) s) failed children None [] 0)).
  { unfold verdict_inv. cbn [sr_state sr_failed sr_children]. rewrite emit_nonfire_fails by (intros e; discriminate). auto. }
  assert (G0 : vgood (mkSres (emit (AtBegin o) s) failed children None [] 0)) by exact G.
  destruct (interp_verdict o [] env sc _ V0 G0) as [V1 G1]. unfold verdict_inv, vgood in V1, G1.
  cbv zeta. destruct (sr_raised (interp o [] env sc _)); cbn [sr_state sr_failed sr_children]; auto.
  rewrite emit_nonfire_fails by (intros e; discriminate). auto.
Qed.

Lemma call_sfun_verdict env f r : rverdict r -> rverdict (fst (call_sfun env f r)).
Proof.
  intros [V G]. destruct f; cbn [call_sfun fst]; unfold rverdict; cbn [rs_t rs_failed rs_children]; auto;
    apply run_script_verdict; auto.
Qed.

Lemma call_tfun_verdict env f r : rverdict r -> rverdict (fst (call_tfun env f r)).
Proof.
  intros [V G]. destruct f; cbn [call_tfun]; unfold rverdict.
  - destruct (fx_generator f); cbn [fst rs_t rs_failed rs_children]; auto. apply run_script_verdict; auto.
  - cbn [fst rs_t rs_failed rs_children]. apply run_script_verdict; auto.
  - cbn [fst rs_t rs_failed rs_children]. apply run_script_verdict.
    + rewrite emit_nonfire_fails by (intros e; discriminate). auto.
    + exact G.
Qed.

Lemma handle_exception_fails k suite s : pending_clean s ->
  fails (ts_out (handle_exception k suite s)) = true /\ pending_clean (handle_exception k suite s).
Proof.
  intros P. unfold handle_exception.
  assert (K : forall m, fails (ts_out (fst (do_log [] 3 m s))) = true /\ pending_clean (fst (do_log [] 3 m s))).
  { intros m. destruct (do_log_fails [] 3 m s P) as [A B]. rewrite A. split; auto. unfold do_log. simpl. apply orb_true_r. }
  destruct k; try apply K.
  - destruct (K MAbortSuite) as [A B]. destruct suite; auto.
    rewrite emit_nonfire_fails by (intros e; discriminate). auto.
  - destruct (K MAbortAll) as [A B]. rewrite emit_nonfire_fails by (intros e; discriminate). auto.
Qed.

Lemma after_exception_verdict k suite r : rverdict r -> rverdict (after_exception k suite r).
Proof.
  intros [V G]. unfold after_exception, rverdict. destruct (is_exception k); cbn [rs_t rs_failed rs_children]; auto.
  destruct (handle_exception_fails k suite (rs_t r) G) as [A B]. rewrite A. auto.
Qed.

Lemma run_setup_funcs_verdict env suite pairs : forall r kept, rverdict r -> rverdict (fst (run_setup_funcs env suite pairs r kept)).
Proof.
  induction pairs as [|[[f|] td] rest IH]; intros r kept R; cbn [run_setup_funcs]; auto.
  pose proof (call_sfun_verdict env f r R) as R1.
  destruct (call_sfun env f r) as [r1 [k|]]; cbn [fst] in *.
  - apply after_exception_verdict; auto.
  - destruct (rs_failed r1); cbn [fst]; auto.
Qed.

Lemma run_teardown_list_verdict env suite tds : forall r, rverdict r -> rverdict (run_teardown_list env suite tds r).
Proof.
  induction tds as [|[f|] rest IH]; intros r R; cbn [run_teardown_list]; auto.
  destruct (rs_died r); auto.
  pose proof (call_tfun_verdict env f r R) as R1.
  destruct (call_tfun env f r) as [r1 [k|]]; cbn [fst] in *; apply IH; auto.
  apply after_exception_verdict; auto.
Qed.

(* a task that was not killed fails exactly when one of its threads put a failing event on the queue *)
Definition out_fails (o : tout) : bool := fails (to_main o) || cfails (to_children o).

Lemma finish_verdict r kept : rverdict r -> rs_died r = false ->
  (to_res (finish r kept) = TkFailure <-> out_fails (finish r kept) = true) /\
  (to_res (finish r kept) = TkSuccess <-> out_fails (finish r kept) = false).
Proof.
  intros [V _] D. unfold finish, out_fails. cbn [to_res to_main to_children]. rewrite D, <- V.
  destruct (rs_failed r); split; split; intros; congruence.
Qed.

Theorem test_run_verdict env p suite t hk fxs :
  let o := test_run env p suite t hk fxs in
  to_res o <> TkDied ->
  (to_res o = TkFailure <-> out_fails o = true) /\ (to_res o = TkSuccess <-> out_fails o = false).
Proof.
  unfold test_run. set (l := LTest p). set (pairs := (_, _) :: fixture_pairs fxs).
  set (r0 := mkRs (set_step SdSetupTest [] (fresh_cursor l [AtFire (RTestStart p)])) false [] false).
  assert (R0 : rverdict r0).
  { unfold rverdict, r0. cbn [rs_t rs_failed rs_children].
    assert (P0 : pending_clean (fresh_cursor l [AtFire (RTestStart p)])) by reflexivity.
    destruct (set_step_fails SdSetupTest [] _ P0) as [A B]. rewrite A. split; auto. }
  assert (R1 : rverdict (fst (if any_setup pairs then run_setup_funcs env (Some suite) pairs r0 [] else (r0, only_teardowns pairs)))).
  { destruct (any_setup pairs); [apply run_setup_funcs_verdict; exact R0|exact R0]. }
  destruct (if any_setup pairs then run_setup_funcs env (Some suite) pairs r0 [] else (r0, only_teardowns pairs)) as [r1 kept] eqn:E1.
  cbn [fst] in R1.
  destruct (rs_died r1) eqn:D1. { unfold finish; cbn [to_res]; rewrite D1; congruence. }
  set (r2 := if rs_failed r1 then r1 else _).
  assert (R2 : rverdict r2).
  { unfold r2. destruct (rs_failed r1) eqn:F1; auto.
    destruct R1 as [V1 G1]. rewrite F1 in V1.
    destruct (set_step_fails (SdTest (tt_name t)) [] (rs_t r1) G1) as [A B].
    assert (V2 : false = fails (ts_out (set_step (SdTest (tt_name t)) [] (rs_t r1))) || cfails (rs_children r1))
      by (rewrite A; exact V1).
    pose proof (run_script_verdict (OBody p) env (tt_body t) _ false (rs_children r1) V2 B) as [V3 G3].
    destruct (sr_raised (run_script (OBody p) env (tt_body t) (set_step (SdTest (tt_name t)) [] (rs_t r1)) false (rs_children r1))).
    - apply after_exception_verdict. unfold rverdict; cbn [rs_t rs_failed rs_children]; auto.
    - unfold rverdict; cbn [rs_t rs_failed rs_children]; auto. }
  destruct (rs_died r2) eqn:D2. { unfold finish; cbn [to_res]; rewrite D2; congruence. }
  set (r3 := if any_teardown kept then _ else r2).
  assert (R3 : rverdict r3).
  { unfold r3. destruct (any_teardown kept); auto. unfold run_teardown_funcs. apply run_teardown_list_verdict.
    destruct R2 as [V2 G2]. unfold rverdict; cbn [rs_t rs_failed rs_children].
    destruct (set_step_fails SdTeardownTest [] (rs_t r2) G2) as [A B]. rewrite A. auto. }
  destruct (rs_died r3) eqn:D3. { unfold finish; cbn [to_res]; rewrite D3; congruence. }
  intros _. apply finish_verdict; auto.
  destruct R3 as [V3 G3]. unfold rverdict; cbn [rs_t rs_failed rs_children].
  destruct (end_step_if_any_fails [] (rs_t r3) G3) as [A B].
  rewrite fire_fails, A. cbn [failing_event]. rewrite orb_false_r. split; auto.
Qed.

Theorem setup_phase_verdict env l start end_ is_start d pairs :
  failing_event start = false -> failing_event end_ = false ->
  let o := setup_phase env l start end_ is_start d pairs in
  to_res o <> TkDied ->
  (to_res o = TkFailure <-> out_fails o = true) /\ (to_res o = TkSuccess <-> out_fails o = false).
Proof.
  intros Fs Fe. unfold setup_phase. destruct (any_setup pairs).
  2:{ intros _. unfold out_fails, fails, cfails. simpl. split; split; intros; congruence. }
  set (r0 := mkRs (set_step d [] (hold start (fresh_cursor l []))) false [] false).
  assert (R0 : rverdict r0).
  { unfold rverdict, r0. cbn [rs_t rs_failed rs_children].
    assert (P0 : pending_clean (hold start (fresh_cursor l []))).
    { unfold pending_clean, hold. simpl. rewrite Fs. reflexivity. }
    destruct (set_step_fails d [] _ P0) as [A B]. rewrite A. split; auto. }
  pose proof (run_setup_funcs_verdict env None pairs r0 [] R0) as R1.
  destruct (run_setup_funcs env None pairs r0 []) as [r kept]. cbn [fst] in R1.
  destruct (rs_died r) eqn:D. { unfold finish; cbn [to_res]; rewrite D; congruence. }
  intros _. apply finish_verdict; auto.
  destruct R1 as [V1 G1]. unfold rverdict; cbn [rs_t rs_failed rs_children].
  destruct (end_step_if_any_fails [] (rs_t r) G1) as [A B].
  destruct (discard_or_fire_fails is_start end_ _ B Fe) as [A2 B2]. rewrite A2, A. auto.
Qed.
