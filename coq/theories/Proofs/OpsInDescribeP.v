(* C17 for the dict operations: the wording of a *_that_in check. *)
From Coq Require Import List Bool NArith ZArith Arith.
Import ListNotations.
From LCC Require Import Base.Util Model.PyVal Model.Matcher gen.TablesMatchers Model.Describe Model.OpsIn Model.OpsInDescribe.

(* the value matcher is worded exactly as check_that would word it (a fresh transformer: not conjugated, not negated),
   whatever the key path and whatever its sibling pairs are: the sentence is the key path, a space, that wording *)
Theorem in_description_shape : forall ni cw p m,
  in_matcher_description ni cw (p, m) = join path_sep (map jsonify p) ++ space ++ describe ni cw m.
Proof. reflexivity. Qed.

(* two dict checks on the same key path have the same sentence exactly when check_that would give their value matchers the
   same sentence: faithfulness of the dict operations reduces to faithfulness of the plain operations (C17_faithful_partial) *)
Theorem in_description_same_path : forall ni cw p m1 m2,
  in_matcher_description ni cw (p, m1) = in_matcher_description ni cw (p, m2) <-> describe ni cw m1 = describe ni cw m2.
Proof.
  intros ni cw p m1 m2; unfold in_matcher_description; simpl; split.
  - intros H; apply app_inv_head in H; inversion H; reflexivity.
  - intros H; rewrite H; reflexivity.
Qed.

Lemma fill_expect_inj : forall x y, fill tpl_expect [x] = fill tpl_expect [y] -> x = y.
Proof.
  intros x y; unfold tpl_expect; cbn [fill]; rewrite !app_nil_r; intros H.
  apply app_inv_head in H; exact H.
Qed.

Theorem in_log_description_same_path : forall ni cw p m1 m2,
  in_log_description ni cw (p, m1) = in_log_description ni cw (p, m2) <-> describe ni cw m1 = describe ni cw m2.
Proof.
  intros ni cw p m1 m2; unfold in_log_description; split.
  - intros H; apply fill_expect_inj in H; apply in_description_same_path in H; exact H.
  - intros H; apply in_description_same_path with (p := p) in H; rewrite H; reflexivity.
Qed.

(* the wording of a pair does not depend on the other pairs of the call, nor on the verdicts of the pairs before it *)
Theorem in_description_sibling_independent : forall ni cw before after y,
  nth_error (map (in_log_description ni cw) (before ++ y :: after)) (length before) = Some (in_log_description ni cw y).
Proof.
  intros ni cw before after y; rewrite map_app; simpl.
  rewrite nth_error_app2 by (rewrite map_length; auto).
  rewrite map_length, Nat.sub_diag; reflexivity.
Qed.
