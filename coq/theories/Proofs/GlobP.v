(* Proofs about Model/Glob.v: the executable matcher agrees with the usual inductive definition of wildcard matching. *)
From Coq Require Import List NArith Bool Lia.
Import ListNotations.
From LCC Require Import Base.Util Model.Report Model.Glob.

(* ------------------------------------------------------------------ declarative semantics *)
Inductive item_matches (c : N) : setitem -> Prop :=
| im_char : item_matches c (SChar c)
| im_range lo hi : (lo <= c)%N -> (c <= hi)%N -> item_matches c (SRange lo hi).

Definition in_set (c : N) (items : list setitem) : Prop := exists it, In it items /\ item_matches c it.

Inductive atom_matches : patom -> N -> Prop :=
| am_lit c : atom_matches (PLit c) c
| am_any c : atom_matches PAny c
| am_set_pos items c : in_set c items -> atom_matches (PSet false items) c
| am_set_neg items c : ~ in_set c items -> atom_matches (PSet true items) c.

(* the usual definition: the empty pattern matches the empty string; `*` followed by p matches w ++ s for any w when p matches s;
   any other element matches exactly one character it accepts *)
Inductive gmatch : pattern -> str -> Prop :=
| gm_nil : gmatch [] []
| gm_star w p s : gmatch p s -> gmatch (PStar :: p) (w ++ s)
| gm_one a p c s : atom_matches a c -> gmatch p s -> gmatch (a :: p) (c :: s).

(* ------------------------------------------------------------------ single characters *)
Lemma item_match_spec c it : item_match c it = true <-> item_matches c it.
Proof.
  destruct it as [d|lo hi]; simpl.
  - rewrite N.eqb_eq. split; intros H.
    + subst. constructor.
    + inversion H. reflexivity.
  - rewrite andb_true_iff, !N.leb_le. split; intros H.
    + destruct H. constructor; assumption.
    + inversion H. split; assumption.
Qed.

Lemma in_set_spec c items : existsb (item_match c) items = true <-> in_set c items.
Proof.
  unfold in_set. rewrite existsb_exists. split; intros [it [Hi Hm]]; exists it; split; auto; apply item_match_spec; auto.
Qed.

Lemma atom_match_spec a c : atom_match a c = true <-> atom_matches a c.
Proof.
  destruct a as [d| | |neg items]; simpl.
  - rewrite N.eqb_eq. split; intros H.
    + subst. constructor.
    + inversion H. reflexivity.
  - split; intros; [constructor | reflexivity].
  - split; intros H; [discriminate | inversion H].
  - pose proof (in_set_spec c items) as S.
    destruct neg; destruct (existsb (item_match c) items) eqn:E; simpl; split; intros H;
      try discriminate; try reflexivity.
    + inversion H as [| | |it c' Hn]; subst. exfalso. apply Hn. apply S. reflexivity.
    + constructor. intros Hin. apply S in Hin. discriminate.
    + constructor. apply S. reflexivity.
    + inversion H as [| |it c' Hn|]; subst. apply S in Hn. discriminate.
Qed.

Lemma atom_matches_not_star c : ~ atom_matches PStar c.
Proof. intros H. inversion H. Qed.

(* ------------------------------------------------------------------ the matcher *)
Lemma glob_match_star p s :
  glob_match (PStar :: p) s = glob_match p s || match s with [] => false | _ :: s' => glob_match (PStar :: p) s' end.
Proof. destruct s; reflexivity. Qed.

Lemma glob_match_cons a p c s : is_star a = false ->
  glob_match (a :: p) (c :: s) = atom_match a c && glob_match p s.
Proof. destruct a; simpl; intros; try discriminate; reflexivity. Qed.

Lemma glob_match_cons_nil a p : is_star a = false -> glob_match (a :: p) [] = false.
Proof. destruct a; simpl; intros; try discriminate; reflexivity. Qed.

Lemma glob_match_star_app p w s : glob_match p s = true -> glob_match (PStar :: p) (w ++ s) = true.
Proof.
  intros H. induction w as [|c w IH].
  - simpl app. rewrite glob_match_star, H. reflexivity.
  - simpl app. rewrite glob_match_star. rewrite IH. apply orb_true_r.
Qed.

Lemma gmatch_complete p s : gmatch p s -> glob_match p s = true.
Proof.
  induction 1 as [|w p s H IH|a p c s Ha H IH].
  - reflexivity.
  - apply glob_match_star_app. exact IH.
  - assert (is_star a = false) as Hs by (destruct a; auto; inversion Ha).
    rewrite glob_match_cons by exact Hs. apply atom_match_spec in Ha. rewrite Ha, IH. reflexivity.
Qed.

Lemma gmatch_sound p : forall s, glob_match p s = true -> gmatch p s.
Proof.
  induction p as [|a p IH]; intros s H.
  - destruct s; [constructor | discriminate].
  - destruct (is_star a) eqn:Hs.
    + destruct a; try discriminate. clear Hs.
      induction s as [|c s IHs].
      * rewrite glob_match_star in H. rewrite orb_false_r in H.
        change (@nil N) with (@nil N ++ @nil N). constructor. apply IH. exact H.
      * rewrite glob_match_star in H. apply orb_true_iff in H. destruct H as [H|H].
        -- change (c :: s) with ([] ++ c :: s). constructor. apply IH. exact H.
        -- specialize (IHs H). inversion IHs as [|w p' s' Hm|a' p' c' s' Ha']; subst.
           ++ change (c :: w ++ s') with ((c :: w) ++ s'). constructor. assumption.
           ++ inversion Ha'.
    + destruct s as [|c s].
      * rewrite glob_match_cons_nil in H by exact Hs. discriminate.
      * rewrite glob_match_cons in H by exact Hs. apply andb_true_iff in H. destruct H as [Ha Hr].
        constructor; [apply atom_match_spec; exact Ha | apply IH; exact Hr].
Qed.

Theorem glob_spec_proof : forall (p : pattern) (s : str), glob_match p s = true <-> gmatch p s.
Proof. intros. split; [apply gmatch_sound | apply gmatch_complete]. Qed.

(* ------------------------------------------------------------------ the parser never runs out of fuel *)
Lemma split_rbrack_length s a b : split_rbrack s = Some (a, b) -> length b < length s.
Proof.
  revert a b. induction s as [|c r IH]; intros a b H; simpl in H; [discriminate|].
  destruct (N.eqb c c_rbrack).
  - inversion H; subst. simpl. lia.
  - destruct (split_rbrack r) as [[a' b']|] eqn:E; [|discriminate]. inversion H; subst.
    specialize (IH _ _ eq_refl). simpl. lia.
Qed.

Lemma find_close_length r neg body rest : find_close r = Some (neg, body, rest) -> length rest < length r.
Proof.
  unfold find_close. intros H.
  assert (forall (ng : bool) r1, match r1 with
    | c :: r2 => if N.eqb c c_rbrack
                 then match split_rbrack r2 with Some (a, b) => Some (ng, c :: a, b) | None => None end
                 else match split_rbrack r1 with Some (a, b) => Some (ng, a, b) | None => None end
    | [] => None end = Some (neg, body, rest) -> length rest < length r1) as G.
  { intros ng r1 H1. destruct r1 as [|c r2]; [discriminate|].
    destruct (N.eqb c c_rbrack).
    - destruct (split_rbrack r2) as [[a b]|] eqn:E; [|discriminate]. inversion H1; subst.
      apply split_rbrack_length in E. simpl. lia.
    - destruct (split_rbrack (c :: r2)) as [[a b]|] eqn:E; [|discriminate]. inversion H1; subst.
      apply split_rbrack_length in E. exact E. }
  destruct r as [|c r']; [discriminate|].
  destruct (N.eqb c c_bang).
  - apply (G true r') in H. simpl. lia.
  - apply (G false (c :: r')) in H. exact H.
Qed.

Lemma parse_glob_fuel_enough : forall n s, length s <= n -> parse_glob_fuel n s = parse_glob_fuel (length s) s.
Proof.
  intros n s. remember (length s) as m eqn:Hm. revert n s Hm.
  induction m as [m IH] using (well_founded_induction Wf_nat.lt_wf). intros n s Hm Hn.
  destruct s as [|c r].
  - subst m. destruct n; reflexivity.
  - simpl in Hm. destruct n as [|n]; [lia|]. subst m. simpl.
    assert (forall t, length t <= length r -> parse_glob_fuel n t = parse_glob_fuel (length r) t) as K.
    { intros t Ht. rewrite (IH (length t)) with (n := n) (s := t); try lia; auto.
      rewrite (IH (length t)) with (n := length r) (s := t); try lia; auto. }
    destruct (N.eqb c c_star); [f_equal; apply K; lia|].
    destruct (N.eqb c c_qmark); [f_equal; apply K; lia|].
    destruct (N.eqb c c_lbrack); [|f_equal; apply K; lia].
    destruct (find_close r) as [[[neg body] rest]|] eqn:E; [|f_equal; apply K; lia].
    apply find_close_length in E. f_equal. apply K. lia.
Qed.
