(* Proofs about Model/Glob.v: the executable matcher agrees with the usual inductive definition of wildcard matching. *)
From Coq Require Import List NArith Bool Lia.
Import ListNotations.
From LCC Require Import Base.Util Model.Report Model.Glob.

(* ------------------------------------------------------------------ declarative semantics *)
Inductive item_matches (c : N) : setitem -> Prop :=
| im_char : item_matches c (SChar c)
| im_range lo hi : (lo <= c)%N -> (c <= hi)%N -> item_matches c (SRange lo hi).

Definition in_set (c : N) (items : list setitem) : Prop := exists it, In it items /\ item_matches c it.

Inductive atom_matches : patom -> N -> Prop :=
| am_lit c : atom_matches (PLit c) c
| am_any c : atom_matches PAny c
| am_set_pos items c : in_set c items -> atom_matches (PSet false items) c
| am_set_neg items c : ~ in_set c items -> atom_matches (PSet true items) c.

(* the usual definition: the empty pattern matches the empty string; `*` followed by p matches w ++ s for any w when p matches s;
   any other element matches exactly one character it accepts *)
Inductive gmatch : pattern -> str -> Prop :=
| gm_nil : gmatch [] []
| gm_star w p s : gmatch p s -> gmatch (PStar :: p) (w ++ s)
| gm_one a p c s : atom_matches a c -> gmatch p s -> gmatch (a :: p) (c :: s).

(* ------------------------------------------------------------------ single characters *)
Lemma item_match_spec c it : item_match c it = true <-> item_matches c it.
Proof.
  destruct it as [d|lo hi]; simpl.
  - rewrite N.eqb_eq. split; intros H.
    + subst. constructor.
    + inversion H. reflexivity.
  - rewrite andb_true_iff, !N.leb_le. split; intros H.
    + destruct H. constructor; assumption.
    + inversion H. split; assumption.
Qed.

Lemma in_set_spec c items : existsb (item_match c) items = true <-> in_set c items.
Proof.
  unfold in_set. rewrite existsb_exists. split; intros [it [Hi Hm]]; exists it; split; auto; apply item_match_spec; auto.
Qed.

Lemma atom_match_spec a c : atom_match a c = true <-> atom_matches a c.
Proof.
  destruct a as [d| | |neg items]; simpl.
  - rewrite N.eqb_eq. split; intros H.
    + subst. constructor.
    + inversion H. reflexivity.
  - split; intros; [constructor | reflexivity].
  - split; intros H; [discriminate | inversion H].
  - pose proof (in_set_spec c items) as S.
    destruct neg; destruct (existsb (item_match c) items) eqn:E; simpl; split; intros H;
      try discriminate; try reflexivity.
    + inversion H as [| | |it c' Hn]; subst. exfalso. apply Hn. apply S. reflexivity.
    + constructor. intros Hin. apply S in Hin. discriminate.
    + constructor. apply S. reflexivity.
    + inversion H as [| |it c' Hn|]; subst. apply S in Hn. discriminate.
Qed.

Lemma atom_matches_not_star c : ~ atom_matches PStar c.
Proof. intros H. inversion H. Qed.

(* ------------------------------------------------------------------ the matcher *)
Lemma glob_match_star p s :
  glob_match (PStar :: p) s = glob_match p s || match s with [] => false | _ :: s' => glob_match (PStar :: p) s' end.
Proof. destruct s; reflexivity. Qed.

Lemma glob_match_cons a p c s : is_star a = false ->
  glob_match (a :: p) (c :: s) = atom_match a c && glob_match p s.
Proof. destruct a; simpl; intros; try discriminate; reflexivity. Qed.

Lemma glob_match_cons_nil a p : is_star a = false -> glob_match (a :: p) [] = false.
Proof. destruct a; simpl; intros; try discriminate; reflexivity. Qed.

Lemma glob_match_star_app p w s : glob_match p s = true -> glob_match (PStar :: p) (w ++ s) = true.
Proof.
  intros H. induction w as [|c w IH].
  - simpl app. rewrite glob_match_star, H. reflexivity.
  - simpl app. rewrite glob_match_star. rewrite IH. apply orb_true_r.
Qed.

Lemma gmatch_complete p s : gmatch p s -> glob_match p s = true.
Proof.
  induction 1 as [|w p s H IH|a p c s Ha H IH].
  - reflexivity.
  - apply glob_match_star_app. exact IH.
  - assert (is_star a = false) as Hs by (destruct a; auto; inversion Ha).
    rewrite glob_match_cons by exact Hs. apply atom_match_spec in Ha. rewrite Ha, IH. reflexivity.
Qed.

Lemma gmatch_sound p : forall s, glob_match p s = true -> gmatch p s.
Proof.
  induction p as [|a p IH]; intros s H.
  - destruct s; [constructor | discriminate].
  - destruct (is_star a) eqn:Hs.
    + destruct a; try discriminate. clear Hs.
      induction s as [|c s IHs].
      * rewrite glob_match_star in H. rewrite orb_false_r in H.
        change (@nil N) with (@nil N ++ @nil N). constructor. apply IH. exact H.
      * rewrite glob_match_star in H. apply orb_true_iff in H. destruct H as [H|H].
        -- change (c :: s) with ([] ++ c :: s). constructor. apply IH. exact H.
        -- specialize (IHs H). inversion IHs as [|w p' s' Hm|a' p' c' s' Ha']; subst.
           ++ change (c :: w ++ s') with ((c :: w) ++ s'). constructor. assumption.
           ++ inversion Ha'.
    + destruct s as [|c s].
      * rewrite glob_match_cons_nil in H by exact Hs. discriminate.
      * rewrite glob_match_cons in H by exact Hs. apply andb_true_iff in H. destruct H as [Ha Hr].
        constructor; [apply atom_match_spec; exact Ha | apply IH; exact Hr].
Qed.

Theorem glob_spec_proof : forall (p : pattern) (s : str), glob_match p s = true <-> gmatch p s.
Proof. intros. split; [apply gmatch_sound | apply gmatch_complete]. Qed.

(* ------------------------------------------------------------------ the parser never runs out of fuel *)
Lemma split_rbrack_length s a b : split_rbrack s = Some (a, b) -> length b < length s.
Proof.
  revert a b. induction s as [|c r IH]; intros a b H; simpl in H; [discriminate|].
  destruct (N.eqb c c_rbrack).
  - inversion H; subst. simpl. lia.
  - destruct (split_rbrack r) as [[a' b']|] eqn:E; [|discriminate]. inversion H; subst.
    specialize (IH _ _ eq_refl). simpl. lia.
Qed.

Lemma find_close_length r neg body rest : find_close r = Some (neg, body, rest) -> length rest < length r.
Proof.
  unfold find_close. intros H.
  assert (forall (ng : bool) r1, match r1 with
    | c :: r2 => if N.eqb c c_rbrack
                 then match split_rbrack r2 with Some (a, b) => Some (ng, c :: a, b) | None => None end
                 else match split_rbrack r1 with Some (a, b) => Some (ng, a, b) | None => None end
    | [] => None end = Some (neg, body, rest) -> length rest < length r1) as G.
  { intros ng r1 H1. destruct r1 as [|c r2]; [discriminate|].
    destruct (N.eqb c c_rbrack).
    - destruct (split_rbrack r2) as [[a b]|] eqn:E; [|discriminate]. inversion H1; subst.
      apply split_rbrack_length in E. simpl. lia.
    - destruct (split_rbrack (c :: r2)) as [[a b]|] eqn:E; [|discriminate]. inversion H1; subst.
      apply split_rbrack_length in E. exact E. }
  destruct r as [|c r']; [discriminate|].
  destruct (N.eqb c c_bang).
  - apply (G true r') in H. simpl. lia.
  - apply (G false (c :: r')) in H. exact H.
Qed.

Lemma parse_glob_fuel_enough : forall n s, length s <= n -> parse_glob_fuel n s = parse_glob_fuel (length s) s.
Proof.
  intros n s. remember (length s) as m eqn:Hm. revert n s Hm.
  induction m as [m IH] using (well_founded_induction Wf_nat.lt_wf). intros n s Hm Hn.
  destruct s as [|c r].
  - subst m. destruct n; reflexivity.
  - simpl in Hm. destruct n as [|n]; [lia|]. subst m. simpl.
    assert (forall t, length t <= length r -> parse_glob_fuel n t = parse_glob_fuel (length r) t) as K.
    { intros t Ht. rewrite (IH (length t)) with (n := n) (s := t); try lia; auto.
      rewrite (IH (length t)) with (n := length r) (s := t); try lia; auto. }
    destruct (N.eqb c c_star); [f_equal; apply K; lia|].
    destruct (N.eqb c c_qmark); [f_equal; apply K; lia|].
    destruct (N.eqb c c_lbrack); [|f_equal; apply K; lia].
    destruct (find_close r) as [[[neg body] rest]|] eqn:E; [|f_equal; apply K; lia].
    apply find_close_length in E. f_equal. apply K. lia.
Qed.

(* ------------------------------------------------------------------ how a pattern TEXT is read, stated independently of parse_glob *)
Definition special (c : N) : Prop := c = c_star \/ c = c_qmark \/ c = c_lbrack.

(* members of a bracket expression: x-y is a range whenever a character follows the hyphen *)
Inductive items_of : str -> list setitem -> Prop :=
| io_nil : items_of [] []
| io_range c h r its : items_of r its -> items_of (c :: c_hyphen :: h :: r) (SRange c h :: its)
| io_char c r its : (forall h r', r <> c_hyphen :: h :: r') -> items_of r its -> items_of (c :: r) (SChar c :: its).

(* r is what follows `[`: an optional `!`, a first member (any character, `]` included), further members without `]`,
   the closing `]`, and the rest of the pattern *)
Definition set_text (r : str) (neg : bool) (members rest : str) : Prop :=
  exists first body, members = first :: body /\ ~ In c_rbrack body /\
    r = (if neg then [c_bang] else []) ++ first :: body ++ c_rbrack :: rest /\ (neg = false -> first <> c_bang).

Inductive parses : str -> pattern -> Prop :=
| pa_nil : parses [] []
| pa_star r p : parses r p -> parses (c_star :: r) (PStar :: p)
| pa_any r p : parses r p -> parses (c_qmark :: r) (PAny :: p)
| pa_set r neg members rest its p :
    set_text r neg members rest -> items_of members its -> parses rest p -> parses (c_lbrack :: r) (PSet neg its :: p)
| pa_open r p :           (* a `[` that is never closed is an ordinary character *)
    (forall neg members rest, ~ set_text r neg members rest) -> parses r p -> parses (c_lbrack :: r) (PLit c_lbrack :: p)
| pa_lit c r p : ~ special c -> parses r p -> parses (c :: r) (PLit c :: p).

Lemma split_rbrack_some s a b : split_rbrack s = Some (a, b) <-> s = a ++ c_rbrack :: b /\ ~ In c_rbrack a.
Proof.
  revert a b. induction s as [|c r IH]; intros a b; simpl.
  - split; [discriminate|]. intros [E _]. destruct a; discriminate.
  - destruct (N.eqb c c_rbrack) eqn:Ec.
    + apply N.eqb_eq in Ec. subst c. split.
      * intros H. inversion H; subst. split; auto.
      * intros [E Hn]. destruct a as [|x a]; simpl in E; inversion E; subst; auto. exfalso. apply Hn. left. reflexivity.
    + apply N.eqb_neq in Ec. destruct (split_rbrack r) as [[a' b']|] eqn:E.
      * split.
        -- intros H. inversion H; subst. destruct (proj1 (IH a' b) eq_refl) as [E1 E2]. subst r. split; auto.
           intros [X|X]; [congruence | contradiction].
        -- intros [E1 Hn]. destruct a as [|x a]; simpl in E1; inversion E1; subst; [congruence|].
           assert (Some (a', b') = Some (a, b)) as X.
           { apply IH. split; auto. intros X. apply Hn. right. exact X. }
           inversion X; subst. reflexivity.
      * split; [discriminate|]. intros [E1 Hn]. destruct a as [|x a]; simpl in E1; inversion E1; subst; [congruence|].
        assert (None = Some (a, b)) as X.
        { apply IH. split; auto. intros X. apply Hn. right. exact X. }
        discriminate.
Qed.

Lemma split_rbrack_none s : split_rbrack s = None -> ~ In c_rbrack s.
Proof.
  induction s as [|c r IH]; simpl; intros H; auto.
  destruct (N.eqb c c_rbrack) eqn:Ec; [discriminate|]. apply N.eqb_neq in Ec.
  destruct (split_rbrack r) as [[a b]|]; [discriminate|]. intros [X|X]; [congruence | apply IH; auto].
Qed.

(* the closing-bracket search on r1 = text after the optional `!` *)
Definition close_after (r1 : str) : option (str * str) :=
  match r1 with
  | c :: r2 =>
      if N.eqb c c_rbrack
      then match split_rbrack r2 with Some (a, b) => Some (c :: a, b) | None => None end
      else split_rbrack r1
  | [] => None
  end.

Lemma close_after_some r1 m rest : close_after r1 = Some (m, rest) <->
  exists first body, m = first :: body /\ ~ In c_rbrack body /\ r1 = first :: body ++ c_rbrack :: rest.
Proof.
  unfold close_after. destruct r1 as [|c r2].
  - split; [discriminate|]. intros [f [b [_ [_ E]]]]. discriminate.
  - destruct (N.eqb c c_rbrack) eqn:Ec.
    + apply N.eqb_eq in Ec. subst c. destruct (split_rbrack r2) as [[a b]|] eqn:E.
      * apply split_rbrack_some in E. destruct E as [E Hn]. split.
        -- intros H. inversion H; subst. exists c_rbrack, a. auto.
        -- intros [f [body [Em [Hb Er]]]]. inversion Er; subst.
           assert (split_rbrack (body ++ c_rbrack :: rest) = Some (body, rest)) as X by (apply split_rbrack_some; auto).
           assert (split_rbrack (body ++ c_rbrack :: rest) = Some (a, b)) as Y by (apply split_rbrack_some; auto).
           rewrite X in Y. inversion Y; subst. reflexivity.
      * apply split_rbrack_none in E. split; [discriminate|]. intros [f [body [Em [Hb Er]]]]. inversion Er; subst.
        exfalso. apply E. apply in_app_iff. right. left. reflexivity.
    + apply N.eqb_neq in Ec. split.
      * intros H. apply split_rbrack_some in H. destruct H as [E Hn].
        destruct m as [|f body]; simpl in E; inversion E; subst; [congruence|].
        exists f, body. split; auto. split; auto. intros X. apply Hn. right. exact X.
      * intros [f [body [Em [Hb Er]]]]. inversion Er; subst. apply split_rbrack_some. split; auto.
        intros [X|X]; [congruence | contradiction].
Qed.

Lemma find_close_unfold r :
  find_close r = match r with
                 | c :: r' => if N.eqb c c_bang
                              then match close_after r' with Some (m, rest) => Some (true, m, rest) | None => None end
                              else match close_after r with Some (m, rest) => Some (false, m, rest) | None => None end
                 | [] => None
                 end.
Proof.
  unfold find_close, close_after. destruct r as [|c r']; [reflexivity|].
  destruct (N.eqb c c_bang).
  - destruct r' as [|c2 r2]; [reflexivity|]. destruct (N.eqb c2 c_rbrack).
    + destruct (split_rbrack r2) as [[a b]|]; reflexivity.
    + destruct (split_rbrack (c2 :: r2)) as [[a b]|]; reflexivity.
  - destruct (N.eqb c c_rbrack).
    + destruct (split_rbrack r') as [[a b]|]; reflexivity.
    + destruct (split_rbrack (c :: r')) as [[a b]|]; reflexivity.
Qed.

Lemma find_close_spec r neg m rest : find_close r = Some (neg, m, rest) <-> set_text r neg m rest.
Proof.
  rewrite find_close_unfold. unfold set_text. destruct r as [|c r'].
  - split; [discriminate|]. intros [f [b [_ [_ [E _]]]]]. destruct neg; discriminate.
  - destruct (N.eqb c c_bang) eqn:Ec.
    + apply N.eqb_eq in Ec. subst c. destruct (close_after r') as [[m' rest']|] eqn:E.
      * split.
        -- intros H. inversion H; subst. apply close_after_some in E. destruct E as [f [b [Em [Hb Er]]]].
           exists f, b. subst. simpl. repeat split; auto. discriminate.
        -- intros [f [b [Em [Hb [Er Hf]]]]]. destruct neg.
           ++ simpl in Er. inversion Er; subst.
              assert (close_after (f :: b ++ c_rbrack :: rest) = Some (f :: b, rest)) as X
                by (apply close_after_some; exists f, b; auto).
              rewrite X in E. inversion E; subst. reflexivity.
           ++ simpl in Er. inversion Er; subst. exfalso. apply Hf; reflexivity.
      * split; [discriminate|]. intros [f [b [Em [Hb [Er Hf]]]]]. destruct neg.
        -- simpl in Er. inversion Er; subst.
           assert (close_after (f :: b ++ c_rbrack :: rest) = Some (f :: b, rest)) as X
             by (apply close_after_some; exists f, b; auto).
           congruence.
        -- simpl in Er. inversion Er; subst. exfalso. apply Hf; reflexivity.
    + apply N.eqb_neq in Ec. destruct (close_after (c :: r')) as [[m' rest']|] eqn:E.
      * split.
        -- intros H. inversion H; subst. apply close_after_some in E. destruct E as [f [b [Em [Hb Er]]]].
           exists f, b. subst. simpl. repeat split; auto. intros _ X. inversion Er; subst. congruence.
        -- intros [f [b [Em [Hb [Er Hf]]]]]. destruct neg.
           ++ simpl in Er. inversion Er; subst. congruence.
           ++ simpl in Er. rewrite Er in E.
              assert (close_after (f :: b ++ c_rbrack :: rest) = Some (f :: b, rest)) as X
                by (apply close_after_some; exists f, b; auto).
              rewrite X in E. inversion E; subst. reflexivity.
      * split; [discriminate|]. intros [f [b [Em [Hb [Er Hf]]]]]. destruct neg.
        -- simpl in Er. inversion Er; subst. congruence.
        -- simpl in Er. rewrite Er in E.
           assert (close_after (f :: b ++ c_rbrack :: rest) = Some (f :: b, rest)) as X
             by (apply close_after_some; exists f, b; auto).
           congruence.
Qed.

Lemma parse_items_spec : forall n b, length b <= n -> items_of b (parse_items b).
Proof.
  induction n as [|n IH]; intros b Hn.
  - destruct b; [constructor | simpl in Hn; lia].
  - destruct b as [|c r]; [constructor|]. simpl.
    destruct r as [|d [|h r']].
    + apply io_char; [intros h r' X; discriminate | constructor].
    + apply io_char; [intros h r' X; discriminate|]. apply IH. simpl in *. lia.
    + destruct (N.eqb d c_hyphen) eqn:Ed.
      * apply N.eqb_eq in Ed. subst d. apply io_range. apply IH. simpl in *. lia.
      * apply N.eqb_neq in Ed. apply io_char.
        -- intros h' r'' X. inversion X. congruence.
        -- apply IH. simpl in *. lia.
Qed.

Lemma parse_glob_cons c r :
  parse_glob (c :: r) =
    if N.eqb c c_star then PStar :: parse_glob r
    else if N.eqb c c_qmark then PAny :: parse_glob r
    else if N.eqb c c_lbrack then
      match find_close r with
      | Some (neg, body, rest) => PSet neg (parse_items body) :: parse_glob rest
      | None => PLit c :: parse_glob r
      end
    else PLit c :: parse_glob r.
Proof.
  unfold parse_glob. simpl.
  destruct (N.eqb c c_star); [reflexivity|]. destruct (N.eqb c c_qmark); [reflexivity|].
  destruct (N.eqb c c_lbrack); [|reflexivity].
  destruct (find_close r) as [[[neg body] rest]|] eqn:E; [|reflexivity].
  apply find_close_length in E. rewrite (parse_glob_fuel_enough (length r) rest) by lia. reflexivity.
Qed.

Theorem parse_glob_parses : forall s, parses s (parse_glob s).
Proof.
  intros s. remember (length s) as n eqn:Hn. revert s Hn.
  induction n as [n IH] using (well_founded_induction Wf_nat.lt_wf). intros s Hn.
  destruct s as [|c r]; [constructor|]. rewrite parse_glob_cons. simpl in Hn.
  assert (parses r (parse_glob r)) as Hr by (apply (IH (length r)); [lia | reflexivity]).
  destruct (N.eqb c c_star) eqn:E1; [apply N.eqb_eq in E1; subst c; constructor; exact Hr|].
  destruct (N.eqb c c_qmark) eqn:E2; [apply N.eqb_eq in E2; subst c; constructor; exact Hr|].
  apply N.eqb_neq in E1. apply N.eqb_neq in E2.
  destruct (N.eqb c c_lbrack) eqn:E3.
  - apply N.eqb_eq in E3. subst c. destruct (find_close r) as [[[neg body] rest]|] eqn:E.
    + pose proof (find_close_length _ _ _ _ E) as L. apply find_close_spec in E.
      apply pa_set with (members := body) (rest := rest); auto.
      * apply (parse_items_spec (length body)). lia.
      * apply (IH (length rest)); [lia | reflexivity].
    + apply pa_open; auto. intros neg m rest X. apply find_close_spec in X. congruence.
  - apply N.eqb_neq in E3. apply pa_lit; auto. intros [X|[X|X]]; congruence.
Qed.

Lemma items_of_fun b : forall i1 i2, items_of b i1 -> items_of b i2 -> i1 = i2.
Proof.
  intros i1 i2 H1. revert i2. induction H1 as [|c h r its H IH|c r its Hn H IH]; intros i2 H2.
  - inversion H2. reflexivity.
  - inversion H2 as [|c' h' r' its' H'|c' r' its' Hn' H']; subst.
    + f_equal. apply IH. assumption.
    + exfalso. apply (Hn' h r). reflexivity.
  - inversion H2 as [|c' h' r' its' H'|c' r' its' Hn' H']; subst.
    + exfalso. apply (Hn h' r'). reflexivity.
    + f_equal. apply IH. assumption.
Qed.

Theorem parses_fun : forall s p, parses s p -> p = parse_glob s.
Proof.
  intros s p H. induction H as [|r p H IH|r p H IH|r neg m rest its p St Hi H IH|r p Hn H IH|c r p Hc H IH];
    try rewrite parse_glob_cons.
  - reflexivity.
  - simpl. subst. reflexivity.
  - simpl. subst. reflexivity.
  - simpl. apply find_close_spec in St. rewrite St. subst p. f_equal. f_equal.
    apply (items_of_fun m); auto. apply (parse_items_spec (length m)). lia.
  - simpl. destruct (find_close r) as [[[neg m] rest]|] eqn:E.
    + apply find_close_spec in E. exfalso. apply (Hn neg m rest). exact E.
    + subst. reflexivity.
  - assert (N.eqb c c_star = false) as E1 by (apply N.eqb_neq; intros X; apply Hc; left; exact X).
    assert (N.eqb c c_qmark = false) as E2 by (apply N.eqb_neq; intros X; apply Hc; right; left; exact X).
    assert (N.eqb c c_lbrack = false) as E3 by (apply N.eqb_neq; intros X; apply Hc; right; right; exact X).
    rewrite E1, E2, E3. subst. reflexivity.
Qed.

Theorem parse_glob_spec_proof : forall s p, parses s p <-> p = parse_glob s.
Proof. intros. split; [apply parses_fun | intros; subst; apply parse_glob_parses]. Qed.
