(* C09 — proofs about the XML backend: on xml_safe reports the generated xml_load_* invert the generated xml_save_*,
   and the (modelled) text layer xml_norm is the identity on the trees produced. *)
From Coq Require Import List NArith ZArith Bool Lia.
Import ListNotations.
From LCC Require Import Base.Util Model.Report Model.Time Model.Json Model.Xml gen.TablesCodec Model.CodecFile Proofs.JsonP.

Ltac split_and :=
  repeat match goal with
         | H : (_ && _)%bool = true |- _ => apply andb_true_iff in H; destruct H
         end.

Lemma filter_map_all {A B} (p : B -> bool) (g : A -> B) l : (forall x, p (g x) = true) -> filter p (map g l) = map g l.
Proof. intro H. induction l as [|x l IH]; simpl; [reflexivity|]. rewrite H, IH. reflexivity. Qed.
Lemma filter_map_none {A B} (p : B -> bool) (g : A -> B) l : (forall x, p (g x) = false) -> filter p (map g l) = [].
Proof. intro H. induction l as [|x l IH]; simpl; [reflexivity|]. rewrite H, IH. reflexivity. Qed.
Lemma filter_app' {A} (p : A -> bool) l1 l2 : filter p (l1 ++ l2) = filter p l1 ++ filter p l2.
Proof. induction l1 as [|x l1 IH]; simpl; [reflexivity|]. destruct (p x); simpl; rewrite IH; reflexivity. Qed.

Section XmlRoundTrip.
Variable tc : textcodec.
Hypothesis Hc : codec_ok tc.

Ltac xsimp :=
  cbn -[xml_load_time xml_save_time xml_load_bool xml_save_bool xml_save_steps_children xml_load_step xml_save_test
        xml_load_test xml_save_suite xml_load_suite mapM map tests_dict dict_of_pairs xml_depth suite_depth
        xml_save_result_attrs xml_save_result_children].

Lemma xtime_rt z : xml_load_time tc (xml_save_time tc (Some z)) = Ok z.
Proof. destruct Hc as [Ht _]. unfold xml_load_time, xml_save_time. cbn. rewrite Ht. reflexivity. Qed.
Lemma xbool_rt b : xml_load_bool (xml_save_bool b) = Ok b.
Proof. destruct b; reflexivity. Qed.

Ltac xrw := repeat (first [rewrite xtime_rt | rewrite xbool_rt]; cbn [bind req_some of_option]).

Lemma xsteps_rt steps : forallb step_safe steps = true ->
  mapM (fun e => xml_load_step tc e) (xml_save_steps_children tc steps) = Ok steps.
Proof.
  intro Hs. unfold xml_save_steps_children. apply mapM_map_id_in. intros [d st en logs] Hin.
  rewrite forallb_forall in Hs. specialize (Hs _ Hin). unfold step_safe in Hs. cbn [st_description st_start st_logs] in Hs.
  split_and. destruct st as [st|]; [|discriminate].
  unfold xml_load_step. destruct en as [en|]; xsimp; xrw.
  all: rewrite mapM_map_id; [reflexivity|]; intros [lv m t|ds ok dt t|ds f im t|ds u t]; xsimp; xrw; reflexivity.
Qed.

Lemma steps_children_filter k steps :
  filter (has_tag k) (xml_save_steps_children tc steps) =
  if str_eqb K_step k then xml_save_steps_children tc steps else [].
Proof.
  unfold xml_save_steps_children. destruct (str_eqb K_step k) eqn:E;
    [apply filter_map_all | apply filter_map_none]; intro x; unfold has_tag; cbn [xtag]; exact E.
Qed.

(* filter (has_tag K) over a children list made of ++ / map / literal segments *)
Ltac tag_dec := let x := fresh "x" in intro x; try reflexivity; destruct x; reflexivity.
Ltac filt :=
  repeat first
    [ rewrite filter_app'
    | rewrite steps_children_filter
    | rewrite filter_map_all by tag_dec
    | rewrite filter_map_none by tag_dec
    | progress xsimp ].
(* the same, for every `filter (has_tag K) C` of the goal, each computed on its own *)
Ltac filt_all C :=
  repeat match goal with
  | |- context [filter (has_tag ?K) C] =>
      let l := fresh "l" in let F := fresh "F" in
      evar (l : list xml);
      assert (F : filter (has_tag K) C = l) by (subst C l; filt; rewrite ?app_nil_r; reflexivity);
      rewrite F; clear F; subst l
  end.

(* links: the optional name attribute written under `if link[1]:` comes back unless it is "" *)
Ltac xlinks_tac :=
  match goal with
  | Hl : forallb (fun l => text_safe (fst l) && oattr_safe (snd l)) ?lk = true |- _ =>
      rewrite (mapM_map_id_in _ _ lk) by
        (let Hin := fresh "Hin" in
         intros [? [[|? ?]|]] Hin; rewrite forallb_forall in Hl; specialize (Hl _ Hin); cbn [fst snd] in Hl;
         split_and; try discriminate; reflexivity)
  end.

Lemma xtest_rt t : test_safe t = true -> meta_unique (t_meta t) = true ->
  xml_load_test tc (xml_save_test tc t) = Ok t.
Proof.
  destruct t as [[n d tg pr lk] [st en s sd steps]]. unfold test_safe, meta_safe, result_safe, meta_unique.
  cbn [t_meta t_result m_name m_description m_tags m_properties m_links r_start r_end r_status r_status_details r_steps].
  intros Hs Hu. split_and.
  unfold xml_save_test, xml_load_test, xml_save_node_metadata_attrs, xml_save_node_metadata_children,
    xml_save_result_attrs, xml_save_result_children, xfindall.
  cbn [xchildren r_steps t_result t_meta m_tags m_properties m_links].
  filt.
  destruct st as [st|]; [|discriminate].
  destruct s as [[|c1 s]|]; try discriminate; destruct sd as [[|c2 sd]|]; try discriminate; destruct en as [en|];
    xsimp; xrw.
  all: rewrite ?app_nil_r; rewrite xsteps_rt by assumption; cbn [bind].
  all: rewrite mapM_map_id by (intro; reflexivity); cbn [bind].
  all: rewrite mapM_map_id by (intros [? ?]; reflexivity); cbn [bind].
  all: xlinks_tac; cbn [bind].
  all: rewrite dict_of_pairs_id by assumption; reflexivity.
Qed.

(* ---- the attributes / children written for a setup or teardown result: what each lookup used by the loader returns ---- *)
Lemma res_facts r : result_safe r = true ->
  exists z, r_start r = Some z /\
  assoc K_start__time (xml_save_result_attrs tc r) = Some (xml_save_time tc (Some z)) /\
  assoc K_end__time (xml_save_result_attrs tc r) =
    match r_end r with Some e => Some (xml_save_time tc (Some e)) | None => None end /\
  assoc K_status (xml_save_result_attrs tc r) = r_status r /\
  assoc K_status__details (xml_save_result_attrs tc r) = r_status_details r /\
  mapM (fun e => xml_load_step tc e) (filter (has_tag K_step) (xml_save_result_children tc r)) = Ok (r_steps r).
Proof.
  destruct r as [st en s sd steps]. unfold result_safe.
  cbn [r_start r_end r_status r_status_details r_steps]. intro H. split_and.
  destruct st as [st|]; [|discriminate]. exists st. split; [reflexivity|].
  unfold xml_save_result_attrs, xml_save_result_children. cbn [r_steps].
  rewrite steps_children_filter, str_eqb_refl. rewrite xsteps_rt by assumption.
  destruct s as [[|c1 s]|]; try discriminate; destruct sd as [[|c2 sd]|]; try discriminate; destruct en as [en|];
    xsimp; repeat split; reflexivity.
Qed.

Lemma xsuite_tag k s : has_tag k (xml_save_suite tc s) = str_eqb K_suite k.
Proof. destruct s. reflexivity. Qed.

Lemma xsuite_rt s : forall fuel, suite_safe s = true -> suite_unique s = true -> (suite_depth s <= fuel)%nat ->
  xml_load_suite tc fuel (xml_save_suite tc s) = Ok s.
Proof.
  induction s as [m st en su td tests subs IH] using suite_ind'. intros fuel Hs Hu Hd.
  destruct fuel as [|fuel]; [simpl in Hd; lia|].
  destruct m as [n d tg pr lk].
  cbn [suite_safe suite_unique] in Hs, Hu. unfold meta_safe, meta_unique in Hs, Hu.
  cbn [m_name m_description m_tags m_properties m_links] in Hs, Hu. split_and.
  assert (Hsub : mapM (fun e => xml_load_suite tc fuel e) (map (xml_save_suite tc) subs) = Ok subs).
  { apply mapM_map_id_in. intros x Hx. rewrite Forall_forall in IH. apply IH; [exact Hx | | |].
    - match goal with H : forallb suite_safe subs = true |- _ => rewrite forallb_forall in H; apply H; exact Hx end.
    - match goal with H : forallb suite_unique subs = true |- _ => rewrite forallb_forall in H; apply H; exact Hx end.
    - cbn [suite_depth] in Hd. pose proof (fold_max_le suite_depth x subs Hx). lia. }
  assert (Htests : mapM (fun e => xml_load_test tc e) (map (xml_save_test tc) tests) = Ok tests).
  { apply mapM_map_id_in. intros x Hx. apply xtest_rt.
    - match goal with H : forallb test_safe tests = true |- _ => rewrite forallb_forall in H; apply H; exact Hx end.
    - match goal with H : forallb (fun t => nodup_keys _) tests = true |- _ =>
        rewrite forallb_forall in H; apply (H x Hx) end. }
  destruct st as [st|]; [|discriminate].
  cbn [xml_save_suite xml_load_suite].
  unfold xml_save_node_metadata_attrs, xml_save_node_metadata_children, xfind, xfindall.
  cbn [xchildren m_name m_description m_tags m_properties m_links].
  destruct su as [su|];
    [match goal with H : oresult_safe (Some su) = true |- _ =>
       destruct (res_facts su H) as (zs & Hs1 & Hs2 & Hs3 & Hs4 & Hs5 & Hs6); destruct su as [s1 s2 s3 s4 s5];
       cbn [r_start r_end r_status r_status_details r_steps] in Hs1, Hs3, Hs4, Hs5, Hs6; subst s1 end|];
  (destruct td as [td|];
    [match goal with H : oresult_safe (Some td) = true |- _ =>
       destruct (res_facts td H) as (zt & Ht1 & Ht2 & Ht3 & Ht4 & Ht5 & Ht6); destruct td as [t1 t2 t3 t4 t5];
       cbn [r_start r_end r_status r_status_details r_steps] in Ht1, Ht3, Ht4, Ht5, Ht6; subst t1 end|]).
  all: destruct en as [en|].
  all: match goal with |- context [filter _ ?c] => set (C := c) end; filt_all C; subst C.
  all: xsimp; xrw.
  all: unfold xattr, xhas_attr, xattr_opt, has_key; cbn [xattrs];
       rewrite ?Hs2, ?Hs3, ?Hs4, ?Hs5, ?Hs6, ?Ht2, ?Ht3, ?Ht4, ?Ht5, ?Ht6.
  all: try destruct s2; try destruct t2; xsimp; xrw.
  all: rewrite ?Hs6, ?Ht6; cbn [bind].
  all: rewrite mapM_map_id by (intro; reflexivity); cbn [bind].
  all: rewrite mapM_map_id by (intros [? ?]; reflexivity); cbn [bind].
  all: xlinks_tac; cbn [bind].
  all: rewrite Htests; cbn [bind]; rewrite Hsub; cbn [bind].
  all: rewrite dict_of_pairs_id by assumption; rewrite tests_dict_id by assumption; reflexivity.
Qed.

Lemma xml_depth_child x t a tx c : In x c -> (xml_depth x < xml_depth (Elem t a tx c))%nat.
Proof. intro H. cbn [xml_depth]. pose proof (fold_max_le xml_depth x c H). lia. Qed.

Lemma xsuite_depth_le s : (suite_depth s <= xml_depth (xml_save_suite tc s))%nat.
Proof.
  induction s as [m st en su td tests subs IH] using suite_ind'.
  cbn [suite_depth xml_save_suite xml_depth]. apply le_n_S. apply fold_max_lub. intros x Hx.
  rewrite Forall_forall in IH. specialize (IH x Hx).
  etransitivity; [exact IH|]. apply (fold_max_le xml_depth). repeat rewrite in_app_iff.
  pose proof (in_map (xml_save_suite tc) _ _ Hx). tauto.
Qed.

Theorem xml_report_rt now r : xml_safeb r = true -> unique_keys r ->
  xml_load_report tc (xml_save_report tc now r) = Ok (with_saving (Some now) r).
Proof.
  intros Hs Hu. destruct r as [title info st en sav nb su td suites].
  unfold unique_keys, unique_keysb in Hu. unfold xml_safeb in Hs.
  cbn [rp_suites rp_title rp_info rp_start rp_session_setup rp_session_teardown] in Hs, Hu. split_and.
  unfold xml_save_report, xml_load_report, with_saving, xfind, xfindall.
  cbn [xchildren rp_suites rp_title rp_info rp_start rp_end rp_nb_threads rp_session_setup rp_session_teardown].
  assert (Hsu : mapM (fun e => xml_load_suite tc (xml_depth e) e) (map (xml_save_suite tc) suites) = Ok suites).
  { apply mapM_map_id_in. intros x Hx. apply xsuite_rt; [| |apply xsuite_depth_le].
    - match goal with H : forallb suite_safe suites = true |- _ => rewrite forallb_forall in H; apply H; exact Hx end.
    - rewrite forallb_forall in Hu. apply Hu. exact Hx. }
  destruct st as [st|]; [|discriminate].
  destruct su as [su|];
    [match goal with H : oresult_safe (Some su) = true |- _ =>
       destruct (res_facts su H) as (zs & Hs1 & Hs2 & Hs3 & Hs4 & Hs5 & Hs6); destruct su as [s1 s2 s3 s4 s5];
       cbn [r_start r_end r_status r_status_details r_steps] in Hs1, Hs3, Hs4, Hs5, Hs6; subst s1 end|];
  (destruct td as [td|];
    [match goal with H : oresult_safe (Some td) = true |- _ =>
       destruct (res_facts td H) as (zt & Ht1 & Ht2 & Ht3 & Ht4 & Ht5 & Ht6); destruct td as [t1 t2 t3 t4 t5];
       cbn [r_start r_end r_status r_status_details r_steps] in Ht1, Ht3, Ht4, Ht5, Ht6; subst t1 end|]).
  all: destruct en as [en|].
  all: match goal with |- context [filter _ ?c] => set (C := c) end; filt_all C; subst C.
  all: xsimp; xrw.
Abort.
End XmlRoundTrip.
